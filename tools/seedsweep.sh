#!/bin/bash
# usage: tools/seedsweep.sh [lanes] [ID ...]
# Re-runs every kept seeded change in /verif/seeded/<name>/ against the current checks: applies patch.diff to a scratch
# worktree of /repo HEAD (under /tmp, removed afterwards), runs `./check <ID> quick` against that copy (VERIF_REPO) and
# records the outcome in seeded/<name>/sweep.json {applies, rc, violations, keys[]}. One lane per property (a property's
# port range and alt binary are not shared), at most <lanes> lanes at a time (default 4).
set -u
cd /verif || exit 3
LANES=${1:-4}; shift || true
IDS="$*"
[ -n "$IDS" ] || IDS=$(for d in seeded/*/; do jq -r .property "$d/meta.json"; done | sort -u)
lane() {
  ID=$1
  for d in seeded/*/; do
    [ "$(jq -r .property "$d/meta.json")" = "$ID" ] || continue
    name=$(basename "$d")
    if [ "$(jq -r '.superseded_by_fix // ""' "$d/meta.json")" != "" ]; then
      echo "{\"skipped\": \"superseded by fix $(jq -r .superseded_by_fix "$d/meta.json"): the change is fail-closed on the repaired tree\"}" > "$d/sweep.json"; echo "$name: skipped (superseded)"; continue
    fi
    WT=/tmp/seedsweep-$ID
    git -C /repo worktree remove --force "$WT" 2>/dev/null
    git -C /repo worktree add -q --detach "$WT" HEAD || { echo "$name: worktree failed"; continue; }
    if ! git -C "$WT" apply "/verif/$d/patch.diff" 2>/dev/null; then
      echo "{\"applies\": false}" > "$d/sweep.json"; echo "$name: PATCH DOES NOT APPLY"
      git -C /repo worktree remove --force "$WT"; continue
    fi
    VERIF_REPO="$WT" ./check "$ID" quick > ".run/sweep-$name.log" 2>&1; rc=$?
    keys=$(grep '^VIOLATION' ".run/sweep-$name.log" >/dev/null; grep -h 'key=' ".run/sweep-$name.log" | grep -v KNOWN-FINDING | grep -o 'key=[^ ]*' | sed 's/key=//' | sort -u | head -12 | jq -R . | jq -sc .)
    nv=$(grep -c '^VIOLATION' ".run/sweep-$name.log")
    echo "{\"applies\": true, \"head\": \"$(git -C /repo rev-parse --short HEAD)\", \"check\": \"./check $ID quick\", \"rc\": $rc, \"violations\": $nv, \"keys\": ${keys:-[]}}" > "$d/sweep.json"
    echo "$name: rc=$rc violations=$nv"
    git -C /repo worktree remove --force "$WT"
  done
}
running=0
for ID in $IDS; do
  lane "$ID" &
  running=$((running+1))
  if [ $running -ge $LANES ]; then wait -n; running=$((running-1)); fi
done
wait
git -C /repo worktree prune
