#!/usr/bin/env python3
"""usage: seedauto.py <seed dir> <ID> — infers where the demo goes and how to run it from RUN.md/README.md, then calls seedeval.sh"""
import sys, os, re, glob, subprocess, shutil
sd, pid = sys.argv[1], sys.argv[2]
gofiles = [f for f in glob.glob(sd + "/demo/**/*.go", recursive=True)]
if not gofiles:
    print("no demo go files"); sys.exit(2)
text = ""
for n in ("demo/RUN.md", "README.md"):
    p = os.path.join(sd, n)
    if os.path.exists(p):
        text += open(p).read() + "\n"
# flatten nested demo files into demo/
for f in gofiles:
    if os.path.dirname(f) != sd + "/demo":
        shutil.copy(f, sd + "/demo/")
name = os.path.basename(gofiles[0])
dest = None
m = re.search(r"((?:test|pkg|server|client|cmd)/[\w/.-]*?)/?" + re.escape(name), text)
if m:
    dest = m.group(1).rstrip("/")
rel = os.path.relpath(os.path.dirname(gofiles[0]), sd + "/demo")
if rel != "." and re.match(r"(test|pkg|server|client|cmd)/", rel):
    dest = rel
if not dest:
    m = re.search(r"go test[^\n]*?\s(\./[\w/.-]+)", text)
    dest = m.group(1)[2:].rstrip("/") if m else "test/seeded"
cmd = None
for line in text.splitlines():
    m = re.search(r"go test\s+(.*)", line)
    if m:
        cmd = m.group(1).strip().strip("`").strip()
        break
if not cmd:
    cmd = "./" + dest + "/"
cmd = re.sub(r"-vet=off|-count=\d+", "", cmd)
cmd = cmd.replace("`", "")
args = [a for a in re.findall(r"'[^']*'|\"[^\"]*\"|\S+", cmd)]
args = [a.strip("'\"") for a in args if a not in ("-v",)]
print("dest:", dest, "| args:", args, flush=True)
r = subprocess.run(["/verif/tools/seedeval.sh", sd, pid, dest] + args, capture_output=True, text=True)
print("\n".join((r.stdout + r.stderr).strip().splitlines()[-2:]))
