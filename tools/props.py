# Per-property manifest data. Filled in as checks are built.
PROPS = {
 "C12": dict(
  level="exploration", design="DESIGN.md §5 C12",
  technique="runtime monitoring: porcupine linearizability check of recorded register/close/probe/session-end histories per proxy name against an owner-or-none model; gated re-login hand-over monitor; run-id format/distinctness monitor",
  text="Real frps in-process (race detector on) driven by 2-6 scripted protocol clients per history with PRNG delays at hook points; every name's history is checked against a sequential model, re-login is exercised with the old session's teardown and table deletion parked at gates, and several simultaneous re-logins. Held on the histories explored; says nothing about interleavings not produced.",
  note="Trusts the scripted peer's wire implementation, the Ping/Pong barrier as acknowledgement of CloseProxy, porcupine v1.3.0, and the verif-tagged snapshot accessor for the session table. Unpredictability of run ids is not decidable by executions.",
 ),
}
