#!/opt/veriftools/pyvenv/bin/python
import json, sys, glob, jsonschema
ms = json.load(open('/root/.vp/MANIFEST.schema.json')); es = json.load(open('/root/.vp/EVIDENCE.schema.json'))
jsonschema.validate(json.load(open('/verif/MANIFEST.json')), ms); print("MANIFEST valid")
for f in sorted(glob.glob('/verif/evidence/C*.json')):
    try:
        jsonschema.validate(json.load(open(f)), es); print(f, "valid")
    except Exception as e:
        print(f, "INVALID:", str(e)[:300])
