#!/usr/bin/env python3
"""usage: seedkeep.py <seed src dir> <name> <property> <needs...> -- copies a confirmed seeded change into /verif/seeded/<name>/ with meta.json"""
import sys, os, shutil, json, re, glob
src, name, prop, demo_cmd, needs, detected = sys.argv[1:7]
dst = f"/verif/seeded/{name}"
os.makedirs(dst + "/demo", exist_ok=True)
shutil.copy(src + "/patch.diff", dst + "/patch.diff")
for f in glob.glob(src + "/demo/*"):
    if os.path.isfile(f): shutil.copy(f, dst + "/demo/")
if os.path.exists(src + "/README.md"):
    shutil.copy(src + "/README.md", dst + "/README.md")
meta = {
    "property": prop,
    "source": "independent sub-agent given only the property text and a scratch worktree of /repo",
    "breaks": open(src + "/README.md").read().split("\n\n")[1][:600] if os.path.exists(src + "/README.md") else "",
    "needs_to_manifest": needs,
    "demonstration": demo_cmd,
    "confirmed": "applied to a scratch worktree of /repo HEAD: builds, pinned unit tests pass, demonstration passes on the unchanged tree and fails with the patch (tools/seedeval.sh)",
    "check_result": detected,
}
json.dump(meta, open(dst + "/meta.json", "w"), indent=1)
print("kept", dst)
