#!/bin/bash
# usage: tools/mutate.sh <ID> <name> <sed-or-patch script applied inside worktree>   (runs quick check against mutated copy)
# example: tools/mutate.sh C17 swap 'sed -i s/a/b/ pkg/msg/msg.go'
ID=$1; NAME=$2; shift 2
WT=/tmp/wt-mut-$ID-$NAME
git -C /repo worktree add -q "$WT" HEAD || exit 9
( cd "$WT" && eval "$@" ) || { echo "mutation script failed"; git -C /repo worktree remove --force "$WT"; exit 9; }
( cd "$WT" && git diff --stat | tail -1 )
( cd "$WT" && GOFLAGS=-mod=mod GOPROXY=off GOSUMDB=off GOTOOLCHAIN=local go build ./... ) || { echo "MUTANT DOES NOT COMPILE"; git -C /repo worktree remove --force "$WT"; exit 8; }
cd /verif && VERIF_REPO="$WT" ./check "$ID" quick > ".run/mut-$ID-$NAME.log" 2>&1
rc=$?
echo "mutant $ID/$NAME: rc=$rc violations=$(grep -c '^VIOLATION' .run/mut-$ID-$NAME.log) keys: $(grep -o 'key=[^ ]*' .run/mut-$ID-$NAME.log | sort | uniq -c | sort -rn | head -4 | tr '\n' ' ')"
git -C /repo worktree remove --force "$WT"
