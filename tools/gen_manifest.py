#!/usr/bin/env python3
"""Regenerates /verif/MANIFEST.json from tools/props.py and the checks that exist on disk."""
import json, os, subprocess, sys
import glob
root = os.path.dirname(os.path.dirname(os.path.abspath(__file__)))
PROPS = {os.path.basename(f)[:-5]: json.load(open(f)) for f in glob.glob(os.path.join(root, "tools", "props", "C*.json"))}
ids = [json.loads(l)["id"] for l in open(os.path.join(root, "properties.jsonl"))]
hooks = subprocess.run(["git", "-C", "/repo", "log", "--format=%H %s"], capture_output=True, text=True).stdout.splitlines()
hook_commits = [l.split()[0] for l in hooks if " verif:" in " " + l.split(" ", 1)[1]]
checks, na = [], []
for pid in ids:
    d = os.path.join(root, "checks", pid.lower())
    p = PROPS.get(pid)
    if p and os.path.isdir(d):
        checks.append({
            "property_id": pid,
            "quick_cmd": f"./check {pid} quick",
            "thorough_cmd": f"./check {pid} thorough",
            "evidence_file": f"/verif/evidence/{pid}.json",
            "replay_cmd_template": f"./check {pid} --replay {{path}}",
            "engine": "go-runtime-monitors",
            "level_claimed": {"category": p["level"], "text": p["text"], "design_ref": p["design"]},
            "level_note": p["note"],
            "technique": p["technique"],
        })
    else:
        na.append({"property_id": pid, "reason": (p or {}).get("na_reason", "check not built yet (work in progress); runtime monitoring is applicable, see DESIGN.md §5")})
m = {
    "version": 1,
    "setup_cmd": "./setup.sh",
    "hooks": {
        "guard": "verif",
        "enable": "go build -race -tags verif (the ./check wrapper builds every check binary against /repo's working tree through the replace directive in /verif/go.mod)",
        "baseline_off_cmd": "cd /repo && GOFLAGS=-mod=mod GOPROXY=off GOSUMDB=off GOTOOLCHAIN=local go test -json -vet=off -count=1 -timeout 25m ./...",
        "source_commits": hook_commits,
        "add_only": True,
    },
    "engines": [{
        "name": "go-runtime-monitors",
        "path": "/verif/h",
        "serves_properties": [c["property_id"] for c in checks],
        "kind_free_text": "real frps/frpc executed in-process or in sacrificial child processes under the Go race detector (-race, checkptr) with build tag verif; scripted protocol peers, PRNG workloads, hook-point delays and gates; oracles over recorded event histories (porcupine v1.3.0 linearizability, exactly-once joins, stream prefix monitors, three-way ledgers model/accounting/OS)",
    }],
    "checks": checks,
    "not_applicable": na,
    "notes": "exit codes of ./check: 0 held, 1 VIOLATION line printed, 3 no verdict (harness/build problem or watchdog), 4 observed too little. VERIF_SEED seeds every PRNG (default 1). Known findings: /verif/known_findings.txt.",
}
json.dump(m, open(os.path.join(root, "MANIFEST.json"), "w"), indent=1)
print("checks:", [c["property_id"] for c in checks], "n/a:", len(na))
