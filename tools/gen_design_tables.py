#!/usr/bin/env python3
"""Rewrites the generated tables of DESIGN.md §9 from known_findings.txt and seeded/*/meta.json."""
import re, json, glob, os
root = os.path.dirname(os.path.dirname(os.path.abspath(__file__)))
d = open(os.path.join(root, "DESIGN.md")).read()
rows = []
for l in open(os.path.join(root, "known_findings.txt")):
    m = re.match(r"fixed: property=(C\d+) (\w+) (.*)", l.strip())
    if m:
        rows.append(m.groups())
rows.sort()
t = ["| property | fix commit | what failed (witness; check key) |", "|---|---|---|"]
for p, c, txt in rows:
    t.append(f"| {p} | `{c}` | {txt.replace('|', chr(92) + '|')} |")
d = re.sub(r"<!-- BEGIN fixed table -->.*?<!-- END fixed table -->", "<!-- BEGIN fixed table -->\n" + "\n".join(t) + "\n<!-- END fixed table -->", d, flags=re.S)
s = ["| seeded change | property | needs, to manifest | result |", "|---|---|---|---|"]
for f in sorted(glob.glob(os.path.join(root, "seeded", "*", "meta.json"))):
    m = json.load(open(f))
    name = os.path.basename(os.path.dirname(f))
    s.append(f"| `{name}` | {m['property']} | {m['needs_to_manifest'].replace('|', '/')} | {m['check_result'].replace('|', '/')} |")
d = re.sub(r"<!-- BEGIN seeded table -->.*?<!-- END seeded table -->", "<!-- BEGIN seeded table -->\n" + "\n".join(s) + "\n<!-- END seeded table -->", d, flags=re.S)
open(os.path.join(root, "DESIGN.md"), "w").write(d)
print(len(rows), "fixed rows,", len(s) - 2, "seeded rows")
