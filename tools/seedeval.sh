#!/bin/bash
# usage: tools/seedeval.sh <seed dir (contains patch.diff, demo/)> <ID> <demo dest path in repo> <go test args...>
# Confirms a seeded change (applies, builds, unit tests pass, demo passes clean / fails patched) and runs the check against it.
set -u
SD=$1; ID=$2; DEST=$3; shift 3
export GOFLAGS=-mod=mod GOPROXY=off GOSUMDB=off GOTOOLCHAIN=local
TAG=$(echo "$SD" | tr '/' '_' | tail -c 24)
WT=/tmp/seedeval-$TAG
git -C /repo worktree remove --force "$WT" 2>/dev/null
git -C /repo worktree add -q --detach "$WT" HEAD || exit 9
mkdir -p "$WT/$DEST"
cp "$SD"/demo/*.go "$WT/$DEST/"
( cd "$WT" && go test -vet=off -count=1 "$@" > /tmp/seedeval-$TAG.clean 2>&1 ); c=$?
( cd "$WT" && git apply "$SD/patch.diff" ) || { echo "PATCH DOES NOT APPLY"; git -C /repo worktree remove --force "$WT"; exit 8; }
( cd "$WT" && go build ./... ) || { echo "DOES NOT BUILD"; git -C /repo worktree remove --force "$WT"; exit 8; }
( cd "$WT" && go test -vet=off -count=1 ./pkg/... ./server/... ./client/... ./cmd/... 2>&1 | grep -v "no test files" | grep -v "^ok" ); 
( cd "$WT" && go test -vet=off -count=1 "$@" > /tmp/seedeval-$TAG.patched 2>&1 ); p=$?
echo "demo: clean rc=$c  patched rc=$p   (want 0 / non-0)"
for f in "$SD"/demo/*.go; do rm -f "$WT/$DEST/$(basename $f)"; done
cd /verif && VERIF_REPO="$WT" ./check "$ID" quick > ".run/seed-$TAG.log" 2>&1; rc=$?
echo "check $ID on seeded change: rc=$rc violations=$(grep -c '^VIOLATION' .run/seed-$TAG.log) keys: $(grep -o 'key=[^ ]*' .run/seed-$TAG.log | sort | uniq -c | sort -rn | head -4 | tr '\n' ' ')"
git -C /repo worktree remove --force "$WT"
