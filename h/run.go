package h

import (
	"crypto/sha256"
	"encoding/binary"
	"encoding/json"
	"fmt"
	"math/rand"
	"os"
	"path/filepath"
	"runtime/debug"
	"sort"
	"strconv"
	"strings"
	"sync"
	"sync/atomic"
	"time"
)

// Exit codes of a check binary.
const (
	ExitHeld         = 0 // property held on everything explored
	ExitViolation    = 1 // at least one VIOLATION line was printed
	ExitTooLittle    = 4 // monitors observed too little for the run to mean anything (never with a VIOLATION line)
	ExitHarnessError = 3 // the harness itself failed (setup error); not a verdict
)

// Root returns the /verif directory (VERIF_ROOT or the working directory).
func Root() string {
	if v := os.Getenv("VERIF_ROOT"); v != "" {
		return v
	}
	if _, err := os.Stat("/verif/MANIFEST.json"); err == nil {
		return "/verif"
	}
	wd, _ := os.Getwd()
	return wd
}

// Run is one invocation of a check (one property, one tier, one seed).
type Run struct {
	Prop  string
	Level string // exploration | fault_enumeration
	Tier  string // quick | thorough
	Seed  int64

	// Replay: when >= 0 only this case index is executed (set by --replay).
	OnlyCase   int
	ReplayFile string
	ReplayData map[string]any

	Rule        string
	Assumptions []string

	start time.Time

	mu           sync.Mutex
	evaluations  int64
	distinct     map[string]struct{}
	samples      []any
	maxSamples   int
	counters     map[string]int64
	violations   int
	vioKeys      map[string]int
	known        map[string]string
	knownHit     map[string]int
	inconclusive map[string]int
	extra        map[string]any
	finished     bool
}

type replayFile struct {
	Property string         `json:"property"`
	Tier     string         `json:"tier"`
	Seed     int64          `json:"seed"`
	Case     int            `json:"case"`
	Key      string         `json:"key"`
	What     string         `json:"what"`
	Detail   any            `json:"detail,omitempty"`
	Events   []Event        `json:"events,omitempty"`
	Data     map[string]any `json:"data,omitempty"`
}

// NewRun parses the command line (`<tier>` or `--replay <file>`) and the
// environment (VERIF_SEED, VERIF_TIER) and prepares the evidence accumulators.
func NewRun(prop, level string) *Run {
	r := &Run{
		Prop: prop, Level: level, Tier: "quick", Seed: 1, OnlyCase: -1,
		start:        time.Now(),
		distinct:     map[string]struct{}{},
		counters:     map[string]int64{},
		vioKeys:      map[string]int{},
		knownHit:     map[string]int{},
		inconclusive: map[string]int{},
		extra:        map[string]any{},
		maxSamples:   4,
	}
	args := os.Args[1:]
	for i := 0; i < len(args); i++ {
		switch args[i] {
		case "quick", "thorough":
			r.Tier = args[i]
		case "--replay":
			if i+1 < len(args) {
				r.ReplayFile = args[i+1]
				i++
			}
		}
	}
	if v := os.Getenv("VERIF_TIER"); v == "quick" || v == "thorough" {
		r.Tier = v
	}
	if v := os.Getenv("VERIF_SEED"); v != "" {
		if n, err := strconv.ParseInt(v, 10, 64); err == nil {
			r.Seed = n
		}
	}
	if r.ReplayFile != "" {
		b, err := os.ReadFile(r.ReplayFile)
		if err != nil {
			fmt.Fprintf(os.Stderr, "cannot read replay file: %v\n", err)
			os.Exit(ExitHarnessError)
		}
		var rf replayFile
		if err := json.Unmarshal(b, &rf); err != nil {
			fmt.Fprintf(os.Stderr, "cannot parse replay file: %v\n", err)
			os.Exit(ExitHarnessError)
		}
		r.Tier, r.Seed, r.OnlyCase, r.ReplayData = rf.Tier, rf.Seed, rf.Case, rf.Data
	}
	r.known = loadKnown(prop)
	InitFrpLog(prop)
	return r
}

// N picks the case count for the tier.
func (r *Run) N(quick, thorough int) int {
	if r.Tier == "thorough" {
		return thorough
	}
	return quick
}

// Thorough reports whether this is the thorough tier.
func (r *Run) Thorough() bool { return r.Tier == "thorough" }

// RandFor returns the PRNG of case i (a pure function of seed, property, stream name and i).
func (r *Run) RandFor(stream string, i int) *rand.Rand {
	hsh := sha256.Sum256([]byte(fmt.Sprintf("%d|%s|%s|%d", r.Seed, r.Prop, stream, i)))
	return rand.New(rand.NewSource(int64(binary.LittleEndian.Uint64(hsh[:8]))))
}

// Count adds n to a named counter reported in the evidence.
func (r *Run) Count(name string, n int64) {
	r.mu.Lock()
	r.counters[name] += n
	r.mu.Unlock()
}

// Counter reads a counter.
func (r *Run) Counter(name string) int64 {
	r.mu.Lock()
	defer r.mu.Unlock()
	return r.counters[name]
}

// Eval counts n evaluated cases / executions.
func (r *Run) Eval(n int) { atomic.AddInt64(&r.evaluations, int64(n)) }

// Distinct records the signature of a non-trivial case; equal signatures count once.
func (r *Run) Distinct(sig string) {
	hsh := sha256.Sum256([]byte(sig))
	k := string(hsh[:12])
	r.mu.Lock()
	r.distinct[k] = struct{}{}
	r.mu.Unlock()
}

// Sample keeps up to a few actual cases for the evidence file.
func (r *Run) Sample(v any) {
	r.mu.Lock()
	if len(r.samples) < r.maxSamples {
		r.samples = append(r.samples, v)
	}
	r.mu.Unlock()
}

// Set puts an extra key into evidence.coverage.
func (r *Run) Set(key string, v any) {
	r.mu.Lock()
	r.extra[key] = v
	r.mu.Unlock()
}

// Inconclusive counts a case whose verdict could not be decided (watchdog, checker timeout...).
func (r *Run) Inconclusive(why string) {
	r.mu.Lock()
	r.inconclusive[why]++
	r.mu.Unlock()
}

// Case is one generated case of a run.
type Case struct {
	R    *Run
	Idx  int
	Rng  *rand.Rand
	Log  *EventLog
	Data map[string]any // generated case description, written into the replay file
	T0   time.Time      // when the case was created
	mu   sync.Mutex
	vios int
}

// NewCase builds the case with index i.
func (r *Run) NewCase(i int) *Case {
	return &Case{R: r, Idx: i, Rng: r.RandFor("case", i), Log: NewEventLog(), Data: map[string]any{}, T0: time.Now()}
}

// Violations returns how many (unlisted) violations this case reported.
func (c *Case) Violations() int { c.mu.Lock(); defer c.mu.Unlock(); return c.vios }

// Ev appends an event to the case log.
func (c *Case) Ev(kind string, kv ...any) { c.Log.Add(kind, kv...) }

// Violation reports a witness. key is the stable identity of the finding
// (used to match known_findings.txt); what explains it.
func (c *Case) Violation(key string, format string, args ...any) {
	what := fmt.Sprintf(format, args...)
	if c.R.reportViolation(c, key, what, nil) {
		c.mu.Lock()
		c.vios++
		c.mu.Unlock()
	}
}

// Violation on the run (no case context).
func (r *Run) Violation(key string, format string, args ...any) {
	r.reportViolation(nil, key, fmt.Sprintf(format, args...), nil)
}

var printMu sync.Mutex

func (r *Run) reportViolation(c *Case, key, what string, detail any) bool {
	// a finding of a case that lived through a suspension of the whole process is not judged (see freeze.go)
	since := time.Now().Add(-freezeGrace - 30*time.Second)
	if c != nil && !c.T0.IsZero() {
		since = c.T0.Add(-freezeGrace)
	}
	if d, n := FrozenSince(since); n > 0 {
		r.Inconclusive("process or machine was suspended during the case (timer gap >= 3 s): finding not judged")
		fmt.Fprintf(os.Stderr, "not judged (process suspended for %v in %d gap(s) during the case): %s %s\n", d.Round(time.Millisecond), n, key, what)
		return false
	}
	r.mu.Lock()
	if txt, ok := r.known[key]; ok {
		r.knownHit[key]++
		first := r.knownHit[key] == 1
		r.mu.Unlock()
		if first {
			printMu.Lock()
			fmt.Printf("KNOWN-FINDING: property=%s key=%s %s\n", r.Prop, key, txt)
			printMu.Unlock()
		}
		return false
	}
	r.violations++
	r.vioKeys[key]++
	nth := r.vioKeys[key]
	r.mu.Unlock()
	if nth > 3 { // same key: keep the first three witnesses
		return true
	}
	idx := -1
	rf := replayFile{Property: r.Prop, Tier: r.Tier, Seed: r.Seed, Case: -1, Key: key, What: what, Detail: detail}
	if c != nil {
		idx = c.Idx
		rf.Case = c.Idx
		rf.Events = c.Log.Snapshot()
		rf.Data = c.Data
	}
	dir := filepath.Join(Root(), "replays")
	_ = os.MkdirAll(dir, 0o755)
	safe := strings.Map(func(r rune) rune {
		if r >= 'a' && r <= 'z' || r >= 'A' && r <= 'Z' || r >= '0' && r <= '9' || r == '-' || r == '_' || r == '.' {
			return r
		}
		return '_'
	}, key)
	if len(safe) > 60 {
		safe = safe[:60]
	}
	path := filepath.Join(dir, fmt.Sprintf("%s-s%d-%s-c%d-%s-%d.json", r.Prop, r.Seed, r.Tier, idx, safe, nth))
	b, err := json.MarshalIndent(rf, "", " ")
	if err != nil {
		rf.Detail, rf.Data = fmt.Sprint(rf.Detail), nil
		b, _ = json.MarshalIndent(rf, "", " ")
	}
	_ = os.WriteFile(path, b, 0o644)
	printMu.Lock()
	fmt.Printf("VIOLATION property=%s replay=%s\n", r.Prop, path)
	fmt.Printf("  key=%s case=%d: %s\n", key, idx, what)
	printMu.Unlock()
	return true
}

// Parallel runs cases 0..n-1 on `workers` goroutines (or only the replayed case).
// A panic on the case's own goroutine is reported as a violation with key "panic".
func (r *Run) Parallel(n, workers int, fn func(c *Case)) { r.ParallelRange(0, n, workers, fn) }

// ParallelRange runs cases lo..lo+n-1 (for checks with several phases: each phase owns an index
// range, so that a replayed case index selects exactly one phase).
func (r *Run) ParallelRange(lo, n, workers int, fn func(c *Case)) {
	if r.OnlyCase >= 0 && (r.OnlyCase < lo || r.OnlyCase >= lo+n) {
		return
	}
	if workers < 1 {
		workers = 1
	}
	idx := make(chan int)
	var wg sync.WaitGroup
	for w := 0; w < workers; w++ {
		wg.Add(1)
		go func() {
			defer wg.Done()
			for i := range idx {
				c := r.NewCase(i)
				func() {
					defer func() {
						if p := recover(); p != nil {
							st := string(debug.Stack())
							c.Ev("panic", "value", fmt.Sprint(p), "stack", st)
							if strings.Contains(st, "github.com/fatedier/frp") || strings.Contains(st, "/repo/") {
								c.Violation("panic:"+TopFrpFrame(st), "panic on the calling goroutine: %v\n%s", p, st)
							} else {
								fmt.Fprintf(os.Stderr, "harness panic in case %d: %v\n%s\n", i, p, st)
								r.Inconclusive("harness panic")
							}
						}
					}()
					fn(c)
				}()
				r.Eval(1)
			}
		}()
	}
	if r.OnlyCase >= 0 {
		idx <- r.OnlyCase
	} else {
		for i := lo; i < lo+n; i++ {
			idx <- i
		}
	}
	close(idx)
	wg.Wait()
}

// TopFrpFrame extracts the first frp function name from a stack trace text.
func TopFrpFrame(stack string) string {
	for _, ln := range strings.Split(stack, "\n") {
		ln = strings.TrimSpace(ln)
		if strings.HasPrefix(ln, "github.com/fatedier/frp/") {
			if i := strings.LastIndex(ln, "("); i > 0 { // strip the argument list, keep "(*T).Method"
				ln = ln[:i]
			}
			return strings.TrimPrefix(ln, "github.com/fatedier/frp/")
		}
	}
	return "unknown"
}

// Finish writes the evidence file and exits with the verdict's exit code.
// minDistinct is the per-property floor of distinct non-trivial cases below which
// the run is "observed too little" (exit 4).
func (r *Run) Finish(minDistinct int) {
	r.mu.Lock()
	if r.finished {
		r.mu.Unlock()
		return
	}
	r.finished = true
	r.mu.Unlock()

	races := SummarizeRaces()
	cov := map[string]any{
		"evaluations":         atomic.LoadInt64(&r.evaluations),
		"distinct_nontrivial": len(r.distinct),
		"rule":                r.Rule,
		"samples":             r.samples,
		"counters":            r.counters,
		"inconclusive":        r.inconclusive,
		"known_findings_hit":  r.knownHit,
		"race_reports":        races,
	}
	for k, v := range r.extra {
		cov[k] = v
	}
	if len(r.samples) == 0 {
		cov["samples"] = []any{"(no sample recorded)"}
	}
	ev := map[string]any{
		"property_id": r.Prop,
		"tier":        r.Tier,
		"seed":        r.Seed,
		"level":       r.Level,
		"coverage":    cov,
		"assumptions": append([]string{}, r.Assumptions...),
		"wall_s":      time.Since(r.start).Seconds(),
		"violations":  r.violations,
	}
	if r.ReplayFile == "" {
		dir := filepath.Join(Root(), "evidence")
		if v := os.Getenv("VERIF_EVIDENCE_DIR"); v != "" {
			dir = v
		}
		_ = os.MkdirAll(dir, 0o755)
		b, err := json.MarshalIndent(ev, "", " ")
		if err != nil {
			fmt.Fprintf(os.Stderr, "evidence marshal: %v\n", err)
			os.Exit(ExitHarnessError)
		}
		if err := os.WriteFile(filepath.Join(dir, r.Prop+".json"), b, 0o644); err != nil {
			fmt.Fprintf(os.Stderr, "evidence write: %v\n", err)
			os.Exit(ExitHarnessError)
		}
	}
	keys := make([]string, 0, len(r.counters))
	for k := range r.counters {
		keys = append(keys, k)
	}
	sort.Strings(keys)
	var sb strings.Builder
	for _, k := range keys {
		fmt.Fprintf(&sb, " %s=%d", k, r.counters[k])
	}
	fmt.Printf("%s %s seed=%d: evaluations=%d distinct=%d violations=%d inconclusive=%v known=%v wall=%.1fs\n  observed:%s\n",
		r.Prop, r.Tier, r.Seed, r.evaluations, len(r.distinct), r.violations, r.inconclusive, r.knownHit, time.Since(r.start).Seconds(), sb.String())
	if r.violations > 0 {
		os.Exit(ExitViolation)
	}
	if r.ReplayFile == "" && (len(r.distinct) < minDistinct || len(r.distinct) < 2) {
		fmt.Printf("%s: observed too little (distinct=%d < floor %d): run proves nothing\n", r.Prop, len(r.distinct), minDistinct)
		os.Exit(ExitTooLittle)
	}
	os.Exit(ExitHeld)
}

func loadKnown(prop string) map[string]string {
	out := map[string]string{}
	b, err := os.ReadFile(filepath.Join(Root(), "known_findings.txt"))
	if err != nil {
		return out
	}
	for _, ln := range strings.Split(string(b), "\n") {
		ln = strings.TrimSpace(ln)
		if !strings.HasPrefix(ln, "finding:") {
			continue
		}
		rest := strings.TrimSpace(strings.TrimPrefix(ln, "finding:"))
		f := strings.Fields(rest)
		if len(f) < 2 || f[0] != "property="+prop || !strings.HasPrefix(f[1], "key=") {
			continue
		}
		key := strings.TrimPrefix(f[1], "key=")
		out[key] = strings.TrimSpace(strings.Join(f[2:], " "))
	}
	return out
}
