package h

import (
	"bytes"
	"net"
	"strconv"
	"sync"
	"sync/atomic"
)

// TCPRelay sits between two parties, records every byte in both directions and can cut connections.
type TCPRelay struct {
	L      net.Listener
	Port   int
	Target string
	mu     sync.Mutex
	pairs  []*RelayPair
	cap    int // max bytes captured per direction per pair (0 = unlimited)
	stall  atomic.Bool
	refuse atomic.Bool
	Conns  atomic.Int64
}

// RelayPair is one relayed connection.
type RelayPair struct {
	Client, Server net.Conn
	mu             sync.Mutex
	Up, Down       bytes.Buffer // client->server, server->client
	UpN, DownN     int64
	closed         bool
}

// StartTCPRelay listens on 127.0.0.1:port and forwards to target. capture limits the bytes kept per direction.
func StartTCPRelay(port int, target string, capture int) (*TCPRelay, error) {
	l, err := net.Listen("tcp", "127.0.0.1:"+strconv.Itoa(port))
	if err != nil {
		return nil, err
	}
	r := &TCPRelay{L: l, Port: l.Addr().(*net.TCPAddr).Port, Target: target, cap: capture}
	go r.loop()
	return r, nil
}

func (r *TCPRelay) loop() {
	for {
		c, err := r.L.Accept()
		if err != nil {
			return
		}
		if r.refuse.Load() {
			c.Close()
			continue
		}
		s, err := net.Dial("tcp", r.Target)
		if err != nil {
			c.Close()
			continue
		}
		r.Conns.Add(1)
		p := &RelayPair{Client: c, Server: s}
		r.mu.Lock()
		r.pairs = append(r.pairs, p)
		r.mu.Unlock()
		go r.pump(p, c, s, true)
		go r.pump(p, s, c, false)
	}
}

func (r *TCPRelay) pump(p *RelayPair, from, to net.Conn, up bool) {
	buf := make([]byte, 32*1024)
	for {
		n, err := from.Read(buf)
		if n > 0 {
			p.mu.Lock()
			b := &p.Down
			if up {
				b = &p.Up
				p.UpN += int64(n)
			} else {
				p.DownN += int64(n)
			}
			if r.cap == 0 || b.Len() < r.cap {
				b.Write(buf[:n])
			}
			p.mu.Unlock()
			if !r.stall.Load() {
				if _, werr := to.Write(buf[:n]); werr != nil {
					break
				}
			}
		}
		if err != nil {
			break
		}
	}
	p.Close()
}

// Close closes both sides of the pair.
func (p *RelayPair) Close() {
	p.mu.Lock()
	p.closed = true
	p.mu.Unlock()
	p.Client.Close()
	p.Server.Close()
}

// Captured returns copies of the bytes seen in both directions.
func (p *RelayPair) Captured() (up, down []byte) {
	p.mu.Lock()
	defer p.mu.Unlock()
	return append([]byte(nil), p.Up.Bytes()...), append([]byte(nil), p.Down.Bytes()...)
}

// Pairs returns all relayed connections so far.
func (r *TCPRelay) Pairs() []*RelayPair {
	r.mu.Lock()
	defer r.mu.Unlock()
	return append([]*RelayPair(nil), r.pairs...)
}

// AllCaptured concatenates everything captured in both directions over all connections.
func (r *TCPRelay) AllCaptured() []byte {
	var out []byte
	for _, p := range r.Pairs() {
		u, d := p.Captured()
		out = append(out, u...)
		out = append(out, d...)
	}
	return out
}

// CutAll closes every live relayed connection (new ones are still accepted).
func (r *TCPRelay) CutAll() {
	for _, p := range r.Pairs() {
		p.Close()
	}
}

// SetStall makes the relay swallow data silently (peers appear silent but connected).
func (r *TCPRelay) SetStall(b bool) { r.stall.Store(b) }

// SetRefuse makes the relay close new connections immediately.
func (r *TCPRelay) SetRefuse(b bool) { r.refuse.Store(b) }

// Close stops the listener and cuts everything.
func (r *TCPRelay) Close() { r.L.Close(); r.CutAll() }

// UDPRelay forwards datagrams between clients and a target and records them (for kcp / quic observation).
type UDPRelay struct {
	Conn   *net.UDPConn
	Port   int
	target *net.UDPAddr
	mu     sync.Mutex
	peers  map[string]*net.UDPConn
	Cap    bytes.Buffer
	capMax int
	drop   atomic.Bool
}

// StartUDPRelay listens on 127.0.0.1:port and relays to target.
func StartUDPRelay(port int, target string, capture int) (*UDPRelay, error) {
	la, _ := net.ResolveUDPAddr("udp", "127.0.0.1:"+strconv.Itoa(port))
	ta, err := net.ResolveUDPAddr("udp", target)
	if err != nil {
		return nil, err
	}
	c, err := net.ListenUDP("udp", la)
	if err != nil {
		return nil, err
	}
	r := &UDPRelay{Conn: c, Port: c.LocalAddr().(*net.UDPAddr).Port, target: ta, peers: map[string]*net.UDPConn{}, capMax: capture}
	go func() {
		buf := make([]byte, 65536)
		for {
			n, from, err := c.ReadFromUDP(buf)
			if err != nil {
				return
			}
			r.record(buf[:n])
			if r.drop.Load() {
				continue
			}
			r.mu.Lock()
			up, ok := r.peers[from.String()]
			if !ok {
				up, err = net.DialUDP("udp", nil, ta)
				if err != nil {
					r.mu.Unlock()
					continue
				}
				r.peers[from.String()] = up
				go r.back(up, from)
			}
			r.mu.Unlock()
			_, _ = up.Write(buf[:n])
		}
	}()
	return r, nil
}

func (r *UDPRelay) record(p []byte) {
	r.mu.Lock()
	if r.capMax == 0 || r.Cap.Len() < r.capMax {
		r.Cap.Write(p)
	}
	r.mu.Unlock()
}

func (r *UDPRelay) back(up *net.UDPConn, to *net.UDPAddr) {
	buf := make([]byte, 65536)
	for {
		n, err := up.Read(buf)
		if err != nil {
			return
		}
		r.record(buf[:n])
		if r.drop.Load() {
			continue
		}
		_, _ = r.Conn.WriteToUDP(buf[:n], to)
	}
}

// Captured returns a copy of the recorded datagram bytes (both directions, concatenated).
func (r *UDPRelay) Captured() []byte {
	r.mu.Lock()
	defer r.mu.Unlock()
	return append([]byte(nil), r.Cap.Bytes()...)
}

// SetDrop makes the relay drop everything (network outage).
func (r *UDPRelay) SetDrop(b bool) { r.drop.Store(b) }

func (r *UDPRelay) Close() {
	r.Conn.Close()
	r.mu.Lock()
	for _, p := range r.peers {
		p.Close()
	}
	r.mu.Unlock()
}
