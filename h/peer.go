package h

import (
	"context"
	"crypto/md5"
	"encoding/hex"
	"errors"
	"fmt"
	"io"
	"net"
	"strconv"
	"sync"
	"sync/atomic"
	"time"

	libio "github.com/fatedier/golib/io"

	"github.com/fatedier/frp/client"
	v1 "github.com/fatedier/frp/pkg/config/v1"
	"github.com/fatedier/frp/pkg/msg"
	netpkg "github.com/fatedier/frp/pkg/util/net"
)

// AuthKey is the harness's own implementation of frp's keyed digest md5(token || decimal timestamp).
func AuthKey(token string, ts int64) string {
	s := md5.Sum([]byte(token + strconv.FormatInt(ts, 10)))
	return hex.EncodeToString(s[:])
}

func boolPtr(b bool) *bool { return &b }

// PeerOpts configures a scripted protocol client ("peer") that speaks frp's wire
// protocol to a real frps with every message under the harness's control.
type PeerOpts struct {
	// Transport: either give a complete Common (any protocol / TLS / mux settings) or the short form below.
	Common     *v1.ClientCommonConfig
	ServerAddr string // default 127.0.0.1
	ServerPort int
	Protocol   string // tcp (default) | kcp | quic | websocket
	TCPMux     bool   // must equal the server's transport.tcpMux (server default: true)
	TLS        bool

	Token     string // used for the login key, the control cipher and work-connection keys
	User      string
	RunID     string
	PoolCount int
	Metas     map[string]string

	// MutateLogin is applied to the login message after the key was filled in.
	MutateLogin func(*msg.Login)
	// SkipLogin: connect the transport only (caller sends the first message itself via Ctl).
	SkipLogin bool
	// PlainControl: do not install the control cipher after login.
	PlainControl bool

	// AutoWork: answer every ReqWorkConn by opening a work connection and running WorkHandler on it.
	AutoWork bool
	// WorkHandler runs on its own goroutine after StartWorkConn was read from the work connection.
	WorkHandler func(p *Peer, wc *WorkConn)
	// SignWorkConn: put a valid key into NewWorkConn (needed with the NewWorkConns scope).
	SignWorkConn bool
}

// Peer is a logged-in scripted client.
type Peer struct {
	Opts      PeerOpts
	Common    *v1.ClientCommonConfig
	Connector client.Connector
	Ctl       net.Conn      // raw control connection (stream)
	rw        io.ReadWriter // control channel after cipher
	LoginResp msg.LoginResp
	RunID     string

	wmu sync.Mutex // serialises control writes

	mu      sync.Mutex
	cond    *sync.Cond
	inbox   []inboxMsg
	closed  bool
	readErr error

	ReqWorkConnSeen atomic.Int64
	workSeq         atomic.Int64
	WorkConnsOpened atomic.Int64

	wcMu      sync.Mutex
	workConns []*WorkConn
}

type inboxMsg struct {
	m        msg.Message
	t        int64
	consumed bool
}

// WorkConn is one work connection opened by a Peer.
type WorkConn struct {
	ID    int64
	Conn  net.Conn
	Start *msg.StartWorkConn
	Peer  *Peer
}

func peerCommon(o PeerOpts) *v1.ClientCommonConfig {
	if o.Common != nil {
		return o.Common
	}
	c := &v1.ClientCommonConfig{}
	c.ServerAddr = o.ServerAddr
	if c.ServerAddr == "" {
		c.ServerAddr = "127.0.0.1"
	}
	c.ServerPort = o.ServerPort
	c.Transport.Protocol = o.Protocol
	c.Transport.TCPMux = boolPtr(o.TCPMux)
	c.Transport.TLS.Enable = boolPtr(o.TLS)
	c.Auth.Token = o.Token
	c.User = o.User
	c.LoginFailExit = boolPtr(false)
	c.Complete()
	return c
}

// DialPeer connects, logs in (unless SkipLogin) and starts the control reader.
// A refused login is not an error of DialPeer: inspect LoginResp.Error.
func DialPeer(o PeerOpts) (*Peer, error) {
	p := &Peer{Opts: o, Common: peerCommon(o)}
	p.cond = sync.NewCond(&p.mu)
	p.Connector = client.NewConnector(context.Background(), p.Common)
	if err := p.Connector.Open(); err != nil {
		return nil, fmt.Errorf("connector open: %w", err)
	}
	conn, err := p.Connector.Connect()
	if err != nil {
		p.Connector.Close()
		return nil, fmt.Errorf("connect: %w", err)
	}
	p.Ctl = conn
	p.rw = conn
	if o.SkipLogin {
		return p, nil
	}
	ts := time.Now().Unix()
	lm := &msg.Login{
		Version: "0.62.1", Hostname: "verif", Os: "linux", Arch: "amd64",
		User: o.User, Timestamp: ts, PrivilegeKey: AuthKey(o.Token, ts),
		RunID: o.RunID, Metas: o.Metas, PoolCount: o.PoolCount,
	}
	if o.MutateLogin != nil {
		o.MutateLogin(lm)
	}
	if err := msg.WriteMsg(conn, lm); err != nil {
		p.Close()
		return nil, fmt.Errorf("write login: %w", err)
	}
	_ = conn.SetReadDeadline(time.Now().Add(15 * time.Second))
	if err := msg.ReadMsgInto(conn, &p.LoginResp); err != nil {
		p.readErr = err
		p.Close()
		return p, fmt.Errorf("read login resp: %w", err)
	}
	_ = conn.SetReadDeadline(time.Time{})
	if p.LoginResp.Error != "" {
		return p, nil
	}
	p.RunID = p.LoginResp.RunID
	if !o.PlainControl {
		rw, err := netpkg.NewCryptoReadWriter(conn, []byte(o.Token))
		if err != nil {
			p.Close()
			return nil, err
		}
		p.rw = rw
	}
	go p.readLoop()
	return p, nil
}

// LoggedIn reports whether the server accepted the login.
func (p *Peer) LoggedIn() bool { return p.RunID != "" && p.LoginResp.Error == "" }

func (p *Peer) readLoop() {
	for {
		m, err := msg.ReadMsg(p.rw)
		if err != nil {
			p.mu.Lock()
			p.readErr = err
			p.closed = true
			p.cond.Broadcast()
			p.mu.Unlock()
			return
		}
		if _, ok := m.(*msg.ReqWorkConn); ok {
			p.ReqWorkConnSeen.Add(1)
			if p.Opts.AutoWork {
				go p.supplyOne()
			}
		}
		p.mu.Lock()
		p.inbox = append(p.inbox, inboxMsg{m: m, t: Now()})
		p.cond.Broadcast()
		p.mu.Unlock()
	}
}

func (p *Peer) supplyOne() {
	wc, err := p.OpenWorkConn()
	if err != nil {
		return
	}
	if _, err := wc.ReadStart(0); err != nil {
		wc.Conn.Close()
		return
	}
	if p.Opts.WorkHandler != nil {
		p.Opts.WorkHandler(p, wc)
	} else {
		wc.Conn.Close()
	}
}

// Send writes a message on the control channel.
func (p *Peer) Send(m msg.Message) error {
	p.wmu.Lock()
	defer p.wmu.Unlock()
	return msg.WriteMsg(p.rw, m)
}

// ErrPeerClosed is returned when the control connection ended before a matching message arrived.
var ErrPeerClosed = errors.New("control connection closed")

// ErrTimeout is returned by the waiting helpers.
var ErrTimeout = errors.New("timeout")

// WaitMsg returns (and consumes) the first not-yet-consumed inbound control message accepted by pred.
func (p *Peer) WaitMsg(timeout time.Duration, pred func(msg.Message) bool) (msg.Message, error) {
	deadline := time.Now().Add(timeout)
	timer := time.AfterFunc(timeout, func() { p.mu.Lock(); p.cond.Broadcast(); p.mu.Unlock() })
	defer timer.Stop()
	p.mu.Lock()
	defer p.mu.Unlock()
	for {
		for i := range p.inbox {
			if !p.inbox[i].consumed && pred(p.inbox[i].m) {
				p.inbox[i].consumed = true
				return p.inbox[i].m, nil
			}
		}
		if p.closed {
			return nil, ErrPeerClosed
		}
		if !time.Now().Before(deadline) {
			return nil, ErrTimeout
		}
		p.cond.Wait()
	}
}

// Inbox returns a copy of every control message received so far.
func (p *Peer) Inbox() []msg.Message {
	p.mu.Lock()
	defer p.mu.Unlock()
	out := make([]msg.Message, len(p.inbox))
	for i, x := range p.inbox {
		out[i] = x.m
	}
	return out
}

// Closed reports whether the server closed the control connection (or Close was called).
func (p *Peer) Closed() bool { p.mu.Lock(); defer p.mu.Unlock(); return p.closed }

// WaitClosed waits for the control connection to end.
func (p *Peer) WaitClosed(timeout time.Duration) bool {
	_, err := p.WaitMsg(timeout, func(msg.Message) bool { return false })
	return err == ErrPeerClosed
}

// NewProxy sends a registration and waits for the reply carrying the same proxy name.
func (p *Peer) NewProxy(m *msg.NewProxy, timeout time.Duration) (*msg.NewProxyResp, error) {
	if err := p.Send(m); err != nil {
		return nil, err
	}
	r, err := p.WaitMsg(timeout, func(x msg.Message) bool {
		r, ok := x.(*msg.NewProxyResp)
		return ok && r.ProxyName == m.ProxyName
	})
	if err != nil {
		return nil, err
	}
	return r.(*msg.NewProxyResp), nil
}

// CloseProxy sends a CloseProxy (no reply exists in the protocol; use Ping as a barrier).
func (p *Peer) CloseProxy(name string) error { return p.Send(&msg.CloseProxy{ProxyName: name}) }

// Ping sends a (signed) heartbeat and waits for the Pong. Because frps handles
// NewProxy, CloseProxy and Ping in order on one goroutine, a Pong acknowledges
// every earlier message of this session.
func (p *Peer) Ping(timeout time.Duration) (*msg.Pong, error) {
	ts := time.Now().Unix()
	return p.PingWith(&msg.Ping{Timestamp: ts, PrivilegeKey: AuthKey(p.Opts.Token, ts)}, timeout)
}

// PingWith sends the given heartbeat and waits for the Pong.
func (p *Peer) PingWith(m *msg.Ping, timeout time.Duration) (*msg.Pong, error) {
	if err := p.Send(m); err != nil {
		return nil, err
	}
	r, err := p.WaitMsg(timeout, func(x msg.Message) bool { _, ok := x.(*msg.Pong); return ok })
	if err != nil {
		return nil, err
	}
	return r.(*msg.Pong), nil
}

// NewStream opens a fresh connection/stream to the server on the peer's transport.
func (p *Peer) NewStream() (net.Conn, error) { return p.Connector.Connect() }

// OpenWorkConn opens a work connection for this peer's run id (StartWorkConn not yet read).
func (p *Peer) OpenWorkConn() (*WorkConn, error) { return p.OpenWorkConnAs(p.RunID) }

// OpenWorkConnAs opens a work connection announcing an arbitrary run id.
func (p *Peer) OpenWorkConnAs(runID string) (*WorkConn, error) {
	m := &msg.NewWorkConn{RunID: runID}
	if p.Opts.SignWorkConn {
		m.Timestamp = time.Now().Unix()
		m.PrivilegeKey = AuthKey(p.Opts.Token, m.Timestamp)
	}
	return p.OpenWorkConnMsg(m)
}

// OpenWorkConnMsg opens a work connection with an arbitrary NewWorkConn message.
func (p *Peer) OpenWorkConnMsg(m *msg.NewWorkConn) (*WorkConn, error) {
	conn, err := p.Connector.Connect()
	if err != nil {
		return nil, err
	}
	if err := msg.WriteMsg(conn, m); err != nil {
		conn.Close()
		return nil, err
	}
	wc := &WorkConn{ID: p.workSeq.Add(1), Conn: conn, Peer: p}
	p.WorkConnsOpened.Add(1)
	p.wcMu.Lock()
	p.workConns = append(p.workConns, wc)
	p.wcMu.Unlock()
	return wc, nil
}

// WorkConns returns every work connection this peer opened.
func (p *Peer) WorkConns() []*WorkConn {
	p.wcMu.Lock()
	defer p.wcMu.Unlock()
	return append([]*WorkConn(nil), p.workConns...)
}

// ReadStart reads the StartWorkConn message (timeout 0 = wait for ever / until close).
func (wc *WorkConn) ReadStart(timeout time.Duration) (*msg.StartWorkConn, error) {
	if timeout > 0 {
		_ = wc.Conn.SetReadDeadline(time.Now().Add(timeout))
		defer wc.Conn.SetReadDeadline(time.Time{})
	}
	var s msg.StartWorkConn
	if err := msg.ReadMsgInto(wc.Conn, &s); err != nil {
		return nil, err
	}
	wc.Start = &s
	return &s, nil
}

// Wrap mirrors the server's per-connection wrapper stack for a proxy:
// encryption (keyed by key) next to the wire, compression above it.
func Wrap(conn net.Conn, key string, enc, comp bool) (io.ReadWriteCloser, error) {
	var rwc io.ReadWriteCloser = conn
	var err error
	if enc {
		rwc, err = libio.WithEncryption(rwc, []byte(key))
		if err != nil {
			return nil, err
		}
	}
	if comp {
		rwc = libio.WithCompression(rwc)
	}
	return rwc, nil
}

// OpenVisitorConn opens a stream, sends the NewVisitorConn message and reads the reply.
// On success the returned connection is the raw visitor stream (wrap it with Wrap(sk,...) as declared).
func (p *Peer) OpenVisitorConn(m *msg.NewVisitorConn, timeout time.Duration) (net.Conn, *msg.NewVisitorConnResp, error) {
	conn, err := p.Connector.Connect()
	if err != nil {
		return nil, nil, err
	}
	if err := msg.WriteMsg(conn, m); err != nil {
		conn.Close()
		return nil, nil, err
	}
	_ = conn.SetReadDeadline(time.Now().Add(timeout))
	var r msg.NewVisitorConnResp
	if err := msg.ReadMsgInto(conn, &r); err != nil {
		conn.Close()
		return nil, nil, err
	}
	_ = conn.SetReadDeadline(time.Time{})
	return conn, &r, nil
}

// Close ends the session abruptly (control connection and transport).
func (p *Peer) Close() {
	if p.Ctl != nil {
		p.Ctl.Close()
	}
	if p.Connector != nil {
		p.Connector.Close()
	}
	p.wcMu.Lock()
	wcs := append([]*WorkConn(nil), p.workConns...)
	p.wcMu.Unlock()
	for _, wc := range wcs {
		wc.Conn.Close()
	}
	p.mu.Lock()
	p.closed = true
	p.cond.Broadcast()
	p.mu.Unlock()
}

// CloseControlOnly closes the control stream but leaves the transport and work connections alone.
func (p *Peer) CloseControlOnly() {
	if p.Ctl != nil {
		p.Ctl.Close()
	}
}

// IdentBackend returns a WorkHandler that plays the proxy's backend itself: it
// reads a 16-byte nonce from the (wrapped) work connection and answers
// "<id>|<proxy name from StartWorkConn>|" + nonce, then echoes until EOF.
// key/enc/comp must mirror the proxy's transport settings (key = server token).
func IdentBackend(id string, key string, enc, comp bool, onStart func(wc *WorkConn)) func(p *Peer, wc *WorkConn) {
	return func(p *Peer, wc *WorkConn) {
		defer wc.Conn.Close()
		if onStart != nil {
			onStart(wc)
		}
		rwc, err := Wrap(wc.Conn, key, enc, comp)
		if err != nil {
			return
		}
		nonce := make([]byte, 16)
		if _, err := io.ReadFull(rwc, nonce); err != nil {
			return
		}
		hdr := []byte(id + "|" + wc.Start.ProxyName + "|")
		if _, err := rwc.Write(append(hdr, nonce...)); err != nil {
			return
		}
		_, _ = io.Copy(rwc, rwc)
	}
}

// AskIdent connects to addr, sends a nonce and returns "<id>|<proxy>" as answered by an IdentBackend.
func AskIdent(addr string, timeout time.Duration) (string, error) {
	c, err := net.DialTimeout("tcp", addr, timeout)
	if err != nil {
		return "", err
	}
	defer c.Close()
	return AskIdentOn(c, timeout)
}

var nonceSeq atomic.Uint64

// AskIdentOn performs the ident exchange on an established connection.
func AskIdentOn(c io.ReadWriter, timeout time.Duration) (string, error) {
	if d, ok := c.(interface{ SetDeadline(time.Time) error }); ok {
		_ = d.SetDeadline(time.Now().Add(timeout))
		defer d.SetDeadline(time.Time{})
	}
	nonce := []byte(fmt.Sprintf("N%015x", nonceSeq.Add(1)))
	if _, err := c.Write(nonce); err != nil {
		return "", err
	}
	buf := make([]byte, 0, 128)
	one := make([]byte, 1)
	bars := 0
	for bars < 2 {
		if _, err := io.ReadFull(c, one); err != nil {
			return "", fmt.Errorf("ident read: %w (got %q)", err, buf)
		}
		if one[0] == '|' {
			bars++
			if bars == 2 {
				break
			}
		}
		buf = append(buf, one[0])
		if len(buf) > 512 {
			return "", fmt.Errorf("ident too long: %q", buf)
		}
	}
	back := make([]byte, 16)
	if _, err := io.ReadFull(c, back); err != nil {
		return "", err
	}
	if string(back) != string(nonce) {
		return string(buf), fmt.Errorf("nonce mismatch: sent %q got %q", nonce, back)
	}
	return string(buf), nil
}
