package h

import (
	"fmt"
	"net"
	"strconv"
	"sync"
)

// PortAlloc hands out loopback ports from a property's private static range
// (C01: 11000-11999, C02: 12000-12999, ... C20: 30000-30999), below the kernel's
// ephemeral range, so checks of different properties can run at the same time.
type PortAlloc struct {
	mu        sync.Mutex
	base, end int
	next      int
}

var (
	portAllocs   = map[string]*PortAlloc{}
	portAllocsMu sync.Mutex
)

// Ports returns the allocator of a property ("C01".."C20"); sub selects a
// sub-range so that child processes of one check do not collide: sub in [0,4).
func Ports(prop string) *PortAlloc { return PortsSub(prop, 0, 1) }

// PortsSub splits the property's range into `of` equal parts and returns part `sub`.
func PortsSub(prop string, sub, of int) *PortAlloc {
	portAllocsMu.Lock()
	defer portAllocsMu.Unlock()
	k := fmt.Sprintf("%s/%d/%d", prop, sub, of)
	if a, ok := portAllocs[k]; ok {
		return a
	}
	n, err := strconv.Atoi(prop[1:])
	if err != nil || n < 1 || n > 20 {
		n = 21
	}
	base := 10000 + n*1000
	size := 1000 / of
	a := &PortAlloc{base: base + sub*size, end: base + (sub+1)*size}
	a.next = a.base
	portAllocs[k] = a
	return a
}

func portFree(p int) bool {
	addr := "127.0.0.1:" + strconv.Itoa(p)
	l, err := net.Listen("tcp", addr)
	if err != nil {
		return false
	}
	l.Close()
	ua, _ := net.ResolveUDPAddr("udp", addr)
	u, err := net.ListenUDP("udp", ua)
	if err != nil {
		return false
	}
	u.Close()
	return true
}

// Get returns one port that is currently free for tcp and udp on 127.0.0.1.
func (a *PortAlloc) Get() int { return a.Block(1)[0] }

// Block returns n consecutive ports, all currently free.
func (a *PortAlloc) Block(n int) []int {
	a.mu.Lock()
	defer a.mu.Unlock()
	for tries := 0; tries < 4*(a.end-a.base); tries++ {
		if a.next+n > a.end {
			a.next = a.base
		}
		start := a.next
		ok := true
		for i := 0; i < n; i++ {
			if !portFree(start + i) {
				ok = false
				a.next = start + i + 1
				break
			}
		}
		if ok {
			a.next = start + n
			out := make([]int, n)
			for i := range out {
				out[i] = start + i
			}
			return out
		}
	}
	panic("harness: no free ports left in range " + strconv.Itoa(a.base))
}
