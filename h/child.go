package h

import (
	"fmt"
	"os"
	"os/exec"
	"path/filepath"
	"regexp"
	"strings"
	"sync"
	"syscall"
	"time"
)

// Child is a sacrificial frps/frpc process (/verif/.bin/vnode) whose crash does not end the monitors.
type Child struct {
	Kind    string
	Cmd     *exec.Cmd
	CfgPath string
	ErrPath string // stderr (panic text, goroutine dumps)
	OutPath string
	RaceLog string // GORACE log_path prefix of the child
	done    chan struct{}
	mu      sync.Mutex
	exitErr error
	exited  bool
}

var childSeq int

// StartChild starts `vnode <kind> <cfg>` with its own GORACE log prefix. env entries are added to the environment.
func StartChild(prop, kind, cfgText string, env ...string) (*Child, error) {
	cfg, err := writeTempCfg(prop, cfgText)
	if err != nil {
		return nil, err
	}
	portAllocsMu.Lock()
	childSeq++
	n := childSeq
	portAllocsMu.Unlock()
	base := filepath.Join(RunDir(prop), fmt.Sprintf("child-%d-%d-%s", os.Getpid(), n, kind))
	c := &Child{Kind: kind, CfgPath: cfg, ErrPath: base + ".err", OutPath: base + ".out", RaceLog: base + ".race", done: make(chan struct{})}
	errF, err := os.Create(c.ErrPath)
	if err != nil {
		return nil, err
	}
	outF, err := os.Create(c.OutPath)
	if err != nil {
		return nil, err
	}
	vn := "vnode"
	if os.Getenv("VERIF_REPO") != "" {
		vn = "vnode-alt-" + strings.ToLower(prop)
	}
	c.Cmd = exec.Command(filepath.Join(Root(), ".bin", vn), kind, cfg)
	c.Cmd.Stdout, c.Cmd.Stderr = outF, errF
	c.Cmd.Env = append(os.Environ(), "GORACE=halt_on_error=0 exitcode=0 log_path="+c.RaceLog)
	c.Cmd.Env = append(c.Cmd.Env, env...)
	c.Cmd.SysProcAttr = &syscall.SysProcAttr{Pdeathsig: syscall.SIGKILL}
	if err := c.Cmd.Start(); err != nil {
		return nil, err
	}
	go func() {
		err := c.Cmd.Wait()
		errF.Close()
		outF.Close()
		c.mu.Lock()
		c.exitErr, c.exited = err, true
		c.mu.Unlock()
		close(c.done)
	}()
	// wait for READY
	ok := Eventually(20*time.Second, func() bool {
		b, _ := os.ReadFile(c.OutPath)
		return strings.Contains(string(b), "VNODE READY") || c.Exited()
	})
	if !ok || c.Exited() {
		b, _ := os.ReadFile(c.ErrPath)
		c.Kill()
		return c, fmt.Errorf("child %s did not become ready: %s", kind, string(b))
	}
	return c, nil
}

// Exited reports whether the process has ended.
func (c *Child) Exited() bool { c.mu.Lock(); defer c.mu.Unlock(); return c.exited }

// Done is closed at process exit.
func (c *Child) Done() <-chan struct{} { return c.done }

// Kill ends the process (SIGKILL) and waits for it.
func (c *Child) Kill() {
	if c.Cmd.Process != nil {
		_ = c.Cmd.Process.Kill()
	}
	select {
	case <-c.done:
	case <-time.After(10 * time.Second):
	}
}

// Term sends SIGTERM and waits up to d, then kills.
func (c *Child) Term(d time.Duration) {
	if c.Cmd.Process != nil {
		_ = c.Cmd.Process.Signal(syscall.SIGTERM)
	}
	select {
	case <-c.done:
	case <-time.After(d):
		c.Kill()
	}
}

// DumpGoroutines sends SIGQUIT (the Go runtime prints all goroutines to stderr and exits).
func (c *Child) DumpGoroutines() {
	if c.Cmd.Process != nil {
		_ = c.Cmd.Process.Signal(syscall.SIGQUIT)
	}
	select {
	case <-c.done:
	case <-time.After(10 * time.Second):
		c.Kill()
	}
}

var crashRe = regexp.MustCompile(`(?m)^(panic:|fatal error:).*$`)

// Crash returns the first "panic:" / "fatal error:" line of the child's stderr and the innermost frp frame.
func (c *Child) Crash() (line string, frame string, ok bool) {
	b, _ := os.ReadFile(c.ErrPath)
	s := string(b)
	loc := crashRe.FindStringIndex(s)
	if loc == nil {
		return "", "", false
	}
	return s[loc[0]:loc[1]], TopFrpFrame(s[loc[0]:]), true
}

// Stderr returns the child's stderr text.
func (c *Child) Stderr() string { b, _ := os.ReadFile(c.ErrPath); return string(b) }

// Races returns the deduplicated race reports of the child.
func (c *Child) Races() []RaceReport { return ParseRaceLog(ReadRaceLogs(c.RaceLog)) }
