package h

import (
	"fmt"
	"sync"
	"time"
)

var clock0 = time.Now()

// Now is the single monotonic clock of the harness, in nanoseconds.
func Now() int64 { return int64(time.Since(clock0)) }

// Event is one record of a case's append-only event log.
type Event struct {
	Seq  int            `json:"seq"`
	T    int64          `json:"t_ns"`
	Kind string         `json:"kind"`
	F    map[string]any `json:"f,omitempty"`
}

// EventLog is a thread-safe append-only log on one monotonic clock.
type EventLog struct {
	mu  sync.Mutex
	evs []Event
	max int
}

func NewEventLog() *EventLog { return &EventLog{max: 20000} }

// Add appends an event; kv are alternating key, value.
func (l *EventLog) Add(kind string, kv ...any) {
	f := map[string]any{}
	for i := 0; i+1 < len(kv); i += 2 {
		f[fmt.Sprint(kv[i])] = kv[i+1]
	}
	l.mu.Lock()
	if len(l.evs) < l.max {
		l.evs = append(l.evs, Event{Seq: len(l.evs), T: Now(), Kind: kind, F: f})
	}
	l.mu.Unlock()
}

// Snapshot copies the log.
func (l *EventLog) Snapshot() []Event {
	l.mu.Lock()
	defer l.mu.Unlock()
	return append([]Event(nil), l.evs...)
}

// Filter returns the events of one kind.
func (l *EventLog) Filter(kind string) []Event {
	l.mu.Lock()
	defer l.mu.Unlock()
	var out []Event
	for _, e := range l.evs {
		if e.Kind == kind {
			out = append(out, e)
		}
	}
	return out
}

// Len is the number of recorded events.
func (l *EventLog) Len() int { l.mu.Lock(); defer l.mu.Unlock(); return len(l.evs) }
