package h

import (
	"fmt"
	"io"
	"net"
	"strconv"
	"sync"
	"sync/atomic"
	"time"

	fmux "github.com/hashicorp/yamux"

	"github.com/fatedier/frp/pkg/msg"
	netpkg "github.com/fatedier/frp/pkg/util/net"
)

// MsgBox is an append-only inbox of protocol messages with consuming waits.
type MsgBox struct {
	mu     sync.Mutex
	cond   *sync.Cond
	items  []inboxMsg
	closed bool
}

func NewMsgBox() *MsgBox { b := &MsgBox{}; b.cond = sync.NewCond(&b.mu); return b }

func (b *MsgBox) Add(m msg.Message) {
	b.mu.Lock()
	b.items = append(b.items, inboxMsg{m: m, t: Now()})
	b.cond.Broadcast()
	b.mu.Unlock()
}

func (b *MsgBox) CloseBox() {
	b.mu.Lock()
	b.closed = true
	b.cond.Broadcast()
	b.mu.Unlock()
}

func (b *MsgBox) IsClosed() bool { b.mu.Lock(); defer b.mu.Unlock(); return b.closed }

// Wait returns and consumes the first unconsumed message accepted by pred.
func (b *MsgBox) Wait(timeout time.Duration, pred func(msg.Message) bool) (msg.Message, error) {
	deadline := time.Now().Add(timeout)
	timer := time.AfterFunc(timeout, func() { b.mu.Lock(); b.cond.Broadcast(); b.mu.Unlock() })
	defer timer.Stop()
	b.mu.Lock()
	defer b.mu.Unlock()
	for {
		for i := range b.items {
			if !b.items[i].consumed && pred(b.items[i].m) {
				b.items[i].consumed = true
				return b.items[i].m, nil
			}
		}
		if b.closed {
			return nil, ErrPeerClosed
		}
		if !time.Now().Before(deadline) {
			return nil, ErrTimeout
		}
		b.cond.Wait()
	}
}

// TimedMsg is a received message with its arrival time on the harness clock.
type TimedMsg struct {
	M msg.Message
	T int64
}

// All returns every message received so far with arrival times.
func (b *MsgBox) All() []TimedMsg {
	b.mu.Lock()
	defer b.mu.Unlock()
	out := make([]TimedMsg, len(b.items))
	for i, x := range b.items {
		out[i] = TimedMsg{M: x.m, T: x.t}
	}
	return out
}

// FakeServerOpts scripts a server that speaks frp's protocol to a real frpc.
type FakeServerOpts struct {
	Port   int
	Token  string
	TCPMux bool // must equal the client's transport.tcpMux
	// OnLogin decides the reply (nil func or nil result = accept with a generated run id).
	// Returning a LoginResp with Error set refuses; returning (nil,false) = stay silent (no reply at all).
	OnLogin func(fs *FakeServer, l *msg.Login) (resp *msg.LoginResp, reply bool)
	// OnSession runs on its own goroutine for every accepted login.
	OnSession func(s *FakeSession)
	// OnWorkConn receives every work connection (after its NewWorkConn message).
	OnWorkConn func(fs *FakeServer, c net.Conn, m *msg.NewWorkConn)
	// OnVisitor receives visitor connections.
	OnVisitor func(fs *FakeServer, c net.Conn, m *msg.NewVisitorConn)
}

// FakeServer is the scripted server.
type FakeServer struct {
	Opts     FakeServerOpts
	L        net.Listener
	Port     int
	mu       sync.Mutex
	sessions []*FakeSession
	conns    map[net.Conn]struct{}
	Logins   atomic.Int64
	LoginLog []TimedLogin
	refuse   atomic.Bool
	runSeq   atomic.Int64
}

// TimedLogin is a login attempt seen by the fake server.
type TimedLogin struct {
	L msg.Login
	T int64
}

// FakeSession is one accepted control session at the fake server.
type FakeSession struct {
	FS    *FakeServer
	Login msg.Login
	RunID string
	Conn  net.Conn
	rw    io.ReadWriter
	wmu   sync.Mutex
	Box   *MsgBox
}

// StartFakeServer listens on 127.0.0.1:port.
func StartFakeServer(o FakeServerOpts) (*FakeServer, error) {
	l, err := net.Listen("tcp", "127.0.0.1:"+strconv.Itoa(o.Port))
	if err != nil {
		return nil, err
	}
	fs := &FakeServer{Opts: o, L: l, Port: l.Addr().(*net.TCPAddr).Port, conns: map[net.Conn]struct{}{}}
	go fs.acceptLoop()
	return fs, nil
}

func (fs *FakeServer) track(c net.Conn, add bool) {
	fs.mu.Lock()
	if add {
		fs.conns[c] = struct{}{}
	} else {
		delete(fs.conns, c)
	}
	fs.mu.Unlock()
}

func (fs *FakeServer) acceptLoop() {
	for {
		c, err := fs.L.Accept()
		if err != nil {
			return
		}
		if fs.refuse.Load() {
			c.Close()
			continue
		}
		fs.track(c, true)
		go func() {
			defer fs.track(c, false)
			if fs.Opts.TCPMux {
				cfg := fmux.DefaultConfig()
				cfg.LogOutput = io.Discard
				cfg.MaxStreamWindowSize = 6 * 1024 * 1024
				sess, err := fmux.Server(c, cfg)
				if err != nil {
					c.Close()
					return
				}
				for {
					st, err := sess.AcceptStream()
					if err != nil {
						sess.Close()
						return
					}
					go fs.handle(st)
				}
			}
			fs.handle(c)
		}()
	}
}

func (fs *FakeServer) handle(c net.Conn) {
	_ = c.SetReadDeadline(time.Now().Add(30 * time.Second))
	m, err := msg.ReadMsg(c)
	if err != nil {
		c.Close()
		return
	}
	_ = c.SetReadDeadline(time.Time{})
	switch v := m.(type) {
	case *msg.Login:
		fs.Logins.Add(1)
		fs.mu.Lock()
		fs.LoginLog = append(fs.LoginLog, TimedLogin{L: *v, T: Now()})
		fs.mu.Unlock()
		var resp *msg.LoginResp
		reply := true
		if fs.Opts.OnLogin != nil {
			resp, reply = fs.Opts.OnLogin(fs, v)
		}
		if !reply {
			// stay silent; keep the connection open until the peer gives up
			_, _ = io.Copy(io.Discard, c)
			c.Close()
			return
		}
		if resp == nil {
			id := v.RunID
			if id == "" {
				id = fmt.Sprintf("fake%012d", fs.runSeq.Add(1))
			}
			resp = &msg.LoginResp{Version: "0.62.1", RunID: id}
		}
		if err := msg.WriteMsg(c, resp); err != nil || resp.Error != "" {
			c.Close()
			return
		}
		s := &FakeSession{FS: fs, Login: *v, RunID: resp.RunID, Conn: c, Box: NewMsgBox()}
		rw, err := netpkg.NewCryptoReadWriter(c, []byte(fs.Opts.Token))
		if err != nil {
			c.Close()
			return
		}
		s.rw = rw
		fs.mu.Lock()
		fs.sessions = append(fs.sessions, s)
		fs.mu.Unlock()
		if fs.Opts.OnSession != nil {
			go fs.Opts.OnSession(s)
		}
		for {
			m, err := msg.ReadMsg(s.rw)
			if err != nil {
				s.Box.CloseBox()
				c.Close()
				return
			}
			s.Box.Add(m)
		}
	case *msg.NewWorkConn:
		if fs.Opts.OnWorkConn != nil {
			fs.Opts.OnWorkConn(fs, c, v)
		} else {
			c.Close()
		}
	case *msg.NewVisitorConn:
		if fs.Opts.OnVisitor != nil {
			fs.Opts.OnVisitor(fs, c, v)
		} else {
			c.Close()
		}
	default:
		c.Close()
	}
}

// Send writes a control message to the client.
func (s *FakeSession) Send(m msg.Message) error {
	s.wmu.Lock()
	defer s.wmu.Unlock()
	return msg.WriteMsg(s.rw, m)
}

// Close drops the session's control connection.
func (s *FakeSession) Close() { s.Conn.Close() }

// Sessions returns every accepted session so far.
func (fs *FakeServer) Sessions() []*FakeSession {
	fs.mu.Lock()
	defer fs.mu.Unlock()
	return append([]*FakeSession(nil), fs.sessions...)
}

// LoginTimes returns the arrival times of all login attempts.
func (fs *FakeServer) LoginTimes() []int64 {
	fs.mu.Lock()
	defer fs.mu.Unlock()
	out := make([]int64, len(fs.LoginLog))
	for i, l := range fs.LoginLog {
		out[i] = l.T
	}
	return out
}

// SetRefuse makes the server close new TCP connections immediately.
func (fs *FakeServer) SetRefuse(b bool) { fs.refuse.Store(b) }

// CutAll closes every live TCP connection (sessions and work connections).
func (fs *FakeServer) CutAll() {
	fs.mu.Lock()
	for c := range fs.conns {
		c.Close()
	}
	fs.mu.Unlock()
}

// Close stops listening and cuts everything.
func (fs *FakeServer) Close() { fs.L.Close(); fs.CutAll() }
