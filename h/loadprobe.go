package h

import (
	"sync"
	"time"
)

// LoadProbe measures how late this process's timers fire (scheduler / CPU pressure), so that
// a timing verdict can be made conditional on the machine having been responsive.
type LoadProbe struct {
	mu   sync.Mutex
	obs  []loadObs
	stop chan struct{}
}

type loadObs struct {
	t    time.Time
	over time.Duration
}

// StartLoadProbe starts a goroutine that sleeps 20 ms in a loop and records the overshoot.
func StartLoadProbe() *LoadProbe {
	p := &LoadProbe{stop: make(chan struct{})}
	go func() {
		for {
			select {
			case <-p.stop:
				return
			default:
			}
			t0 := time.Now()
			time.Sleep(20 * time.Millisecond)
			over := time.Since(t0) - 20*time.Millisecond
			p.mu.Lock()
			p.obs = append(p.obs, loadObs{t: t0, over: over})
			if len(p.obs) > 200000 {
				p.obs = p.obs[100000:]
			}
			p.mu.Unlock()
		}
	}()
	return p
}

// MaxOvershoot returns the largest timer overshoot observed since `since`.
func (p *LoadProbe) MaxOvershoot(since time.Time) time.Duration {
	p.mu.Lock()
	defer p.mu.Unlock()
	var m time.Duration
	for i := len(p.obs) - 1; i >= 0; i-- {
		if p.obs[i].t.Before(since.Add(-50 * time.Millisecond)) {
			break
		}
		if p.obs[i].over > m {
			m = p.obs[i].over
		}
	}
	return m
}

// Stop ends the probe.
func (p *LoadProbe) Stop() { close(p.stop) }
