package h

import (
	"context"
	"fmt"
	"net"
	"os"
	"path/filepath"
	"strconv"
	"sync/atomic"
	"time"

	"github.com/fatedier/frp/client"
	"github.com/fatedier/frp/pkg/config"
	v1 "github.com/fatedier/frp/pkg/config/v1"
	"github.com/fatedier/frp/pkg/config/v1/validation"
	"github.com/fatedier/frp/server"
)

var cfgSeq atomic.Int64

func writeTempCfg(prop, text string) (string, error) {
	ext := ".toml"
	for _, c := range text {
		if c == ' ' || c == '\n' || c == '\t' {
			continue
		}
		if c == '{' {
			ext = ".json"
		}
		break
	}
	p := filepath.Join(RunDir(prop), "cfg", fmt.Sprintf("c%d-%d%s", os.Getpid(), cfgSeq.Add(1), ext))
	_ = os.MkdirAll(filepath.Dir(p), 0o755)
	return p, os.WriteFile(p, []byte(text), 0o644)
}

// LoadServerConfig parses a frps configuration document (TOML, YAML or JSON text)
// with the repository's own loader and completes it.
func LoadServerConfig(prop, text string) (*v1.ServerConfig, error) {
	p, err := writeTempCfg(prop, text)
	if err != nil {
		return nil, err
	}
	defer os.Remove(p)
	cfg, _, err := config.LoadServerConfig(p, true)
	return cfg, err
}

// LoadClientConfig parses a frpc configuration document with the repository's loader.
func LoadClientConfig(prop, text string) (*v1.ClientCommonConfig, []v1.ProxyConfigurer, []v1.VisitorConfigurer, error) {
	p, err := writeTempCfg(prop, text)
	if err != nil {
		return nil, nil, nil, err
	}
	defer os.Remove(p)
	c, ps, vs, _, err := config.LoadClientConfig(p, true)
	return c, ps, vs, err
}

// Server is a real frps running inside this process.
type Server struct {
	Svc    *server.Service
	Cfg    *v1.ServerConfig
	cancel context.CancelFunc
	done   chan struct{}
}

// StartServer validates cfg like cmd/frps does, creates the service and runs it.
// cfg must be complete (LoadServerConfig or cfg.Complete()).
func StartServer(cfg *v1.ServerConfig) (*Server, error) {
	if _, err := validation.ValidateServerConfig(cfg); err != nil {
		return nil, fmt.Errorf("validate: %w", err)
	}
	svc, err := server.NewService(cfg)
	if err != nil {
		return nil, err
	}
	ctx, cancel := context.WithCancel(context.Background())
	s := &Server{Svc: svc, Cfg: cfg, cancel: cancel, done: make(chan struct{})}
	go func() {
		defer close(s.done)
		svc.Run(ctx)
	}()
	if err := WaitTCP(net.JoinHostPort(cfg.BindAddr, strconv.Itoa(cfg.BindPort)), 5*time.Second); err != nil {
		_ = svc.Close()
		cancel()
		return nil, err
	}
	return s, nil
}

// StartServerText = LoadServerConfig + StartServer.
func StartServerText(prop, text string) (*Server, error) {
	cfg, err := LoadServerConfig(prop, text)
	if err != nil {
		return nil, err
	}
	return StartServer(cfg)
}

// Snapshot returns the server's own tables (verif accessor).
func (s *Server) Snapshot() server.VerifSnapshot { return s.Svc.VerifSnapshot() }

// Addr is the control address.
func (s *Server) Addr() string { return net.JoinHostPort(s.Cfg.BindAddr, strconv.Itoa(s.Cfg.BindPort)) }

// Close stops the service (listeners and all sessions). Note: the stand-alone
// vhost HTTP listener of frps is not closed by Service.Close (upstream behaviour);
// the port allocator skips ports that are still bound.
func (s *Server) Close() {
	// Service.Run blocks in the accept loop of the control listener (golib's default mux listener is
	// not woken by Close) and only looks at its context afterwards, so neither cancelling the context
	// nor Close makes Run return: we close the service and do not wait for Run.
	_ = s.Svc.Close()
	s.cancel()
	select {
	case <-s.done:
	case <-time.After(20 * time.Millisecond):
	}
}

// Client is a real frpc running inside this process.
type Client struct {
	Svc    *client.Service
	Common *v1.ClientCommonConfig
	cancel context.CancelFunc
	done   chan struct{}
	runErr error
}

// StartClient validates and runs a frpc service. common must be complete.
// loginFailExit is forced to false unless the caller set it explicitly to true... (kept as given).
func StartClient(common *v1.ClientCommonConfig, proxies []v1.ProxyConfigurer, visitors []v1.VisitorConfigurer) (*Client, error) {
	if _, err := validation.ValidateAllClientConfig(common, proxies, visitors); err != nil {
		return nil, fmt.Errorf("validate: %w", err)
	}
	svc, err := client.NewService(client.ServiceOptions{Common: common, ProxyCfgs: proxies, VisitorCfgs: visitors})
	if err != nil {
		return nil, err
	}
	ctx, cancel := context.WithCancel(context.Background())
	c := &Client{Svc: svc, Common: common, cancel: cancel, done: make(chan struct{})}
	go func() {
		defer close(c.done)
		c.runErr = svc.Run(ctx)
	}()
	return c, nil
}

// StartClientText = LoadClientConfig + StartClient.
func StartClientText(prop, text string) (*Client, error) {
	c, ps, vs, err := LoadClientConfig(prop, text)
	if err != nil {
		return nil, err
	}
	return StartClient(c, ps, vs)
}

// ProxyPhase returns the status phase of a proxy ("" if unknown).
func (c *Client) ProxyPhase(name string) string {
	st, ok := c.Svc.StatusExporter().GetProxyStatus(name)
	if !ok || st == nil {
		return ""
	}
	return st.Phase
}

// ProxyRemoteAddr returns the remote address the server reported for a proxy.
func (c *Client) ProxyRemoteAddr(name string) string {
	st, ok := c.Svc.StatusExporter().GetProxyStatus(name)
	if !ok || st == nil {
		return ""
	}
	return st.RemoteAddr
}

// WaitRunning waits until all named proxies are in phase "running".
func (c *Client) WaitRunning(timeout time.Duration, names ...string) error {
	deadline := time.Now().Add(timeout)
	for {
		all := true
		last := ""
		for _, n := range names {
			if ph := c.ProxyPhase(n); ph != "running" {
				all = false
				last = n + "=" + ph
				break
			}
		}
		if all {
			return nil
		}
		select {
		case <-c.done:
			return fmt.Errorf("client exited: %v", c.runErr)
		default:
		}
		if time.Now().After(deadline) {
			return fmt.Errorf("proxies not running after %v (%s)", timeout, last)
		}
		time.Sleep(10 * time.Millisecond)
	}
}

// Close stops the client and waits for Run to return.
func (c *Client) Close() {
	c.cancel()
	select {
	case <-c.done:
	case <-time.After(5 * time.Second):
	}
}

// Done is closed when Run has returned.
func (c *Client) Done() <-chan struct{} { return c.done }

// WaitTCP waits until a TCP connect to addr succeeds.
func WaitTCP(addr string, timeout time.Duration) error {
	deadline := time.Now().Add(timeout)
	for {
		c, err := net.DialTimeout("tcp", addr, time.Second)
		if err == nil {
			c.Close()
			return nil
		}
		if time.Now().After(deadline) {
			return fmt.Errorf("tcp %s not reachable after %v: %v", addr, timeout, err)
		}
		time.Sleep(10 * time.Millisecond)
	}
}

// WaitTCPClosed waits until a TCP connect to addr is refused.
func WaitTCPClosed(addr string, timeout time.Duration) bool {
	deadline := time.Now().Add(timeout)
	for {
		c, err := net.DialTimeout("tcp", addr, time.Second)
		if err != nil {
			return true
		}
		c.Close()
		if time.Now().After(deadline) {
			return false
		}
		time.Sleep(10 * time.Millisecond)
	}
}

// Eventually polls cond until it is true or the timeout expires.
func Eventually(timeout time.Duration, cond func() bool) bool {
	deadline := time.Now().Add(timeout)
	for {
		if cond() {
			return true
		}
		if time.Now().After(deadline) {
			return false
		}
		time.Sleep(5 * time.Millisecond)
	}
}
