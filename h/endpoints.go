package h

import (
	"bufio"
	"bytes"
	"crypto/sha256"
	"encoding/hex"
	"encoding/json"
	"fmt"
	"io"
	"math/rand"
	"net"
	"net/http"
	"strconv"
	"strings"
	"sync"
	"sync/atomic"
	"time"
)

// ---------------------------------------------------------------------------------------------
// PRNG streams

// Payload classes for generated streams.
const (
	ClassRandom = iota // incompressible
	ClassZeros         // long zero runs
	ClassText          // repetitive text
	ClassMixed         // alternating blocks of the above
	NumClasses
)

// StreamGen deterministically generates a byte stream from (seed, class).
type StreamGen struct {
	rng   *rand.Rand
	class int
	off   int64
	mode  int
	left  int
}

func NewStreamGen(seed int64, class int) *StreamGen {
	return &StreamGen{rng: rand.New(rand.NewSource(seed)), class: class}
}

var textUnit = []byte("the quick brown fox jumps over the lazy dog 0123456789\r\n")

// Fill writes the next len(p) bytes of the stream into p.
func (g *StreamGen) Fill(p []byte) {
	for i := range p {
		cls := g.class
		if cls == ClassMixed {
			if g.left == 0 {
				g.mode = g.rng.Intn(3)
				g.left = 1 + g.rng.Intn(8192)
			}
			g.left--
			cls = g.mode
		}
		switch cls {
		case ClassRandom:
			p[i] = byte(g.rng.Intn(256))
		case ClassZeros:
			if g.rng.Intn(4096) == 0 {
				p[i] = byte(1 + g.rng.Intn(255))
			} else {
				p[i] = 0
			}
		default:
			p[i] = textUnit[int(g.off)%len(textUnit)]
		}
		g.off++
	}
}

// Bytes returns the first n bytes of a fresh stream.
func StreamBytes(seed int64, class int, n int) []byte {
	b := make([]byte, n)
	NewStreamGen(seed, class).Fill(b)
	return b
}

// StreamChecker verifies online that what is read is a prefix of the generated stream.
type StreamChecker struct {
	gen  *StreamGen
	N    int64 // bytes verified so far
	Err  error
	buf  []byte
	tail []byte // last bytes for diagnostics
}

func NewStreamChecker(seed int64, class int) *StreamChecker {
	return &StreamChecker{gen: NewStreamGen(seed, class)}
}

// Check compares the next chunk; after the first mismatch Err stays set.
func (c *StreamChecker) Check(p []byte) error {
	if c.Err != nil {
		return c.Err
	}
	if cap(c.buf) < len(p) {
		c.buf = make([]byte, len(p))
	}
	exp := c.buf[:len(p)]
	c.gen.Fill(exp)
	if !bytes.Equal(exp, p) {
		i := 0
		for i < len(p) && p[i] == exp[i] {
			i++
		}
		c.Err = fmt.Errorf("stream differs at offset %d: got 0x%02x want 0x%02x (chunk len %d)", c.N+int64(i), p[i], exp[i], len(p))
		return c.Err
	}
	c.N += int64(len(p))
	return nil
}

// WriteStream writes n bytes of the (seed,class) stream in chunks chosen by rng
// (1 byte .. maxChunk), with occasional short pauses when pause is true.
func WriteStream(w io.Writer, seed int64, class int, n int64, rng *rand.Rand, maxChunk int, pause bool) (int64, error) {
	g := NewStreamGen(seed, class)
	var done int64
	buf := make([]byte, maxChunk)
	for done < n {
		sz := 1 + rng.Intn(maxChunk)
		if rng.Intn(4) == 0 {
			sz = 1 + rng.Intn(1+maxChunk/64)
		}
		if int64(sz) > n-done {
			sz = int(n - done)
		}
		g.Fill(buf[:sz])
		m, err := w.Write(buf[:sz])
		done += int64(m)
		if err != nil {
			return done, err
		}
		if pause && rng.Intn(64) == 0 {
			time.Sleep(time.Duration(rng.Intn(3)) * time.Millisecond)
		}
	}
	return done, nil
}

// ReadStream reads until EOF/error (or until want bytes when want >= 0) checking every read online.
// It returns the number of verified bytes, whether a clean EOF was seen, and the first error
// (a content mismatch is returned as error with mismatch=true).
func ReadStream(r io.Reader, seed int64, class int, want int64, readBuf int) (n int64, eof bool, mismatch bool, err error) {
	ck := NewStreamChecker(seed, class)
	buf := make([]byte, readBuf)
	for want < 0 || ck.N < want {
		lim := len(buf)
		if want >= 0 && int64(lim) > want-ck.N {
			lim = int(want - ck.N)
		}
		m, rerr := r.Read(buf[:lim])
		if m > 0 {
			if cerr := ck.Check(buf[:m]); cerr != nil {
				return ck.N, false, true, cerr
			}
		}
		if rerr == io.EOF {
			return ck.N, true, false, nil
		}
		if rerr != nil {
			return ck.N, false, false, rerr
		}
	}
	return ck.N, false, false, nil
}

// ---------------------------------------------------------------------------------------------
// TCP backends

// TCPBackend is a listener whose connections are handled by fn; it records accepts.
type TCPBackend struct {
	L       net.Listener
	Port    int
	Accepts atomic.Int64
	mu      sync.Mutex
	conns   map[net.Conn]struct{}
	closed  bool
}

// StartTCPBackend listens on 127.0.0.1:port (0 = any) and serves each connection with fn.
func StartTCPBackend(port int, fn func(b *TCPBackend, c net.Conn)) (*TCPBackend, error) {
	l, err := net.Listen("tcp", "127.0.0.1:"+strconv.Itoa(port))
	if err != nil {
		return nil, err
	}
	b := &TCPBackend{L: l, Port: l.Addr().(*net.TCPAddr).Port, conns: map[net.Conn]struct{}{}}
	go func() {
		for {
			c, err := l.Accept()
			if err != nil {
				return
			}
			b.Accepts.Add(1)
			b.mu.Lock()
			b.conns[c] = struct{}{}
			b.mu.Unlock()
			go func() {
				defer func() {
					c.Close()
					b.mu.Lock()
					delete(b.conns, c)
					b.mu.Unlock()
				}()
				fn(b, c)
			}()
		}
	}()
	return b, nil
}

// Open returns the number of currently open accepted connections.
func (b *TCPBackend) Open() int { b.mu.Lock(); defer b.mu.Unlock(); return len(b.conns) }

// Close stops the listener and closes every accepted connection.
func (b *TCPBackend) Close() {
	b.L.Close()
	b.mu.Lock()
	for c := range b.conns {
		c.Close()
	}
	b.mu.Unlock()
}

// IdentEcho is a TCPBackend handler: read a 16-byte nonce, answer "<id>||"+nonce, then echo.
// (The second field is empty because a real backend does not know the proxy name.)
func IdentEcho(id string) func(b *TCPBackend, c net.Conn) {
	return func(b *TCPBackend, c net.Conn) {
		nonce := make([]byte, 16)
		if _, err := io.ReadFull(c, nonce); err != nil {
			return
		}
		if _, err := c.Write(append([]byte(id+"||"), nonce...)); err != nil {
			return
		}
		_, _ = io.Copy(c, c)
	}
}

// ---------------------------------------------------------------------------------------------
// HTTP echo backend

// SeenRequest is what the echo backend observed for one request.
type SeenRequest struct {
	Backend    string      `json:"backend"`
	Method     string      `json:"method"`
	RequestURI string      `json:"request_uri"` // raw request-target as received
	Proto      string      `json:"proto"`
	Host       string      `json:"host"`
	Header     http.Header `json:"header"`
	HeaderKeys []string    `json:"header_keys"` // in received order is not available from net/http; sorted keys
	BodyLen    int64       `json:"body_len"`
	BodySHA    string      `json:"body_sha"`
	TE         []string    `json:"te,omitempty"`
	RemoteAddr string      `json:"remote_addr"`
	Tag        string      `json:"tag"` // value of X-Verif-Tag
	T          int64       `json:"t_ns"`
}

// HTTPBackend is an echoing HTTP server: it logs every request and answers with a
// JSON description of what it saw. Response shaping by request headers:
//
//	X-Verif-Status: <code>        response status (default 200)
//	X-Verif-Body: <n>             respond with n bytes of PRNG stream (seed X-Verif-Seed, class X-Verif-Class) instead of JSON
//	X-Verif-Chunked: 1            do not set Content-Length, flush in pieces
//	X-Verif-Delay-Ms: <n>         sleep before writing headers
//	X-Verif-Resp-Header: k=v      (repeatable) extra response headers
type HTTPBackend struct {
	ID   string
	Srv  *http.Server
	L    net.Listener
	Port int
	mu   sync.Mutex
	Seen []SeenRequest
}

// StartHTTPBackend starts the echo backend on 127.0.0.1:port (0 = any).
func StartHTTPBackend(id string, port int) (*HTTPBackend, error) {
	l, err := net.Listen("tcp", "127.0.0.1:"+strconv.Itoa(port))
	if err != nil {
		return nil, err
	}
	b := &HTTPBackend{ID: id, L: l, Port: l.Addr().(*net.TCPAddr).Port}
	b.Srv = &http.Server{Handler: http.HandlerFunc(b.serve), ReadHeaderTimeout: 30 * time.Second}
	go b.Srv.Serve(l)
	return b, nil
}

func (b *HTTPBackend) serve(w http.ResponseWriter, r *http.Request) {
	hsh := sha256.New()
	n, _ := io.Copy(hsh, r.Body)
	keys := make([]string, 0, len(r.Header))
	for k := range r.Header {
		keys = append(keys, k)
	}
	sr := SeenRequest{
		Backend: b.ID, Method: r.Method, RequestURI: r.RequestURI, Proto: r.Proto, Host: r.Host,
		Header: r.Header.Clone(), HeaderKeys: keys, BodyLen: n, BodySHA: hex.EncodeToString(hsh.Sum(nil)),
		TE: r.TransferEncoding, RemoteAddr: r.RemoteAddr, Tag: r.Header.Get("X-Verif-Tag"), T: Now(),
	}
	b.mu.Lock()
	b.Seen = append(b.Seen, sr)
	b.mu.Unlock()

	if d, _ := strconv.Atoi(r.Header.Get("X-Verif-Delay-Ms")); d > 0 {
		time.Sleep(time.Duration(d) * time.Millisecond)
	}
	for _, kv := range r.Header.Values("X-Verif-Resp-Header") {
		if i := strings.IndexByte(kv, '='); i > 0 {
			w.Header().Add(kv[:i], kv[i+1:])
		}
	}
	w.Header().Set("X-Verif-Backend", b.ID)
	status, _ := strconv.Atoi(r.Header.Get("X-Verif-Status"))
	if status == 0 {
		status = 200
	}
	if bn := r.Header.Get("X-Verif-Body"); bn != "" {
		size, _ := strconv.ParseInt(bn, 10, 64)
		seed, _ := strconv.ParseInt(r.Header.Get("X-Verif-Seed"), 10, 64)
		class, _ := strconv.Atoi(r.Header.Get("X-Verif-Class"))
		chunked := r.Header.Get("X-Verif-Chunked") != ""
		if !chunked {
			w.Header().Set("Content-Length", strconv.FormatInt(size, 10))
		}
		w.Header().Set("Content-Type", "application/octet-stream")
		w.WriteHeader(status)
		if r.Method == http.MethodHead || status == 204 || status == 304 {
			return
		}
		g := NewStreamGen(seed, class)
		buf := make([]byte, 32*1024)
		for size > 0 {
			k := int64(len(buf))
			if k > size {
				k = size
			}
			g.Fill(buf[:k])
			if _, err := w.Write(buf[:k]); err != nil {
				return
			}
			if chunked {
				if f, ok := w.(http.Flusher); ok {
					f.Flush()
				}
			}
			size -= k
		}
		return
	}
	w.Header().Set("Content-Type", "application/json")
	body, _ := json.Marshal(sr)
	w.WriteHeader(status)
	if r.Method == http.MethodHead || status == 204 || status == 304 {
		return
	}
	_, _ = w.Write(body)
}

// Requests returns a copy of the log.
func (b *HTTPBackend) Requests() []SeenRequest {
	b.mu.Lock()
	defer b.mu.Unlock()
	return append([]SeenRequest(nil), b.Seen...)
}

// ByTag returns the logged requests carrying the given X-Verif-Tag.
func (b *HTTPBackend) ByTag(tag string) []SeenRequest {
	b.mu.Lock()
	defer b.mu.Unlock()
	var out []SeenRequest
	for _, s := range b.Seen {
		if s.Tag == tag {
			out = append(out, s)
		}
	}
	return out
}

// Close stops the server immediately.
func (b *HTTPBackend) Close() { b.Srv.Close() }

// RawHTTP sends raw request bytes on a fresh connection to addr and returns the parsed response
// (body fully read) — for requests whose exact bytes matter.
func RawHTTP(addr string, raw []byte, timeout time.Duration) (*http.Response, []byte, error) {
	c, err := net.DialTimeout("tcp", addr, timeout)
	if err != nil {
		return nil, nil, err
	}
	defer c.Close()
	_ = c.SetDeadline(time.Now().Add(timeout))
	if _, err := c.Write(raw); err != nil {
		return nil, nil, err
	}
	method := "GET"
	if i := bytes.IndexByte(raw, ' '); i > 0 {
		method = string(raw[:i])
	}
	resp, err := http.ReadResponse(bufio.NewReader(c), &http.Request{Method: method})
	if err != nil {
		return nil, nil, err
	}
	body, err := io.ReadAll(resp.Body)
	resp.Body.Close()
	return resp, body, err
}

// ---------------------------------------------------------------------------------------------
// UDP echo backend

// UDPSeen is one datagram observed by the UDP backend.
type UDPSeen struct {
	Payload []byte
	From    string
	T       int64
}

// UDPBackend logs every datagram and answers with reply(payload) (nil = no answer).
type UDPBackend struct {
	Conn *net.UDPConn
	Port int
	mu   sync.Mutex
	Seen []UDPSeen
}

// StartUDPBackend listens on 127.0.0.1:port (0 = any).
func StartUDPBackend(port int, bufSize int, reply func(payload []byte) [][]byte) (*UDPBackend, error) {
	ua, _ := net.ResolveUDPAddr("udp", "127.0.0.1:"+strconv.Itoa(port))
	c, err := net.ListenUDP("udp", ua)
	if err != nil {
		return nil, err
	}
	_ = c.SetReadBuffer(8 << 20)
	_ = c.SetWriteBuffer(8 << 20)
	b := &UDPBackend{Conn: c, Port: c.LocalAddr().(*net.UDPAddr).Port}
	go func() {
		buf := make([]byte, bufSize)
		for {
			n, from, err := c.ReadFromUDP(buf)
			if err != nil {
				return
			}
			p := append([]byte(nil), buf[:n]...)
			b.mu.Lock()
			b.Seen = append(b.Seen, UDPSeen{Payload: p, From: from.String(), T: Now()})
			b.mu.Unlock()
			if reply != nil {
				for _, r := range reply(p) {
					_, _ = c.WriteToUDP(r, from)
				}
			}
		}
	}()
	return b, nil
}

// Datagrams returns a copy of the log.
func (b *UDPBackend) Datagrams() []UDPSeen {
	b.mu.Lock()
	defer b.mu.Unlock()
	return append([]UDPSeen(nil), b.Seen...)
}

func (b *UDPBackend) Close() { b.Conn.Close() }
