package h

import (
	"fmt"
	"math/rand"
	"strings"
	"sync"
	"sync/atomic"
	"time"

	"github.com/fatedier/frp/pkg/util/verifhook"
)

// HookFn handles one hit of a hook point. It runs on the goroutine of the code under test.
type HookFn func(point string, args []any)

type hookEntry struct {
	id    int64
	point string // "" = any point
	key   string // "" = any key; otherwise some string argument of the hit must start with key
	fn    HookFn
}

type hookRouter struct {
	mu      sync.RWMutex
	entries []*hookEntry
	seq     atomic.Int64
	hits    sync.Map // point -> *atomic.Int64
}

var router = &hookRouter{}
var hookInstall sync.Once

func installHooks() {
	hookInstall.Do(func() {
		verifhook.Set(func(point string, args ...any) { router.dispatch(point, args) })
	})
}

func (r *hookRouter) dispatch(point string, args []any) {
	c, _ := r.hits.LoadOrStore(point, new(atomic.Int64))
	c.(*atomic.Int64).Add(1)
	r.mu.RLock()
	var todo []*hookEntry
	for _, e := range r.entries {
		if e.point != "" && e.point != point {
			continue
		}
		if e.key != "" {
			match := false
			for _, a := range args {
				if s, ok := a.(string); ok && strings.HasPrefix(s, e.key) {
					match = true
					break
				}
			}
			if !match {
				continue
			}
		}
		todo = append(todo, e)
	}
	r.mu.RUnlock()
	for _, e := range todo {
		e.fn(point, args)
	}
}

// OnHook registers fn for hits of `point` ("" = all points) where some string argument
// (run id, proxy name, group name, ...) starts with key ("" = all). It returns a function that removes the registration.
// Handlers of case A never see hits of case B if keys embed the case id (names, run ids, groups).
func OnHook(point, key string, fn HookFn) (remove func()) {
	installHooks()
	e := &hookEntry{id: router.seq.Add(1), point: point, key: key, fn: fn}
	router.mu.Lock()
	router.entries = append(router.entries, e)
	router.mu.Unlock()
	return func() {
		router.mu.Lock()
		for i, x := range router.entries {
			if x == e {
				router.entries = append(router.entries[:i], router.entries[i+1:]...)
				break
			}
		}
		router.mu.Unlock()
	}
}

// HookHits returns how often each hook point was reached in this process.
func HookHits() map[string]int64 {
	out := map[string]int64{}
	router.hits.Range(func(k, v any) bool {
		out[k.(string)] = v.(*atomic.Int64).Load()
		return true
	})
	return out
}

// Gate blocks the first goroutine(s) that reach (point,key) until Release is called.
// Gates are released by events, never by sleeps; a gated scenario must use a watchdog
// (WaitArrived with a timeout, deferred Release).
type Gate struct {
	point, key string
	arrived    chan struct{}
	release    chan struct{}
	once       sync.Once
	relOnce    sync.Once
	remove     func()
	Hits       atomic.Int64
	maxHold    int64
	held       atomic.Int64
}

// NewGate installs a gate. holdFirst is how many arrivals are held (later arrivals pass).
func NewGate(point, key string, holdFirst int) *Gate {
	g := &Gate{point: point, key: key, arrived: make(chan struct{}), release: make(chan struct{}), maxHold: int64(holdFirst)}
	g.remove = OnHook(point, key, func(string, []any) {
		g.Hits.Add(1)
		if g.held.Add(1) > g.maxHold {
			return
		}
		g.once.Do(func() { close(g.arrived) })
		select {
		case <-g.release:
		case <-time.After(30 * time.Second): // safety: never wedge the code under test for ever
		}
	})
	return g
}

// WaitArrived waits until a goroutine is parked at the gate.
func (g *Gate) WaitArrived(timeout time.Duration) bool {
	select {
	case <-g.arrived:
		return true
	case <-time.After(timeout):
		return false
	}
}

// Release opens the gate for good and removes the hook.
func (g *Gate) Release() {
	g.relOnce.Do(func() { close(g.release); g.remove() })
}

// Perturb installs PRNG-chosen delays at every hook point whose string arguments contain key:
// each hit sleeps 0 (p=0.6), 50us, 1ms or (rarely) 10ms. It returns the remover and a trace
// accessor (sequence of points hit) whose hash is the interleaving signature of the case.
func Perturb(rng *rand.Rand, key string) (remove func(), trace func() []string) {
	var mu sync.Mutex
	var tr []string
	seed := rng.Int63()
	local := rand.New(rand.NewSource(seed))
	rm := OnHook("", key, func(point string, args []any) {
		mu.Lock()
		x := local.Intn(100)
		if len(tr) < 4096 {
			tr = append(tr, point)
		}
		mu.Unlock()
		switch {
		case x < 60:
		case x < 80:
			time.Sleep(50 * time.Microsecond)
		case x < 97:
			time.Sleep(time.Millisecond)
		default:
			time.Sleep(10 * time.Millisecond)
		}
	})
	return rm, func() []string { mu.Lock(); defer mu.Unlock(); return append([]string(nil), tr...) }
}

// TraceSig is a short signature of a hook trace (interleaving signature).
func TraceSig(tr []string) string {
	return fmt.Sprintf("%d:%x", len(tr), hashStrings(tr))
}

func hashStrings(ss []string) uint64 {
	var hsh uint64 = 1469598103934665603
	for _, s := range ss {
		for i := 0; i < len(s); i++ {
			hsh ^= uint64(s[i])
			hsh *= 1099511628211
		}
		hsh ^= 0xff
		hsh *= 1099511628211
	}
	return hsh
}
