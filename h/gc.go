package h

import "runtime/debug"

// DisableGC switches the garbage collector off (with a soft memory limit as safety net).
// A connection that the code under test merely drops, without Close, is otherwise closed by
// its finalizer at some later collection, which hides "left open / leaked" behind GC timing.
// With the collector off, "closed" means closed by the code. It returns a restore function.
func DisableGC(limitGiB int64) (restore func()) {
	oldLimit := debug.SetMemoryLimit(limitGiB << 30)
	old := debug.SetGCPercent(-1)
	return func() {
		debug.SetGCPercent(old)
		debug.SetMemoryLimit(oldLimit)
	}
}
