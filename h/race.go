package h

import (
	"os"
	"path/filepath"
	"regexp"
	"sort"
	"strings"
)

// RaceReport is one deduplicated data-race report of the Go race detector.
type RaceReport struct {
	Class string   `json:"class"` // map | chan-idiom | other
	Key   string   `json:"key"`   // pair of outermost frp frames, line numbers stripped
	Tops  []string `json:"tops"`  // top frame of each of the two stacks
	Count int      `json:"count"`
	Text  string   `json:"text,omitempty"`
}

var fnLine = regexp.MustCompile(`^  ([^\s].*)\(\)$`)

// ParseRaceLog parses the text of GORACE log files into deduplicated reports.
func ParseRaceLog(text string) []RaceReport {
	blocks := strings.Split(text, "WARNING: DATA RACE")
	agg := map[string]*RaceReport{}
	for _, b := range blocks[1:] {
		if i := strings.Index(b, "=================="); i >= 0 {
			b = b[:i]
		}
		// split into stacks: sections start with a non-indented header line
		var stacks [][]string
		var cur []string
		for _, ln := range strings.Split(b, "\n") {
			if ln == "" {
				if cur != nil {
					stacks = append(stacks, cur)
					cur = nil
				}
				continue
			}
			if !strings.HasPrefix(ln, " ") { // header: "Read at ...", "Previous write at ...", "Goroutine N ... created at:"
				if cur != nil {
					stacks = append(stacks, cur)
				}
				cur = []string{}
				continue
			}
			if m := fnLine.FindStringSubmatch(ln); m != nil && cur != nil {
				cur = append(cur, m[1])
			}
		}
		if cur != nil {
			stacks = append(stacks, cur)
		}
		if len(stacks) < 2 {
			continue
		}
		a, c := stacks[0], stacks[1]
		top := func(s []string) string {
			if len(s) == 0 {
				return "?"
			}
			return s[0]
		}
		outer := func(s []string) string {
			for _, f := range s {
				if strings.Contains(f, "github.com/fatedier/frp/") {
					return f
				}
			}
			return top(s)
		}
		isMap := func(f string) bool {
			return strings.HasPrefix(f, "runtime.map") || strings.Contains(f, "runtime.mapaccess") ||
				strings.Contains(f, "runtime.mapassign") || strings.Contains(f, "runtime.mapdelete") || strings.Contains(f, "runtime.mapiter")
		}
		isChan := func(f string) bool {
			return strings.HasPrefix(f, "runtime.closechan") || strings.HasPrefix(f, "runtime.chansend") || strings.HasPrefix(f, "runtime.chanrecv") || strings.HasPrefix(f, "runtime.selectgo")
		}
		class := "other"
		if isMap(top(a)) || isMap(top(c)) {
			class = "map"
		} else if (strings.HasPrefix(top(a), "runtime.closechan") && isChan(top(c))) || (strings.HasPrefix(top(c), "runtime.closechan") && isChan(top(a))) {
			class = "chan-idiom"
		}
		p := []string{outer(a), outer(c)}
		sort.Strings(p)
		key := class + "|" + p[0] + "|" + p[1]
		if r, ok := agg[key]; ok {
			r.Count++
		} else {
			txt := b
			if len(txt) > 3000 {
				txt = txt[:3000]
			}
			agg[key] = &RaceReport{Class: class, Key: key, Tops: []string{top(a), top(c)}, Count: 1, Text: txt}
		}
	}
	out := make([]RaceReport, 0, len(agg))
	for _, r := range agg {
		out = append(out, *r)
	}
	sort.Slice(out, func(i, j int) bool { return out[i].Key < out[j].Key })
	return out
}

// ReadRaceLogs reads every file matching the GORACE log_path prefix of this process tree.
func ReadRaceLogs(prefix string) string {
	files, _ := filepath.Glob(prefix + ".*")
	var sb strings.Builder
	for _, f := range files {
		b, err := os.ReadFile(f)
		if err == nil {
			sb.Write(b)
			sb.WriteString("\n")
		}
	}
	return sb.String()
}

// RaceLogPrefix returns the log_path configured in GORACE ("" if none).
func RaceLogPrefix() string {
	for _, f := range strings.Fields(os.Getenv("GORACE")) {
		if strings.HasPrefix(f, "log_path=") {
			return strings.TrimPrefix(f, "log_path=")
		}
	}
	return ""
}

// SummarizeRaces returns the deduplicated race reports seen so far by this process
// (and children sharing the log prefix), without the report text.
func SummarizeRaces() map[string]any {
	p := RaceLogPrefix()
	if p == "" {
		return map[string]any{"enabled": false}
	}
	reps := ParseRaceLog(ReadRaceLogs(p))
	byClass := map[string]int{}
	var keys []string
	for _, r := range reps {
		byClass[r.Class]++
		keys = append(keys, r.Key)
	}
	return map[string]any{"enabled": true, "distinct_by_class": byClass, "keys": keys}
}
