package h

import (
	"fmt"
	"os"
	"sync"
	"time"
)

// Freeze detector. A check's bounded-progress watchdogs ("no data for 60 s", "still open after 16 s") are wall-clock
// timers; they presuppose that the process was running while they counted. When the whole process or machine is
// suspended (a VM snapshot, a stopped container) every pending timer expires at once on resume and the watchdogs
// report stalls that never happened. A 100 ms ticker measures that directly: a tick that arrives seconds late means
// nothing in this process ran meanwhile. Findings of a case whose lifetime overlaps such a gap are not judged
// (counted as inconclusive, printed on stderr); nothing frp does can delay this ticker.

const freezeThreshold = 3 * time.Second

// freezeGrace: a gap that ended this long before a case started still taints it (shared servers and sessions
// lived through the gap: heartbeat and idle timers inside frp expired too).
const freezeGrace = 120 * time.Second

type freezeRec struct {
	end time.Time
	dur time.Duration
}

var (
	freezeMu sync.Mutex
	freezes  []freezeRec
)

func init() { go freezeWatch() }

func freezeWatch() {
	const tick = 100 * time.Millisecond
	for {
		t0 := time.Now()
		time.Sleep(tick)
		if gap := time.Since(t0) - tick; gap >= freezeThreshold {
			freezeMu.Lock()
			freezes = append(freezes, freezeRec{end: time.Now(), dur: gap})
			freezeMu.Unlock()
			fmt.Fprintf(os.Stderr, "harness: process did not run for %v (100 ms timer gap) — watchdog verdicts around this point are not judged\n", gap.Round(time.Millisecond))
		}
	}
}

// FrozenSince returns the total length and number of timer gaps (>= 3 s) that ended after t.
func FrozenSince(t time.Time) (total time.Duration, n int) {
	freezeMu.Lock()
	defer freezeMu.Unlock()
	for _, f := range freezes {
		if f.end.After(t) {
			total += f.dur
			n++
		}
	}
	return
}
