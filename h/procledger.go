package h

import (
	"bufio"
	"bytes"
	"fmt"
	"os"
	"regexp"
	"runtime"
	"runtime/pprof"
	"sort"
	"strconv"
	"strings"
)

// ListenSock is a listening (tcp) or bound (udp) socket of this process.
type ListenSock struct {
	Proto string
	Port  int
	Addr  string
}

func ownSocketInodes() map[string]struct{} {
	out := map[string]struct{}{}
	ents, err := os.ReadDir("/proc/self/fd")
	if err != nil {
		return out
	}
	for _, e := range ents {
		l, err := os.Readlink("/proc/self/fd/" + e.Name())
		if err == nil && strings.HasPrefix(l, "socket:[") {
			out[strings.TrimSuffix(strings.TrimPrefix(l, "socket:["), "]")] = struct{}{}
		}
	}
	return out
}

// FDCount returns the number of open file descriptors of this process.
func FDCount() int {
	ents, _ := os.ReadDir("/proc/self/fd")
	return len(ents)
}

func parseProcNet(path, proto string, wantState string, inodes map[string]struct{}) []ListenSock {
	f, err := os.Open(path)
	if err != nil {
		return nil
	}
	defer f.Close()
	var out []ListenSock
	sc := bufio.NewScanner(f)
	sc.Scan()
	for sc.Scan() {
		fs := strings.Fields(sc.Text())
		if len(fs) < 10 {
			continue
		}
		if wantState != "" && fs[3] != wantState {
			continue
		}
		if _, ok := inodes[fs[9]]; !ok {
			continue
		}
		i := strings.LastIndexByte(fs[1], ':')
		if i < 0 {
			continue
		}
		p, _ := strconv.ParseInt(fs[1][i+1:], 16, 32)
		out = append(out, ListenSock{Proto: proto, Port: int(p), Addr: fs[1][:i]})
	}
	return out
}

// OwnListeners returns the TCP listening sockets and bound UDP sockets owned by this process.
func OwnListeners() (tcp []ListenSock, udp []ListenSock) {
	in := ownSocketInodes()
	tcp = append(parseProcNet("/proc/net/tcp", "tcp", "0A", in), parseProcNet("/proc/net/tcp6", "tcp", "0A", in)...)
	udp = append(parseProcNet("/proc/net/udp", "udp", "", in), parseProcNet("/proc/net/udp6", "udp", "", in)...)
	return
}

// OwnTCPListenPorts returns the set of ports this process listens on (tcp).
func OwnTCPListenPorts() map[int]bool {
	t, _ := OwnListeners()
	out := map[int]bool{}
	for _, s := range t {
		out[s.Port] = true
	}
	return out
}

// OwnUDPPorts returns the set of UDP ports this process has bound.
func OwnUDPPorts() map[int]bool {
	_, u := OwnListeners()
	out := map[int]bool{}
	for _, s := range u {
		out[s.Port] = true
	}
	return out
}

var createdBy = regexp.MustCompile(`(?m)^#\s+0x[0-9a-f]+\s+(\S+)\+0x[0-9a-f]+\s+(\S+):(\d+)$`)

// GoroutinesBySite groups live goroutines by their stack's outermost frp (or other) function.
func GoroutinesBySite() map[string]int {
	var buf bytes.Buffer
	_ = pprof.Lookup("goroutine").WriteTo(&buf, 1)
	out := map[string]int{}
	// debug=1 format: "N @ 0x... 0x...\n#\t0x.. func+0x.. file:line\n...\n\n"
	text := buf.String()
	if strings.HasPrefix(text, "goroutine profile:") { // header line is directly followed by the first (largest) block
		if i := strings.IndexByte(text, '\n'); i >= 0 {
			text = text[i+1:]
		}
	}
	for _, blk := range strings.Split(text, "\n\n") {
		lines := strings.Split(strings.TrimSpace(blk), "\n")
		if len(lines) < 2 {
			continue
		}
		var n int
		if _, err := fmt.Sscanf(lines[0], "%d @", &n); err != nil {
			continue
		}
		site := ""
		for i := len(lines) - 1; i >= 1; i-- {
			f := strings.Fields(lines[i])
			if len(f) >= 3 {
				fn := f[2]
				if j := strings.LastIndex(fn, "+0x"); j > 0 {
					fn = fn[:j]
				}
				if site == "" {
					site = fn
				}
				if strings.Contains(fn, "github.com/fatedier/frp/") {
					site = fn
					break
				}
			}
		}
		out[site] += n
	}
	return out
}

// Goroutines is runtime.NumGoroutine.
func Goroutines() int { return runtime.NumGoroutine() }

// DiffSites returns sites whose count grew from a to b, formatted "site:+n".
func DiffSites(a, b map[string]int) []string {
	var out []string
	for k, v := range b {
		if v > a[k] {
			out = append(out, fmt.Sprintf("%s:+%d", k, v-a[k]))
		}
	}
	sort.Strings(out)
	return out
}
