package h

import (
	"os"
	"path/filepath"
	"sync"

	"github.com/fatedier/frp/pkg/util/log"
)

var frpLogOnce sync.Once

// RunDir is the scratch directory of a property (under /verif/.run).
func RunDir(prop string) string {
	d := filepath.Join(Root(), ".run", prop)
	_ = os.MkdirAll(d, 0o755)
	return d
}

// InitFrpLog sends frp's global logger to /verif/.run/<prop>/frp.log
// (level VERIF_FRP_LOG, default "error"), once per process.
func InitFrpLog(prop string) {
	frpLogOnce.Do(func() {
		lvl := os.Getenv("VERIF_FRP_LOG")
		if lvl == "" {
			lvl = "error"
		}
		p := filepath.Join(RunDir(prop), "frp.log")
		_ = os.Remove(p)
		log.InitLogger(p, lvl, 1, true)
	})
}
