package h

import (
	"crypto/ecdsa"
	"crypto/elliptic"
	"crypto/rand"
	"crypto/x509"
	"crypto/x509/pkix"
	"encoding/pem"
	"math/big"
	"net"
	"os"
	"path/filepath"
	"time"
)

// CA is a throw-away certificate authority written to disk (PEM files) for TLS scenarios.
type CA struct {
	Dir      string
	CertFile string
	cert     *x509.Certificate
	key      *ecdsa.PrivateKey
	serial   int64
}

// NewCA creates a CA under dir/<name>.
func NewCA(dir, name string) (*CA, error) {
	d := filepath.Join(dir, name)
	if err := os.MkdirAll(d, 0o755); err != nil {
		return nil, err
	}
	key, err := ecdsa.GenerateKey(elliptic.P256(), rand.Reader)
	if err != nil {
		return nil, err
	}
	tpl := &x509.Certificate{
		SerialNumber: big.NewInt(1), Subject: pkix.Name{CommonName: name + " CA"},
		NotBefore: time.Now().Add(-time.Hour), NotAfter: time.Now().Add(240 * time.Hour),
		IsCA: true, KeyUsage: x509.KeyUsageCertSign | x509.KeyUsageDigitalSignature, BasicConstraintsValid: true,
	}
	der, err := x509.CreateCertificate(rand.Reader, tpl, tpl, &key.PublicKey, key)
	if err != nil {
		return nil, err
	}
	cert, _ := x509.ParseCertificate(der)
	ca := &CA{Dir: d, CertFile: filepath.Join(d, "ca.crt"), cert: cert, key: key, serial: 1}
	return ca, os.WriteFile(ca.CertFile, pem.EncodeToMemory(&pem.Block{Type: "CERTIFICATE", Bytes: der}), 0o644)
}

// Issue writes <name>.crt / <name>.key signed by the CA for the given DNS names / IPs (server and client auth).
func (ca *CA) Issue(name string, hosts ...string) (certFile, keyFile string, err error) {
	key, err := ecdsa.GenerateKey(elliptic.P256(), rand.Reader)
	if err != nil {
		return "", "", err
	}
	ca.serial++
	tpl := &x509.Certificate{
		SerialNumber: big.NewInt(ca.serial), Subject: pkix.Name{CommonName: name},
		NotBefore: time.Now().Add(-time.Hour), NotAfter: time.Now().Add(240 * time.Hour),
		KeyUsage:    x509.KeyUsageDigitalSignature | x509.KeyUsageKeyEncipherment,
		ExtKeyUsage: []x509.ExtKeyUsage{x509.ExtKeyUsageServerAuth, x509.ExtKeyUsageClientAuth},
	}
	for _, hst := range hosts {
		if ip := net.ParseIP(hst); ip != nil {
			tpl.IPAddresses = append(tpl.IPAddresses, ip)
		} else {
			tpl.DNSNames = append(tpl.DNSNames, hst)
		}
	}
	der, err := x509.CreateCertificate(rand.Reader, tpl, ca.cert, &key.PublicKey, ca.key)
	if err != nil {
		return "", "", err
	}
	kb, err := x509.MarshalECPrivateKey(key)
	if err != nil {
		return "", "", err
	}
	certFile = filepath.Join(ca.Dir, name+".crt")
	keyFile = filepath.Join(ca.Dir, name+".key")
	if err = os.WriteFile(certFile, pem.EncodeToMemory(&pem.Block{Type: "CERTIFICATE", Bytes: der}), 0o644); err != nil {
		return
	}
	err = os.WriteFile(keyFile, pem.EncodeToMemory(&pem.Block{Type: "EC PRIVATE KEY", Bytes: kb}), 0o600)
	return
}
