// vnode hosts a real frps or frpc in a sacrificial child process:
//
//	vnode frps <config file>
//	vnode frpc <config file>
//
// Environment: VNODE_PERTURB=<seed> installs PRNG delays at every verifhook point;
// VNODE_DELAY_AT=<hook point>:<ms> sleeps at one hook point;
// VNODE_NOFILE=<n> lowers the descriptor limit; VNODE_LOG=<level> sets frp's log level (stderr). SIGTERM stops the node gracefully.
package main

import (
	"context"
	"fmt"
	"math/rand"
	"os"
	"os/signal"
	"strconv"
	"strings"
	"syscall"
	"time"

	"github.com/fatedier/frp/client"
	"github.com/fatedier/frp/pkg/config"
	"github.com/fatedier/frp/pkg/config/v1/validation"
	"github.com/fatedier/frp/pkg/util/log"
	"github.com/fatedier/frp/server"

	"verif/h"
)

func main() {
	if len(os.Args) < 3 {
		fmt.Fprintln(os.Stderr, "usage: vnode frps|frpc <config>")
		os.Exit(64)
	}
	lvl := os.Getenv("VNODE_LOG")
	if lvl == "" {
		lvl = "error"
	}
	log.InitLogger("console", lvl, 1, true)
	if s := os.Getenv("VNODE_PERTURB"); s != "" {
		seed, _ := strconv.ParseInt(s, 10, 64)
		h.Perturb(rand.New(rand.NewSource(seed)), "")
	}
	// VNODE_DELAY_AT=<hook point>:<milliseconds> sleeps at that hook point (deterministic window widening)
	if s := os.Getenv("VNODE_DELAY_AT"); s != "" {
		if i := strings.LastIndexByte(s, ':'); i > 0 {
			ms, _ := strconv.Atoi(s[i+1:])
			h.OnHook(s[:i], "", func(string, []any) { time.Sleep(time.Duration(ms) * time.Millisecond) })
		}
	}
	// VNODE_NOFILE=<n> lowers this process's descriptor limit (descriptor exhaustion as a fault: accept fails with EMFILE)
	if s := os.Getenv("VNODE_NOFILE"); s != "" {
		if n, err := strconv.ParseUint(s, 10, 64); err == nil && n > 0 {
			_ = syscall.Setrlimit(syscall.RLIMIT_NOFILE, &syscall.Rlimit{Cur: n, Max: n})
		}
	}
	ctx, cancel := context.WithCancel(context.Background())
	sig := make(chan os.Signal, 1)
	signal.Notify(sig, syscall.SIGTERM, syscall.SIGINT)
	go func() { <-sig; cancel() }()

	switch os.Args[1] {
	case "frps":
		cfg, _, err := config.LoadServerConfig(os.Args[2], true)
		if err != nil {
			fmt.Fprintln(os.Stderr, "load:", err)
			os.Exit(65)
		}
		if _, err := validation.ValidateServerConfig(cfg); err != nil {
			fmt.Fprintln(os.Stderr, "validate:", err)
			os.Exit(65)
		}
		svc, err := server.NewService(cfg)
		if err != nil {
			fmt.Fprintln(os.Stderr, "new:", err)
			os.Exit(66)
		}
		fmt.Println("VNODE READY")
		svc.Run(ctx)
	case "frpc":
		c, ps, vs, _, err := config.LoadClientConfig(os.Args[2], true)
		if err != nil {
			fmt.Fprintln(os.Stderr, "load:", err)
			os.Exit(65)
		}
		if _, err := validation.ValidateAllClientConfig(c, ps, vs); err != nil {
			fmt.Fprintln(os.Stderr, "validate:", err)
			os.Exit(65)
		}
		svc, err := client.NewService(client.ServiceOptions{Common: c, ProxyCfgs: ps, VisitorCfgs: vs, ConfigFilePath: os.Args[2]})
		if err != nil {
			fmt.Fprintln(os.Stderr, "new:", err)
			os.Exit(66)
		}
		fmt.Println("VNODE READY")
		if err := svc.Run(ctx); err != nil {
			fmt.Fprintln(os.Stderr, "run:", err)
			os.Exit(67)
		}
	default:
		os.Exit(64)
	}
}
