package main

import (
	"fmt"
	"net"
	"os"
	"strings"
	"sync"
	"sync/atomic"
	"time"

	"github.com/fatedier/frp/pkg/msg"

	"verif/h"
)

// Family A: a scripted client at a real frps.

var aMoments = []string{"never-pinged", "idle", "mid-registration", "during-traffic", "workconn-setup", "invalid-pings", "other-messages"}

type pingRec struct {
	Send int64 // stamp before the ping was written
	Pong int64 // stamp after the pong was read (0 = none)
}

func serverSideCase(c *h.Case, k int) {
	rng := c.Rng
	moment := aMoments[k%len(aMoments)]
	mux := (k/len(aMoments))%2 == 0
	pair := hbPairs[(k+k/14)%len(hbPairs)]
	liveFull := k%2 == 0 && moment != "never-pinged"
	T := time.Duration(pair.T) * time.Second
	I := time.Duration(pair.I) * time.Second
	srv := aSrv[srvKey{pair.T, mux}]
	pfx := fmt.Sprintf("a%d.", c.Idx)
	c.Data["moment"], c.Data["mux"], c.Data["interval_s"], c.Data["timeout_s"], c.Data["live_full"] = moment, mux, pair.I, pair.T, liveFull
	sig := fmt.Sprintf("A|%s|mux=%v|%d/%d|live=%v", moment, mux, pair.I, pair.T, liveFull)

	tcpPort := pa.Get()
	tLoginBefore := h.Now()
	p, err := h.DialPeer(h.PeerOpts{ServerPort: srv.Cfg.BindPort, TCPMux: mux, Token: token, User: fmt.Sprintf("a%d", c.Idx), PoolCount: 1})
	if err != nil || !p.LoggedIn() {
		run.Inconclusive("A: login failed")
		return
	}
	defer p.Close()
	c.Ev("login", "run_id", p.RunID, "t", tLoginBefore)

	var closedAt atomic.Int64
	go func() {
		for !p.WaitClosed(time.Hour) {
		}
		closedAt.Store(h.Now())
	}()

	// work connections are supplied by hand so that the ones still waiting in the server's pool can be watched
	var supply atomic.Bool
	supply.Store(true)
	var wmu sync.Mutex
	type pooled struct {
		wc      *h.WorkConn
		started bool
		endedAt int64
	}
	var pool []*pooled
	backend := h.IdentBackend("A", token, false, false, nil)
	go func() {
		for {
			_, err := p.WaitMsg(time.Hour, func(m msg.Message) bool { _, ok := m.(*msg.ReqWorkConn); return ok })
			if err == h.ErrPeerClosed {
				return
			}
			if err != nil || !supply.Load() {
				continue
			}
			go func() {
				wc, err := p.OpenWorkConn()
				if err != nil {
					return
				}
				pe := &pooled{wc: wc}
				wmu.Lock()
				pool = append(pool, pe)
				wmu.Unlock()
				_, err = wc.ReadStart(0)
				wmu.Lock()
				if err != nil {
					pe.endedAt = h.Now()
				} else {
					pe.started = true
				}
				wmu.Unlock()
				if err == nil {
					backend(p, wc)
				}
			}()
		}
	}()

	tcpName, stcpName := pfx+"t", pfx+"s"
	if moment != "never-pinged" || rng.Intn(2) == 0 {
		for _, m := range []*msg.NewProxy{
			{ProxyName: tcpName, ProxyType: "tcp", RemotePort: tcpPort},
			{ProxyName: stcpName, ProxyType: "stcp", Sk: "k", AllowUsers: []string{"*"}},
		} {
			r, err := p.NewProxy(m, 10*time.Second)
			for try := 0; try < 3 && err == nil && m.ProxyType == "tcp" && strings.Contains(r.Error, "port"); try++ {
				tcpPort = pa.Get() // lost a race for the port: take another one
				m.RemotePort = tcpPort
				r, err = p.NewProxy(m, 10*time.Second)
			}
			if err != nil || r.Error != "" {
				fmt.Fprintf(os.Stderr, "case %d: registration of %s failed: %v %+v\n", c.Idx, m.ProxyName, err, r)
				run.Inconclusive("A: registration failed")
				c.Ev("registration-failed", "name", m.ProxyName, "err", fmt.Sprint(err), "resp", r)
				return
			}
		}
	}
	registered := true
	if _, ok := srvHasProxy(srv, tcpName); !ok {
		registered = false
	}
	addr := fmt.Sprintf("127.0.0.1:%d", tcpPort)

	// ---- live phase: valid pings at the interval
	var pings []pingRec
	lastValidSend := tLoginBefore // NewControl stamps lastPing after the login message was written
	lastValidDone := h.Now()
	ping := func() bool {
		s := h.Now()
		ts := time.Now().Unix()
		pong, err := p.PingWith(&msg.Ping{Timestamp: ts, PrivilegeKey: h.AuthKey(token, ts)}, T+5*time.Second)
		if err != nil {
			pings = append(pings, pingRec{Send: s})
			c.Ev("ping", "send", s, "err", err.Error())
			return false
		}
		r := h.Now()
		pings = append(pings, pingRec{Send: s, Pong: r})
		c.Ev("ping", "send", s, "pong", r, "pong_error", pong.Error)
		if pong.Error != "" {
			c.Violation("valid-ping-rejected", "a correctly signed ping was answered with an error pong: %s", pong.Error)
			return false
		}
		lastValidSend, lastValidDone = s, r
		run.Count("A_valid_pings", 1)
		return true
	}
	nPings := 0
	switch {
	case moment == "never-pinged":
	case liveFull:
		nPings = (3*pair.T)/pair.I + 2
	default:
		nPings = 1 + rng.Intn(3)
	}
	liveStart := h.Now()
	for i := 0; i < nPings; i++ {
		if i > 0 {
			next := liveStart + int64(i)*int64(I)
			if d := next - h.Now(); d > 0 {
				time.Sleep(time.Duration(d))
			}
		}
		if !ping() {
			break
		}
	}
	if nPings > 0 && closedAt.Load() == 0 && len(pings) == nPings && pings[nPings-1].Pong != 0 && registered {
		// still functional at the end of the live phase
		if id, err := h.AskIdent(addr, 8*time.Second); err != nil || id != "A|"+tcpName {
			if closedAt.Load() == 0 {
				c.Violation("live-session-not-functional", "session pinging every %v (timeout %v): tcp proxy does not carry traffic after %v: %q %v", I, T, time.Duration(h.Now()-liveStart), id, err)
			}
		} else {
			run.Count("A_live_echo_ok", 1)
		}
	}
	if n := len(pings); n > 0 && pings[n-1].Pong == 0 {
		// a ping stayed unanswered: either the session is being closed (judged below) or the harness lost track
		waitUntil(3*time.Second, func() bool { return closedAt.Load() != 0 })
		if closedAt.Load() == 0 {
			run.Inconclusive("A: ping unanswered although the session is open")
			return
		}
	}
	if ca := closedAt.Load(); ca != 0 && nPings > 0 {
		// closed while pinging: legitimate only if the harness itself left a gap of more than the timeout
		onTime := true
		lastAck := int64(-1)
		for i := range pings {
			if pings[i].Pong == 0 {
				break
			}
			if i > 0 && pings[i].Pong-pings[i-1].Send > int64(T) {
				onTime = false
			}
			lastAck = pings[i].Send
		}
		if lastAck < 0 {
			lastAck = tLoginBefore
		}
		if ca-lastAck > int64(T) {
			onTime = false
		}
		if onTime {
			c.Violation("pinging-session-torn-down", "moment %s, mux=%v: session sending valid pings every %v (every pong(i+1)-send(i) <= timeout %v) was closed %.3f s after its last acknowledged ping was sent",
				moment, mux, I, T, secs(ca-lastAck))
		} else {
			run.Inconclusive("A: harness too slow to judge a torn-down pinging session")
		}
		return
	}
	if liveFull {
		run.Count("A_live_phases_held", 1)
		stats.add("A_live_phase_observed", time.Duration(h.Now()-liveStart))
	}

	// ---- silence begins (with a PRNG offset so that the moment moves against the server's 1 s watchdog tick)
	time.Sleep(time.Duration(rng.Intn(900)) * time.Millisecond)
	silentFrom := lastValidDone
	stop := make(chan struct{})
	defer close(stop)
	var echoed atomic.Int64
	switch moment {
	case "mid-registration":
		for i := 0; i < 3; i++ {
			_ = p.Send(&msg.NewProxy{ProxyName: fmt.Sprintf("%sx%d", pfx, i), ProxyType: "stcp", Sk: "k", AllowUsers: []string{"*"}})
		}
	case "during-traffic":
		if uc, err := net.DialTimeout("tcp", addr, 3*time.Second); err == nil {
			if _, err := h.AskIdentOn(uc, 8*time.Second); err == nil {
				go func() {
					defer uc.Close()
					buf := make([]byte, 64)
					for {
						select {
						case <-stop:
							return
						default:
						}
						_ = uc.SetDeadline(time.Now().Add(2 * time.Second))
						if _, err := uc.Write(buf); err != nil {
							return
						}
						n, err := uc.Read(buf)
						if err != nil {
							return
						}
						echoed.Add(int64(n))
						time.Sleep(50 * time.Millisecond)
					}
				}()
			} else {
				uc.Close()
			}
		}
	case "workconn-setup":
		supply.Store(false)
		for i := 0; i < 3; i++ {
			if uc, err := net.DialTimeout("tcp", addr, 3*time.Second); err == nil {
				defer uc.Close()
			}
		}
	case "invalid-pings", "other-messages":
		go func() {
			for i := 0; ; i++ {
				select {
				case <-stop:
					return
				case <-time.After(I / 2):
				}
				if moment == "invalid-pings" {
					if err := p.Send(&msg.Ping{Timestamp: time.Now().Unix(), PrivilegeKey: "0123456789abcdef0123456789abcdef"}); err != nil {
						return
					}
					run.Count("A_invalid_pings", 1)
				} else {
					var m msg.Message = &msg.CloseProxy{ProxyName: pfx + "nonexistent"}
					if i%2 == 1 {
						m = &msg.NewProxy{ProxyName: stcpName, ProxyType: "stcp", Sk: "k", AllowUsers: []string{"*"}} // refused: exists
					}
					if err := p.Send(m); err != nil {
						return
					}
					run.Count("A_non_ping_messages", 1)
				}
			}
		}()
	}

	// ---- the teardown
	grace := teardownGrace(pair.T)
	waitUntil(time.Duration(silentFrom-h.Now())+grace, func() bool { return closedAt.Load() != 0 })
	ca := closedAt.Load()
	c.Ev("teardown", "last_valid_ping_send", lastValidSend, "silent_from", silentFrom, "closed_at", ca)
	if ca == 0 {
		c.Violation("silent-session-not-torn-down", "moment %s, mux=%v, heartbeatTimeout %v: control connection still open %.1f s after the last valid ping was acknowledged (watchdog 3x timeout + 10 s)",
			moment, mux, T, secs(h.Now()-silentFrom))
		return
	}
	span := time.Duration(ca - lastValidSend)
	if span < T {
		c.Violation("session-closed-before-heartbeat-timeout", "moment %s, mux=%v: closed %.3f s after the last valid ping was sent, heartbeatTimeout is %v", moment, mux, span.Seconds(), T)
	}
	run.Count("A_teardowns_timed", 1)
	stats.add(fmt.Sprintf("A_silence_to_close_T%d", pair.T), time.Duration(ca-silentFrom))
	if time.Duration(ca-silentFrom) > T+3*time.Second {
		run.Count("slow_teardowns", 1)
	}
	if moment == "during-traffic" {
		run.Count("A_bytes_echoed_while_silent", echoed.Load())
	}

	// ---- everything the session held must be released
	var why string
	released := waitUntil(releaseGrace, func() bool {
		why = ""
		snap := srv.Snapshot()
		for _, s := range snap.Sessions {
			if s.RunID == p.RunID {
				why = "session-table"
				return false
			}
		}
		for _, n := range snap.ProxyNames {
			if strings.HasPrefix(n, pfx) {
				why = "proxy-names:" + n
				return false
			}
		}
		for _, n := range snap.Visitors {
			if strings.HasPrefix(n, pfx) {
				why = "visitor-listeners:" + n
				return false
			}
		}
		if _, used := snap.TCPPorts.Used[tcpPort]; used {
			why = "port-manager"
			return false
		}
		if h.OwnTCPListenPorts()[tcpPort] {
			why = "os-listener"
			return false
		}
		wmu.Lock()
		defer wmu.Unlock()
		for _, pe := range pool {
			if !pe.started && pe.endedAt == 0 {
				why = "pooled-work-connection"
				return false
			}
		}
		return true
	})
	if !released {
		key := strings.SplitN(why, ":", 2)[0]
		c.Violation("dead-session-resource-not-released:"+key, "moment %s, mux=%v: %v after the server closed the silent session %s it still holds: %s", moment, mux, releaseGrace, p.RunID, why)
	} else {
		run.Count("A_release_ledgers_clean", 1)
		stats.add("A_close_to_released", time.Duration(h.Now()-ca))
	}
	run.Distinct(sig)
	if k < 2 {
		run.Sample(map[string]any{"family": "A", "moment": moment, "mux": mux, "timeout_s": pair.T, "valid_pings": len(pings), "silence_to_close_s": secs(ca - silentFrom)})
	}
}

func srvHasProxy(srv *h.Server, name string) (int, bool) {
	for i, n := range srv.Snapshot().ProxyNames {
		if n == name {
			return i, true
		}
	}
	return 0, false
}
