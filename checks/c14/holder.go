package main

import (
	"fmt"
	"strings"
	"time"

	"github.com/fatedier/frp/pkg/msg"

	"verif/h"
)

// Family H: a registration that fails once although the login succeeded must be retried by the running session.
//
//	refused:    a scripted peer registers tcp name N / port P at a real frps (heartbeatTimeout 3 s) and goes silent without
//	            closing; a real frpc configured with the same name (or only the same port) logs in meanwhile: its NewProxy is
//	            refused. frps tears the dead holder down a few seconds later; from then on nothing stands in the way, and
//	            frpc's own start-error retry (30 s, checked every 3 s) must bring the proxy up and carry traffic.
//	unanswered: a scripted server accepts the login and answers pings but gives the first NewProxy of every name no reply;
//	            frpc must send it again after its wait-for-response timeout (20 s, checked every 3 s).
//
// The wrapper's real timings are used (no VerifSetTimings: it is process-wide and would change every other family);
// the cases simply run alongside the others. Watchdogs: retry timer + check interval, x1.5, + 10 s.
const (
	startErrRetry = 30 * time.Second
	waitRespRetry = 20 * time.Second
	wrapperCheck  = 3 * time.Second
)

func retryWatchdog(timer time.Duration) time.Duration {
	return (timer+wrapperCheck)*3/2 + 10*time.Second
}

func holderCase(c *h.Case, k int) {
	if k%2 == 1 {
		unansweredRegistrationCase(c, k/2)
		return
	}
	k /= 2
	mux := k%2 == 0
	sameName := (k%2 == 0) != ((k/2)%2 == 1) // otherwise only the port collides
	const Tsec = 3
	srv := aSrv[srvKey{Tsec, mux}]
	user := fmt.Sprintf("h%d", c.Idx)
	c.Data["variant"], c.Data["mux"], c.Data["same_name"], c.Data["server_timeout_s"] = "refused-while-dead-peer-holds", mux, sameName, Tsec

	be, err := h.StartTCPBackend(0, h.IdentEcho("HB"+user))
	if err != nil {
		run.Inconclusive("H: backend did not start")
		return
	}
	defer be.Close()

	// the holder: registers, pings once, then neither pings nor closes
	holder, err := h.DialPeer(h.PeerOpts{ServerPort: srv.Cfg.BindPort, TCPMux: mux, Token: token, User: user + "x"})
	if err != nil || !holder.LoggedIn() {
		run.Inconclusive("H: holder login failed")
		return
	}
	defer holder.Close()
	port := pa.Get()
	hname := user + ".t"
	if !sameName {
		hname = user + ".other"
	}
	var r *msg.NewProxyResp
	for try := 0; try < 3; try++ {
		r, err = holder.NewProxy(&msg.NewProxy{ProxyName: hname, ProxyType: "tcp", RemotePort: port}, 10*time.Second)
		if err != nil || r.Error == "" || !strings.Contains(r.Error, "port") {
			break
		}
		port = pa.Get()
	}
	if err != nil || r.Error != "" {
		run.Inconclusive("H: holder registration failed")
		return
	}
	if _, err := holder.Ping(10 * time.Second); err != nil {
		run.Inconclusive("H: holder ping failed")
		return
	}
	silentFrom := h.Now()

	// the replacement: a real frpc with the same proxy
	cli, err := h.StartClientText(prop, fmt.Sprintf(`
serverAddr = "127.0.0.1"
serverPort = %d
user = "%s"
auth.token = "%s"
auth.additionalScopes = ["HeartBeats"]
loginFailExit = false
transport.tls.enable = false
transport.tcpMux = %v
transport.poolCount = 0
transport.heartbeatInterval = 1
transport.heartbeatTimeout = 3
[[proxies]]
name = "t"
type = "tcp"
localIP = "127.0.0.1"
localPort = %d
remotePort = %d
`, srv.Cfg.BindPort, user, token, mux, be.Port, port))
	if err != nil {
		run.Inconclusive("H: client did not start: " + err.Error())
		return
	}
	defer cli.Close()
	name := user + ".t"
	probe := &statusProbe{cli: cli, names: []string{name}}
	// the refusal must really have happened (otherwise the holder died too early and nothing is exercised)
	phase := func() string {
		ch := make(chan string, 1)
		go func() { ch <- cli.ProxyPhase(name) }()
		select {
		case s := <-ch:
			return s
		case <-time.After(2 * time.Second):
			return "?"
		}
	}
	var refusedAt int64
	waitUntil(time.Duration(Tsec)*time.Second+2*time.Second, func() bool {
		switch phase() {
		case "start error":
			refusedAt = h.Now()
			return true
		case "running":
			return true
		}
		return false
	})
	if refusedAt == 0 {
		run.Inconclusive("H: the registration was not refused (holder already gone)")
		return
	}
	c.Ev("refused", "t", refusedAt, "holder_silent_from", silentFrom)
	run.Count("H_registrations_refused_by_dead_holder", 1)
	// the holder is torn down by frps (checked by family A in general; here it is the precondition of the verdict)
	if !waitUntil(teardownGrace(Tsec), func() bool { return holder.Closed() }) {
		c.Violation("silent-session-not-torn-down", "mux=%v heartbeatTimeout %d s: the silent holder of %s is still connected %.1f s after its last ping", mux, Tsec, hname, secs(h.Now()-silentFrom))
		return
	}
	holderGone := h.Now()
	// from now on nothing stands in the way: the client's own retry must bring the proxy up
	var why string
	healed := waitUntil(time.Duration(refusedAt-h.Now())+retryWatchdog(startErrRetry), func() bool {
		if why = probe.allRunning(); why != "" {
			return false
		}
		id, err := h.AskIdent(fmt.Sprintf("127.0.0.1:%d", port), 5*time.Second)
		if err != nil || id != "HB"+user+"|" {
			why = fmt.Sprintf("echo through port %d: %q %v", port, id, err)
			return false
		}
		return true
	})
	now := h.Now()
	if !healed {
		what := "proxy already exists"
		if !sameName {
			what = "port already used"
		}
		c.Violation("refused-proxy-never-retried-after-holder-was-torn-down", "mux=%v: frpc's registration of %s (port %d) was refused (%s) while a silent peer still held it; frps tore that peer down %.1f s later; %.1f s after the refusal (start-error retry is 30 s, checked every 3 s) the proxy is still not up: %s",
			mux, name, port, what, secs(holderGone-refusedAt), secs(now-refusedAt), why)
		return
	}
	run.Count("H_refused_proxies_healed", 1)
	stats.add("H_refusal_to_running", time.Duration(now-refusedAt))
	run.Distinct(fmt.Sprintf("H|refused|mux=%v|same-name=%v", mux, sameName))
}

func unansweredRegistrationCase(c *h.Case, k int) {
	mux := k%2 == 0
	n := []int{1, 3}[(k/2)%2]
	pair := hbPairs[k%len(hbPairs)]
	user := fmt.Sprintf("h%d", c.Idx)
	c.Data["variant"], c.Data["mux"], c.Data["proxies"] = "unanswered-registration", mux, n
	e := &bEnv{c: c, pair: pair, mux: mux}
	ports, ok := e.bring("H")
	if !ok {
		return
	}
	defer e.fs.Close()
	defer e.relay.Close()
	b := benign
	b.IgnoreFirstReg = true
	e.fc.push(b)
	var sb strings.Builder
	fmt.Fprintf(&sb, `
serverAddr = "127.0.0.1"
serverPort = %d
user = "%s"
auth.token = "%s"
loginFailExit = false
transport.tls.enable = false
transport.tcpMux = %v
transport.poolCount = 0
transport.heartbeatInterval = %d
transport.heartbeatTimeout = %d
`, ports[1], user, token, mux, pair.I, pair.T)
	for i := 0; i < n; i++ {
		e.names = append(e.names, fmt.Sprintf("%s.p%03d", user, i))
		fmt.Fprintf(&sb, "[[proxies]]\nname = \"p%03d\"\ntype = \"stcp\"\nsecretKey = \"k\"\nlocalIP = \"127.0.0.1\"\nlocalPort = %d\n", i, deadPort)
	}
	t0 := h.Now()
	var err error
	e.cli, err = h.StartClientText(prop, sb.String())
	if err != nil {
		run.Inconclusive("H: client did not start: " + err.Error())
		return
	}
	defer e.cli.Close()
	e.status = &statusProbe{cli: e.cli, names: e.names}
	healed := waitUntil(retryWatchdog(waitRespRetry), func() bool {
		s := e.fc.last()
		return s != nil && s.N == 1 && s.has(e.names) && e.status.allRunning() == ""
	})
	now := h.Now()
	s := e.fc.last()
	if s == nil {
		run.Inconclusive("H: no login at the scripted server")
		return
	}
	s.mu.Lock()
	seen, first := 0, int64(0)
	for _, nme := range e.names {
		if l := s.regSeen[nme]; len(l) > 0 {
			first = l[0]
			if len(l) > seen {
				seen = len(l)
			}
		}
	}
	closed := s.closedAt != 0
	s.mu.Unlock()
	if !healed {
		if s.N != 1 || closed {
			// the session itself was lost: that is another story (and other families' business)
			run.Inconclusive("H: the session did not last through the wait-for-response timeout")
			return
		}
		c.Violation("unanswered-registration-never-resent", "mux=%v heartbeat %d/%d, %d proxies: the first NewProxy of every proxy got no reply (login and pings are answered); %.1f s later (wait-for-response timeout is 20 s, checked every 3 s) frpc has sent at most %d NewProxy per proxy and the proxies are not running: %s",
			mux, pair.I, pair.T, n, secs(now-first), seen, e.status.allRunning())
		return
	}
	run.Count("H_unanswered_registrations_resent", int64(n))
	stats.add("H_unanswered_to_running", time.Duration(now-t0))
	run.Distinct(fmt.Sprintf("H|unanswered|mux=%v|n=%d", mux, n))
}
