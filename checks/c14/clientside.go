package main

import (
	"fmt"
	"io"
	"net"
	"os"
	"strconv"
	"strings"
	"sync"
	"time"

	"github.com/fatedier/frp/pkg/msg"

	"verif/h"
)

// Family B: a real frpc behind the fault relay at the scripted server.

// fakeBeh is what the scripted server does with one login attempt and the session that follows.
type fakeBeh struct {
	Login        string // accept | refuse | silent | cut (connection cut while the client waits for the login reply)
	PongOK       int    // answer this many pings, then fall silent for good (-1 = always answer)
	PongError    bool   // answer pings with error pongs
	AnswerRegs   int    // answer this many registrations, then fall silent for good (-1 = all)
	Drop         bool   // close the session DropAfter after the login reply
	DropAfter    time.Duration
	CutAfterRegs int // close the session after this many registrations (0 = never)
	ReqWorkConns int // ask for work connections right after login and never start them
	Tag          string
	// IgnoreFirstReg: the first NewProxy of every name gets no reply at all (pings are still answered)
	IgnoreFirstReg bool
}

var benign = fakeBeh{Login: "accept", PongOK: -1, AnswerRegs: -1}

type sessRec struct {
	N       int
	Beh     fakeBeh
	LoginAt int64 // stamp before the login reply was written
	sess    *h.FakeSession

	mu           sync.Mutex
	regs         map[string]int64
	regSeen      map[string][]int64 // every NewProxy per name, answered or not
	nRegs        int
	pingAt       []int64
	pongAt       []int64 // stamps before each valid pong was written
	errPongAt    []int64
	silentFrom   int64
	goSilent     bool
	closedAt     int64
	closedByFake bool
	workConns    []*wcRec
}

// wcRec is a work connection the client opened for a session and the scripted server never started.
type wcRec struct {
	openedAt int64
	endedAt  int64 // the client (or a relay cut) ended it
}

type loginRec struct {
	T    int64
	What string
}

type fakeCtl struct {
	relay *faultRelay
	c     *h.Case
	idx   int
	mu    sync.Mutex
	queue []fakeBeh
	sess  []*sessRec
	byID  map[string]*sessRec
	log   []loginRec
	seq   int
	// run-id monitor: the id of the last accepted login must come back in every later Login of this frpc
	ids         []string // run ids handed out, in order
	confirmed   int      // index of the latest id the client provably received (-1: none)
	lastWhat    string   // what the previous login attempt got: accept | refuse | silent | cut
	ridReported bool
	// every login before this instant is refused (duration-based refusal)
	refuseUntil int64
	// every session accepted before this instant is dropped right after the login reply
	dropUntil int64
}

func (f *fakeCtl) push(b ...fakeBeh) { f.mu.Lock(); f.queue = append(f.queue, b...); f.mu.Unlock() }

func (f *fakeCtl) queued() int { f.mu.Lock(); defer f.mu.Unlock(); return len(f.queue) }

func (f *fakeCtl) last() *sessRec {
	f.mu.Lock()
	defer f.mu.Unlock()
	if len(f.sess) == 0 {
		return nil
	}
	return f.sess[len(f.sess)-1]
}

func (f *fakeCtl) byTag(tag string) *sessRec {
	f.mu.Lock()
	defer f.mu.Unlock()
	for _, s := range f.sess {
		if s.Beh.Tag == tag {
			return s
		}
	}
	return nil
}

func (f *fakeCtl) logins(from, to int64, what string) []int64 {
	f.mu.Lock()
	defer f.mu.Unlock()
	var out []int64
	for _, l := range f.log {
		if l.T >= from && l.T <= to && (what == "" || l.What == what) {
			out = append(out, l.T)
		}
	}
	return out
}

func (f *fakeCtl) onLogin(fs *h.FakeServer, l *msg.Login) (*msg.LoginResp, bool) {
	now := h.Now()
	f.mu.Lock()
	b := benign
	if now < f.refuseUntil {
		b = fakeBeh{Login: "refuse"}
	} else if now < f.dropUntil {
		b.Drop = true
	} else if len(f.queue) > 0 {
		b = f.queue[0]
		f.queue = f.queue[1:]
	}
	f.seq++
	if f.confirmed >= 0 && !f.ridReported {
		// the client has provably received run id ids[confirmed] (it talked on that session): from then on every
		// Login must carry that id or a later one the server handed out (whose reply may or may not have arrived)
		idx := -1
		for i, id := range f.ids {
			if id == l.RunID {
				idx = i
			}
		}
		if idx < f.confirmed {
			f.ridReported = true
			key, after := "run-id-not-resent-on-relogin", "the previous attempt got: "+f.lastWhat
			if f.lastWhat == "refuse" {
				key, after = "run-id-forgotten-after-refused-login", "the previous attempt was answered with LoginResp{Error}"
			}
			want, got, n := f.ids[f.confirmed], l.RunID, f.seq
			defer f.c.Violation(key, "login attempt #%d of this frpc carries run id %q although it had been given %q and used that session (%s): frps cannot recognise it as the same client and replace its stale session", n, got, want, after)
		}
	}
	f.lastWhat = b.Login
	f.log = append(f.log, loginRec{T: now, What: b.Login})
	if b.Login != "accept" {
		f.mu.Unlock()
		f.c.Ev("fake-login", "what", b.Login, "t", now)
		if b.Login == "refuse" {
			return &msg.LoginResp{Error: "refused by script"}, true
		}
		if b.Login == "cut" && f.relay != nil {
			go func() {
				time.Sleep(time.Duration(now%7) * time.Millisecond)
				f.relay.CutAll()
			}()
		}
		return nil, false
	}
	id := fmt.Sprintf("b%dx%d", f.idx, f.seq)
	f.ids = append(f.ids, id)
	rec := &sessRec{N: f.seq, Beh: b, LoginAt: h.Now(), regs: map[string]int64{}, regSeen: map[string][]int64{}}
	f.sess = append(f.sess, rec)
	f.byID[id] = rec
	f.mu.Unlock()
	f.c.Ev("fake-login", "what", "accept", "t", now, "session", rec.N, "tag", b.Tag, "client_sent_run_id", l.RunID)
	return &msg.LoginResp{Version: "0.62.1", RunID: id}, true
}

func (f *fakeCtl) onSession(s *h.FakeSession) {
	f.mu.Lock()
	rec := f.byID[s.RunID]
	f.mu.Unlock()
	if rec == nil {
		s.Close()
		return
	}
	rec.mu.Lock()
	rec.sess = s
	rec.mu.Unlock()
	b := rec.Beh
	if b.Drop {
		go func() {
			time.Sleep(b.DropAfter)
			rec.mu.Lock()
			rec.closedByFake = true
			rec.mu.Unlock()
			s.Close()
		}()
	}
	for i := 0; i < b.ReqWorkConns; i++ {
		_ = s.Send(&msg.ReqWorkConn{})
	}
	silent := func() bool { return rec.silentFrom != 0 }
	confirmedOnce := false
	for {
		m, err := s.Box.Wait(time.Hour, func(msg.Message) bool { return true })
		now := h.Now()
		if err != nil {
			rec.mu.Lock()
			rec.closedAt = now
			rec.mu.Unlock()
			f.c.Ev("fake-session-closed", "session", rec.N, "t", now, "by_fake", rec.closedByFake)
			return
		}
		if !confirmedOnce {
			confirmedOnce = true
			f.mu.Lock()
			for i, id := range f.ids {
				if id == s.RunID && i > f.confirmed {
					f.confirmed = i
				}
			}
			f.mu.Unlock()
		}
		rec.mu.Lock()
		if rec.goSilent && rec.silentFrom == 0 {
			rec.silentFrom = now
		}
		switch v := m.(type) {
		case *msg.NewProxy:
			rec.nRegs++
			if !silent() && b.AnswerRegs >= 0 && rec.nRegs > b.AnswerRegs {
				rec.silentFrom = now
			}
			if silent() {
				break
			}
			rec.regSeen[v.ProxyName] = append(rec.regSeen[v.ProxyName], now)
			if b.IgnoreFirstReg && len(rec.regSeen[v.ProxyName]) == 1 {
				break
			}
			rec.regs[v.ProxyName] = now
			_ = s.Send(&msg.NewProxyResp{ProxyName: v.ProxyName, RemoteAddr: ":0"})
			if b.CutAfterRegs > 0 && rec.nRegs >= b.CutAfterRegs && !rec.closedByFake {
				rec.closedByFake = true
				s.Close()
			}
		case *msg.CloseProxy:
			delete(rec.regs, v.ProxyName)
		case *msg.Ping:
			rec.pingAt = append(rec.pingAt, now)
			if !silent() && b.PongOK >= 0 && len(rec.pongAt) >= b.PongOK {
				rec.silentFrom = now
			}
			if silent() {
				break
			}
			if b.PongError {
				rec.errPongAt = append(rec.errPongAt, h.Now())
				_ = s.Send(&msg.Pong{Error: "invalid heartbeat (script)"})
				break
			}
			rec.pongAt = append(rec.pongAt, h.Now())
			_ = s.Send(&msg.Pong{})
		}
		rec.mu.Unlock()
	}
}

type sessView struct {
	closedAt, silentFrom, lastPong, firstErrPong int64
	regs, pings, pongs, errPongs                 int
	closedByFake                                 bool
}

func (r *sessRec) view() sessView {
	r.mu.Lock()
	defer r.mu.Unlock()
	v := sessView{closedAt: r.closedAt, silentFrom: r.silentFrom, regs: len(r.regs), pings: len(r.pingAt), pongs: len(r.pongAt), closedByFake: r.closedByFake}
	if n := len(r.pongAt); n > 0 {
		v.lastPong = r.pongAt[n-1]
	}
	if len(r.errPongAt) > 0 {
		v.firstErrPong = r.errPongAt[0]
		v.errPongs = len(r.errPongAt)
	}
	return v
}

func (r *sessRec) has(names []string) bool {
	r.mu.Lock()
	defer r.mu.Unlock()
	if r.closedAt != 0 || r.silentFrom != 0 || r.closedByFake {
		return false
	}
	for _, n := range names {
		if _, ok := r.regs[n]; !ok {
			return false
		}
	}
	return true
}

// bEnv is one family-B case.
type bEnv struct {
	c      *h.Case
	pair   hb
	mux    bool
	names  []string // as the server sees them (user prefix included)
	fc     *fakeCtl
	fs     *h.FakeServer
	relay  *faultRelay
	cli    *h.Client
	status *statusProbe
	kinds  []string
	timed  int
	healed int
}

func bScript(k int, rng interface{ Intn(int) int }, thorough bool) (phases []string, n int) {
	dur := func(lo, hi int) string { return strconv.Itoa(lo + rng.Intn(hi-lo+1)) } // milliseconds
	maxOut := 6000
	if thorough {
		maxOut = 25000
	}
	switch k % 16 {
	case 0:
		return []string{"live", "pong-silence:idle"}, 1
	case 1:
		return []string{"pong-silence:never-pong", "cut"}, 20
	case 2:
		return []string{"pong-silence:mid-registration"}, 150
	case 3:
		return []string{"pong-silence:workconn-setup", "pong-error"}, 20
	case 4:
		return []string{"refused-at-start:2", "cut", "refused:2"}, 1
	case 5:
		return []string{"accept-close:" + dur(500, maxOut), "accept-close:" + dur(500, 3000)}, 20
	case 6:
		return []string{"down:" + dur(500, maxOut), "cut"}, 150
	case 7:
		return []string{"drop-for:" + dur(7000, 9000)}, 20
	case 8:
		return []string{"cut-mid-registration", "cut-mid-registration"}, 150
	case 9:
		return []string{"silent-logins:1", "cut-before-login-reply:2"}, 1
	case 10:
		return []string{"pong-error", "down:" + dur(500, 4000)}, 1
	case 11:
		return []string{"refuse-for:" + dur(5000, maxOut+2000)}, 150
	case 12:
		return []string{"live", "accept-close:" + dur(500, maxOut)}, 20
	case 13:
		return []string{"pong-silence:idle", "pong-silence:idle"}, 150
	case 14:
		return []string{"drop-after-login:3", "pong-silence:never-pong"}, 1
	default:
		return []string{"cut", "cut-quick:" + dur(50, 900), "cut-quick:" + dur(50, 900)}, 150
	}
}

// bRandomScript composes a PRNG fault sequence (thorough tier, second half of the cases).
func bRandomScript(rng interface{ Intn(int) int }) (phases []string, n int) {
	dur := func(lo, hi int) string { return strconv.Itoa(lo + rng.Intn(hi-lo+1)) }
	kinds := []func() string{
		func() string {
			return "pong-silence:" + []string{"idle", "never-pong", "mid-registration", "workconn-setup"}[rng.Intn(4)]
		},
		func() string { return "pong-error" },
		func() string { return "refused:" + strconv.Itoa(1+rng.Intn(5)) },
		func() string { return "refuse-for:" + dur(1000, 25000) },
		func() string { return "accept-close:" + dur(500, 25000) },
		func() string { return "down:" + dur(500, 25000) },
		func() string { return "drop-after-login:" + strconv.Itoa(2+rng.Intn(7)) },
		func() string { return "drop-for:" + dur(2000, 25000) },
		func() string { return "cut-mid-registration" },
		func() string { return "cut-before-login-reply:" + strconv.Itoa(1+rng.Intn(3)) },
		func() string { return "cut" },
		func() string { return "cut-quick:" + dur(20, 1500) },
		func() string { return "live" },
	}
	for i, m := 0, 1+rng.Intn(4); i < m; i++ {
		phases = append(phases, kinds[rng.Intn(len(kinds))]())
	}
	return phases, []int{1, 20, 150}[rng.Intn(3)]
}

func clientSideCase(c *h.Case, k int) {
	rng := c.Rng
	var phases []string
	var n int
	if k < 32 {
		phases, n = bScript(k, rng, run.Thorough())
	} else {
		phases, n = bRandomScript(rng)
	}
	pair := hbPairs[k%len(hbPairs)]
	mux := (k%2 == 0) != ((k/16)%2 == 1)
	c.Data["phases"], c.Data["proxies"], c.Data["mux"], c.Data["interval_s"], c.Data["timeout_s"] = phases, n, mux, pair.I, pair.T
	user := fmt.Sprintf("b%d", c.Idx)

	e := &bEnv{c: c, pair: pair, mux: mux}
	ports, ok := e.bring("B")
	if !ok {
		return
	}
	defer e.fs.Close()
	defer e.relay.Close()
	var err error

	// loginFailExit speaks about the first login only: when that one is not scripted to fail, every other case
	// leaves the option at its default (true), which must not matter for any later re-login
	defaultFailExit := k%2 == 1 && !strings.HasPrefix(phases[0], "refused-at-start:")
	c.Data["login_fail_exit_default"] = defaultFailExit
	failExitLine := "loginFailExit = false\n"
	if defaultFailExit {
		failExitLine = ""
		run.Count("cases_with_default_loginFailExit", 1)
	}
	var sb strings.Builder
	fmt.Fprintf(&sb, `
serverAddr = "127.0.0.1"
serverPort = %d
user = "%s"
auth.token = "%s"
%stransport.tls.enable = false
transport.tcpMux = %v
transport.poolCount = 0
transport.heartbeatInterval = %d
transport.heartbeatTimeout = %d
`, ports[1], user, token, failExitLine, mux, pair.I, pair.T)
	for i := 0; i < n; i++ {
		name := fmt.Sprintf("p%03d", i)
		e.names = append(e.names, user+"."+name)
		fmt.Fprintf(&sb, "[[proxies]]\nname = \"%s\"\ntype = \"stcp\"\nsecretKey = \"k\"\nlocalIP = \"127.0.0.1\"\nlocalPort = %d\n", name, deadPort)
	}

	// faults that must be in place before the client's very first login
	first := 0
	if strings.HasPrefix(phases[0], "refused-at-start:") {
		cnt, _ := strconv.Atoi(strings.SplitN(phases[0], ":", 2)[1])
		for i := 0; i < cnt; i++ {
			e.fc.push(fakeBeh{Login: "refuse"})
		}
	}
	t0 := h.Now()
	e.cli, err = h.StartClientText(prop, sb.String())
	if err != nil {
		run.Inconclusive("B: client did not start: " + err.Error())
		return
	}
	defer e.cli.Close()
	e.status = &statusProbe{cli: e.cli, names: e.names}
	if strings.HasPrefix(phases[0], "refused-at-start:") {
		cnt, _ := strconv.Atoi(strings.SplitN(phases[0], ":", 2)[1])
		if !e.afterRefusals("refused-at-start", t0, cnt) {
			return
		}
		first = 1
	} else if !e.awaitRecovery("start", t0, t0) {
		return
	}
	for _, ph := range phases[first:] {
		if !e.phase(ph) {
			break
		}
	}
	run.Count("B_timed_client_teardowns", int64(e.timed))
	run.Count("B_recoveries", int64(e.healed))
	if e.timed+e.healed > 0 {
		run.Distinct(fmt.Sprintf("B|%d/%d|mux=%v|n=%d|%s", pair.I, pair.T, mux, n, strings.Join(e.kinds, ",")))
	}
	if k < 2 {
		run.Sample(map[string]any{"family": "B", "phases": phases, "proxies": n, "mux": mux, "interval_s": pair.I, "timeout_s": pair.T, "logins_seen": len(e.fc.logins(0, h.Now(), ""))})
	}
}

// bring starts the scripted server and the fault relay in front of it on fresh ports
// (ports: scripted server, relay); a lost race for a port is retried.
func (e *bEnv) bring(fam string) ([]int, bool) {
	var err error
	for attempt := 0; attempt < 4; attempt++ {
		ports := pa.Block(2)
		e.fc = &fakeCtl{c: e.c, idx: e.c.Idx, byID: map[string]*sessRec{}, confirmed: -1}
		e.fs, err = h.StartFakeServer(h.FakeServerOpts{Port: ports[0], Token: token, TCPMux: e.mux,
			OnLogin:   e.fc.onLogin,
			OnSession: e.fc.onSession,
			OnWorkConn: func(fs *h.FakeServer, conn net.Conn, m *msg.NewWorkConn) {
				e.fc.mu.Lock()
				rec := e.fc.byID[m.RunID]
				e.fc.mu.Unlock()
				w := &wcRec{openedAt: h.Now()}
				if rec != nil {
					rec.mu.Lock()
					rec.workConns = append(rec.workConns, w)
					rec.mu.Unlock()
				}
				_, _ = io.Copy(io.Discard, conn) // never started
				if rec != nil {
					rec.mu.Lock()
					w.endedAt = h.Now()
					rec.mu.Unlock()
				}
				conn.Close()
			},
		})
		if err != nil {
			fmt.Fprintf(os.Stderr, "case %d: scripted server on port %d: %v\n", e.c.Idx, ports[0], err)
			continue
		}
		e.relay, err = startFaultRelay(ports[1], fmt.Sprintf("127.0.0.1:%d", ports[0]))
		if err != nil {
			fmt.Fprintf(os.Stderr, "case %d: relay on port %d: %v\n", e.c.Idx, ports[1], err)
			e.fs.Close()
			continue
		}
		e.fc.relay = e.relay
		return ports, true
	}
	run.Inconclusive(fam + ": scripted server / relay did not start")
	return nil, false
}

func (e *bEnv) healthy(after int64) bool {
	s := e.fc.last()
	if s == nil || s.LoginAt < after || !s.has(e.names) {
		return false
	}
	return e.status.allRunning() == ""
}

// awaitRecovery: from `heal` on the server is reachable and benign; a session logged in at or after `after`
// must own every configured proxy within the recovery grace.
func (e *bEnv) awaitRecovery(kind string, after, heal int64) bool {
	gaveUp := false
	ok := waitUntil(time.Duration(heal-h.Now())+recoveryGrace, func() bool {
		if clientGone(e.cli) {
			gaveUp = true
			return true
		}
		return e.healthy(after)
	})
	now := h.Now()
	if gaveUp {
		e.c.Violation("client-gave-up-after-failed-relogin", "mux=%v, %d proxies, loginFailExit left at its default=%v, fault %s: the frpc service has ended (Service.Run returned) %.1f s after the scripted server was reachable and benign again, although its first login had succeeded: nothing will ever reconnect",
			e.mux, len(e.names), e.c.Data["login_fail_exit_default"], kind, secs(now-heal))
		return false
	}
	if !ok {
		s := e.fc.last()
		have, sn := 0, 0
		if s != nil {
			have, sn = s.view().regs, s.N
		}
		clientSays := e.status.allRunning()
		e.c.Violation("no-recovery-after-"+kind, "mux=%v, %d proxies, heartbeat %d/%d: %.1f s after the scripted server became reachable and benign again frpc has not re-registered everything (logins seen since: %d, last session #%d holds %d of %d registrations; %s)",
			e.mux, len(e.names), e.pair.I, e.pair.T, secs(now-heal), len(e.fc.logins(heal, now, "")), sn, have, len(e.names), clientSays)
		return false
	}
	if kind != "start" {
		e.healed++
		e.kinds = append(e.kinds, kind)
		stats.add("B_recovery_after_"+kind, time.Duration(now-heal))
		if time.Duration(now-heal) > 25*time.Second {
			run.Count("slow_recoveries", 1)
		}
	}
	e.c.Ev("recovered", "after", kind, "t", now, "took_s", secs(now-heal))
	return true
}

func (e *bEnv) checkRate(kind string, times []int64, limit int) {
	n, at := maxInWindow(times, 5*time.Second)
	e.c.Ev("attempt-rate", "phase", kind, "attempts", len(times), "max_in_5s", n)
	run.Count("B_outage_attempts_seen", int64(len(times)))
	if n > limit && lag.Max(at, at+int64(5*time.Second)) > time.Second {
		run.Inconclusive("B: observer stalled while counting attempts")
		return
	}
	if n > limit {
		e.c.Violation("retry-tight-loop", "%s: %d connection / login attempts in the 5 s window starting at t=%.3f s (limit %d; frpc's documented schedule: 1 s x 2^n back-off, at most 3 fast retries of >= 200 ms)", kind, n, secs(at), limit)
	}
}

// afterRefusals waits until cnt scripted refusals were consumed and the server accepts again.
func (e *bEnv) afterRefusals(kind string, start int64, cnt int) bool {
	if !waitUntil(time.Duration(22*cnt+20)*time.Second, func() bool { return e.fc.queued() == 0 }) {
		e.c.Violation("no-retry-after-refused-login", "%s: only %d login attempts within %d s at a server that refuses logins (frpc's back-off is capped at 20 s)", kind, len(e.fc.logins(start, h.Now(), "")), 22*cnt+20)
		return false
	}
	ref := e.fc.logins(start, h.Now(), "refuse")
	heal := h.Now()
	if len(ref) > 0 {
		heal = ref[len(ref)-1]
	}
	e.checkRate(kind, e.fc.logins(start, h.Now(), ""), 10)
	return e.awaitRecovery(kind, start, heal)
}

func (e *bEnv) phase(ph string) bool {
	kind, arg, _ := strings.Cut(ph, ":")
	T := time.Duration(e.pair.T) * time.Second
	I := time.Duration(e.pair.I) * time.Second
	start := h.Now()
	e.c.Ev("phase", "what", ph, "t", start)
	argN, _ := strconv.Atoi(arg)
	switch kind {
	case "live":
		s := e.fc.last()
		v0 := s.view()
		obs := 3*T + time.Second
		time.Sleep(obs)
		v := s.view()
		end := h.Now()
		if v.closedAt != 0 {
			if l := lag.Max(start-int64(T), end); l > lagLimit {
				run.Inconclusive("B: machine too loaded to judge a closed live session")
				return false
			}
			e.c.Violation("client-closed-live-session", "mux=%v heartbeat %d/%d: frpc closed a session whose every ping was answered at once (%d pings, %d pongs) %.3f s after the last pong was written; worst scheduling lag of this process in the span: %v",
				e.mux, e.pair.I, e.pair.T, v.pings, v.pongs, secs(v.closedAt-v.lastPong), lag.Max(start-int64(T), end))
			return false
		}
		got := v.pings - v0.pings
		if max := int(obs/I) + 2; got > max {
			e.c.Violation("heartbeat-flood", "heartbeatInterval %v: %d pings within %v", I, got, obs)
		}
		if got == 0 {
			e.c.Violation("client-sends-no-heartbeats", "heartbeatInterval %v: no ping within %v", I, obs)
		}
		run.Count("B_live_phases_held", 1)
		run.Count("B_pings_seen_live", int64(got))
		e.kinds = append(e.kinds, "live")
		e.timed++
		return true

	case "pong-silence", "pong-error":
		var s *sessRec
		tag := fmt.Sprintf("ph%d", start)
		if kind == "pong-silence" && arg == "idle" {
			s = e.fc.last()
			s.mu.Lock()
			s.goSilent = true
			s.mu.Unlock()
		} else {
			b := benign
			b.Tag = tag
			switch {
			case kind == "pong-error":
				b.PongError = true
			case arg == "never-pong":
				b.PongOK = 0
			case arg == "mid-registration":
				b.AnswerRegs = e.c.Rng.Intn(len(e.names))
				b.PongOK = 1
			case arg == "workconn-setup":
				b.ReqWorkConns = 2
				b.PongOK = 1 + e.c.Rng.Intn(2)
			}
			e.fc.push(b)
			e.relay.CutAll()
			if !waitUntil(recoveryGrace, func() bool { return e.fc.byTag(tag) != nil }) {
				e.c.Violation("no-recovery-after-cut", "no new login within %v after the connection was cut (phase %s)", recoveryGrace, ph)
				return false
			}
			s = e.fc.byTag(tag)
		}
		// the client alone can end this session now
		deadline := time.Duration(3*e.pair.T+10)*time.Second + 2*I
		if !waitUntil(deadline+T, func() bool {
			v := s.view()
			return v.closedAt != 0 || (v.silentFrom != 0 && h.Now()-v.silentFrom > int64(deadline)) || (v.firstErrPong != 0 && h.Now()-v.firstErrPong > int64(deadline))
		}) {
			run.Inconclusive("B: scripted silence was never reached")
			return false
		}
		v := s.view()
		if v.closedAt == 0 {
			if kind == "pong-error" {
				e.c.Violation("session-kept-after-error-pongs", "mux=%v heartbeat %d/%d: frpc still holds the session %.1f s after the first error pong (it received %d error pongs and no valid one)",
					e.mux, e.pair.I, e.pair.T, secs(h.Now()-v.firstErrPong), v.errPongs)
			} else {
				e.c.Violation("silent-server-not-detected", "moment %s, mux=%v heartbeat %d/%d: frpc still holds the session %.1f s after the server stopped answering (watchdog 3x timeout + 10 s)",
					arg, e.mux, e.pair.I, e.pair.T, secs(h.Now()-v.silentFrom))
			}
			return false
		}
		if kind == "pong-silence" {
			base := s.LoginAt
			if v.lastPong > base {
				base = v.lastPong
			}
			span := time.Duration(v.closedAt - base)
			if span < T {
				e.c.Violation("client-closed-session-before-heartbeat-timeout", "moment %s, mux=%v: frpc closed the session %.3f s after the last valid pong (or the login reply) was written; heartbeatTimeout is %v", arg, e.mux, span.Seconds(), T)
			}
			stats.add(fmt.Sprintf("B_last_pong_to_close_T%d", e.pair.T), span)
			if span > T+I+3*time.Second {
				run.Count("slow_teardowns", 1)
			}
		} else {
			stats.add("B_error_pong_to_close", time.Duration(v.closedAt-v.firstErrPong))
		}
		if arg == "workconn-setup" {
			// the work connections the client opened for the dead session are session resources too
			open := func() (n, open int) {
				s.mu.Lock()
				defer s.mu.Unlock()
				for _, w := range s.workConns {
					if w.endedAt == 0 {
						open++
					}
				}
				return len(s.workConns), open
			}
			waitUntil(releaseGrace, func() bool { _, o := open(); return o == 0 })
			if n, o := open(); o > 0 {
				e.c.Violation("client-work-connection-left-open-after-session-death", "mux=%v heartbeat %d/%d: %v after frpc gave up the silent session, %d of the %d work connections it had opened for that session (not yet started by the server) are still open",
					e.mux, e.pair.I, e.pair.T, releaseGrace, o, n)
			} else {
				run.Count("B_pending_work_conns_closed_with_session", int64(n))
			}
		}
		e.timed++
		// a session newer than the silenced one (the fake server may notice the old close after the new login)
		return e.awaitRecovery(ph, s.LoginAt+1, v.closedAt)

	case "refused":
		for i := 0; i < argN; i++ {
			e.fc.push(fakeBeh{Login: "refuse"})
		}
		e.relay.CutAll()
		return e.afterRefusals("refused-logins", start, argN)

	case "refuse-for":
		d := time.Duration(argN) * time.Millisecond
		heal := start + int64(d)
		e.fc.mu.Lock()
		e.fc.refuseUntil = heal
		e.fc.mu.Unlock()
		e.relay.CutAll()
		time.Sleep(d)
		e.checkRate("refused-logins", e.fc.logins(start, heal, ""), 10)
		return e.awaitRecovery("refused-logins", start, heal)

	case "drop-for":
		d := time.Duration(argN) * time.Millisecond
		heal := start + int64(d)
		e.fc.mu.Lock()
		e.fc.dropUntil = heal
		e.fc.mu.Unlock()
		e.relay.CutAll()
		time.Sleep(d)
		e.checkRate("sessions-dropped-after-login", e.fc.logins(start, heal, ""), 10)
		return e.awaitRecovery("dropped-sessions", heal, heal)

	case "cut-before-login-reply":
		for i := 0; i < argN; i++ {
			e.fc.push(fakeBeh{Login: "cut"})
		}
		e.relay.CutAll()
		if !waitUntil(time.Duration(22*argN+20)*time.Second, func() bool { return e.fc.queued() == 0 }) {
			e.c.Violation("no-retry-after-cut-login", "only %d login attempts within %d s when the connection is cut before the login reply", len(e.fc.logins(start, h.Now(), "")), 22*argN+20)
			return false
		}
		cl := e.fc.logins(start, h.Now(), "cut")
		e.checkRate("cut-before-login-reply", e.fc.logins(start, h.Now(), ""), 10)
		return e.awaitRecovery("cut-before-login-reply", start, cl[len(cl)-1])

	case "silent-logins":
		for i := 0; i < argN; i++ {
			e.fc.push(fakeBeh{Login: "silent"})
		}
		e.relay.CutAll()
		if !waitUntil(time.Duration(35*argN+20)*time.Second, func() bool { return e.fc.queued() == 0 }) {
			e.c.Violation("no-retry-after-unanswered-login", "only %d login attempts within %d s at a server that does not answer logins", len(e.fc.logins(start, h.Now(), "")), 35*argN+20)
			return false
		}
		sl := e.fc.logins(start, h.Now(), "silent")
		heal := sl[len(sl)-1] + int64(10*time.Second) // frpc waits 10 s for the login reply
		e.checkRate("silent-logins", e.fc.logins(start, h.Now(), ""), 10)
		return e.awaitRecovery("unanswered-logins", start, heal)

	case "accept-close", "down":
		d := time.Duration(argN) * time.Millisecond
		if kind == "down" {
			e.relay.Down()
		} else {
			e.relay.refuse.Store(true)
			e.relay.CutAll()
		}
		time.Sleep(d)
		heal := h.Now()
		if kind == "down" {
			if err := e.relay.Up(); err != nil {
				run.Inconclusive("B: relay could not listen again")
				return false
			}
		} else {
			e.relay.refuse.Store(false)
			e.checkRate("accept-close-outage", e.relay.Accepts(start, heal), 10)
		}
		return e.awaitRecovery(kind+"-outage", start, heal)

	case "drop-after-login":
		for i := 0; i < argN; i++ {
			e.fc.push(fakeBeh{Login: "accept", PongOK: -1, AnswerRegs: -1, Drop: true, DropAfter: time.Duration(e.c.Rng.Intn(100)) * time.Millisecond})
		}
		e.relay.CutAll()
		if !waitUntil(time.Duration(22*argN+20)*time.Second, func() bool {
			if e.fc.queued() != 0 {
				return false
			}
			s := e.fc.last()
			return s != nil && (!s.Beh.Drop || s.view().closedAt != 0)
		}) {
			e.c.Violation("no-retry-after-dropped-session", "only %d logins within %d s at a server that drops every session right after login", len(e.fc.logins(start, h.Now(), "")), 22*argN+20)
			return false
		}
		heal := h.Now()
		e.checkRate("sessions-dropped-after-login", e.fc.logins(start, heal, ""), 10)
		return e.awaitRecovery("dropped-sessions", start, heal)

	case "cut-mid-registration":
		tag := fmt.Sprintf("ph%d", start)
		b := benign
		b.Tag = tag
		b.CutAfterRegs = 1 + e.c.Rng.Intn(len(e.names))
		e.fc.push(b)
		e.relay.CutAll()
		if !waitUntil(recoveryGrace, func() bool { s := e.fc.byTag(tag); return s != nil && s.view().closedAt != 0 }) {
			e.c.Violation("no-recovery-after-cut", "no new login within %v after the connection was cut (phase %s)", recoveryGrace, ph)
			return false
		}
		heal := e.fc.byTag(tag).view().closedAt
		return e.awaitRecovery("cut-mid-registration", e.fc.byTag(tag).LoginAt+1, heal)

	case "cut", "cut-quick":
		if kind == "cut-quick" {
			// cut again shortly after the previous recovery began: hits the re-login while the old session is still being torn down
			time.Sleep(time.Duration(argN) * time.Millisecond)
			start = h.Now()
		}
		e.relay.CutAll()
		return e.awaitRecovery("cut", start, start)
	}
	run.Inconclusive("B: unknown phase " + ph)
	return false
}

// Family E: heartbeatTimeout equal to heartbeatInterval — the smallest timeout the configuration accepts.
// Either the configuration is refused, or a session whose every ping is answered at once must stay up.
func equalSettingsCase(c *h.Case, k int) {
	v := 1 + k%3
	mux := (k/3)%2 == 0
	pair := hb{I: v, T: v}
	c.Data["mux"], c.Data["interval_s"], c.Data["timeout_s"] = mux, v, v
	user := fmt.Sprintf("e%d", c.Idx)
	e := &bEnv{c: c, pair: pair, mux: mux}
	ports, ok := e.bring("E")
	if !ok {
		return
	}
	defer e.fs.Close()
	defer e.relay.Close()
	var err error
	e.names = []string{user + ".p000"}
	t0 := h.Now()
	e.cli, err = h.StartClientText(prop, fmt.Sprintf(`
serverAddr = "127.0.0.1"
serverPort = %d
user = "%s"
auth.token = "%s"
loginFailExit = false
transport.tls.enable = false
transport.tcpMux = %v
transport.poolCount = 0
transport.heartbeatInterval = %d
transport.heartbeatTimeout = %d
[[proxies]]
name = "p000"
type = "stcp"
secretKey = "k"
localIP = "127.0.0.1"
localPort = %d
`, ports[1], user, token, mux, v, v, deadPort))
	if err != nil {
		if strings.Contains(err.Error(), "heartbeat") {
			run.Count("E_settings_refused_by_validation", 1)
			run.Distinct(fmt.Sprintf("E|%d/%d|mux=%v|refused", v, v, mux))
			c.Ev("refused", "err", err.Error())
			return
		}
		run.Inconclusive("E: client did not start: " + err.Error())
		return
	}
	defer e.cli.Close()
	e.status = &statusProbe{cli: e.cli, names: e.names}
	if !e.awaitRecovery("start", t0, t0) {
		return
	}
	start := h.Now()
	obs := time.Duration(6*v+2) * time.Second
	time.Sleep(obs)
	end := h.Now()
	e.fc.mu.Lock()
	sess := append([]*sessRec(nil), e.fc.sess...)
	e.fc.mu.Unlock()
	for _, s := range sess {
		sv := s.view()
		if sv.closedAt == 0 {
			continue
		}
		if l := lag.Max(start-int64(time.Duration(v)*time.Second), end); l > lagLimit {
			run.Inconclusive("E: machine too loaded to judge a closed live session")
			return
		}
		c.Violation("live-session-torn-down-when-timeout-equals-interval", "mux=%v, heartbeatInterval = heartbeatTimeout = %d s (accepted by the configuration validation): frpc closed a session whose every ping was answered at once (%d pings, %d pongs) %.3f s after the last pong was written; %d logins within %v",
			mux, v, sv.pings, sv.pongs, secs(sv.closedAt-sv.lastPong), len(sess), obs)
		return
	}
	run.Count("E_live_phases_held", 1)
	run.Distinct(fmt.Sprintf("E|%d/%d|mux=%v|held", v, v, mux))
}
