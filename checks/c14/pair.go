package main

import (
	"fmt"
	"net"
	"os"
	"sort"
	"strconv"
	"strings"
	"sync/atomic"
	"time"

	"github.com/fatedier/frp/pkg/msg"

	"verif/h"
)

// Family C: real frpc <-> fault relay <-> real frps (in-process, or a sacrificial child: uses vnode).

type cEnv struct {
	c          *h.Case
	pair       hb
	mux        bool
	n          int
	user       string
	names      []string // as frpc and frps know them ("<user>.<name>"), sorted; derived from proxies
	tcpNames   []string
	tcpPorts   []int
	header     string   // common part of the client configuration
	proxies    []pxSpec // the configuration in force (changed by reloads)
	visitors   []visSpec
	removed    []string // names taken out by a reload: must be gone at the client and at the server
	gonePorts  []int    // remote ports given up by a reload: must not be bound any more
	nextIdx    int
	srvT       int    // heartbeatTimeout of frps (0: the same as the client\'s)
	reloadNote string // set once a reload was applied during an outage: what was reloaded when
	srvText    string
	srv        *h.Server
	child      *h.Child
	useChild   bool
	relay      *faultRelay
	cli        *h.Client
	status     *statusProbe
	be         *h.TCPBackend
	ident      string
	runID      string
	logins     atomic.Int64 // server.registerControl.beforeStart hits for runID
	loginsAt   int64        // value of logins when the current fault phase began
	acceptAt   int          // relay accept count when the current fault phase began
	kinds      []string
	healed     int
	timed      int
}

type pxSpec struct {
	name       string // without the user prefix
	tcp        bool
	remotePort int
}

type visSpec struct {
	name, server string
	port         int
}

// configText renders the configuration in force.
func (e *cEnv) configText() string {
	var sb strings.Builder
	sb.WriteString(e.header)
	for _, p := range e.proxies {
		if p.tcp {
			fmt.Fprintf(&sb, "[[proxies]]\nname = \"%s\"\ntype = \"tcp\"\nlocalIP = \"127.0.0.1\"\nlocalPort = %d\nremotePort = %d\n", p.name, e.be.Port, p.remotePort)
		} else {
			fmt.Fprintf(&sb, "[[proxies]]\nname = \"%s\"\ntype = \"stcp\"\nsecretKey = \"k\"\nlocalIP = \"127.0.0.1\"\nlocalPort = %d\n", p.name, e.be.Port)
		}
	}
	for _, v := range e.visitors {
		fmt.Fprintf(&sb, "[[visitors]]\nname = \"%s\"\ntype = \"stcp\"\nserverName = \"%s\"\nsecretKey = \"k\"\nbindAddr = \"127.0.0.1\"\nbindPort = %d\n", v.name, v.server, v.port)
	}
	return sb.String()
}

// derive recomputes the name / port lists the oracles use from the configuration in force.
func (e *cEnv) derive() {
	e.names, e.tcpNames, e.tcpPorts = nil, nil, nil
	for _, p := range e.proxies {
		e.names = append(e.names, e.user+"."+p.name)
		if p.tcp {
			e.tcpNames = append(e.tcpNames, e.user+"."+p.name)
			e.tcpPorts = append(e.tcpPorts, p.remotePort)
		}
	}
	sort.Strings(e.names)
	e.n = len(e.proxies)
	if e.cli != nil {
		e.status = &statusProbe{cli: e.cli, names: e.names, absent: e.removed}
	}
}

func cScript(k int, rng interface{ Intn(int) int }, thorough bool) (phases []string, n int, child bool) {
	maxOut := 6000
	if thorough {
		maxOut = 25000
	}
	dur := func(lo, hi int) string { return strconv.Itoa(lo + rng.Intn(hi-lo+1)) }
	switch k % 12 {
	case 0:
		return []string{"steady", "cut-while-login-parked:1", "stall"}, 1, false
	case 1:
		return []string{"restart:" + dur(300, maxOut), "cut-quick:" + dur(20, 800)}, 20, false
	case 2:
		return []string{"cut", "cut-mid-registration", "cut-while-login-parked:1"}, 150, false
	case 3:
		return []string{"stall", "cut-while-login-parked:2", "refuse:" + dur(500, maxOut)}, 20, false
	case 4:
		return []string{"restart:" + dur(300, 4000), "steady"}, 150, false
	case 5:
		return []string{"down:" + dur(500, maxOut), "restart:" + dur(300, 3000), "cut"}, 1, false
	case 6:
		return []string{"traffic-cut", "blackhole"}, 20, false
	case 7:
		return []string{"refuse:" + dur(500, maxOut), "cut-quick:" + dur(20, 800), "cut-quick:" + dur(20, 800)}, 150, false
	case 8:
		return []string{"restart:" + dur(300, 4000), "cut"}, 1, true
	case 9:
		return []string{"steady", "down:" + dur(500, maxOut), "cut-while-login-parked:" + strconv.Itoa(1+rng.Intn(2))}, 20, false
	case 10:
		return []string{"blackhole", "restart:" + dur(300, 3000)}, 150, false
	default:
		return []string{"cut-mid-registration", "restart:" + dur(300, 3000), "refuse:" + dur(500, 4000)}, 20, false
	}
}

func cRandomScript(rng interface{ Intn(int) int }) (phases []string, n int, child bool) {
	dur := func(lo, hi int) string { return strconv.Itoa(lo + rng.Intn(hi-lo+1)) }
	kinds := []func() string{
		func() string { return "cut" },
		func() string { return "cut-quick:" + dur(10, 1500) },
		func() string { return "stall" },
		func() string { return "blackhole" },
		func() string { return "refuse:" + dur(500, 25000) },
		func() string { return "down:" + dur(500, 25000) },
		func() string { return "restart:" + dur(200, 25000) },
		func() string { return "cut-mid-registration" },
		func() string { return "cut-while-login-parked:" + strconv.Itoa(1+rng.Intn(2)) },
		func() string { return "traffic-cut" },
		func() string { return "steady" },
	}
	for i, m := 0, 1+rng.Intn(4); i < m; i++ {
		phases = append(phases, kinds[rng.Intn(len(kinds))]())
	}
	return phases, []int{1, 20, 150}[rng.Intn(3)], rng.Intn(5) == 0
}

func pairCase(c *h.Case, k int) {
	rng := c.Rng
	var phases []string
	e := &cEnv{c: c}
	if k < 24 {
		phases, e.n, e.useChild = cScript(k, rng, run.Thorough())
	} else {
		phases, e.n, e.useChild = cRandomScript(rng)
	}
	e.pair = hbPairs[(k+k/12)%len(hbPairs)]
	e.mux = (k%2 == 0) != ((k/12)%2 == 1)
	runPair(c, e, phases, "C", k < 2)
}

// runPair sets up frps, relay, backend and frpc for e (pair, mux, n, useChild chosen by the caller) and runs the phases.
func runPair(c *h.Case, e *cEnv, phases []string, fam string, sample bool) {
	rng := c.Rng
	scope := rng.Intn(2) == 0
	pool := rng.Intn(2)
	e.user = fmt.Sprintf("c%d", c.Idx)
	c.Data["phases"], c.Data["proxies"], c.Data["mux"], c.Data["interval_s"], c.Data["timeout_s"], c.Data["child_server"], c.Data["heartbeat_scope"], c.Data["pool"] =
		phases, e.n, e.mux, e.pair.I, e.pair.T, e.useChild, scope, pool

	scopeLine := ""
	if scope {
		scopeLine = "auth.additionalScopes = [\"HeartBeats\"]\n"
	}
	srvT := e.pair.T
	if e.srvT != 0 {
		srvT = e.srvT
	}
	c.Data["server_heartbeat_timeout_s"] = srvT
	var ports []int
	var err error
	up := false
	for attempt := 0; attempt < 4 && !up; attempt++ {
		ports = pa.Block(5) // server, relay, tcp proxy 0, tcp proxy 1, visitor bind port
		e.srvText = fmt.Sprintf(`
bindAddr = "127.0.0.1"
bindPort = %d
auth.token = "%s"
%sallowPorts = [{start=24000,end=24999}]
userConnTimeout = 3
transport.tcpMux = %v
transport.heartbeatTimeout = %d
transport.maxPoolCount = 2
`, ports[0], token, scopeLine, e.mux, srvT)
		if !e.startServer(1) {
			continue
		}
		e.relay, err = startFaultRelay(ports[1], fmt.Sprintf("127.0.0.1:%d", ports[0]))
		if err != nil {
			fmt.Fprintf(os.Stderr, "case %d: relay on port %d: %v\n", c.Idx, ports[1], err)
			e.stopServer()
			continue
		}
		up = true
	}
	if !up {
		run.Inconclusive("C: frps / relay did not start")
		return
	}
	defer e.stopServer()
	defer e.relay.Close()
	e.ident = fmt.Sprintf("BK%d", c.Idx)
	e.be, err = h.StartTCPBackend(0, h.IdentEcho(e.ident))
	if err != nil {
		run.Inconclusive("C: backend did not start")
		return
	}
	defer e.be.Close()

	// loginFailExit only speaks about the FIRST login (which succeeds here: frps is up before frpc starts); in half of
	// the cases it is left at its default (true): it must not matter for any later re-login
	defaultFailExit := rng.Intn(2) == 0
	c.Data["login_fail_exit_default"] = defaultFailExit
	failExitLine := "loginFailExit = false\n"
	if defaultFailExit {
		failExitLine = ""
		run.Count("cases_with_default_loginFailExit", 1)
	}
	e.header = fmt.Sprintf(`
serverAddr = "127.0.0.1"
serverPort = %d
user = "%s"
auth.token = "%s"
%s%stransport.tls.enable = false
transport.tcpMux = %v
transport.poolCount = %d
transport.heartbeatInterval = %d
transport.heartbeatTimeout = %d
`, ports[1], e.user, token, scopeLine, failExitLine, e.mux, pool, e.pair.I, e.pair.T)
	nTCP := 1
	if e.n > 1 {
		nTCP = 2
	}
	for i := 0; i < e.n; i++ {
		s := pxSpec{name: fmt.Sprintf("p%03d", i), tcp: i < nTCP}
		if s.tcp {
			s.remotePort = ports[2+i]
		}
		e.proxies = append(e.proxies, s)
	}
	e.nextIdx = e.n
	if e.n >= 3 {
		// a visitor of the same client to one of its own stcp proxies: the visitor path must heal as well
		e.visitors = append(e.visitors, visSpec{name: "v0", server: "p002", port: ports[4]})
	}
	e.derive()
	t0 := h.Now()
	e.cli, err = h.StartClientText(prop, e.configText())
	if err != nil {
		run.Inconclusive("C: client did not start: " + err.Error())
		return
	}
	defer e.cli.Close()
	e.derive()
	if !e.awaitRecovery("start", t0) {
		return
	}
	if e.srv != nil {
		for _, s := range e.srv.Snapshot().Sessions {
			if s.User == e.user {
				e.runID = s.RunID
			}
		}
		if e.runID == "" {
			run.Inconclusive("C: session not found in the server's table")
			return
		}
		rm := h.OnHook("server.registerControl.beforeStart", e.runID, func(string, []any) { e.logins.Add(1) })
		defer rm()
	}
	ok := true
	for _, ph := range phases {
		if ok = e.phase(ph); !ok {
			break
		}
	}
	if ok {
		e.finalLedger()
	}
	run.Count(fam+"_recoveries", int64(e.healed))
	run.Count(fam+"_timed_or_steady_phases", int64(e.timed))
	if e.healed+e.timed > 0 {
		run.Distinct(fmt.Sprintf("%s|%d/%d|mux=%v|n=%d|child=%v|%s", fam, e.pair.I, e.pair.T, e.mux, e.n, e.useChild, strings.Join(e.kinds, ",")))
	}
	if sample {
		run.Sample(map[string]any{"family": fam, "phases": phases, "proxies": e.n, "mux": e.mux, "interval_s": e.pair.I, "timeout_s": e.pair.T, "connection_attempts_seen": e.relay.AcceptCount()})
	}
}

// startServer starts frps (tries: how often binding its own, just released, port is retried).
func (e *cEnv) startServer(tries int) bool {
	var err error
	for i := 0; i < tries; i++ {
		if e.useChild {
			e.child, err = h.StartChild(prop, "frps", e.srvText)
		} else {
			e.srv, err = h.StartServerText(prop, e.srvText)
		}
		if err == nil {
			return true
		}
		e.child, e.srv = nil, nil
		time.Sleep(100 * time.Millisecond)
	}
	fmt.Fprintf(os.Stderr, "case %d: frps did not start: %v\n", e.c.Idx, err)
	e.c.Ev("server-start-failed", "err", err.Error())
	return false
}

func (e *cEnv) stopServer() {
	if e.child != nil {
		e.child.Kill()
		e.child = nil
	}
	if e.srv != nil {
		e.srv.Close()
		e.srv = nil
	}
}

func (e *cEnv) probe(i int) error {
	id, err := h.AskIdent(fmt.Sprintf("127.0.0.1:%d", e.tcpPorts[i]), 5*time.Second)
	if err != nil {
		return err
	}
	if id != e.ident+"|" {
		return fmt.Errorf("answered by %q", id)
	}
	return nil
}

// relogged: a login happened since the current fault phase began (a stale pre-fault state must not pass as recovery).
func (e *cEnv) relogged() bool {
	if e.srv != nil && e.runID != "" {
		return e.logins.Load() > e.loginsAt
	}
	return e.relay.AcceptCount() > e.acceptAt
}

// healthy: every proxy "running" at the client, registered at the server, and the tcp tunnels carry an echo.
func (e *cEnv) healthy() (bool, string) {
	if why := e.status.allRunning(); why != "" {
		return false, why
	}
	if e.srv != nil {
		have := map[string]bool{}
		for _, n := range e.srv.Snapshot().ProxyNames {
			have[n] = true
		}
		for _, n := range e.names {
			if !have[n] {
				return false, "server: " + n + " not registered"
			}
			delete(have, n)
		}
		for n := range have {
			if strings.HasPrefix(n, e.user+".") {
				return false, "server: " + n + " is registered but not configured"
			}
		}
		if len(e.gonePorts) > 0 {
			lp := h.OwnTCPListenPorts()
			for _, port := range e.gonePorts {
				if lp[port] {
					return false, fmt.Sprintf("server: port %d, given up by the last configuration, is still bound", port)
				}
			}
		}
	}
	for i := range e.tcpPorts {
		if err := e.probe(i); err != nil {
			return false, fmt.Sprintf("echo through %s: %v", e.tcpNames[i], err)
		}
	}
	for _, v := range e.visitors {
		id, err := h.AskIdent(fmt.Sprintf("127.0.0.1:%d", v.port), 5*time.Second)
		if err != nil || id != e.ident+"|" {
			return false, fmt.Sprintf("echo through the stcp visitor %s: %q %v", v.name, id, err)
		}
	}
	return true, ""
}

func (e *cEnv) awaitRecovery(kind string, heal int64) bool {
	var why string
	gaveUp := false
	ok := waitUntil(time.Duration(heal-h.Now())+recoveryGrace, func() bool {
		if clientGone(e.cli) {
			gaveUp = true
			return true
		}
		if kind != "start" && !e.relogged() {
			why = "no login since the fault"
			return false
		}
		var good bool
		good, why = e.healthy()
		return good
	})
	now := h.Now()
	if gaveUp {
		e.c.Violation("client-gave-up-after-failed-relogin", "mux=%v, %d proxies, loginFailExit left at its default=%v, fault %s: the frpc service has ended (Service.Run returned) %.1f s after the server was reachable again, although its first login had succeeded: nothing will ever reconnect",
			e.mux, e.n, e.c.Data["login_fail_exit_default"], kind, secs(now-heal))
		return false
	}
	if !ok {
		if e.child != nil && e.child.Exited() {
			run.Inconclusive("C: child frps exited")
			return false
		}
		if e.reloadNote != "" && e.relogged() {
			// the client did log in again: what is wrong is which configuration the new session runs
			e.c.Violation("recovered-session-runs-stale-configuration", "mux=%v heartbeat %d/%d, %s: %.1f s after the server was reachable again frpc is logged in, but the tunnels do not match the configuration in force (%d proxies, %d visitors): %s",
				e.mux, e.pair.I, e.pair.T, e.reloadNote, secs(now-heal), len(e.proxies), len(e.visitors), why)
			return false
		}
		e.c.Violation("no-recovery-after-"+kind, "mux=%v, %d proxies, heartbeat %d/%d: %.1f s after the server was reachable again the tunnels are not back (%s); connection attempts since: %d; sessions of this client in frps's table: %d",
			e.mux, e.n, e.pair.I, e.pair.T, secs(now-heal), why, len(e.relay.Accepts(heal, now)), e.sessionsOfUser())
		return false
	}
	if kind != "start" {
		e.healed++
		e.kinds = append(e.kinds, kind)
		stats.add("C_recovery_after_"+kind, time.Duration(now-heal))
		if time.Duration(now-heal) > 25*time.Second {
			run.Count("slow_recoveries", 1)
		}
	}
	e.c.Ev("recovered", "after", kind, "t", now, "took_s", secs(now-heal))
	return true
}

func (e *cEnv) checkRate(kind string, from, to int64) {
	ts := e.relay.Accepts(from, to)
	n, at := maxInWindow(ts, 5*time.Second)
	e.c.Ev("attempt-rate", "phase", kind, "attempts", len(ts), "max_in_5s", n)
	run.Count("C_outage_attempts_seen", int64(len(ts)))
	if n > 10 && lag.Max(at, at+int64(5*time.Second)) > time.Second {
		run.Inconclusive("C: observer stalled while counting attempts")
		return
	}
	if n > 10 {
		e.c.Violation("retry-tight-loop", "%s: %d connection attempts in the 5 s window starting at t=%.3f s while the server was unreachable (limit 10)", kind, n, secs(at))
	}
}

func (e *cEnv) sessionPresent() bool {
	for _, s := range e.srv.Snapshot().Sessions {
		if s.RunID == e.runID {
			return true
		}
	}
	return false
}

func (e *cEnv) phase(ph string) bool {
	kind, arg, _ := strings.Cut(ph, ":")
	argN, _ := strconv.Atoi(arg)
	T := time.Duration(e.pair.T) * time.Second
	start := h.Now()
	e.c.Ev("phase", "what", ph, "t", start)
	e.loginsAt, e.acceptAt = e.logins.Load(), e.relay.AcceptCount()
	switch kind {
	case "steady":
		before := e.logins.Load()
		acc := e.relay.AcceptCount()
		obs := 3*T + time.Second
		time.Sleep(obs)
		end := h.Now()
		relogin := e.logins.Load() != before
		if e.srv == nil {
			// child server: no hook; with tcpMux every stream shares one TCP connection, so a new accept is a new login
			relogin = e.mux && e.relay.AcceptCount() != acc
		}
		if relogin {
			if l := lag.Max(start, end); l > lagLimit {
				run.Inconclusive("C: machine too loaded to judge a re-login in a steady phase")
				return false
			}
			e.c.Violation("live-session-torn-down", "mux=%v heartbeat %d/%d, %d proxies, no fault injected: frpc logged in again during a steady phase of %v (worst scheduling lag of this process: %v)",
				e.mux, e.pair.I, e.pair.T, e.n, obs, lag.Max(start, end))
			return false
		}
		if good, why := e.healthy(); !good {
			e.c.Violation("live-session-not-functional", "no fault injected, after a steady phase of %v: %s", obs, why)
			return false
		}
		run.Count("C_steady_phases_held", 1)
		e.kinds = append(e.kinds, "steady")
		e.timed++
		return true

	case "cut", "cut-quick":
		if kind == "cut-quick" {
			time.Sleep(time.Duration(argN) * time.Millisecond)
			start = h.Now()
		}
		e.relay.CutAll()
		return e.awaitRecovery("cut", start)

	case "traffic-cut":
		var moved atomic.Int64
		uc, err := net.DialTimeout("tcp", fmt.Sprintf("127.0.0.1:%d", e.tcpPorts[0]), 3*time.Second)
		if err == nil {
			if _, err = h.AskIdentOn(uc, 5*time.Second); err == nil {
				go func() {
					defer uc.Close()
					buf := make([]byte, 256)
					for {
						_ = uc.SetDeadline(time.Now().Add(2 * time.Second))
						if _, err := uc.Write(buf); err != nil {
							return
						}
						n, err := uc.Read(buf)
						if err != nil {
							return
						}
						moved.Add(int64(n))
					}
				}()
				time.Sleep(time.Duration(50+e.c.Rng.Intn(300)) * time.Millisecond)
			} else {
				uc.Close()
			}
		}
		start = h.Now()
		e.relay.CutAll()
		run.Count("C_bytes_in_flight_before_cut", moved.Load())
		return e.awaitRecovery("cut-during-traffic", start)

	case "cut-mid-registration":
		e.relay.CutAll()
		partial := false
		if e.srv != nil {
			deadline := time.Now().Add(15 * time.Second)
			for time.Now().Before(deadline) && !partial {
				for _, s := range e.srv.Snapshot().Sessions {
					if s.RunID == e.runID && (len(s.Proxies) > 0 || e.n == 1) && len(s.Proxies) < e.n {
						partial = true
					}
				}
				if !partial {
					time.Sleep(time.Millisecond)
				}
			}
		} else {
			time.Sleep(300 * time.Millisecond)
		}
		if partial {
			run.Count("C_cuts_with_registration_in_progress", 1)
		}
		start = h.Now()
		e.relay.CutAll()
		return e.awaitRecovery("cut-mid-registration", start)

	case "stall", "blackhole":
		grace := teardownGrace(e.pair.T)
		if kind == "blackhole" {
			// nobody reads any more while user streams keep both ends writing: their TCP buffers fill up. With tcpMux
			// every stream close on the dead session then waits for yamux's 10 s connection write timeout, one after
			// the other, until yamux's own keep-alive (30 s + 10 s) gives the whole connection up: observed 40 s for
			// heartbeatTimeout 2 s. That is late, not never: the watchdog covers these timers as well.
			grace += 55 * time.Second
			for i := 0; i < 2; i++ {
				if uc, err := net.DialTimeout("tcp", fmt.Sprintf("127.0.0.1:%d", e.tcpPorts[0]), 3*time.Second); err == nil {
					defer uc.Close()
					go func() {
						buf := make([]byte, 64*1024)
						for {
							_ = uc.SetWriteDeadline(time.Now().Add(60 * time.Second))
							if _, err := uc.Write(buf); err != nil {
								return
							}
						}
					}()
					go func() {
						buf := make([]byte, 64*1024)
						for {
							if _, err := uc.Read(buf); err != nil {
								return
							}
						}
					}()
				}
			}
			time.Sleep(200 * time.Millisecond)
			start = h.Now()
		}
		// the connections that must not survive the session (judged as they are when the silence begins)
		type mustDie struct {
			p    *relayPair
			what string
		}
		var must []mustDie
		for _, p := range e.relay.Live() {
			if yes, what := p.dieWithSession(e.mux); yes {
				must = append(must, mustDie{p, what})
			}
		}
		frozen := kind == "blackhole"
		if frozen {
			e.relay.freeze.Store(true)
			stopWatch := make(chan struct{})
			defer close(stopWatch)
			go e.relay.watchSockets(stopWatch)
		} else {
			e.relay.stall.Store(true)
		}
		// both ends must give the session up on their own
		cliGone := func(p *relayPair) int64 {
			if frozen {
				return p.clientGone.Load() // the frozen relay does not pass a close on: each end is seen separately
			}
			if p.ender.Load() != 0 {
				return p.endedAt.Load() // a stalled relay passes the first close on: either end may have been first
			}
			return 0
		}
		srvGone := func(p *relayPair) int64 {
			if frozen && !e.mux && e.srv != nil {
				return p.serverGone.Load()
			}
			return 1 // with tcpMux frps keeps the shared TCP connection of a dead control stream: not judged
		}
		srvDone := func() bool { return e.srv == nil || !e.sessionPresent() }
		waitUntil(grace, func() bool {
			for _, m := range must {
				if cliGone(m.p) == 0 || srvGone(m.p) == 0 {
					return false
				}
			}
			return srvDone()
		})
		now := h.Now()
		bad := false
		if srvDone() && e.srv != nil {
			stats.add(fmt.Sprintf("C_%s_to_server_session_gone_T%d_mux=%v", kind, e.pair.T, e.mux), time.Duration(now-start))
			if time.Duration(now-start) > T+5*time.Second {
				run.Count("slow_teardowns", 1)
			}
		}
		if frozen {
			st := tcpStates()
			for _, m := range must {
				cl, cr := m.p.client.LocalAddr().(*net.TCPAddr).Port, m.p.client.RemoteAddr().(*net.TCPAddr).Port
				sl, sr := m.p.server.LocalAddr().(*net.TCPAddr).Port, m.p.server.RemoteAddr().(*net.TCPAddr).Port
				e.c.Ev("frozen-pair", "what", m.what, "first_up", string(rune(m.p.firstUp.Load())), "down_bytes", m.p.downBytes.Load(),
					"relay_client_sock", st[[2]int{cl, cr}], "frpc_sock", st[[2]int{cr, cl}], "relay_server_sock", st[[2]int{sl, sr}], "frps_sock", st[[2]int{sr, sl}],
					"client_gone", m.p.clientGone.Load(), "server_gone", m.p.serverGone.Load())
			}
		}
		if !srvDone() {
			e.c.Violation("silent-session-not-torn-down", "real frpc behind a relay in %s mode (no data passes), mux=%v heartbeatTimeout %v: frps still lists the session %.1f s after the silence began", kind, e.mux, T, secs(now-start))
			bad = true
		}
		for _, m := range must {
			if t := cliGone(m.p); t == 0 {
				key := "silent-server-not-detected"
				if strings.HasPrefix(m.what, "a work connection") {
					key = "client-work-connection-left-open-after-session-death"
				}
				e.c.Violation(key, "relay in %s mode (no data passes), mux=%v heartbeat %d/%d: %s is still held open by frpc %.1f s after the silence began", kind, e.mux, e.pair.I, e.pair.T, m.what, secs(now-start))
				bad = true
			} else {
				stats.add(fmt.Sprintf("C_%s_to_client_close_T%d", kind, e.pair.T), time.Duration(t-start))
				if time.Duration(t-start) > T+5*time.Second {
					run.Count("slow_teardowns", 1)
				}
			}
			if srvGone(m.p) == 0 && srvDone() {
				key := "silent-session-not-torn-down"
				if strings.HasPrefix(m.what, "a work connection") {
					key = "dead-session-resource-not-released:pooled-work-connection"
				}
				e.c.Violation(key, "relay in %s mode, mux=%v heartbeatTimeout %v: %s is still held open by frps %.1f s after the silence began", kind, e.mux, T, m.what, secs(now-start))
				bad = true
			}
		}
		if !bad && e.srv != nil {
			// the dead session's ports must be free again while nobody can log in
			var still int
			if !waitUntil(releaseGrace, func() bool {
				lp := h.OwnTCPListenPorts()
				for _, port := range e.tcpPorts {
					if lp[port] {
						still = port
						return false
					}
				}
				return true
			}) {
				e.c.Violation("dead-session-resource-not-released:os-listener", "frps dropped the silent session of %s but port %d is still bound %v later", e.user, still, releaseGrace)
				bad = true
			}
		}
		e.relay.stall.Store(false)
		e.relay.CutAll()
		e.relay.freeze.Store(false)
		if bad {
			return false
		}
		e.timed++
		return e.awaitRecovery(kind, h.Now())

	case "reload-outage":
		return e.reloadOutage(arg)

	case "frozen-loss-then-refused-login":
		// the path goes dead without FIN / RST: frps (long heartbeat timeout) keeps the session, only frpc's own
		// heartbeat check notices. The next argN logins are refused (LoginResp with an error, by a scripted server the
		// relay diverts them to); the login after that reaches frps, which must recognise the client by its run id,
		// replace the stale session and take the registrations.
		if argN < 1 {
			argN = 1
		}
		var refusedAt atomic.Int64
		var refused atomic.Int64
		var fs *h.FakeServer
		var err error
		for try := 0; try < 4; try++ {
			fs, err = h.StartFakeServer(h.FakeServerOpts{Port: pa.Get(), Token: token, TCPMux: e.mux,
				OnLogin: func(fs *h.FakeServer, l *msg.Login) (*msg.LoginResp, bool) {
					refused.Add(1)
					refusedAt.Store(h.Now())
					e.c.Ev("diverted-login-refused", "run_id", l.RunID, "t", h.Now())
					return &msg.LoginResp{Error: "refused by script"}, true
				}})
			if err == nil {
				break
			}
		}
		if err != nil {
			run.Inconclusive("C: refusing server did not start")
			return false
		}
		defer fs.Close()
		frozen := e.relay.FreezeLive()
		defer e.relay.CutPairs(frozen)
		e.relay.Divert(fmt.Sprintf("127.0.0.1:%d", fs.Port), argN)
		if !waitUntil(teardownGrace(e.pair.T)+time.Duration(22*argN)*time.Second, func() bool { return refused.Load() >= int64(argN) }) {
			e.c.Violation("silent-server-not-detected", "frozen path, mux=%v heartbeat %d/%d: only %d login attempts %.1f s after the path went dead", e.mux, e.pair.I, e.pair.T, refused.Load(), secs(h.Now()-start))
			return false
		}
		run.Count("F_refused_logins_after_frozen_loss", refused.Load())
		return e.awaitRecovery("frozen-loss-then-refused-login", refusedAt.Load())

	case "cut-while-login-parked":
		if e.srv == nil || e.runID == "" {
			e.relay.CutAll() // child server: no hook point, plain cut
			return e.awaitRecovery("cut", start)
		}
		if argN < 1 {
			argN = 1
		}
		for rep := 0; rep < argN; rep++ {
			// the re-login (same run id) is parked between "control entered in the session table" and the login reply
			gate := h.NewGate("server.registerControl.beforeStart", e.runID, 1)
			e.relay.CutAll()
			if !gate.WaitArrived(recoveryGrace) {
				gate.Release()
				key := "no-recovery-after-cut"
				if rep > 0 {
					key = "no-recovery-after-login-reply-lost" // the previous round's lost reply is what stands in the way
				}
				e.c.Violation(key, "mux=%v, %d proxies, round %d: no re-login got as far as the login reply at frps within %v after the connection was cut", e.mux, e.n, rep+1, recoveryGrace)
				return false
			}
			// the connection of the parked login dies: its reply cannot be delivered any more
			e.relay.ResetAll()
			time.Sleep(time.Duration(60+e.c.Rng.Intn(200)) * time.Millisecond)
			e.loginsAt = e.logins.Load() // the parked login is already counted: recovery needs a later one
			gate.Release()
			run.Count("C_login_replies_lost", 1)
		}
		return e.awaitRecovery("login-reply-lost", h.Now())

	case "refuse", "down":
		d := time.Duration(argN) * time.Millisecond
		if kind == "down" {
			e.relay.Down()
		} else {
			e.relay.refuse.Store(true)
			e.relay.CutAll()
		}
		time.Sleep(d)
		heal := h.Now()
		if kind == "down" {
			if err := e.relay.Up(); err != nil {
				run.Inconclusive("C: relay could not listen again")
				return false
			}
		} else {
			e.relay.refuse.Store(false)
			e.checkRate("accept-close-outage", start, heal)
		}
		return e.awaitRecovery(kind+"-outage", heal)

	case "restart":
		d := time.Duration(argN) * time.Millisecond
		e.stopServer()
		time.Sleep(d)
		if !e.startServer(50) {
			run.Inconclusive("C: frps did not start again")
			return false
		}
		heal := h.Now()
		e.checkRate("server-down", start, heal)
		return e.awaitRecovery("server-restart", heal)
	}
	run.Inconclusive("C: unknown phase " + ph)
	return false
}

// finalLedger: after the whole fault sequence exactly one session of this client exists and it owns exactly the
// configured proxies; nothing of the earlier sessions is left.
func (e *cEnv) finalLedger() {
	if e.srv == nil {
		return
	}
	var diag string
	ok := waitUntil(releaseGrace, func() bool {
		snap := e.srv.Snapshot()
		var mine []string
		sessions := 0
		for _, s := range snap.Sessions {
			if s.User == e.user {
				sessions++
				mine = append([]string(nil), s.Proxies...)
			}
		}
		if sessions != 1 {
			diag = fmt.Sprintf("%d sessions of user %s in the session table", sessions, e.user)
			return false
		}
		sort.Strings(mine)
		if strings.Join(mine, ",") != strings.Join(e.names, ",") {
			diag = fmt.Sprintf("the session owns %d proxies, configured are %d", len(mine), len(e.names))
			return false
		}
		var tab []string
		for _, n := range snap.ProxyNames {
			if strings.HasPrefix(n, e.user+".") {
				tab = append(tab, n)
			}
		}
		sort.Strings(tab)
		if strings.Join(tab, ",") != strings.Join(e.names, ",") {
			diag = fmt.Sprintf("proxy table holds %d names of this client, configured are %d", len(tab), len(e.names))
			return false
		}
		for i, port := range e.tcpPorts {
			if snap.TCPPorts.Used[port] != e.tcpNames[i] {
				diag = fmt.Sprintf("port %d is marked used by %q, want %s", port, snap.TCPPorts.Used[port], e.tcpNames[i])
				return false
			}
		}
		return true
	})
	if !ok {
		e.c.Violation("ledger-after-fault-sequence", "after %v and recovery: %s", e.kinds, diag)
		return
	}
	run.Count("C_final_ledgers_clean", 1)
}

// applyReload changes the configuration in force and hands it to the running frpc the way `frpc reload` does.
func (e *cEnv) applyReload(kind string) (string, bool) {
	var what string
	switch kind {
	case "add":
		s := pxSpec{name: fmt.Sprintf("p%03d", e.nextIdx), tcp: true, remotePort: pa.Get()}
		e.nextIdx++
		e.proxies = append(e.proxies, s)
		what = fmt.Sprintf("tcp proxy %s (remote port %d) added", s.name, s.remotePort)
	case "remove":
		// the last tcp proxy if two are left, otherwise the last stcp proxy no visitor points at
		idx := -1
		nTCP := 0
		for i, p := range e.proxies {
			if p.tcp {
				nTCP++
				if nTCP >= 2 {
					idx = i
				}
			}
		}
		for i := len(e.proxies) - 1; i >= 0 && idx < 0; i-- {
			used := e.proxies[i].tcp
			for _, v := range e.visitors {
				used = used || v.server == e.proxies[i].name
			}
			if !used {
				idx = i
			}
		}
		if idx < 0 {
			return "", false
		}
		s := e.proxies[idx]
		e.proxies = append(append([]pxSpec(nil), e.proxies[:idx]...), e.proxies[idx+1:]...)
		e.removed = append(e.removed, e.user+"."+s.name)
		if s.tcp {
			e.gonePorts = append(e.gonePorts, s.remotePort)
		}
		what = fmt.Sprintf("proxy %s removed", s.name)
	case "change":
		for i := range e.proxies {
			if e.proxies[i].tcp {
				old := e.proxies[i].remotePort
				e.proxies[i].remotePort = pa.Get()
				e.gonePorts = append(e.gonePorts, old)
				what = fmt.Sprintf("remote port of %s changed from %d to %d", e.proxies[i].name, old, e.proxies[i].remotePort)
				break
			}
		}
	case "add-visitor":
		target := ""
		for _, p := range e.proxies {
			if !p.tcp {
				target = p.name
			}
		}
		if target == "" {
			return "", false
		}
		v := visSpec{name: fmt.Sprintf("v%d", e.nextIdx), server: target, port: pa.Get()}
		e.nextIdx++
		e.visitors = append(e.visitors, v)
		what = fmt.Sprintf("stcp visitor %s to %s (bind port %d) added", v.name, target, v.port)
	}
	if what == "" {
		return "", false
	}
	_, ps, vs, err := h.LoadClientConfig(prop, e.configText())
	if err != nil {
		fmt.Fprintf(os.Stderr, "case %d: reloaded configuration does not load: %v\n", e.c.Idx, err)
		return "", false
	}
	if err := e.cli.Svc.UpdateAllConfigurer(ps, vs); err != nil {
		fmt.Fprintf(os.Stderr, "case %d: UpdateAllConfigurer: %v\n", e.c.Idx, err)
		return "", false
	}
	e.derive()
	return what, true
}

// reloadOutage: the session is lost and the server stays unreachable; while frpc sits in its login back-off the
// configuration is reloaded; then the server is reachable again. The recovered session must run the configuration
// in force now (the LAST one): everything added carries traffic, everything removed is gone, at both ends.
func (e *cEnv) reloadOutage(arg string) bool {
	outage, reload, _ := strings.Cut(arg, ":")
	start := h.Now()
	var stopWatch chan struct{}
	switch outage {
	case "down":
		e.relay.Down()
	case "refuse":
		e.relay.refuse.Store(true)
		e.relay.CutAll()
	case "restart":
		e.stopServer()
	case "blackhole":
		var must []*relayPair
		for _, p := range e.relay.Live() {
			if yes, _ := p.dieWithSession(e.mux); yes {
				must = append(must, p)
			}
		}
		e.relay.freeze.Store(true)
		stopWatch = make(chan struct{})
		go e.relay.watchSockets(stopWatch)
		// frpc must first give the silent session up by itself
		gone := waitUntil(teardownGrace(e.pair.T)+15*time.Second, func() bool {
			for _, p := range must {
				if p.clientGone.Load() == 0 {
					return false
				}
			}
			return true
		})
		if !gone {
			close(stopWatch)
			e.relay.CutAll()
			e.relay.freeze.Store(false)
			e.c.Violation("silent-server-not-detected", "relay in blackhole mode, mux=%v heartbeat %d/%d: frpc still holds its connection %.1f s after the silence began", e.mux, e.pair.I, e.pair.T, secs(h.Now()-start))
			return false
		}
	default:
		run.Inconclusive("C: unknown outage " + outage)
		return false
	}
	// let frpc run into the outage: at least one failed attempt (connection refused is invisible to the relay: wait instead)
	if outage == "down" || outage == "blackhole" {
		time.Sleep(time.Duration(1200+e.c.Rng.Intn(1200)) * time.Millisecond)
	} else {
		waitUntil(10*time.Second, func() bool { return len(e.relay.Accepts(start+1, h.Now())) > 0 })
		time.Sleep(time.Duration(100+e.c.Rng.Intn(900)) * time.Millisecond)
	}
	what, ok := e.applyReload(reload)
	if ok {
		e.reloadNote = fmt.Sprintf("%s %.1f s into a %s outage", what, secs(h.Now()-start), outage)
		e.c.Ev("reload", "what", what, "t", h.Now(), "outage", outage)
		run.Count("R_reloads_during_outage", 1)
	}
	time.Sleep(time.Duration(200+e.c.Rng.Intn(1000)) * time.Millisecond)
	switch outage {
	case "down":
		if err := e.relay.Up(); err != nil {
			run.Inconclusive("C: relay could not listen again")
			return false
		}
	case "refuse":
		e.relay.refuse.Store(false)
	case "restart":
		if !e.startServer(50) {
			run.Inconclusive("C: frps did not start again")
			return false
		}
	case "blackhole":
		close(stopWatch)
		e.relay.CutAll()
		e.relay.freeze.Store(false)
	}
	heal := h.Now()
	if !ok {
		run.Inconclusive("C: reload could not be applied")
		return e.awaitRecovery(outage+"-outage", heal)
	}
	return e.awaitRecovery("reload-during-"+outage+":"+reload, heal)
}

// reloadCase (family R): reloads during outages, all 16 (outage, reload) pairs over 8 cases.
func reloadCase(c *h.Case, k int) {
	outages := []string{"down", "refuse", "restart", "blackhole"}
	reloads := []string{"add", "remove", "change", "add-visitor"}
	e := &cEnv{c: c}
	var phases []string
	for j := 0; j < 2; j++ {
		i := (2*k + j) % 16
		phases = append(phases, "reload-outage:"+outages[i%4]+":"+reloads[(i/4+i%4)%4])
	}
	if k >= 8 && c.Rng.Intn(2) == 0 {
		phases = append(phases, "cut")
	}
	e.n = []int{20, 5, 20, 150}[(k/8)%4]
	e.pair = hbPairs[k%len(hbPairs)]
	e.mux = (k%2 == 0) != ((k/8)%2 == 1)
	c.Data["phases"] = phases
	runPair(c, e, phases, "R", k < 1)
}

func (e *cEnv) sessionsOfUser() int {
	if e.srv == nil {
		return -1
	}
	n := 0
	for _, s := range e.srv.Snapshot().Sessions {
		if s.User == e.user {
			n++
		}
	}
	return n
}

// frozenRefusedCase (family F): a loss frps does not notice, then refused logins, then frps reachable.
func frozenRefusedCase(c *h.Case, k int) {
	e := &cEnv{c: c, srvT: 90}
	n := 1
	if k >= 2 {
		n = 1 + c.Rng.Intn(2)
	}
	phases := []string{"frozen-loss-then-refused-login:" + strconv.Itoa(n)}
	if k >= 2 && c.Rng.Intn(2) == 0 {
		phases = append(phases, "cut")
	}
	e.n = []int{5, 20}[(k/2)%2]
	e.pair = hbPairs[k%len(hbPairs)]
	e.mux = k%2 == 0
	c.Data["phases"] = phases
	runPair(c, e, phases, "F", false)
}
