package main

import (
	"fmt"
	"net"
	"sort"
	"strconv"
	"sync"
	"sync/atomic"
	"time"

	"verif/h"
)

// faultRelay is the TCP-level fault injector and observer between a real frpc and its server
// (a real frps or the scripted server): it logs the time of every connection attempt (also the
// ones it refuses), can cut everything, swallow all data (both ends look silent but connected),
// refuse (accept + close) or be down altogether (listener closed: connection refused).
type faultRelay struct {
	port   int
	target string

	mu      sync.Mutex
	l       net.Listener
	pairs   map[*relayPair]struct{}
	accepts []acceptRec
	closed  bool

	stall  atomic.Bool
	refuse atomic.Bool
}

type acceptRec struct {
	T       int64
	Refused bool // closed at once by the relay (refuse mode, or the target was not reachable)
}

type relayPair struct {
	client, server net.Conn
	openedAt       int64
	ender          atomic.Int32 // who ended the connection first: 0 nobody yet, 1 the client side, 2 the server side, 3 the relay (cut)
	endedAt        atomic.Int64
	once           sync.Once
}

func startFaultRelay(port int, target string) (*faultRelay, error) {
	r := &faultRelay{port: port, target: target, pairs: map[*relayPair]struct{}{}}
	if err := r.Up(); err != nil {
		return nil, err
	}
	return r, nil
}

// Up (re)opens the listener.
func (r *faultRelay) Up() error {
	var l net.Listener
	var err error
	for i := 0; i < 200; i++ {
		l, err = net.Listen("tcp", "127.0.0.1:"+strconv.Itoa(r.port))
		if err == nil {
			break
		}
		time.Sleep(10 * time.Millisecond)
	}
	if err != nil {
		return err
	}
	r.mu.Lock()
	r.l = l
	r.mu.Unlock()
	go r.loop(l)
	return nil
}

// Down closes the listener (new connections are refused by the kernel) and cuts everything.
func (r *faultRelay) Down() {
	r.mu.Lock()
	l := r.l
	r.l = nil
	r.mu.Unlock()
	if l != nil {
		l.Close()
	}
	r.CutAll()
}

func (r *faultRelay) loop(l net.Listener) {
	for {
		c, err := l.Accept()
		if err != nil {
			return
		}
		now := h.Now()
		if r.refuse.Load() {
			r.note(now, true)
			c.Close()
			continue
		}
		go func() {
			s, err := net.DialTimeout("tcp", r.target, 2*time.Second)
			if err != nil {
				r.note(now, true)
				c.Close()
				return
			}
			r.note(now, false)
			p := &relayPair{client: c, server: s, openedAt: now}
			r.mu.Lock()
			if r.closed {
				r.mu.Unlock()
				c.Close()
				s.Close()
				return
			}
			r.pairs[p] = struct{}{}
			r.mu.Unlock()
			go r.pump(p, c, s, true)
			go r.pump(p, s, c, false)
		}()
	}
}

func (r *faultRelay) note(t int64, refused bool) {
	r.mu.Lock()
	r.accepts = append(r.accepts, acceptRec{T: t, Refused: refused})
	r.mu.Unlock()
}

func (r *faultRelay) pump(p *relayPair, from, to net.Conn, up bool) {
	buf := make([]byte, 32*1024)
	for {
		n, err := from.Read(buf)
		if n > 0 && !r.stall.Load() {
			if _, werr := to.Write(buf[:n]); werr != nil {
				break
			}
		}
		if err != nil {
			who := int32(2)
			if up {
				who = 1
			}
			if p.ender.CompareAndSwap(0, who) {
				p.endedAt.Store(h.Now())
			}
			break
		}
	}
	p.once.Do(func() {
		p.client.Close()
		p.server.Close()
		r.mu.Lock()
		delete(r.pairs, p)
		r.mu.Unlock()
	})
}

// CutAll closes every live relayed connection.
func (r *faultRelay) CutAll() {
	r.mu.Lock()
	ps := make([]*relayPair, 0, len(r.pairs))
	for p := range r.pairs {
		ps = append(ps, p)
	}
	r.mu.Unlock()
	for _, p := range ps {
		if p.ender.CompareAndSwap(0, 3) {
			p.endedAt.Store(h.Now())
		}
		p.client.Close()
		p.server.Close()
	}
}

// Live returns the currently relayed connections.
func (r *faultRelay) Live() []*relayPair {
	r.mu.Lock()
	defer r.mu.Unlock()
	ps := make([]*relayPair, 0, len(r.pairs))
	for p := range r.pairs {
		ps = append(ps, p)
	}
	return ps
}

// Accepts returns the times of all connection attempts in [from, to].
func (r *faultRelay) Accepts(from, to int64) []int64 {
	r.mu.Lock()
	defer r.mu.Unlock()
	var out []int64
	for _, a := range r.accepts {
		if a.T >= from && a.T <= to {
			out = append(out, a.T)
		}
	}
	return out
}

// AcceptCount is the number of connection attempts so far.
func (r *faultRelay) AcceptCount() int {
	r.mu.Lock()
	defer r.mu.Unlock()
	return len(r.accepts)
}

func (r *faultRelay) Close() {
	r.mu.Lock()
	r.closed = true
	r.mu.Unlock()
	r.Down()
}

// maxInWindow returns the largest number of timestamps that fall into any window of length w
// and the start of that window.
func maxInWindow(ts []int64, w time.Duration) (int, int64) {
	sort.Slice(ts, func(i, j int) bool { return ts[i] < ts[j] })
	best, at := 0, int64(0)
	j := 0
	for i := range ts {
		for ts[i]-ts[j] >= int64(w) {
			j++
		}
		if i-j+1 > best {
			best, at = i-j+1, ts[j]
		}
	}
	return best, at
}

// ---------------------------------------------------------------------------------------------
// scheduling-lag sentinel: the process's own measure of how late a sleeping goroutine is woken.
// Verdicts of the form "a live peer was torn down" are only issued when the sentinel shows that
// the machine was not starving this process during the observation.

type lagMon struct {
	mu   sync.Mutex
	recs []lagRec
}
type lagRec struct {
	t   int64
	lag time.Duration
}

func startLagMon() *lagMon {
	m := &lagMon{}
	go func() {
		const step = 20 * time.Millisecond
		for {
			t0 := h.Now()
			time.Sleep(step)
			t1 := h.Now()
			d := time.Duration(t1-t0) - step
			if d > 5*time.Millisecond {
				m.mu.Lock()
				m.recs = append(m.recs, lagRec{t: t1, lag: d})
				m.mu.Unlock()
			}
		}
	}()
	return m
}

// Max returns the worst wake-up lag seen in [from, to] (harness clock).
func (m *lagMon) Max(from, to int64) time.Duration {
	m.mu.Lock()
	defer m.mu.Unlock()
	var worst time.Duration
	for _, r := range m.recs {
		if r.t >= from && r.t-int64(r.lag) <= to && r.lag > worst {
			worst = r.lag
		}
	}
	return worst
}

// statusProbe asks a real in-process frpc for the phase of its proxies without ever blocking the monitor:
// a client wedged in its teardown holds its proxy manager's lock for ever, and the status call would block with it.
type statusProbe struct {
	cli     *h.Client
	names   []string
	mu      sync.Mutex
	pending chan string // non-nil while a query is in flight
}

// allRunning reports whether every proxy is in phase "running" ("" = yes, otherwise the reason).
func (s *statusProbe) allRunning() string {
	s.mu.Lock()
	ch := s.pending
	if ch == nil {
		ch = make(chan string, 1)
		s.pending = ch
		go func() {
			for _, n := range s.names {
				if ph := s.cli.ProxyPhase(n); ph != "running" {
					ch <- fmt.Sprintf("client: %s is %q", n, ph)
					return
				}
			}
			ch <- ""
		}()
	}
	s.mu.Unlock()
	select {
	case r := <-ch:
		s.mu.Lock()
		s.pending = nil
		s.mu.Unlock()
		return r
	case <-time.After(2 * time.Second):
		return "client: status query blocked for 2 s (proxy manager lock held)"
	}
}
