package main

import (
	"fmt"
	"net"
	"os"
	"sort"
	"strconv"
	"strings"
	"sync"
	"sync/atomic"
	"time"

	"verif/h"
)

// faultRelay is the TCP-level fault injector and observer between a real frpc and its server
// (a real frps or the scripted server): it logs the time of every connection attempt (also the
// ones it refuses), can cut everything, swallow all data (both ends look silent but connected),
// refuse (accept + close) or be down altogether (listener closed: connection refused).
type faultRelay struct {
	port   int
	target string

	mu      sync.Mutex
	l       net.Listener
	pairs   map[*relayPair]struct{}
	accepts []acceptRec
	closed  bool

	stall  atomic.Bool
	refuse atomic.Bool
	freeze atomic.Bool // stop reading altogether: the peers' TCP buffers fill up (black hole)

	divertTo   string // the next divertLeft connections go to this address instead of the target
	divertLeft int
}

type acceptRec struct {
	T       int64
	Refused bool // closed at once by the relay (refuse mode, or the target was not reachable)
}

type relayPair struct {
	client, server net.Conn
	openedAt       int64
	ender          atomic.Int32 // who ended the connection first: 0 nobody yet, 1 the client side, 2 the server side, 3 the relay (cut)
	endedAt        atomic.Int64
	once           sync.Once
	frozen         atomic.Bool  // this connection alone is a black hole (nothing is read, no close is passed on)
	clientGone     atomic.Int64 // frozen relay only: when the kernel showed that the client had closed / reset its end
	serverGone     atomic.Int64
	firstUp        atomic.Int32 // first byte the client wrote (frp message type when neither tcpMux nor TLS is used)
	downBytes      atomic.Int64 // bytes the server wrote
}

// dieWithSession: must this connection be gone once the client has given up its session?
// With tcpMux everything rides on one TCP connection. Without it: the control connection (first message
// Login 'o') and work connections the server has not started yet (NewWorkConn 'w', nothing came back);
// started work connections carry user streams and live on their own by design.
func (p *relayPair) dieWithSession(mux bool) (bool, string) {
	if mux {
		return true, "the multiplexed connection"
	}
	switch p.firstUp.Load() {
	case 'o':
		return true, "the control connection"
	case 'w':
		if p.downBytes.Load() == 0 {
			return true, "a work connection not yet started by the server"
		}
	}
	return false, ""
}

func startFaultRelay(port int, target string) (*faultRelay, error) {
	r := &faultRelay{port: port, target: target, pairs: map[*relayPair]struct{}{}}
	if err := r.Up(); err != nil {
		return nil, err
	}
	return r, nil
}

// Up (re)opens the listener.
func (r *faultRelay) Up() error {
	var l net.Listener
	var err error
	for i := 0; i < 200; i++ {
		l, err = net.Listen("tcp", "127.0.0.1:"+strconv.Itoa(r.port))
		if err == nil {
			break
		}
		time.Sleep(10 * time.Millisecond)
	}
	if err != nil {
		return err
	}
	r.mu.Lock()
	r.l = l
	r.mu.Unlock()
	go r.loop(l)
	return nil
}

// Down closes the listener (new connections are refused by the kernel) and cuts everything.
func (r *faultRelay) Down() {
	r.mu.Lock()
	l := r.l
	r.l = nil
	r.mu.Unlock()
	if l != nil {
		l.Close()
	}
	r.CutAll()
}

func (r *faultRelay) loop(l net.Listener) {
	for {
		c, err := l.Accept()
		if err != nil {
			return
		}
		now := h.Now()
		if r.refuse.Load() {
			r.note(now, true)
			c.Close()
			continue
		}
		go func() {
			target := r.target
			var first []byte
			r.mu.Lock()
			pending := r.divertLeft > 0
			r.mu.Unlock()
			if pending {
				// only logins are diverted: without tcpMux work and visitor connections ('w', 'v') arrive here as well
				b := make([]byte, 1)
				_ = c.SetReadDeadline(time.Now().Add(3 * time.Second))
				if n, _ := c.Read(b); n == 1 {
					first = b
				}
				_ = c.SetReadDeadline(time.Time{})
				if len(first) == 1 && first[0] != 'w' && first[0] != 'v' {
					r.mu.Lock()
					if r.divertLeft > 0 {
						r.divertLeft--
						target = r.divertTo
					}
					r.mu.Unlock()
				}
			}
			s, err := net.DialTimeout("tcp", target, 2*time.Second)
			if err != nil {
				r.note(now, true)
				c.Close()
				return
			}
			r.note(now, false)
			p := &relayPair{client: c, server: s, openedAt: now}
			r.mu.Lock()
			if r.closed {
				r.mu.Unlock()
				c.Close()
				s.Close()
				return
			}
			r.pairs[p] = struct{}{}
			r.mu.Unlock()
			if len(first) == 1 {
				p.firstUp.Store(int32(first[0]))
				if _, err := s.Write(first); err != nil {
					c.Close()
					s.Close()
					return
				}
			}
			go r.pump(p, c, s, true)
			go r.pump(p, s, c, false)
		}()
	}
}

func (r *faultRelay) note(t int64, refused bool) {
	r.mu.Lock()
	r.accepts = append(r.accepts, acceptRec{T: t, Refused: refused})
	r.mu.Unlock()
}

func (r *faultRelay) pump(p *relayPair, from, to net.Conn, up bool) {
	buf := make([]byte, 32*1024)
	for {
		if r.freeze.Load() || p.frozen.Load() {
			// black hole: do not read at all (the peer's send buffer fills up, its close is not passed on)
			if p.ender.Load() != 0 {
				break
			}
			time.Sleep(20 * time.Millisecond)
			continue
		}
		_ = from.SetReadDeadline(time.Now().Add(100 * time.Millisecond)) // so that a freeze also reaches idle connections
		n, err := from.Read(buf)
		if n > 0 {
			if up {
				p.firstUp.CompareAndSwap(0, int32(buf[0]))
			} else {
				p.downBytes.Add(int64(n))
			}
			if !r.stall.Load() {
				_ = to.SetWriteDeadline(time.Now().Add(30 * time.Second))
				if _, werr := to.Write(buf[:n]); werr != nil {
					break
				}
			}
		}
		if err != nil {
			if ne, ok := err.(net.Error); ok && ne.Timeout() {
				continue
			}
			who := int32(2)
			if up {
				who = 1
			}
			if p.ender.CompareAndSwap(0, who) {
				p.endedAt.Store(h.Now())
			}
			break
		}
	}
	p.once.Do(func() {
		p.client.Close()
		p.server.Close()
		r.mu.Lock()
		delete(r.pairs, p)
		r.mu.Unlock()
	})
}

// CutAll closes every live relayed connection.
func (r *faultRelay) CutAll() {
	r.mu.Lock()
	ps := make([]*relayPair, 0, len(r.pairs))
	for p := range r.pairs {
		ps = append(ps, p)
	}
	r.mu.Unlock()
	for _, p := range ps {
		if p.ender.CompareAndSwap(0, 3) {
			p.endedAt.Store(h.Now())
		}
		p.client.Close()
		p.server.Close()
	}
}

// ResetAll aborts every live relayed connection: both peers receive a TCP reset at once (SO_LINGER 0), so that
// their next write fails instead of disappearing into a half-closed connection.
func (r *faultRelay) ResetAll() {
	r.mu.Lock()
	ps := make([]*relayPair, 0, len(r.pairs))
	for p := range r.pairs {
		ps = append(ps, p)
	}
	r.mu.Unlock()
	for _, p := range ps {
		if p.ender.CompareAndSwap(0, 3) {
			p.endedAt.Store(h.Now())
		}
		// linger first on both ends: closing one end wakes the pumps, which close the other end the ordinary way
		for _, c := range []net.Conn{p.server, p.client} {
			if tc, ok := c.(*net.TCPConn); ok {
				_ = tc.SetLinger(0)
			}
		}
		p.server.Close()
		p.client.Close()
	}
}

// FreezeLive turns every live connection into a black hole (new connections pass normally): the peers get neither
// data nor FIN / RST from each other any more.
func (r *faultRelay) FreezeLive() []*relayPair {
	ps := r.Live()
	for _, p := range ps {
		p.frozen.Store(true)
	}
	return ps
}

// CutPairs closes the given connections.
func (r *faultRelay) CutPairs(ps []*relayPair) {
	for _, p := range ps {
		if p.ender.CompareAndSwap(0, 3) {
			p.endedAt.Store(h.Now())
		}
		p.client.Close()
		p.server.Close()
	}
}

// Divert sends the next n connections to addr instead of the target.
func (r *faultRelay) Divert(addr string, n int) {
	r.mu.Lock()
	r.divertTo, r.divertLeft = addr, n
	r.mu.Unlock()
}

// Live returns the currently relayed connections.
func (r *faultRelay) Live() []*relayPair {
	r.mu.Lock()
	defer r.mu.Unlock()
	ps := make([]*relayPair, 0, len(r.pairs))
	for p := range r.pairs {
		ps = append(ps, p)
	}
	return ps
}

// Accepts returns the times of all connection attempts in [from, to].
func (r *faultRelay) Accepts(from, to int64) []int64 {
	r.mu.Lock()
	defer r.mu.Unlock()
	var out []int64
	for _, a := range r.accepts {
		if a.T >= from && a.T <= to {
			out = append(out, a.T)
		}
	}
	return out
}

// AcceptCount is the number of connection attempts so far.
func (r *faultRelay) AcceptCount() int {
	r.mu.Lock()
	defer r.mu.Unlock()
	return len(r.accepts)
}

func (r *faultRelay) Close() {
	r.mu.Lock()
	r.closed = true
	r.mu.Unlock()
	r.Down()
}

// maxInWindow returns the largest number of timestamps that fall into any window of length w
// and the start of that window.
func maxInWindow(ts []int64, w time.Duration) (int, int64) {
	sort.Slice(ts, func(i, j int) bool { return ts[i] < ts[j] })
	best, at := 0, int64(0)
	j := 0
	for i := range ts {
		for ts[i]-ts[j] >= int64(w) {
			j++
		}
		if i-j+1 > best {
			best, at = i-j+1, ts[j]
		}
	}
	return best, at
}

// ---------------------------------------------------------------------------------------------
// scheduling-lag sentinel: the process's own measure of how late a sleeping goroutine is woken.
// Verdicts of the form "a live peer was torn down" are only issued when the sentinel shows that
// the machine was not starving this process during the observation.

type lagMon struct {
	mu   sync.Mutex
	recs []lagRec
}
type lagRec struct {
	t   int64
	lag time.Duration
}

func startLagMon() *lagMon {
	m := &lagMon{}
	go func() {
		const step = 20 * time.Millisecond
		for {
			t0 := h.Now()
			time.Sleep(step)
			t1 := h.Now()
			d := time.Duration(t1-t0) - step
			if d > 5*time.Millisecond {
				m.mu.Lock()
				m.recs = append(m.recs, lagRec{t: t1, lag: d})
				m.mu.Unlock()
			}
		}
	}()
	return m
}

// Max returns the worst wake-up lag seen in [from, to] (harness clock).
func (m *lagMon) Max(from, to int64) time.Duration {
	m.mu.Lock()
	defer m.mu.Unlock()
	var worst time.Duration
	for _, r := range m.recs {
		if r.t >= from && r.t-int64(r.lag) <= to && r.lag > worst {
			worst = r.lag
		}
	}
	return worst
}

// statusProbe asks a real in-process frpc for the phase of its proxies without ever blocking the monitor:
// a client wedged in its teardown holds its proxy manager's lock for ever, and the status call would block with it.
type statusProbe struct {
	cli     *h.Client
	names   []string
	absent  []string // names that must not exist at the client any more
	mu      sync.Mutex
	pending chan string // non-nil while a query is in flight
}

// allRunning reports whether every proxy is in phase "running" ("" = yes, otherwise the reason).
func (s *statusProbe) allRunning() string {
	s.mu.Lock()
	ch := s.pending
	if ch == nil {
		ch = make(chan string, 1)
		s.pending = ch
		go func() {
			for _, n := range s.names {
				if ph := s.cli.ProxyPhase(n); ph != "running" {
					ch <- fmt.Sprintf("client: %s is %q", n, ph)
					return
				}
			}
			for _, n := range s.absent {
				if ph := s.cli.ProxyPhase(n); ph != "" {
					ch <- fmt.Sprintf("client: %s, removed from the configuration, is still there (%q)", n, ph)
					return
				}
			}
			ch <- ""
		}()
	}
	s.mu.Unlock()
	select {
	case r := <-ch:
		s.mu.Lock()
		s.pending = nil
		s.mu.Unlock()
		return r
	case <-time.After(2 * time.Second):
		return "client: status query blocked for 2 s (proxy manager lock held)"
	}
}

// watchSockets is the relay's eye while it is frozen (it does not read, so it cannot see EOF): the kernel's
// socket table tells whether frpc / frps (same host) still hold their end of each relayed connection.
func (r *faultRelay) watchSockets(stop <-chan struct{}) {
	for {
		select {
		case <-stop:
			return
		case <-time.After(100 * time.Millisecond):
		}
		st := tcpStates()
		for _, p := range r.Live() {
			if p.ender.Load() != 0 {
				continue
			}
			for i, c := range []net.Conn{p.client, p.server} {
				la, lok := c.LocalAddr().(*net.TCPAddr)
				ra, rok := c.RemoteAddr().(*net.TCPAddr)
				if !lok || !rok {
					continue
				}
				// the peer's own socket is the reversed pair; anything but ESTABLISHED (1) means its owner closed it
				if s, ok := st[[2]int{ra.Port, la.Port}]; !ok || s != 1 {
					if i == 0 {
						p.clientGone.CompareAndSwap(0, h.Now())
					} else {
						p.serverGone.CompareAndSwap(0, h.Now())
					}
				}
			}
		}
	}
}

// tcpStates parses /proc/net/tcp: (local port, remote port) -> state, loopback IPv4 only.
func tcpStates() map[[2]int]int {
	out := map[[2]int]int{}
	b, err := os.ReadFile("/proc/net/tcp")
	if err != nil {
		return out
	}
	for i, ln := range strings.Split(string(b), "\n") {
		f := strings.Fields(ln)
		if i == 0 || len(f) < 4 {
			continue
		}
		l := strings.Split(f[1], ":")
		rm := strings.Split(f[2], ":")
		if len(l) != 2 || len(rm) != 2 || l[0] != "0100007F" {
			continue
		}
		lp, e1 := strconv.ParseInt(l[1], 16, 32)
		rp, e2 := strconv.ParseInt(rm[1], 16, 32)
		stt, e3 := strconv.ParseInt(f[3], 16, 32)
		if e1 != nil || e2 != nil || e3 != nil {
			continue
		}
		out[[2]int{int(lp), int(rp)}] = int(stt)
	}
	return out
}

// clientGone: has the in-process frpc service ended (Service.Run returned)?
func clientGone(cli *h.Client) bool {
	if cli == nil {
		return false
	}
	select {
	case <-cli.Done():
		return true
	default:
		return false
	}
}
