// C14 — Dead peers are detected and tunnels heal themselves.
//
// Monitors (DESIGN.md §5/C14), all over executions of the real frps / frpc code:
//
//	A. server side (serverside.go): scripted protocol clients at real in-process servers
//	   (heartbeatTimeout 2/3/5 s, tcpMux on/off, HeartBeats auth scope on). A session that pings validly at
//	   the interval must stay up for 3x timeout; after its last valid ping (7 "moments": never pinged,
//	   idle, mid registration, during traffic, during work-connection set-up, only invalid pings, only other
//	   messages) it must not be closed before lastValidPing + timeout (lower bound, verdict), must be closed
//	   by 3x timeout + 10 s (watchdog) and then everything it held must be gone: session table entry, proxy
//	   names, visitor listeners, the tcp port (port manager and OS), pooled work connections.
//	B. client side (clientside.go): a real in-process frpc behind a fault relay at the scripted server: the same
//	   two bounds when the server stops answering pings (4 moments) or answers error pongs; logins refused
//	   n times, unanswered logins, accept+close and connection-refused outages, sessions dropped right after
//	   login, cuts in the middle of 150 registrations; afterwards every configured proxy must be registered
//	   again within the recovery grace, and the attempt rate in every 5 s window of an outage is bounded.
//	R. (pair.go) the real pair again: the configuration is reloaded (proxy added / removed / remote port changed / visitor
//	   added, through Service.UpdateAllConfigurer) while frpc sits in its login back-off during an outage (listener down,
//	   refusal, server restart, black hole); the recovered session must run the LAST configuration at both ends.
//	H. (holder.go) a registration that fails once under a live login must be retried by the session itself: refused because
//	   a silently dead scripted peer still holds the name / port at a real frps (torn down seconds later; frpc's 30 s
//	   start-error retry must heal it), or never answered by the scripted server (20 s wait-for-response re-send).
//	L. (livepeer.go) live peers with slow requests: three scripted sessions ping every second on a server with timeout
//	   3 / 5 s while one of them has xtcp visitor requests pending whose owner never answers (10 s each) and bursts of
//	   registrations; none may be torn down for 2x timeout + 3 s (control peer and lag sentinel guard the verdict).
//	G. (backlog.go) server side again: a peer that stops reading while it floods requests (unread replies: frps's send
//	   queue and buffers full, its read loop parked in Send), then falls silent: session and port must still go away.
//	F. (pair.go) a loss frps does not notice (connections frozen, no FIN / RST; frps timeout 90 s), then 1-2 refused
//	   logins (relay diverts them to a refusing scripted server), then frps: it must recognise the run id, replace the
//	   stale session and take the registrations. B also checks the run id carried by every Login it sees.
//	E. (clientside.go) heartbeatTimeout == heartbeatInterval, the smallest timeout the validation accepts: refused, or
//	   a session whose pings are all answered at once must stay up.
//	C. real pair (pair.go): frpc <-> fault relay <-> frps with 1 / 20 / 150 proxies under sequences of cuts,
//	   stalls (both ends silent), refusals, listener outages and server restarts (in-process, and a SIGKILLed
//	   child process; uses vnode), and re-logins whose reply is lost (the login parked at the
//	   server.registerControl.beforeStart gate while its connection is reset): steady phases must see no re-login, every fault must heal (client status,
//	   server tables, end-to-end echo), the final ledger must show exactly one session owning exactly the
//	   configured proxies.
//
// In half of the B / C / R / F cases the real frpc keeps loginFailExit at its default (true): the first login succeeds, so
// the option must not matter afterwards; every recovery oracle also requires that the frpc service is still running.
//
// Time discipline: lower bounds and attempt-rate bounds are verdicts; upper bounds are watchdogs with
// 3x timer + 10 s (teardown) or 50 s (recovery: 20 s max back-off x 1.1 + 10 s dial + 15 s); "a live peer was
// torn down" is only a verdict when the acknowledged ping times (A) or the scheduling-lag sentinel (B, C)
// show that the harness itself was on time.
package main

import (
	"fmt"
	"os"
	"sort"
	"sync"
	"time"

	"verif/h"
)

const prop = "C14"
const token = "c14-token"

var run *h.Run
var pa *h.PortAlloc

// deadPort: local port of proxies whose backend is never used (nothing listens there)
var deadPort int
var lag *lagMon

type hb struct{ I, T int }

// interval / timeout settings of the design
var hbPairs = []hb{{1, 2}, {1, 3}, {2, 5}}

func teardownGrace(T int) time.Duration { return time.Duration(3*T+10) * time.Second }

// 20 s max back-off x 1.1 jitter + 10 s dial timeout + 15 s
const recoveryGrace = 50 * time.Second

// releaseGrace: how long after a session's death its resources may still be found (the teardown itself takes
// milliseconds; the grace covers a loaded machine and the cost of the ledger polls)
const releaseGrace = 25 * time.Second

// lagLimit: above this wake-up lag of the process itself a "live peer torn down" observation is inconclusive
const lagLimit = 300 * time.Millisecond

type srvKey struct {
	T   int
	mux bool
}

var aSrv = map[srvKey]*h.Server{}

type caseRef struct {
	fam string
	k   int
}

func main() {
	defer h.DisableGC(10)()
	run = h.NewRun(prop, "fault_enumeration")
	run.Rule = "one case = one fault sequence: (monitor family, heartbeat interval/timeout in {1/2,1/3,2/5}, tcpMux on/off, number of configured proxies in {1,20,150}, the moment at which the peer falls silent or the ordered list of faults with their PRNG-chosen durations); distinct = distinct (family, interval/timeout, mux, proxies, moment / fault-kind list); family H = (refused by a dead holder: same name / same port | unanswered first NewProxy) x mux; family L = slow-request kind x mux x timeout; family G = unread-backlog silence x mux; family F = frozen loss + n refused logins x mux x timeout; family R = (outage kind, reload kind) pairs with the reload applied during the outage; family E adds interval = timeout in {1,2,3} (refused by validation, or the answered session must stay up); a case is non-trivial only if its session was established and at least one timed teardown or one recovery was observed"
	run.Assumptions = []string{
		"upper bounds are bounded-progress watchdogs: teardown 3x configured timeout + 10 s, recovery 50 s (20 s max login back-off x 1.1 + 10 s dial timeout + 15 s); later events would be reported as violations of the bounded restatement",
		"lower bounds use the harness clock stamp taken before the last valid ping / pong (or login reply) was written, and the stamp taken after the close was observed: load can only widen the measured span",
		"'tight loop' is decided as more than 10 connection / login attempts in some 5 s window of an outage (refused logins, accept+close, server down, sessions dropped right after login; frpc's own fast-retry schedule yields at most 10 in the last case, 3 in the others)",
		"a torn-down session that was pinging is a verdict only if every acknowledged ping pair satisfied pong(i+1) - send(i) <= timeout (server side) or the process's scheduling-lag sentinel stayed below 300 ms (client side, real pair); otherwise the case is inconclusive",
		"user connections already bridged when a session dies are not counted as session resources (without tcpMux they are independent TCP connections by design)",
	}
	pa = h.Ports(prop)
	deadPort = pa.Get()
	lag = startLagMon()

	nA := run.N(28, 100)
	nB := run.N(32, 130)
	nC := run.N(24, 90)
	nE := run.N(3, 6)
	nR := run.N(8, 16)
	nH := run.N(4, 12) // failed registrations retried by the running session
	nL := run.N(4, 16) // live peers with slow requests
	nG := run.N(2, 6)  // silent peers with an unread backlog
	nF := run.N(2, 6)  // frozen loss followed by a refused login

	// servers of family A: one per (timeout, mux)
	for _, p := range hbPairs {
		for _, mux := range []bool{true, false} {
			srv, err := h.StartServerText(prop, fmt.Sprintf(`
bindAddr = "127.0.0.1"
bindPort = %d
auth.token = "%s"
auth.additionalScopes = ["HeartBeats"]
allowPorts = [{start=24000,end=24999}]
userConnTimeout = 3
transport.tcpMux = %v
transport.heartbeatTimeout = %d
transport.maxPoolCount = 2
`, pa.Get(), token, mux, p.T))
			if err != nil {
				fmt.Fprintln(os.Stderr, "server:", err)
				os.Exit(h.ExitHarnessError)
			}
			aSrv[srvKey{p.T, mux}] = srv
		}
	}

	// interleave the families so that long and short cases mix on the workers
	var plan []caseRef
	for i := 0; i < nA || i < nB || i < nC; i++ {
		if i < nH { // the longest cases (real 20 s / 30 s retry timers) start first
			plan = append(plan, caseRef{"H", i})
		}
		if i < nR {
			plan = append(plan, caseRef{"R", i})
		}
		if i < nG {
			plan = append(plan, caseRef{"G", i})
		}
		if i < nL {
			plan = append(plan, caseRef{"L", i})
		}
		if i < nF {
			plan = append(plan, caseRef{"F", i})
		}
		if i < nC {
			plan = append(plan, caseRef{"C", i})
		}
		if i < nB {
			plan = append(plan, caseRef{"B", i})
		}
		if i < nA {
			plan = append(plan, caseRef{"A", i})
		}
		if i < nE {
			plan = append(plan, caseRef{"E", i})
		}
	}
	workers := len(plan)
	if run.Thorough() {
		workers = 30
	}
	run.Parallel(len(plan), workers, func(c *h.Case) {
		ref := plan[c.Idx]
		c.Data["family"], c.Data["k"] = ref.fam, ref.k
		switch ref.fam {
		case "A":
			serverSideCase(c, ref.k)
		case "B":
			clientSideCase(c, ref.k)
		case "C":
			pairCase(c, ref.k)
		case "E":
			equalSettingsCase(c, ref.k)
		case "R":
			reloadCase(c, ref.k)
		case "G":
			backlogCase(c, ref.k)
		case "L":
			livePeerCase(c, ref.k)
		case "H":
			holderCase(c, ref.k)
		case "F":
			frozenRefusedCase(c, ref.k)
		}
	})
	for _, s := range aSrv {
		s.Close()
	}
	stats.publish()
	run.Set("worst_scheduling_lag_ms", lag.Max(0, h.Now()).Milliseconds())
	run.Finish(run.N(40, 160))
}

// ---------------------------------------------------------------------------------------------
// measured spans (evidence only)

type spanStats struct {
	mu sync.Mutex
	m  map[string][]float64
}

var stats = &spanStats{m: map[string][]float64{}}

func (s *spanStats) add(name string, d time.Duration) {
	s.mu.Lock()
	s.m[name] = append(s.m[name], d.Seconds())
	s.mu.Unlock()
}

func (s *spanStats) publish() {
	s.mu.Lock()
	defer s.mu.Unlock()
	out := map[string]any{}
	for k, v := range s.m {
		sort.Float64s(v)
		out[k] = map[string]any{"n": len(v), "min_s": round3(v[0]), "median_s": round3(v[len(v)/2]), "max_s": round3(v[len(v)-1])}
	}
	run.Set("measured_spans", out)
}

func round3(f float64) float64 { return float64(int64(f*1000+0.5)) / 1000 }

func secs(ns int64) float64 { return round3(float64(ns) / 1e9) }

// waitUntil polls cond every 50 ms.
func waitUntil(timeout time.Duration, cond func() bool) bool {
	deadline := time.Now().Add(timeout)
	for {
		if cond() {
			return true
		}
		if time.Now().After(deadline) {
			return false
		}
		time.Sleep(50 * time.Millisecond)
	}
}
