package main

import (
	"fmt"
	"net"
	"strings"
	"time"

	"github.com/fatedier/frp/pkg/msg"
	netpkg "github.com/fatedier/frp/pkg/util/net"

	"verif/h"
)

// Family A, moment "unread-backlog": the peer stops READING its control connection while it still sends requests,
// so that frps builds up an outbound backlog for it (socket buffers / stream window full, the 100-slot send queue
// full, the read loop parked in Send), then it stops sending as well. Such a session is as dead as any other silent
// one: it must be torn down and everything it held released (watchdog: 3x timeout + 10 s after the silence began).
func backlogCase(c *h.Case, k int) {
	mux := k%2 == 0
	const Tsec = 5 // the longest timeout of the shared servers: the backlog has to be built between two valid pings
	T := time.Duration(Tsec) * time.Second
	srv := aSrv[srvKey{Tsec, mux}]
	pfx := fmt.Sprintf("g%d.", c.Idx)
	c.Data["moment"], c.Data["mux"], c.Data["timeout_s"] = "unread-backlog", mux, Tsec

	p, err := h.DialPeer(h.PeerOpts{ServerPort: srv.Cfg.BindPort, TCPMux: mux, Token: token, SkipLogin: true})
	if err != nil {
		run.Inconclusive("A: backlog peer could not connect")
		return
	}
	defer p.Close()
	conn := p.Ctl
	ts := time.Now().Unix()
	if err := msg.WriteMsg(conn, &msg.Login{Version: "0.62.1", Os: "linux", Arch: "amd64", User: fmt.Sprintf("g%d", c.Idx), Timestamp: ts, PrivilegeKey: h.AuthKey(token, ts)}); err != nil {
		run.Inconclusive("A: backlog peer could not log in")
		return
	}
	var lr msg.LoginResp
	_ = conn.SetReadDeadline(time.Now().Add(15 * time.Second))
	if err := msg.ReadMsgInto(conn, &lr); err != nil || lr.Error != "" {
		run.Inconclusive("A: backlog peer could not log in")
		return
	}
	_ = conn.SetReadDeadline(time.Time{})
	rw, err := netpkg.NewCryptoReadWriter(conn, []byte(token))
	if err != nil {
		run.Inconclusive("A: backlog peer could not log in")
		return
	}
	runID := lr.RunID
	ping := func() error {
		ts := time.Now().Unix()
		return msg.WriteMsg(rw, &msg.Ping{Timestamp: ts, PrivilegeKey: h.AuthKey(token, ts)})
	}

	// a tcp proxy, so that the session owns resources one can look for
	tcpPort := pa.Get()
	tcpName := pfx + "t"
	bound := false
	for try := 0; try < 3 && !bound; try++ {
		if err := msg.WriteMsg(rw, &msg.NewProxy{ProxyName: tcpName, ProxyType: "tcp", RemotePort: tcpPort}); err != nil {
			run.Inconclusive("A: backlog peer lost its connection during set-up")
			return
		}
		bound = waitUntil(5*time.Second, func() bool { return h.OwnTCPListenPorts()[tcpPort] })
		if !bound {
			tcpPort = pa.Get()
		}
	}
	if !bound {
		run.Inconclusive("A: backlog peer's proxy was not bound")
		return
	}
	if err := ping(); err != nil {
		run.Inconclusive("A: backlog peer lost its connection during set-up")
		return
	}

	// the backlog: requests that are each answered with an ~8 KB error reply which is never read; a valid ping now and
	// then keeps the session alive while frps still reads. The flood ends when our own writes stall.
	name := strings.Repeat("n", 4000)
	start := h.Now()
	stalled, sent := false, 0
	for ; sent < 20000 && time.Duration(h.Now()-start) < 40*time.Second; sent++ {
		_ = conn.SetWriteDeadline(time.Now().Add(1200 * time.Millisecond))
		var m msg.Message = &msg.NewProxy{ProxyName: fmt.Sprintf("%s%s-%d", pfx, name, sent), ProxyType: "no-such-type"}
		if sent%25 == 24 {
			ts := time.Now().Unix()
			m = &msg.Ping{Timestamp: ts, PrivilegeKey: h.AuthKey(token, ts)}
		}
		if err := msg.WriteMsg(rw, m); err != nil {
			if ne, ok := err.(net.Error); ok && ne.Timeout() {
				stalled = true
				break
			}
			if strings.Contains(err.Error(), "timeout") || strings.Contains(err.Error(), "deadline") {
				stalled = true
				break
			}
			c.Ev("backlog-broken", "after", sent, "err", err.Error())
			run.Inconclusive("A: control connection ended while the backlog was being built")
			return
		}
	}
	_ = conn.SetWriteDeadline(time.Time{})
	silentFrom := h.Now()
	c.Ev("backlog", "requests", sent, "stalled", stalled, "took_s", secs(silentFrom-start))
	if !stalled {
		run.Inconclusive("A: the outbound backlog could not be arranged")
		return
	}
	run.Count("A_backlog_requests_unread", int64(sent))

	// silence. The session must go away with everything it held.
	grace := teardownGrace(Tsec)
	var why string
	gone := waitUntil(grace, func() bool {
		why = ""
		snap := srv.Snapshot()
		for _, s := range snap.Sessions {
			if s.RunID == runID {
				why = "session table"
				return false
			}
		}
		for _, n := range snap.ProxyNames {
			if n == tcpName {
				why = "proxy table"
				return false
			}
		}
		if _, used := snap.TCPPorts.Used[tcpPort]; used {
			why = "port manager"
			return false
		}
		if h.OwnTCPListenPorts()[tcpPort] {
			why = "OS listener"
			return false
		}
		return true
	})
	now := h.Now()
	if !gone {
		c.Violation("silent-peer-with-unread-backlog-never-torn-down", "mux=%v heartbeatTimeout %v: the peer stopped reading (%d requests whose replies it never read, until its own writes stalled) and then fell silent; %.1f s later the session %s is still there (%s) and its remote port %d is %v",
			mux, T, sent, secs(now-silentFrom), runID, why, tcpPort, map[bool]string{true: "still bound", false: "released"}[h.OwnTCPListenPorts()[tcpPort]])
		return
	}
	run.Count("A_backlog_teardowns", 1)
	stats.add("A_backlog_silence_to_released", time.Duration(now-silentFrom))
	if time.Duration(now-silentFrom) > T+5*time.Second {
		run.Count("slow_teardowns", 1)
	}
	run.Distinct(fmt.Sprintf("A|unread-backlog|mux=%v|%d", mux, Tsec))
}
