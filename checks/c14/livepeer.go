package main

import (
	"fmt"
	"os"
	"sync"
	"sync/atomic"
	"time"

	"github.com/fatedier/frp/pkg/msg"

	"verif/h"
)

// Family L: live peers with slow requests. Scripted peers on a server with a short heartbeatTimeout ping validly every
// second while one of them issues requests whose handling takes long on the server (an xtcp visitor request whose owner
// never answers: pending for NatHoleTimeout = 10 s; bursts of registrations). A peer that keeps pinging must not be torn
// down, whatever else is pending on its session. Positive control: a peer without the slow request on the same server.

// pinger drives one scripted session: a valid ping every interval from its own goroutine, pongs counted by another.
type pinger struct {
	name     string
	p        *h.Peer
	mu       sync.Mutex
	sent     []int64 // stamps after each ping was written
	pongs    []int64
	badPong  string
	closedAt atomic.Int64
	stop     chan struct{}
}

func startPinger(name string, p *h.Peer, interval time.Duration) *pinger {
	pg := &pinger{name: name, p: p, stop: make(chan struct{})}
	go func() {
		for !p.WaitClosed(time.Hour) {
		}
		pg.closedAt.Store(h.Now())
	}()
	go func() {
		for {
			m, err := p.WaitMsg(time.Hour, func(m msg.Message) bool { _, ok := m.(*msg.Pong); return ok })
			if err == h.ErrPeerClosed {
				return
			}
			if err != nil {
				continue
			}
			pg.mu.Lock()
			pg.pongs = append(pg.pongs, h.Now())
			if e := m.(*msg.Pong).Error; e != "" {
				pg.badPong = e
			}
			pg.mu.Unlock()
		}
	}()
	go func() {
		t0 := h.Now()
		for i := 0; ; i++ {
			if d := t0 + int64(i)*int64(interval) - h.Now(); d > 0 {
				select {
				case <-pg.stop:
					return
				case <-time.After(time.Duration(d)):
				}
			}
			select {
			case <-pg.stop:
				return
			default:
			}
			ts := time.Now().Unix()
			if err := p.Send(&msg.Ping{Timestamp: ts, PrivilegeKey: h.AuthKey(token, ts)}); err != nil {
				return
			}
			pg.mu.Lock()
			pg.sent = append(pg.sent, h.Now())
			pg.mu.Unlock()
		}
	}()
	return pg
}

// judge: was this session closed between from and to although its pings were written on time?
// Returns (closed, onTime, text).
func (pg *pinger) judge(from, to int64, T time.Duration) (bool, bool, string) {
	ca := pg.closedAt.Load()
	if ca == 0 || ca > to {
		return false, true, ""
	}
	pg.mu.Lock()
	defer pg.mu.Unlock()
	// every gap between two written pings (and from the last one to the close) must be well inside the timeout
	limit := int64(T) - int64(500*time.Millisecond)
	onTime := len(pg.sent) > 0
	var worst int64
	for i := 1; i < len(pg.sent) && pg.sent[i] <= ca; i++ {
		if g := pg.sent[i] - pg.sent[i-1]; g > worst {
			worst = g
		}
	}
	last := int64(0)
	for _, s := range pg.sent {
		if s <= ca {
			last = s
		}
	}
	if last == 0 || ca-last > limit || worst > limit {
		onTime = false
	}
	lastPong := int64(0)
	nPongs := 0
	for _, t := range pg.pongs {
		if t >= from {
			nPongs++
		}
		lastPong = t
	}
	return true, onTime, fmt.Sprintf("%d valid pings written (largest gap %.3f s, the last one %.3f s before the close), %d pongs since the request, the last pong %.3f s before the close",
		len(pg.sent), secs(worst), secs(ca-last), nPongs, secs(ca-lastPong))
}

// maxPongGap is the largest time without a pong in [from, to] (the edges count).
func (pg *pinger) maxPongGap(from, to int64) int64 {
	pg.mu.Lock()
	defer pg.mu.Unlock()
	prev, worst := from, int64(0)
	for _, t := range pg.pongs {
		if t < from || t > to {
			continue
		}
		if t-prev > worst {
			worst = t - prev
		}
		prev = t
	}
	if to-prev > worst {
		worst = to - prev
	}
	return worst
}

func livePeerCase(c *h.Case, k int) {
	kinds := []string{"xtcp-visitor-request", "xtcp-visitor-request", "registration-burst+xtcp-visitor-request", "xtcp-visitor-requests-repeated"}
	kind := kinds[k%len(kinds)]
	Tsec := []int{3, 3, 5, 5}[k%4]
	mux := (k%2 == 0) != ((k/4)%2 == 1)
	T := time.Duration(Tsec) * time.Second
	srv := aSrv[srvKey{Tsec, mux}]
	pfx := fmt.Sprintf("l%d.", c.Idx)
	c.Data["kind"], c.Data["mux"], c.Data["timeout_s"] = kind, mux, Tsec

	dial := func(role string) *h.Peer {
		p, err := h.DialPeer(h.PeerOpts{ServerPort: srv.Cfg.BindPort, TCPMux: mux, Token: token, User: fmt.Sprintf("l%d%s", c.Idx, role)})
		if err != nil || !p.LoggedIn() {
			return nil
		}
		return p
	}
	owner, visitor, control := dial("o"), dial("v"), dial("c")
	for _, p := range []*h.Peer{owner, visitor, control} {
		if p != nil {
			defer p.Close()
		}
	}
	if owner == nil || visitor == nil || control == nil {
		run.Inconclusive("L: login failed")
		return
	}
	xname := pfx + "x"
	if r, err := owner.NewProxy(&msg.NewProxy{ProxyName: xname, ProxyType: "xtcp", Sk: "k", AllowUsers: []string{"*"}}, 10*time.Second); err != nil || r.Error != "" {
		fmt.Fprintf(os.Stderr, "case %d: xtcp registration failed: %v %+v\n", c.Idx, err, r)
		run.Inconclusive("L: xtcp registration failed")
		return
	}
	pgs := []*pinger{startPinger("owner of the xtcp proxy", owner, time.Second), startPinger("visitor", visitor, time.Second), startPinger("control peer (no slow request)", control, time.Second)}
	defer func() {
		for _, pg := range pgs {
			close(pg.stop)
		}
	}()
	time.Sleep(time.Duration(1200+c.Rng.Intn(800)) * time.Millisecond) // a couple of answered pings first

	// the slow requests, all on the visitor's session. The owner never answers (it sends no NatHoleClient and supplies
	// no work connection): every request stays pending in frps for about 10 s.
	xreq := func(i int) {
		ts := time.Now().Unix()
		_ = visitor.Send(&msg.NatHoleVisitor{TransactionID: fmt.Sprintf("%stx%d", pfx, i), ProxyName: xname, Protocol: "quic",
			SignKey: h.AuthKey("k", ts), Timestamp: ts, MappedAddrs: []string{"127.0.0.1:30001"}, AssistedAddrs: []string{"127.0.0.1:30002"}})
		run.Count("L_xtcp_visitor_requests", 1)
	}
	from := h.Now()
	switch kind {
	case "xtcp-visitor-request":
		xreq(0)
	case "registration-burst+xtcp-visitor-request":
		for i := 0; i < 60; i++ {
			_ = visitor.Send(&msg.NewProxy{ProxyName: fmt.Sprintf("%sb%d", pfx, i), ProxyType: "stcp", Sk: "k", AllowUsers: []string{"*"}})
		}
		run.Count("L_burst_registrations", 60)
		xreq(0)
	case "xtcp-visitor-requests-repeated":
		go func() {
			for i := 0; i < 4; i++ {
				xreq(i)
				time.Sleep(1500 * time.Millisecond)
			}
		}()
	}
	obs := 2*T + 3*time.Second
	time.Sleep(obs)
	to := h.Now()

	ctlClosed, _, ctlText := pgs[2].judge(from, to, T)
	ok := true
	for i, pg := range pgs {
		closed, onTime, text := pg.judge(from, to, T)
		if !closed {
			continue
		}
		ok = false
		ca := pg.closedAt.Load()
		// calibration by the control peer on the same server, same process: its pongs must have kept flowing up to
		// the moment the judged session was closed; otherwise machine load, not frps, may be what delayed the pings
		ctlGap := pgs[2].maxPongGap(from-int64(2*time.Second), ca)
		worstLag := lag.Max(from-int64(T), ca)
		if !onTime || (i != 2 && (ctlClosed || ctlGap > int64(T)-int64(500*time.Millisecond))) || (i == 2 && worstLag > lagLimit) {
			run.Inconclusive("L: machine too loaded to judge a torn-down pinging session")
			c.Ev("inconclusive", "who", pg.name, "text", text, "lag", worstLag.String(), "control", ctlText, "control_pong_gap_s", secs(ctlGap))
			continue
		}
		key := "live-session-torn-down-while-request-pending"
		if i == 2 {
			key = "pinging-session-torn-down"
		}
		c.Violation(key, "mux=%v heartbeatTimeout %v, %s: frps closed the session of the %s %.3f s after the request although it pinged validly every second (%s); the control peer on the same server stayed up (its largest pong gap until then: %.3f s); worst scheduling lag of this process: %v",
			mux, T, kind, pg.name, secs(ca-from), text, secs(ctlGap), worstLag)
	}
	if !ok {
		return
	}
	// still listed and still answering
	listed := map[string]bool{}
	for _, s := range srv.Snapshot().Sessions {
		listed[s.RunID] = true
	}
	for i, p := range []*h.Peer{owner, visitor, control} {
		if !listed[p.RunID] && pgs[i].closedAt.Load() == 0 {
			c.Violation("live-session-missing-from-session-table", "the session of the %s is open and pinging but frps does not list it", pgs[i].name)
			return
		}
		pgs[i].mu.Lock()
		n := 0
		for _, t := range pgs[i].pongs {
			if t >= from {
				n++
			}
		}
		bad := pgs[i].badPong
		pgs[i].mu.Unlock()
		if bad != "" {
			c.Violation("valid-ping-rejected", "a correctly signed ping was answered with an error pong: %s", bad)
			return
		}
		run.Count("L_pongs_while_request_pending", int64(n))
	}
	run.Count("L_live_windows_held", 1)
	stats.add("L_window_observed", time.Duration(to-from))
	run.Distinct(fmt.Sprintf("L|%s|mux=%v|%d", kind, mux, Tsec))
}
