package main

// Generators for requests / planned responses and the declared-rewrite reference model.

import (
	"fmt"
	"math/rand"
	"net/http"
	"sort"
	"strings"

	"verif/h"
)

type genReq struct {
	Tag      string      `json:"tag"`
	Cfg      int         `json:"cfg"`
	Method   string      `json:"method"`
	Target   string      `json:"target"` // request-target as written
	AbsForm  bool        `json:"abs_form,omitempty"`
	Origin   string      `json:"origin"` // origin-form of the target
	Host     string      `json:"host"`   // Host header as written
	Headers  [][2]string `json:"headers"`
	Framing  string      `json:"framing"` // none | cl | chunked
	BodySeed int64       `json:"body_seed"`
	BodyCls  int         `json:"body_class"`
	BodySize int64       `json:"body_size"`
	SlowBody bool        `json:"slow_body,omitempty"`
	Plan     *respPlan   `json:"-"`
	// key overrides for the long-lived connection cases ("" = default keys)
	NoRespKey string `json:"no_resp_key,omitempty"`
	TruncKey  string `json:"trunc_key,omitempty"`
	// key for an answer with this status that is not the backend's (backend never saw the request)
	ForeignStatus int    `json:"foreign_status,omitempty"`
	ForeignKey    string `json:"foreign_key,omitempty"`
	PlanDesc      string `json:"plan"`
}

var hopByHop = map[string]bool{
	"Connection": true, "Proxy-Connection": true, "Keep-Alive": true, "Proxy-Authenticate": true,
	"Proxy-Authorization": true, "Te": true, "Trailer": true, "Transfer-Encoding": true, "Upgrade": true,
}

// headers owned by the proxy chain or by message framing: never compared as end-to-end headers
// forwarding headers the proxy chain writes by itself; a requestHeaders.set entry for one of them is a declared rewrite
var forwardingNames = map[string]bool{"X-Forwarded-For": true, "X-Forwarded-Host": true, "X-Forwarded-Proto": true}

var framingOrProxyOwned = map[string]bool{
	"Content-Length": true, "X-Forwarded-For": true, "X-Forwarded-Host": true, "X-Forwarded-Proto": true, "Forwarded": true,
}

var pathSegs = []string{
	"a", "api", "v1", "index.html", "x-y_z~", "%E4%B8%AD%E6%96%87", "%e4%b8%ad", "a%2Fb", "a%2fb", "sp%20ace", "pl+us",
	"semi;param=1", "co:lon", "at@sign", "qu'ote", "(paren)", "st*ar", "ex!cl", "com,ma", "eq=ual", "%25", "%3F", "%23",
	".", "..", "", "%7Euser", "$dollar", "&amp", "UPPER", "%C3%A9", "z",
}

var querySamples = []string{
	"", "a=1", "a=1&b=2", "a=1&a=2&a=3", "q=a+b", "q=%20%26%3D", "flag", "flag&other", "a=", "=v", "a=b=c", "a=1&&b=2",
	"%E4%B8%AD=%E6%96%87", "redirect=http://x.example/p?q=1", "path=/a/b/../c", "q=%2f%2F", "k=%7B%22k%22%3A1%7D",
	"a=1;b=2", "x=1&y=2;z=3", ";", "a[]=1&a[]=2", "t=2024-01-01T00:00:00Z", "e=%25",
}

var reqHeaderNames = []string{
	"Accept", "accept-language", "Cookie", "COOKIE", "Referer", "X-Custom-Hdr", "x-cUsToM-mIxEd", "X-Request-Id", "If-None-Match",
	"Cache-Control", "Authorization-Info", "X-Api-Key", "Origin", "x-ovr-multi", "X-Tenant-ID", "Accept-Language", "Pragma",
	"X-Empty", "Range-Hint", "Via", "DNT", "x-b3-traceid", "If-Modified-Since", "X-Env", "X-From-Where",
}

var respHeaderNames = []string{
	"Set-Cookie", "set-cookie", "Cache-Control", "ETag", "Location", "X-Backend-Hdr", "x-bAcKeNd-mIxEd", "Vary", "Content-Language",
	"Server", "X-Empty-Resp", "Last-Modified", "Link", "X-Resp-Ovr", "X-Frp-Resp", "WWW-Authenticate", "Access-Control-Allow-Origin",
	"Content-Disposition", "X-Served-By", "Warning",
}

var valueAlphabet = []string{
	"a", "b", "Z", "0", "9", " ", ",", ";", "=", "\"", "/", "*", "(", ")", "<", ">", "@", ":", "?", "{", "}", "[", "]", "\\", "-", "_", ".", "~", "%41", "\t",
	"é", "中", "\xe9",
}

func genValue(rng *rand.Rand, max int) string {
	n := rng.Intn(max + 1)
	var sb strings.Builder
	for sb.Len() < n {
		sb.WriteString(valueAlphabet[rng.Intn(len(valueAlphabet))])
	}
	v := strings.Trim(sb.String(), " \t")
	return v
}

func bigValue(rng *rand.Rand, n int) string {
	const al = "abcdefghijklmnopqrstuvwxyzABCDEFGHIJKLMNOPQRSTUVWXYZ0123456789-_.=;, "
	b := make([]byte, n)
	for i := range b {
		b[i] = al[rng.Intn(len(al))]
	}
	return strings.Trim(string(b), " ")
}

func genSize(rng *rand.Rand, big int64) int64 {
	switch rng.Intn(12) {
	case 0:
		return 0
	case 1:
		return 1
	case 2:
		return int64(32*1024 - 1 + rng.Intn(3)) // copy-buffer boundary
	case 3:
		return int64(16*1024 - 1 + rng.Intn(3))
	case 4:
		return int64(64*1024 + rng.Intn(64*1024))
	case 5:
		return 256*1024 + int64(rng.Intn(1<<20))
	case 6:
		return big/2 + rng.Int63n(big/2+1)
	default:
		return int64(rng.Intn(8 * 1024))
	}
}

func genTarget(rng *rand.Rand) string {
	var sb strings.Builder
	n := 1 + rng.Intn(5)
	if rng.Intn(8) == 0 {
		n = 0
	}
	for i := 0; i < n; i++ {
		sb.WriteString("/")
		sb.WriteString(pathSegs[rng.Intn(len(pathSegs))])
	}
	if n == 0 || rng.Intn(4) == 0 {
		sb.WriteString("/")
	}
	switch rng.Intn(6) {
	case 0: // no query
	case 1:
		sb.WriteString("?") // bare question mark
	default:
		sb.WriteString("?" + querySamples[rng.Intn(len(querySamples))])
		if rng.Intn(10) == 0 {
			sb.WriteString("&long=" + bigValue(rng, 1000+rng.Intn(3000)))
		}
	}
	return strings.ReplaceAll(sb.String(), " ", "")
}

var seqNo int64

func genRequest(c *h.Case, rc *routeCfg, k int, bigBody int64) *genReq {
	rng := c.Rng
	g := &genReq{Cfg: rc.Idx, Tag: fmt.Sprintf("s%d-c%d-k%d-%06x", run.Seed, c.Idx, k, rng.Intn(1<<24))}
	g.Method = pick(rng, "GET", "GET", "GET", "POST", "POST", "PUT", "PATCH", "DELETE", "HEAD", "OPTIONS", "PROPFIND", "QUERY")
	g.Origin = genTarget(rng)
	g.Target = g.Origin
	// Host: as configured, sometimes mixed case / explicit port
	dom := rc.Domain
	if rc.CatchAll {
		dom = "placeholder.c02.test" // the catch-all cases choose server name and Host themselves
	}
	g.Host = dom
	switch rng.Intn(6) {
	case 0:
		g.Host = strings.ToUpper(dom[:2]) + dom[2:]
	case 1:
		if !rc.viaHTTPS() {
			g.Host = fmt.Sprintf("%s:%d", dom, topo.Servers[rc.Srv].HTTPPort)
		}
	}
	if !rc.viaHTTPS() && rng.Intn(12) == 0 {
		g.AbsForm = true
		g.Target = "http://" + g.Host + g.Origin
	}
	// headers
	nh := rng.Intn(14)
	if rng.Intn(10) == 0 {
		nh = 30 + rng.Intn(40)
	}
	for i := 0; i < nh; i++ {
		name := reqHeaderNames[rng.Intn(len(reqHeaderNames))]
		val := genValue(rng, 60)
		if name == "X-Empty" {
			val = ""
		}
		g.Headers = append(g.Headers, [2]string{name, val})
		if rng.Intn(4) == 0 { // multi-valued: repeat the name (another case variant) right away or later
			g.Headers = append(g.Headers, [2]string{pick(rng, name, strings.ToUpper(name), strings.ToLower(name)), genValue(rng, 30)})
		}
	}
	if rng.Intn(3) != 0 {
		g.Headers = append(g.Headers, [2]string{pick(rng, "User-Agent", "user-agent"), "c02-user/1.0 (" + genValue(rng, 10) + ")"})
	}
	if rng.Intn(3) == 0 {
		g.Headers = append(g.Headers, [2]string{"Accept-Encoding", pick(rng, "identity", "br", "deflate, br;q=0.5")})
	}
	switch rng.Intn(5) { // forwarded-for sent by the user: none, one, list, two header lines
	case 0:
		g.Headers = append(g.Headers, [2]string{"X-Forwarded-For", "203.0.113.7"})
	case 1:
		g.Headers = append(g.Headers, [2]string{"x-forwarded-for", "203.0.113.7, 198.51.100.9"})
	case 2:
		g.Headers = append(g.Headers, [2]string{"X-Forwarded-For", "2001:db8::1"}, [2]string{"X-Forwarded-For", "198.51.100.23"})
	}
	if rng.Intn(12) == 0 { // large header block (up to ~32 KiB in one value)
		g.Headers = append(g.Headers, [2]string{"X-Large", bigValue(rng, 4000+rng.Intn(28000))})
	}
	if rng.Intn(6) == 0 { // hop-by-hop decoration: must not disturb anything else
		g.Headers = append(g.Headers, [2]string{"Connection", "keep-alive, X-Hop-Thing"}, [2]string{"X-Hop-Thing", "1"})
	}
	rng.Shuffle(len(g.Headers), func(i, j int) {
		// keep the relative order of equal names (value order is judged)
		if http.CanonicalHeaderKey(g.Headers[i][0]) == http.CanonicalHeaderKey(g.Headers[j][0]) {
			return
		}
		g.Headers[i], g.Headers[j] = g.Headers[j], g.Headers[i]
	})
	// body
	g.Framing = "none"
	switch g.Method {
	case "POST", "PUT", "PATCH", "PROPFIND", "QUERY":
		g.Framing = pick(rng, "cl", "cl", "chunked")
	case "DELETE":
		g.Framing = pick(rng, "none", "cl")
	}
	if g.Framing != "none" {
		g.BodySeed, g.BodyCls = rng.Int63(), rng.Intn(h.NumClasses)
		g.BodySize = genSize(rng, bigBody)
		g.SlowBody = rng.Intn(5) == 0
		g.Headers = append(g.Headers, [2]string{"Content-Type", pick(rng, "application/octet-stream", "application/json; charset=utf-8", "multipart/form-data; boundary=----x")})
	}
	// planned response
	p := &respPlan{ChunkRng: rng.Int63()}
	p.Status = pick(rng, 200, 200, 200, 200, 201, 202, 204, 206, 301, 302, 304, 400, 401, 403, 404, 410, 418, 429, 500, 502, 503, 504)
	nr := rng.Intn(8)
	for i := 0; i < nr; i++ {
		name := respHeaderNames[rng.Intn(len(respHeaderNames))]
		val := genValue(rng, 50)
		if name == "X-Empty-Resp" {
			val = ""
		}
		p.Headers = append(p.Headers, [2]string{name, val})
		if rng.Intn(4) == 0 {
			p.Headers = append(p.Headers, [2]string{name, genValue(rng, 30)})
		}
	}
	if rng.Intn(12) == 0 {
		p.Headers = append(p.Headers, [2]string{"X-Large-Resp", bigValue(rng, 4000+rng.Intn(28000))})
	}
	if rng.Intn(5) != 0 && p.Status != 304 { // a 304 carries no representation metadata (RFC 9110 15.4.5)
		p.Headers = append(p.Headers, [2]string{"Content-Type", pick(rng, "application/octet-stream", "text/plain; charset=utf-8", "application/json")})
	}
	p.Framing = pick(rng, "cl", "cl", "chunked", "chunked", "close")
	p.Seed, p.Class = rng.Int63(), rng.Intn(h.NumClasses)
	p.Size = genSize(rng, bigBody)
	p.Slow = rng.Intn(5) == 0
	if rng.Intn(10) == 0 {
		p.DelayMs = 20 + rng.Intn(150)
	}
	if p.Status == 204 || p.Status == 304 {
		p.Size = 0
	}
	// early answer: the backend responds on the request head alone (e.g. an upload it rejects or
	// answers while still receiving) and reads the body afterwards
	if g.Framing != "none" && g.BodySize > 0 && rng.Intn(6) == 0 && p.Status != 204 && p.Status != 304 && g.Method != "HEAD" {
		p.Early = true
		p.DelayMs = 0
		if p.Size < 2 {
			p.Size = 2 + int64(rng.Intn(4096))
		}
		if rng.Intn(2) == 0 {
			// a long answer that is still being sent while the upload goes on
			p.PaceMs = 1 + rng.Intn(2)
			p.Size = 256*1024 + int64(rng.Intn(512*1024))
			g.BodySize = 300*1024 + int64(rng.Intn(700*1024))
		}
	}
	g.Plan = p
	g.PlanDesc = fmt.Sprintf("status=%d framing=%s size=%d class=%d slow=%v delay=%d headers=%d early=%v", p.Status, p.Framing, p.Size, p.Class, p.Slow, p.DelayMs, len(p.Headers), p.Early)
	return g
}

// ---------------------------------------------------------------------------------------------
// reference model

func canonList(hs [][2]string) (http.Header, map[string]bool) {
	out := http.Header{}
	for _, kv := range hs {
		k := http.CanonicalHeaderKey(kv[0])
		out[k] = append(out[k], kv[1])
	}
	// hop-by-hop: the fixed set plus whatever Connection names
	hop := map[string]bool{}
	for k := range hopByHop {
		hop[k] = true
	}
	for _, v := range out["Connection"] {
		for _, t := range strings.Split(v, ",") {
			if t = strings.TrimSpace(t); t != "" {
				hop[http.CanonicalHeaderKey(t)] = true
			}
		}
	}
	return out, hop
}

func flattenList(vals []string) []string {
	var out []string
	for _, v := range vals {
		for _, t := range strings.Split(v, ",") {
			if t = strings.TrimSpace(t); t != "" {
				out = append(out, t)
			}
		}
	}
	return out
}

func eqList(a, b []string) bool {
	if len(a) != len(b) {
		return false
	}
	for i := range a {
		if a[i] != b[i] {
			return false
		}
	}
	return true
}

func short(v any) string {
	s := fmt.Sprintf("%q", v)
	if len(s) > 300 {
		return s[:300] + "…"
	}
	return s
}

type verdict struct {
	key, what string
}

// judgeRequest compares what the backend saw with the sent request under the declared rewrites.
func judgeRequest(rc *routeCfg, g *genReq, userIP string, sr *seenReq) []verdict {
	var out []verdict
	bad := func(key, f string, a ...any) {
		out = append(out, verdict{key + "-via-" + rc.Kind, fmt.Sprintf(f, a...)})
	}
	okBackend := false
	for _, id := range rc.Backends {
		if id == sr.Backend {
			okBackend = true
		}
	}
	if !okBackend {
		bad("req-wrong-backend", "request for route %s (%s) was delivered to backend %d, want one of %v", rc.Name, rc.Domain, sr.Backend, rc.Backends)
	}
	if sr.Method != g.Method {
		bad("req-method-changed", "method sent %q, backend saw %q", g.Method, sr.Method)
	}
	sawOrigin := sr.URI
	if g.AbsForm && strings.HasPrefix(sawOrigin, "http://") { // absolute-form may arrive as such (any authority: Host rewrite) or in origin-form
		if i := strings.IndexByte(sawOrigin[7:], '/'); i >= 0 {
			sawOrigin = sawOrigin[7+i:]
		}
	}
	if sawOrigin != g.Origin {
		key := "req-target-changed"
		si, bi := strings.IndexByte(g.Origin, '?'), strings.IndexByte(sawOrigin, '?')
		sp, bp := g.Origin, sawOrigin
		if si >= 0 {
			sp = g.Origin[:si]
		}
		if bi >= 0 {
			bp = sawOrigin[:bi]
		}
		if sp == bp {
			key = "req-query-changed"
			if si >= 0 && strings.Contains(g.Origin[si:], ";") {
				key = "req-query-semicolon-param-dropped"
			}
		}
		bad(key, "request-target sent %s, backend saw %s", short(g.Target), short(sr.URI))
	}
	// Host
	wantHost := g.Host
	if rc.RewriteHost != "" {
		wantHost = rc.RewriteHost
	}
	if rc.PlugRewriteHost != "" {
		wantHost = rc.PlugRewriteHost
	}
	if sr.Host != wantHost {
		key := "req-host-changed"
		if rc.RewriteHost != "" || rc.PlugRewriteHost != "" {
			key = "req-host-rewrite-not-applied"
		}
		bad(key, "Host sent %q (declared rewrite %q / plugin %q): backend saw %q, want %q", g.Host, rc.RewriteHost, rc.PlugRewriteHost, sr.Host, wantHost)
	}
	// headers
	sent, hop := canonList(g.Headers)
	sent["X-Verif-Tag"] = []string{g.Tag}
	want := http.Header{}
	for k, v := range sent {
		if hop[k] || framingOrProxyOwned[k] {
			continue
		}
		want[k] = v
	}
	declared := map[string]bool{}
	for _, set := range []map[string]string{rc.ReqSet, rc.PlugReqSet} {
		for k, v := range set {
			ck := http.CanonicalHeaderKey(k)
			want[ck] = []string{v}
			declared[ck] = true
		}
	}
	for k, wv := range want {
		gv, ok := sr.Header[k]
		if declared[k] && forwardingNames[k] {
			run.Count("configured_forwarding_headers_compared", 1)
		}
		switch {
		case declared[k] && forwardingNames[k] && !eqList(gv, wv):
			// a configured header wins over the value the proxy chain would put there by itself
			bad("req-configured-header-overwritten", "requestHeaders.set declares %s: %q, backend saw %s (user address %s, Host sent %q)", k, wv[0], short(gv), userIP, g.Host)
		case !ok && declared[k]:
			bad("req-config-header-missing", "configured request header %s: %q did not reach the backend", k, wv)
		case !ok:
			bad("req-header-lost", "end-to-end header %s: %s sent by the user did not reach the backend", k, short(wv))
		case !eqList(gv, wv) && declared[k]:
			bad("req-config-header-wrong", "configured request header %s: want %s, backend saw %s", k, short(wv), short(gv))
		case !eqList(gv, wv):
			bad("req-header-changed", "end-to-end header %s: sent %s, backend saw %s", k, short(wv), short(gv))
		}
	}
	var keys []string
	for k := range sr.Header {
		keys = append(keys, k)
	}
	sort.Strings(keys)
	for _, k := range keys {
		if _, ok := want[k]; ok || hop[k] || framingOrProxyOwned[k] {
			continue
		}
		if k == "Accept-Encoding" && eqList(sr.Header[k], []string{"gzip"}) {
			continue // added by the forwarding transport when the user named no encoding
		}
		bad("req-header-added", "backend saw header %s: %s which the user did not send and no configuration declares", k, short(sr.Header[k]))
	}
	// X-Forwarded-For = what the user sent, extended by the user's address (unless a configuration sets the header)
	wantXFF := append(flattenList(sent["X-Forwarded-For"]), userIP)
	gotXFF := flattenList(sr.Header["X-Forwarded-For"])
	if !declared["X-Forwarded-For"] && !eqList(gotXFF, wantXFF) {
		key := "req-xff-wrong"
		switch {
		case len(gotXFF) == 0:
			key = "req-xff-missing"
		case eqList(gotXFF, flattenList(sent["X-Forwarded-For"])):
			key = "req-xff-not-extended"
		case eqList(gotXFF, []string{userIP}) && len(wantXFF) > 1:
			key = "req-xff-replaced"
		}
		bad(key, "X-Forwarded-For: user sent %q from address %s, backend saw %q, want %q", sent["X-Forwarded-For"], userIP, sr.Header["X-Forwarded-For"], wantXFF)
	}
	// body
	if sr.BodyErr != "" {
		bad("req-body-broken", "backend could not read the request body: %s (after %d bytes of %d)", sr.BodyErr, sr.BodyLen, g.BodySize)
	} else if sr.BodyLen != g.BodySize || sr.BodySHA != bodySHA(g) {
		bad("req-body-changed", "request body (%s framing, %d bytes, sha %.12s): backend saw %d bytes, sha %.12s", g.Framing, g.BodySize, bodySHA(g), sr.BodyLen, sr.BodySHA)
	}
	return out
}

// judgeResponseHead compares status and headers at the user with what the backend wrote.
func judgeResponseHead(rc *routeCfg, g *genReq, resp *http.Response) []verdict {
	var out []verdict
	bad := func(key, f string, a ...any) {
		out = append(out, verdict{key + "-via-" + rc.Kind, fmt.Sprintf(f, a...)})
	}
	p := g.Plan
	if resp.StatusCode != p.Status {
		bad("resp-status-changed", "backend answered %d, user received %d", p.Status, resp.StatusCode)
	}
	if e := resp.Header.Get("X-Verif-Tag-Echo"); e != g.Tag {
		bad("resp-for-other-request", "response carries the tag %q of another request (sent %q)", e, g.Tag)
	}
	sent, hop := canonList(p.Headers)
	want := http.Header{}
	for k, v := range sent {
		if hop[k] || k == "Content-Length" {
			continue
		}
		want[k] = v
	}
	declared := map[string]bool{}
	for k, v := range rc.RespSet {
		ck := http.CanonicalHeaderKey(k)
		want[ck] = []string{v}
		declared[ck] = true
	}
	for k, wv := range want {
		gv, ok := resp.Header[k]
		switch {
		case !ok && declared[k]:
			bad("resp-config-header-missing", "configured response header %s: %q did not reach the user", k, wv)
		case !ok:
			bad("resp-header-lost", "end-to-end response header %s: %s did not reach the user", k, short(wv))
		case !eqList(gv, wv) && declared[k]:
			bad("resp-config-header-wrong", "configured response header %s: want %s, user saw %s", k, short(wv), short(gv))
		case !eqList(gv, wv):
			bad("resp-header-changed", "end-to-end response header %s: backend sent %s, user saw %s", k, short(wv), short(gv))
		}
	}
	for k, v := range resp.Header {
		if _, ok := want[k]; ok || hop[k] {
			continue
		}
		switch k {
		case "Date", "Content-Length", "Connection", "X-Verif-Backend", "X-Verif-Tag-Echo":
			continue
		case "Content-Type":
			if _, sentCT := sent["Content-Type"]; !sentCT {
				continue // sniffed by the forwarding server when the backend named none
			}
		}
		bad("resp-header-added", "user saw response header %s: %s which the backend did not send and no configuration declares", k, short(v))
	}
	// Content-Length of bodiless answers is an end-to-end fact the user can see
	if g.Method == "HEAD" && p.Status != 204 && p.Status != 304 && (p.Framing == "cl" || p.Framing == "none") {
		if cl := resp.Header.Get("Content-Length"); cl != fmt.Sprint(p.Size) {
			bad("resp-head-content-length-changed", "HEAD: backend announced Content-Length %d, user saw %q", p.Size, cl)
		}
	}
	return out
}

func bodySHA(g *genReq) string {
	return shaOf(g.BodySeed, g.BodyCls, g.BodySize)
}
