package main

// Topology: two real frps (tcpMux on / off) in this process, several real frpc per server, and a
// PRNG-generated set of route configurations (plain http proxies and the four client plugins),
// each with its own raw backend so that "which backend answered" identifies the route.

import (
	"crypto/tls"
	"encoding/json"
	"fmt"
	"math/rand"
	"net/http"
	"os"
	"path/filepath"
	"syscall"
	"time"

	"verif/h"
)

const (
	token        = "c02-token"
	vhostTimeout = 2 // seconds: vhostHTTPTimeout of both servers
	userConnTO   = 2 // seconds: userConnTimeout
)

type routeCfg struct {
	Idx  int    `json:"idx"`
	Kind string `json:"kind"` // http | http2http | http2https | https2http | https2https
	Dead bool   `json:"dead"` // nothing listens at the backend address
	Srv  int    `json:"srv"`
	Cli  int    `json:"cli"`
	Name string `json:"name"`
	// Domain is the virtual host.
	Domain string `json:"domain"`
	// declared rewrites at frps (type http only)
	RewriteHost string            `json:"rewrite_host,omitempty"`
	ReqSet      map[string]string `json:"req_set,omitempty"`
	RespSet     map[string]string `json:"resp_set,omitempty"`
	// declared rewrites in the plugin
	PlugRewriteHost string            `json:"plug_rewrite_host,omitempty"`
	PlugReqSet      map[string]string `json:"plug_req_set,omitempty"`
	Enc             bool              `json:"enc"`
	Comp            bool              `json:"comp"`
	BW              string            `json:"bw,omitempty"`
	BWMode          string            `json:"bw_mode,omitempty"`
	Group           string            `json:"group,omitempty"`
	CatchAll        bool              `json:"catch_all,omitempty"` // customDomains ["*"]: also selected for a TLS ClientHello without server name
	SlowBW          bool              `json:"slow_bw,omitempty"`   // limit below the copy-buffer size: only used by the small-body cases
	BackendPort     int               `json:"backend_port"`
	Backends        []int             `json:"backends"` // ids of the backends that may legitimately answer
}

func (rc *routeCfg) viaHTTPS() bool { return rc.Kind == "https2http" || rc.Kind == "https2https" }
func (rc *routeCfg) plugin() bool   { return rc.Kind != "http" }

type serverNode struct {
	S         *h.Server
	Mux       bool
	BindPort  int
	HTTPPort  int
	HTTPSPort int
}

type topology struct {
	Servers  []*serverNode
	Clients  []*h.Client
	Cfgs     []*routeCfg
	Backends map[int]*rawBackend
	// free ports for scripted-peer proxies etc.
}

var topo topology

func pick[T any](rng *rand.Rand, xs ...T) T { return xs[rng.Intn(len(xs))] }

var setNamePool = []string{"X-From-Where", "x-frp-route", "X-Tenant-ID", "Accept-Language", "x-ovr-multi", "User-Agent", "X-Env"}
var respSetNamePool = []string{"X-Frp-Resp", "cache-control", "X-Served-By", "Set-Cookie", "x-resp-ovr"}

func genSet(rng *rand.Rand, pool []string, max int, pfx string) map[string]string {
	n := rng.Intn(max + 1)
	if n == 0 {
		return nil
	}
	m := map[string]string{}
	for i := 0; i < n; i++ {
		k := pool[rng.Intn(len(pool))]
		dup := false
		for e := range m {
			if http.CanonicalHeaderKey(e) == http.CanonicalHeaderKey(k) {
				dup = true
			}
		}
		if dup {
			continue
		}
		m[k] = fmt.Sprintf("%s-%d; v=\"%d\"", pfx, i, rng.Intn(1000))
	}
	return m
}

var forwardingSpellings = [][]string{
	{"X-Forwarded-Proto", "x-forwarded-proto", "X-FORWARDED-PROTO", "x-Forwarded-pRoTo"},
	{"X-Forwarded-Host", "x-forwarded-host", "X-forwarded-HOST"},
	{"X-Forwarded-For", "x-forwarded-for", "X-FORWARDED-FOR"},
}

// addForwardingSet adds 1-3 of X-Forwarded-Proto / -Host / -For (any spelling) to a requestHeaders.set map.
func addForwardingSet(rng *rand.Rand, m map[string]string, i int) map[string]string {
	if m == nil {
		m = map[string]string{}
	}
	vals := []string{pick(rng, "https", "wss", "HTTPS"), fmt.Sprintf("public%d.example.com", i), fmt.Sprintf("192.0.2.%d", 1+i%250)}
	first := rng.Intn(3)
	n := 1 + rng.Intn(3)
	for j := 0; j < n; j++ {
		w := (first + j) % 3
		m[pick(rng, forwardingSpellings[w]...)] = vals[w]
	}
	return m
}

// buildTopology generates nCfg route configurations and starts everything.
func buildTopology(nCfg int) error {
	pa := h.Ports(prop)
	rng := run.RandFor("topology", 0)
	dir := h.RunDir(prop)
	ca, err := h.NewCA(dir, fmt.Sprintf("ca-%d", os.Getpid()))
	if err != nil {
		return err
	}
	beCrt, beKey, err := ca.Issue("backend", "127.0.0.1", "localhost")
	if err != nil {
		return err
	}
	plugCrt, plugKey, err := ca.Issue("plugin", "*.c02.test")
	if err != nil {
		return err
	}
	beCert, err := tls.LoadX509KeyPair(beCrt, beKey)
	if err != nil {
		return err
	}
	beTLS := &tls.Config{Certificates: []tls.Certificate{beCert}}
	topo.Backends = map[int]*rawBackend{}

	// servers
	for i := 0; i < 2; i++ {
		ps := pa.Block(3)
		sn := &serverNode{Mux: i == 0, BindPort: ps[0], HTTPPort: ps[1], HTTPSPort: ps[2]}
		free := pa.Block(2)
		cfg := map[string]any{
			"bindAddr": "127.0.0.1", "bindPort": sn.BindPort,
			"vhostHTTPPort": sn.HTTPPort, "vhostHTTPSPort": sn.HTTPSPort, "vhostHTTPTimeout": vhostTimeout,
			"auth":            map[string]any{"token": token},
			"allowPorts":      []any{map[string]any{"start": free[0], "end": free[1]}},
			"userConnTimeout": userConnTO,
			"transport":       map[string]any{"tcpMux": sn.Mux, "maxPoolCount": 3},
		}
		b, _ := json.Marshal(cfg)
		sn.S, err = h.StartServerText(prop, string(b))
		if err != nil {
			return fmt.Errorf("server %d: %w", i, err)
		}
		if err := h.WaitTCP(fmt.Sprintf("127.0.0.1:%d", sn.HTTPPort), 5*time.Second); err != nil {
			return err
		}
		topo.Servers = append(topo.Servers, sn)
	}

	// route configurations: the first ones are fixed so that every kind exists on every tier
	kinds := []string{"http", "http2http", "http2https", "https2http", "https2https"}
	nCli := 3 // per server
	for i := 0; i < nCfg; i++ {
		rc := &routeCfg{Idx: i}
		switch {
		case i < 10:
			rc.Kind = kinds[i%5]
			rc.Srv = i / 5
		default:
			rc.Kind = pick(rng, "http", "http", "http", "http2http", "http2https", "https2http", "https2https")
			rc.Srv = rng.Intn(2)
		}
		rc.Cli = rc.Srv*nCli + rng.Intn(nCli)
		rc.Name = fmt.Sprintf("r%d", i)
		rc.Domain = fmt.Sprintf("r%d.c02.test", i)
		if !rc.viaHTTPS() {
			if rng.Intn(2) == 0 {
				rc.RewriteHost = fmt.Sprintf("rw%d.internal.example", i)
			}
			rc.ReqSet = genSet(rng, setNamePool, 3, fmt.Sprintf("srv%d", i))
			rc.RespSet = genSet(rng, respSetNamePool, 2, fmt.Sprintf("rsp%d", i))
		}
		if rc.plugin() {
			if rng.Intn(2) == 0 {
				rc.PlugRewriteHost = fmt.Sprintf("plug%d.internal.example:8443", i)
			}
			rc.PlugReqSet = genSet(rng, setNamePool, 2, fmt.Sprintf("plug%d", i))
		}
		// forwarding headers declared by configuration (frps behind a TLS-terminating balancer: the backend must be
		// told the public scheme / name): every third route at frps, every third plugin route in the plugin
		if !rc.viaHTTPS() && (i%3 == 0 || rng.Intn(6) == 0) {
			rc.ReqSet = addForwardingSet(rng, rc.ReqSet, i)
		}
		if rc.plugin() && (i%3 == 1 || rng.Intn(6) == 0) {
			rc.PlugReqSet = addForwardingSet(rng, rc.PlugReqSet, 100+i)
		}
		rc.Enc = rng.Intn(2) == 0
		rc.Comp = rng.Intn(2) == 0
		switch rng.Intn(4) {
		case 0:
			rc.BW, rc.BWMode = "16MB", "client"
		case 1:
			rc.BW, rc.BWMode = "16MB", "server"
		}
		// one https2http and one https2https route always run without encryption / compression: the long-lived
		// connection cases need plugin routes that are free of the layered-connection finding
		if i == 3 || i == 9 {
			rc.Enc, rc.Comp = false, false
		}
		rc.BackendPort = pa.Get()
		// dead routes: two plain, one plugin (fixed positions after the first ten)
		if i == 10 || i == 11 || i == 12 {
			rc.Dead = true
			rc.Srv = i % 2
			rc.Cli = rc.Srv*nCli + rng.Intn(nCli)
			rc.Kind = "http"
			if i == 12 {
				rc.Kind = "http2http"
			}
			rc.PlugRewriteHost, rc.PlugReqSet = "", nil
		}
		// one load-balancing group of two plain proxies with the same declared rewrites
		if i == 13 {
			rc.Kind, rc.Group = "http", "g13"
			rc.PlugRewriteHost, rc.PlugReqSet = "", nil
		}
		// two routes whose bandwidth limit (and so the limiter's burst) is smaller than the 32 KiB copy buffers:
		// every larger write / read has to be split by the limiter
		if i == 14 || i == 15 {
			rc.Kind, rc.SlowBW, rc.BW = "http", true, "24KB"
			rc.BWMode = []string{"server", "client"}[i-14]
			rc.Srv = i % 2
			rc.Cli = rc.Srv*nCli + rng.Intn(nCli)
			rc.PlugRewriteHost, rc.PlugReqSet = "", nil
		}
		// one catch-all https route per server (the name "*" is exclusive on a vhost port): https2https on the first,
		// https2http on the second server; no encryption / compression (keep-alive must work on them)
		if i == 16 || i == 17 {
			rc.Kind = []string{"https2https", "https2http"}[i-16]
			rc.Srv = i - 16
			rc.Cli = rc.Srv*nCli + rng.Intn(nCli)
			rc.CatchAll, rc.Domain = true, "*"
			rc.Enc, rc.Comp = false, false
			rc.RewriteHost, rc.ReqSet, rc.RespSet = "", nil, nil
		}
		if rc.Dead {
			// hold the port without listening: connections are refused and no other process can take it
			if err := holdPort(rc.BackendPort); err != nil {
				return fmt.Errorf("hold dead port: %w", err)
			}
		}
		if !rc.Dead {
			var tc *tls.Config
			if rc.Kind == "http2https" || rc.Kind == "https2https" {
				tc = beTLS
			}
			be, err := startRawBackend(i, rc.BackendPort, tc)
			if err != nil {
				return err
			}
			topo.Backends[i] = be
			rc.Backends = []int{i}
		}
		topo.Cfgs = append(topo.Cfgs, rc)
	}
	// second member of the group: same domain and rewrites, other client, other backend
	var extra []map[string]any
	extraCli := -1
	for _, rc := range topo.Cfgs {
		if rc.Group == "" {
			continue
		}
		port := pa.Get()
		id := 1000 + rc.Idx
		be, err := startRawBackend(id, port, nil)
		if err != nil {
			return err
		}
		topo.Backends[id] = be
		rc.Backends = append(rc.Backends, id)
		twin := *rc
		twin.Name = rc.Name + "b"
		twin.BackendPort = port
		extraCli = rc.Srv*nCli + (rc.Cli-rc.Srv*nCli+1)%nCli
		extra = append(extra, proxyJSON(&twin, plugCrt, plugKey))
	}

	// clients
	for ci := 0; ci < 2*nCli; ci++ {
		sn := topo.Servers[ci/nCli]
		var proxies []map[string]any
		var names []string
		for _, rc := range topo.Cfgs {
			if rc.Cli == ci {
				proxies = append(proxies, proxyJSON(rc, plugCrt, plugKey))
				names = append(names, rc.Name)
			}
		}
		if ci == extraCli {
			for _, e := range extra {
				proxies = append(proxies, e)
				names = append(names, e["name"].(string))
			}
		}
		if len(proxies) == 0 {
			topo.Clients = append(topo.Clients, nil)
			continue
		}
		cfg := map[string]any{
			"serverAddr": "127.0.0.1", "serverPort": sn.BindPort,
			"auth":          map[string]any{"token": token},
			"loginFailExit": false,
			"transport":     map[string]any{"tcpMux": sn.Mux, "poolCount": ci % 3},
			"proxies":       proxies,
		}
		b, _ := json.Marshal(cfg)
		_ = os.WriteFile(filepath.Join(dir, fmt.Sprintf("frpc-%d.json", ci)), b, 0o644)
		cl, err := h.StartClientText(prop, string(b))
		if err != nil {
			return fmt.Errorf("client %d: %w", ci, err)
		}
		if err := cl.WaitRunning(20*time.Second, names...); err != nil {
			return fmt.Errorf("client %d: %w", ci, err)
		}
		topo.Clients = append(topo.Clients, cl)
	}
	return nil
}

func proxyJSON(rc *routeCfg, crt, key string) map[string]any {
	p := map[string]any{
		"name":          rc.Name,
		"customDomains": []string{rc.Domain},
	}
	tr := map[string]any{"useEncryption": rc.Enc, "useCompression": rc.Comp}
	if rc.BW != "" {
		tr["bandwidthLimit"], tr["bandwidthLimitMode"] = rc.BW, rc.BWMode
	}
	p["transport"] = tr
	local := fmt.Sprintf("127.0.0.1:%d", rc.BackendPort)
	if rc.viaHTTPS() {
		p["type"] = "https"
	} else {
		p["type"] = "http"
		if rc.RewriteHost != "" {
			p["hostHeaderRewrite"] = rc.RewriteHost
		}
		if len(rc.ReqSet) > 0 {
			p["requestHeaders"] = map[string]any{"set": rc.ReqSet}
		}
		if len(rc.RespSet) > 0 {
			p["responseHeaders"] = map[string]any{"set": rc.RespSet}
		}
		if rc.Group != "" {
			p["loadBalancer"] = map[string]any{"group": rc.Group, "groupKey": "k"}
		}
	}
	if rc.Kind == "http" {
		p["localIP"], p["localPort"] = "127.0.0.1", rc.BackendPort
		return p
	}
	pl := map[string]any{"type": rc.Kind, "localAddr": local}
	if rc.PlugRewriteHost != "" {
		pl["hostHeaderRewrite"] = rc.PlugRewriteHost
	}
	if len(rc.PlugReqSet) > 0 {
		pl["requestHeaders"] = map[string]any{"set": rc.PlugReqSet}
	}
	if rc.viaHTTPS() {
		pl["crtPath"], pl["keyPath"] = crt, key
	}
	p["plugin"] = pl
	return p
}

func closeTopology() {
	for _, c := range topo.Clients {
		if c != nil {
			c.Close()
		}
	}
	for _, s := range topo.Servers {
		s.S.Close()
	}
}

var heldFDs []int

// holdPort binds 127.0.0.1:port on a socket that never listens (connect => ECONNREFUSED).
func holdPort(port int) error {
	fd, err := syscall.Socket(syscall.AF_INET, syscall.SOCK_STREAM, 0)
	if err != nil {
		return err
	}
	if err := syscall.Bind(fd, &syscall.SockaddrInet4{Port: port, Addr: [4]byte{127, 0, 0, 1}}); err != nil {
		syscall.Close(fd)
		return err
	}
	heldFDs = append(heldFDs, fd)
	return nil
}
