package main

// Raw echoing backend: every byte of a response is written by hand, so the check knows exactly
// what the backend sent (status line, header lines in order, framing, body bytes), and every
// request is logged as parsed from the socket (method, raw request-target, header value lists,
// body length + SHA-256).  What to answer is looked up out of band by the request's X-Verif-Tag
// (backend and user live in the same process), so nothing about the answer has to survive frp.

import (
	"bufio"
	"crypto/sha256"
	"crypto/tls"
	"encoding/hex"
	"fmt"
	"io"
	"math/rand"
	"net"
	"net/http"
	"strconv"
	"strings"
	"sync"
	"time"

	"verif/h"
)

// seenReq is what a backend observed for one request.
type seenReq struct {
	Backend    int         `json:"backend"`
	Method     string      `json:"method"`
	URI        string      `json:"uri"` // raw request-target
	Proto      string      `json:"proto"`
	Host       string      `json:"host"`
	Header     http.Header `json:"header"`
	TE         []string    `json:"te,omitempty"`
	BodyLen    int64       `json:"body_len"`
	BodySHA    string      `json:"body_sha"`
	BodyErr    string      `json:"body_err,omitempty"`
	RemoteAddr string      `json:"remote_addr"`
	T          int64       `json:"t_ns"`
	ConnID     int64       `json:"conn_id"`
}

// tunnelResult is what the backend observed on an upgraded / CONNECT connection.
type tunnelResult struct {
	UpBytes    int64  // verified bytes received from the user
	UpEOF      bool   // orderly end of the user's stream seen
	UpMismatch string // first content mismatch
	UpErr      string
	EndErr     string // how waiting for the end of the user's stream ended when it was not an orderly EOF
	DownSent   int64
	DownErr    string
	UpComplete chan struct{} // closed when the user's stream was verified up to its size (or failed)
	Done       chan struct{} // closed when the backend side of the tunnel ended
}

// respPlan tells the backend how to answer the request carrying the tag.
type respPlan struct {
	Status  int
	Headers [][2]string // in order, names as written
	Framing string      // "cl" | "chunked" | "close" | "none" (no body: 204/304/HEAD keeps cl header)
	Seed    int64
	Class   int
	Size    int64
	Slow    bool // pauses between pieces
	DelayMs int  // before the status line
	// Early: answer as soon as the request head is read, drain the request body afterwards
	Early bool
	// PaceMs > 0: body in pieces of at most 8 KiB with this pause after each
	PaceMs int
	// Hold: do not answer until the channel is closed (or 90 s)
	Hold chan struct{}
	// Tunnel: answer 101 (upgrade) / 200 (CONNECT) and then run the two streams
	Tunnel   string // "" | "upgrade" | "connect"
	UpSeed   int64
	UpSize   int64
	DownSeed int64
	DownSize int64
	TClass   int
	TRes     *tunnelResult
	ChunkRng int64 // seed for chunk sizes
}

var (
	planMu sync.Mutex
	plans  = map[string]*respPlan{}
	seenBy = map[string][]*seenReq{}
	orphan int64
	connID int64
)

func setPlan(tag string, p *respPlan) { planMu.Lock(); plans[tag] = p; planMu.Unlock() }
func dropPlan(tag string) {
	planMu.Lock()
	delete(plans, tag)
	delete(seenBy, tag)
	planMu.Unlock()
}
func seenFor(tag string) []*seenReq {
	planMu.Lock()
	defer planMu.Unlock()
	return append([]*seenReq(nil), seenBy[tag]...)
}

type rawBackend struct {
	ID   int
	TLS  bool
	L    net.Listener
	Port int
}

func startRawBackend(id, port int, tlsCfg *tls.Config) (*rawBackend, error) {
	l, err := net.Listen("tcp", "127.0.0.1:"+strconv.Itoa(port))
	if err != nil {
		return nil, err
	}
	b := &rawBackend{ID: id, TLS: tlsCfg != nil, Port: port}
	if tlsCfg != nil {
		l = tls.NewListener(l, tlsCfg)
	}
	b.L = l
	go func() {
		for {
			c, err := l.Accept()
			if err != nil {
				return
			}
			go b.serve(c)
		}
	}()
	return b, nil
}

func (b *rawBackend) serve(c net.Conn) {
	defer c.Close()
	planMu.Lock()
	connID++
	cid := connID
	planMu.Unlock()
	br := bufio.NewReaderSize(c, 64*1024)
	for {
		_ = c.SetReadDeadline(time.Now().Add(120 * time.Second))
		req, err := http.ReadRequest(br)
		if err != nil {
			return
		}
		tag := req.Header.Get("X-Verif-Tag")
		sr := &seenReq{Backend: b.ID, Method: req.Method, URI: req.RequestURI, Proto: req.Proto, Host: req.Host,
			Header: req.Header.Clone(), TE: req.TransferEncoding, RemoteAddr: c.RemoteAddr().String(), T: h.Now(), ConnID: cid}
		planMu.Lock()
		plan := plans[tag]
		planMu.Unlock()
		if plan != nil && plan.Tunnel != "" {
			planMu.Lock()
			seenBy[tag] = append(seenBy[tag], sr)
			planMu.Unlock()
			b.tunnel(c, br, plan)
			return
		}
		if plan != nil && plan.Early {
			// early answer: the response starts before one byte of the request body is read; the body is read
			// while the response is written, and the last byte of the response goes out only after the body
			// has ended (so a complete response never ends an exchange whose body is still on its way)
			planMu.Lock()
			seenBy[tag] = append(seenBy[tag], sr)
			planMu.Unlock()
			_ = c.SetReadDeadline(time.Now().Add(120 * time.Second))
			drained := make(chan error, 1)
			go func() {
				hsh := sha256.New()
				n, berr := io.Copy(hsh, req.Body)
				planMu.Lock()
				sr.BodyLen, sr.BodySHA = n, hex.EncodeToString(hsh.Sum(nil))
				if berr != nil {
					sr.BodyErr = berr.Error()
				}
				planMu.Unlock()
				drained <- berr
			}()
			var berr error
			ok := b.respond(c, req.Method, tag, plan, func() bool { berr = <-drained; return berr == nil })
			if !ok || berr != nil {
				c.Close()
				<-drained
				return
			}
			continue
		}
		hsh := sha256.New()
		n, berr := io.Copy(hsh, req.Body)
		sr.BodyLen, sr.BodySHA = n, hex.EncodeToString(hsh.Sum(nil))
		if berr != nil {
			sr.BodyErr = berr.Error()
		}
		planMu.Lock()
		if plan == nil {
			orphan++
		} else {
			seenBy[tag] = append(seenBy[tag], sr)
		}
		planMu.Unlock()
		if berr != nil {
			return
		}
		_ = c.SetReadDeadline(time.Time{})
		if plan == nil {
			_, _ = c.Write([]byte("HTTP/1.1 599 No Plan\r\nContent-Length: 0\r\nX-Verif-Backend: " + strconv.Itoa(b.ID) + "\r\n\r\n"))
			continue
		}
		if plan.Hold != nil {
			select {
			case <-plan.Hold:
			case <-time.After(90 * time.Second):
			}
		}
		if plan.DelayMs > 0 {
			time.Sleep(time.Duration(plan.DelayMs) * time.Millisecond)
		}
		if !b.respond(c, req.Method, tag, plan, nil) {
			return
		}
	}
}

// respond writes the planned response by hand; false = the connection must be closed.
// beforeLast (optional) is called before the final byte of a non-empty body; false aborts.
func (b *rawBackend) respond(c net.Conn, method, tag string, p *respPlan, beforeLast func() bool) bool {
	var sb strings.Builder
	fmt.Fprintf(&sb, "HTTP/1.1 %d %s\r\n", p.Status, reason(p.Status))
	for _, kv := range p.Headers {
		sb.WriteString(kv[0] + ": " + kv[1] + "\r\n")
	}
	sb.WriteString("X-Verif-Backend: " + strconv.Itoa(b.ID) + "\r\n")
	sb.WriteString("X-Verif-Tag-Echo: " + tag + "\r\n")
	noBody := method == "HEAD" || p.Status == 204 || p.Status == 304 || p.Framing == "none"
	switch {
	case p.Status == 204 || p.Status == 304:
		if p.Framing == "close" {
			sb.WriteString("Connection: close\r\n") // never close a persistent connection unannounced
		}
	case p.Framing == "cl" || p.Framing == "none":
		sb.WriteString("Content-Length: " + strconv.FormatInt(p.Size, 10) + "\r\n")
	case p.Framing == "chunked":
		sb.WriteString("Transfer-Encoding: chunked\r\n")
	case p.Framing == "close":
		sb.WriteString("Connection: close\r\n")
	}
	sb.WriteString("\r\n")
	_ = c.SetWriteDeadline(time.Now().Add(120 * time.Second))
	if _, err := c.Write([]byte(sb.String())); err != nil {
		return false
	}
	if noBody {
		return p.Framing != "close"
	}
	rng := rand.New(rand.NewSource(p.ChunkRng))
	g := h.NewStreamGen(p.Seed, p.Class)
	left := p.Size
	buf := make([]byte, 64*1024)
	for left > 0 {
		k := int64(1 + rng.Intn(len(buf)))
		if rng.Intn(5) == 0 {
			k = int64(1 + rng.Intn(64))
		}
		if p.PaceMs > 0 && k > 8*1024 {
			k = 8 * 1024
		}
		if k > left {
			k = left
		}
		if beforeLast != nil {
			if left == 1 {
				if !beforeLast() {
					return false
				}
				beforeLast = nil
			} else if k >= left {
				k = left - 1
			}
		}
		g.Fill(buf[:k])
		var err error
		if p.Framing == "chunked" {
			_, err = c.Write([]byte(strconv.FormatInt(k, 16) + "\r\n"))
			if err == nil {
				_, err = c.Write(buf[:k])
			}
			if err == nil {
				_, err = c.Write([]byte("\r\n"))
			}
		} else {
			_, err = c.Write(buf[:k])
		}
		if err != nil {
			return false
		}
		left -= k
		if p.PaceMs > 0 {
			time.Sleep(time.Duration(p.PaceMs) * time.Millisecond)
		} else if p.Slow && rng.Intn(3) == 0 {
			time.Sleep(time.Duration(1+rng.Intn(4)) * time.Millisecond)
		}
		_ = c.SetWriteDeadline(time.Now().Add(120 * time.Second))
	}
	if p.Framing == "chunked" {
		if _, err := c.Write([]byte("0\r\n\r\n")); err != nil {
			return false
		}
	}
	return p.Framing != "close"
}

// tunnel answers 101 / 200 and then runs the two independent streams of the plan.
func (b *rawBackend) tunnel(c net.Conn, br *bufio.Reader, p *respPlan) {
	res := p.TRes
	defer close(res.Done)
	_ = c.SetDeadline(time.Time{})
	var head string
	if p.Tunnel == "upgrade" {
		head = "HTTP/1.1 101 Switching Protocols\r\nUpgrade: websocket\r\nConnection: Upgrade\r\nX-Verif-Backend: " + strconv.Itoa(b.ID) + "\r\n"
		for _, kv := range p.Headers {
			head += kv[0] + ": " + kv[1] + "\r\n"
		}
		head += "\r\n"
	} else {
		head = "HTTP/1.1 200 Connection established\r\n\r\n"
	}
	if _, err := c.Write([]byte(head)); err != nil {
		res.DownErr = err.Error()
		return
	}
	var wg sync.WaitGroup
	wg.Add(1)
	go func() {
		defer wg.Done()
		rng := rand.New(rand.NewSource(p.ChunkRng))
		n, err := h.WriteStream(c, p.DownSeed, p.TClass, p.DownSize, rng, 32*1024, true)
		res.DownSent = n
		if err != nil {
			res.DownErr = err.Error()
		}
		// no half-close: an upgraded / CONNECT tunnel through a reverse proxy ends as a whole; the
		// user closes after both directions are complete
	}()
	// the user's stream: verify online until the expected size, then expect EOF
	rd := &progressReader{r: br, c: c, idle: 60 * time.Second}
	n, _, mismatch, err := h.ReadStream(rd, p.UpSeed, p.TClass, p.UpSize, 32*1024)
	res.UpBytes = n
	if mismatch && err != nil {
		res.UpMismatch = err.Error()
	} else if err != nil {
		res.UpErr = err.Error()
	}
	close(res.UpComplete)
	if res.UpMismatch == "" && res.UpErr == "" {
		rd.idle = 10 * time.Second
		one := make([]byte, 1)
		k, err := rd.Read(one)
		if k == 0 && err == io.EOF {
			res.UpEOF = true
		} else if k > 0 {
			res.UpMismatch = fmt.Sprintf("extra byte 0x%02x after the %d bytes the user wrote", one[0], p.UpSize)
		} else if err != nil {
			res.EndErr = err.Error()
		}
	}
	wg.Wait()
}

// progressReader turns "no byte for idle" into an error (bounded-progress watchdog).
type progressReader struct {
	r    io.Reader
	c    net.Conn
	idle time.Duration
}

func (p *progressReader) Read(b []byte) (int, error) {
	_ = p.c.SetReadDeadline(time.Now().Add(p.idle))
	return p.r.Read(b)
}

func reason(code int) string {
	if s := http.StatusText(code); s != "" {
		return s
	}
	return "Status"
}
