package main

// User-side wire clients (raw HTTP on keep-alive connections, TLS ClientHello, HTTP CONNECT)
// and the backend side played by the scripted frp clients on their work connections.

import (
	"bufio"
	"bytes"
	"crypto/sha256"
	"crypto/tls"
	"encoding/base64"
	"encoding/hex"
	"errors"
	"fmt"
	"io"
	"math/rand"
	"net"
	"net/http"
	"strconv"
	"strings"
	"sync"
	"sync/atomic"
	"time"

	"verif/h"
)

const ioTimeout = 20 * time.Second

// ---------------------------------------------------------------------------------------------
// backend ledger

// ledger records which backend identity saw which request tag (backend-side truth).
type ledger struct {
	mu   sync.Mutex
	seen map[string][]string
}

func newLedger() *ledger { return &ledger{seen: map[string][]string{}} }

func (l *ledger) saw(tag, ident string) {
	l.mu.Lock()
	l.seen[tag] = append(l.seen[tag], ident)
	l.mu.Unlock()
}

func (l *ledger) by(tag string) []string {
	l.mu.Lock()
	defer l.mu.Unlock()
	return append([]string(nil), l.seen[tag]...)
}

var tagSeq atomic.Uint64

// newTag returns a unique 16-byte tag (also used as the nonce of raw tunnels).
func newTag(caseIdx int) string {
	return fmt.Sprintf("T%05d-%09d", caseIdx%100000, tagSeq.Add(1)%1000000000)
}

// kindOfProxy: proxy names are "<prefix><letter><n>" with letter h (http), s (https), m (tcpmux).
func kindOfProxy(name string) string {
	i := strings.LastIndexByte(name, '.')
	if i < 0 || i+1 >= len(name) {
		return ""
	}
	switch name[i+1] {
	case 'h':
		return kHTTP
	case 's':
		return kTLS
	case 'm':
		return kMux
	}
	return ""
}

// backendHandler plays the local service of every proxy of one scripted session: it answers on
// the work connection with "S<k>|<ProxyName of StartWorkConn>", in the protocol of the proxy's kind.
func backendHandler(sess int, lg *ledger) func(p *h.Peer, wc *h.WorkConn) {
	return func(p *h.Peer, wc *h.WorkConn) {
		defer wc.Conn.Close()
		ident := identOf(sess, wc.Start.ProxyName)
		switch kindOfProxy(wc.Start.ProxyName) {
		case kHTTP:
			serveHTTPBackend(wc.Conn, ident, lg)
		case kTLS:
			serveTLSBackend(wc.Conn, ident, lg)
		case kMux:
			serveMuxBackend(wc.Conn, ident, lg)
		}
	}
}

func serveHTTPBackend(conn net.Conn, ident string, lg *ledger) {
	br := bufio.NewReader(conn)
	for n := 0; ; n++ {
		req, err := http.ReadRequest(br)
		if err != nil {
			return
		}
		if n > 0 {
			run.Count("backend_connection_reuses", 1)
		}
		if req.Method != http.MethodConnect {
			_, _ = io.Copy(io.Discard, req.Body)
			req.Body.Close()
		}
		tag := req.Header.Get("X-Tag")
		lg.saw(tag, ident)
		if req.Method == http.MethodConnect {
			fmt.Fprintf(conn, "HTTP/1.1 200 OK\r\nX-Ident: %s\r\nX-Echo-Tag: %s\r\n\r\n", ident, tag)
			_, _ = io.Copy(io.Discard, br)
			return
		}
		if d, _ := strconv.Atoi(req.Header.Get("X-Delay-Ms")); d > 0 {
			time.Sleep(time.Duration(d) * time.Millisecond)
		}
		body := ident + "\n"
		sent := body
		if req.Method == http.MethodHead {
			sent = ""
		}
		_, err = fmt.Fprintf(conn, "HTTP/1.1 200 OK\r\nX-Ident: %s\r\nX-Echo-Tag: %s\r\nContent-Type: text/plain\r\nContent-Length: %d\r\n\r\n%s",
			ident, tag, len(body), sent)
		if err != nil {
			return
		}
	}
}

func helloTag(hello []byte) string {
	s := sha256.Sum256(hello)
	return "H" + hex.EncodeToString(s[:])[:15]
}

// serveTLSBackend reads one TLS record (the ClientHello forwarded by the https muxer) and answers in
// clear text: the user side of the check is not a TLS stack, only the routing decision is observed.
func serveTLSBackend(conn net.Conn, ident string, lg *ledger) {
	_ = conn.SetDeadline(time.Now().Add(ioTimeout))
	hdr := make([]byte, 5)
	if _, err := io.ReadFull(conn, hdr); err != nil {
		return
	}
	n := int(hdr[3])<<8 | int(hdr[4])
	body := make([]byte, n)
	if _, err := io.ReadFull(conn, body); err != nil {
		return
	}
	lg.saw(helloTag(append(hdr, body...)), ident)
	fmt.Fprintf(conn, "IDENT %s\n", ident)
	_ = conn.SetDeadline(time.Time{})
	_, _ = io.Copy(io.Discard, conn)
}

// serveMuxBackend: without passthrough the backend sees the tunnel payload (a 16-byte nonce);
// with passthrough it sees the CONNECT request itself and must answer it.
func serveMuxBackend(conn net.Conn, ident string, lg *ledger) {
	br := bufio.NewReader(conn)
	_ = conn.SetDeadline(time.Now().Add(ioTimeout))
	first, err := br.Peek(8)
	if err != nil {
		return
	}
	if string(first) == "CONNECT " {
		req, err := http.ReadRequest(br)
		if err != nil {
			return
		}
		tag := req.Header.Get("X-Tag")
		lg.saw(tag, ident)
		fmt.Fprintf(conn, "HTTP/1.1 200 OK\r\nX-Ident: %s\r\nX-Echo-Tag: %s\r\n\r\n", ident, tag)
	} else {
		nonce := make([]byte, 16)
		if _, err := io.ReadFull(br, nonce); err != nil {
			return
		}
		lg.saw(string(nonce), ident)
		if _, err := conn.Write(append([]byte(ident+"|"), nonce...)); err != nil {
			return
		}
	}
	_ = conn.SetDeadline(time.Time{})
	_, _ = io.Copy(io.Discard, br)
}

// ---------------------------------------------------------------------------------------------
// requests

// request is one generated user request.
type request struct {
	Kind   string // kHTTP | kTLS | kMux
	Form   string // http: origin | absolute | connect
	Host   string // as presented (case, port suffix, trailing dot)
	Target string // http: path with optional query
	User   string
	Conn   int // http: index of the keep-alive connection to use
	Split  int // >0: write the first bytes in two pieces, split at this offset
	// DelayMs > 0 asks the backend to wait before it answers (request in flight); Tag fixes the request tag.
	DelayMs int
	Tag     string
	// Method of origin/absolute-form requests ("" = GET); Fresh: first request of a connection of its own
	// (the first bytes of a connection decide which listener of a shared control port gets it).
	Method string
	Fresh  bool
}

func (r request) sig() string {
	return r.Kind + "|" + r.Form + "|" + r.method() + "|" + fmt.Sprint(r.Fresh) + "|" + r.Host + "|" + r.Target + "|" + r.User
}

func (r request) method() string {
	if r.Form == "connect" {
		return "CONNECT"
	}
	if r.Method == "" {
		return "GET"
	}
	return r.Method
}

func hasBody(method string) bool { return method == "POST" || method == "PUT" || method == "PATCH" }

// answer is what the user observed.
type answer struct {
	Ident   string // identity of the backend that answered ("" = none)
	Refused bool   // proper refusal: 404 (HTTP, CONNECT) or failed handshake (TLS)
	Status  int
	Tag     string
	Err     string // transport anomaly: neither a backend answer nor a proper refusal
	Reused  bool   // sent on a connection that had carried earlier requests
	// Foreign404: a 404 that is not frps' own not-found page (Go's plain "404 page not found" of the control
	// port's internal websocket HTTP server): the request was claimed by a listener other than the vhost.
	Foreign404  bool
	FirstTarget string // request target of the first request of the connection this one was sent on
	Body        string // first bytes of a 404 body
	ControlPort bool   // the request went to a vhost port that is the control port
	Dropped     bool   // TLS: closed without alert and without identity (a refusal, but also what a connection routed to a proxy that closes meanwhile looks like)
}

func (a answer) String() string {
	switch {
	case a.Err != "":
		return "error(" + a.Err + ")"
	case a.Foreign404:
		return fmt.Sprintf("foreign-404(%q)", a.Body)
	case a.Refused:
		return fmt.Sprintf("refused(%d)", a.Status)
	default:
		return a.Ident
	}
}

func basic(user string) string {
	return "Basic " + base64.StdEncoding.EncodeToString([]byte(user+":pw-"+user))
}

// userAgent holds the user-side connections of one case towards one server.
type userAgent struct {
	caseIdx   int
	httpAddr  string
	tlsAddr   string
	muxAddr   string
	shared    bool // the vhost HTTP port is the control port
	sharedTLS bool // the vhost HTTPS port is the control port
	mu        sync.Mutex
	conns     map[int]*kaConn
}

type kaConn struct {
	mu    sync.Mutex
	c     net.Conn
	br    *bufio.Reader
	used  int
	first string // target of the first request sent on c
}

func newUserAgent(caseIdx int, s *srvInst) *userAgent {
	return &userAgent{caseIdx: caseIdx, conns: map[int]*kaConn{}, shared: s.httpPort == s.bindPort, sharedTLS: s.httpsPort == s.bindPort,
		httpAddr: fmt.Sprintf("127.0.0.1:%d", s.httpPort),
		tlsAddr:  fmt.Sprintf("127.0.0.1:%d", s.httpsPort),
		muxAddr:  fmt.Sprintf("127.0.0.1:%d", s.muxPort)}
}

func (ua *userAgent) close() {
	ua.mu.Lock()
	defer ua.mu.Unlock()
	for _, k := range ua.conns {
		k.mu.Lock()
		if k.c != nil {
			k.c.Close()
			k.c = nil
		}
		k.mu.Unlock()
	}
}

func (ua *userAgent) do(r request) answer {
	switch r.Kind {
	case kHTTP:
		if r.Form == "connect" {
			return ua.doHTTPConnect(r)
		}
		return ua.doHTTP(r)
	case kTLS:
		return ua.doTLS(r)
	default:
		return ua.doMux(r)
	}
}

func writeSplit(c net.Conn, raw []byte, split int) error {
	if split > 0 && split < len(raw) {
		if _, err := c.Write(raw[:split]); err != nil {
			return err
		}
		time.Sleep(200 * time.Microsecond)
		raw = raw[split:]
	}
	_, err := c.Write(raw)
	return err
}

func (ua *userAgent) httpBytes(r request, tag string) []byte {
	var b bytes.Buffer
	switch r.Form {
	case "absolute":
		fmt.Fprintf(&b, "%s http://%s%s HTTP/1.1\r\nHost: %s\r\n", r.method(), r.Host, r.Target, r.Host)
	case "connect":
		fmt.Fprintf(&b, "CONNECT %s HTTP/1.1\r\nHost: %s\r\n", r.Host, r.Host)
	default:
		fmt.Fprintf(&b, "%s %s HTTP/1.1\r\nHost: %s\r\n", r.method(), r.Target, r.Host)
	}
	if r.User != "" {
		if r.Form == "connect" {
			fmt.Fprintf(&b, "Proxy-Authorization: %s\r\n", basic(r.User))
		} else {
			fmt.Fprintf(&b, "Authorization: %s\r\n", basic(r.User))
		}
	}
	if r.DelayMs > 0 {
		fmt.Fprintf(&b, "X-Delay-Ms: %d\r\n", r.DelayMs)
	}
	if hasBody(r.method()) {
		fmt.Fprintf(&b, "Content-Type: text/plain\r\nContent-Length: 5\r\n")
	}
	fmt.Fprintf(&b, "X-Tag: %s\r\nUser-Agent: c06\r\n\r\n", tag)
	if hasBody(r.method()) {
		b.WriteString("hello")
	}
	return b.Bytes()
}

// doHTTP sends one request on the chosen keep-alive connection (redialled when the server closed it).
func (ua *userAgent) doHTTP(r request) answer {
	var k *kaConn
	if r.Fresh {
		k = &kaConn{} // a connection of its own, closed after the answer
		defer func() {
			if k.c != nil {
				k.c.Close()
			}
		}()
	} else {
		ua.mu.Lock()
		k = ua.conns[r.Conn]
		if k == nil {
			k = &kaConn{}
			ua.conns[r.Conn] = k
		}
		ua.mu.Unlock()
	}
	k.mu.Lock()
	defer k.mu.Unlock()
	var last answer
	for attempt := 0; attempt < 2; attempt++ {
		tag := newTag(ua.caseIdx)
		if r.Tag != "" && attempt == 0 {
			tag = r.Tag
		}
		reused := k.c != nil
		if k.c == nil {
			c, err := net.DialTimeout("tcp", ua.httpAddr, ioTimeout)
			if err != nil {
				return answer{Err: "dial: " + err.Error(), Tag: tag}
			}
			k.c, k.br, k.used, k.first = c, bufio.NewReader(c), 0, r.Target
		}
		first := k.first
		_ = k.c.SetDeadline(time.Now().Add(ioTimeout))
		err := writeSplit(k.c, ua.httpBytes(r, tag), r.Split)
		var resp *http.Response
		if err == nil {
			resp, err = http.ReadResponse(k.br, &http.Request{Method: r.method()})
		}
		var body []byte
		if err == nil {
			body, err = io.ReadAll(io.LimitReader(resp.Body, 1<<16))
			resp.Body.Close()
		}
		if err != nil {
			k.c.Close()
			k.c = nil
			last = answer{Err: "http: " + err.Error(), Tag: tag, Reused: reused}
			if reused {
				continue // an idle connection may have been closed by the server: one retry on a fresh one
			}
			return last
		}
		k.used++
		if resp.Close {
			k.c.Close()
			k.c = nil
		}
		a := httpAnswer(resp, body, tag, reused)
		a.ControlPort, a.FirstTarget = ua.shared, first
		return a
	}
	return last
}

// foreignNotFound: Go's http.NotFound (text/plain, nosniff, "404 page not found") as opposed to frps' own page.
func foreignNotFound(resp *http.Response, body []byte) bool {
	if resp.StatusCode != 404 || bytes.Contains(body, []byte("frp")) {
		return false
	}
	return bytes.HasPrefix(body, []byte("404 page not found")) || resp.Header.Get("X-Content-Type-Options") == "nosniff"
}

func httpAnswer(resp *http.Response, body []byte, tag string, reused bool) answer {
	a := answer{Status: resp.StatusCode, Tag: tag, Reused: reused}
	if resp.StatusCode == 301 && resp.Header.Get("X-Ident") == "" && resp.Header.Get("Location") != "" {
		// Go's ServeMux path cleaning: again the internal HTTP server of another listener, not the vhost
		a.Foreign404, a.Refused, a.Body = true, true, "301 Moved Permanently"
		return a
	}
	if resp.StatusCode == 404 {
		a.Foreign404 = foreignNotFound(resp, body)
		if len(body) > 60 {
			body = body[:60]
		}
		a.Body = string(body)
	}
	id := resp.Header.Get("X-Ident")
	switch {
	case resp.StatusCode == 200 && id != "":
		a.Ident = id
		if e := resp.Header.Get("X-Echo-Tag"); e != tag {
			a.Err = fmt.Sprintf("response carries tag %q, request had %q", e, tag)
		}
	case resp.StatusCode == 404 && id == "":
		a.Refused = true
	default:
		a.Err = fmt.Sprintf("unexpected status %d (ident %q)", resp.StatusCode, id)
	}
	return a
}

// claimedKey names the finding "a vhost request on the shared control port was answered by another listener":
// connections whose first request target extends frps' websocket path ("/~!frp" + more) are one witness class,
// everything else another.
func claimedKey(a answer) string {
	if strings.HasPrefix(a.FirstTarget, "/~!frp") {
		return "shared-port-request-extending-websocket-path-claimed-by-control-listener"
	}
	return "shared-port-request-claimed-by-control-listener"
}

// doHTTPConnect sends a CONNECT request to the vhost HTTP port on a fresh connection.
func (ua *userAgent) doHTTPConnect(r request) answer {
	tag := newTag(ua.caseIdx)
	c, err := net.DialTimeout("tcp", ua.httpAddr, ioTimeout)
	if err != nil {
		return answer{Err: "dial: " + err.Error(), Tag: tag}
	}
	defer c.Close()
	_ = c.SetDeadline(time.Now().Add(ioTimeout))
	if err := writeSplit(c, ua.httpBytes(r, tag), r.Split); err != nil {
		return answer{Err: "write: " + err.Error(), Tag: tag}
	}
	resp, err := http.ReadResponse(bufio.NewReader(c), &http.Request{Method: "CONNECT"})
	if err != nil {
		return answer{Err: "connect: " + err.Error(), Tag: tag}
	}
	var body []byte
	if resp.StatusCode == 404 {
		body, _ = io.ReadAll(io.LimitReader(resp.Body, 1<<16))
	}
	a := httpAnswer(resp, body, tag, false)
	a.ControlPort, a.FirstTarget = ua.shared, r.Target
	return a
}

type captureConn struct{ buf bytes.Buffer }

func (c *captureConn) Read([]byte) (int, error)         { return 0, io.EOF }
func (c *captureConn) Write(p []byte) (int, error)      { return c.buf.Write(p) }
func (c *captureConn) Close() error                     { return nil }
func (c *captureConn) LocalAddr() net.Addr              { return &net.TCPAddr{} }
func (c *captureConn) RemoteAddr() net.Addr             { return &net.TCPAddr{} }
func (c *captureConn) SetDeadline(time.Time) error      { return nil }
func (c *captureConn) SetReadDeadline(time.Time) error  { return nil }
func (c *captureConn) SetWriteDeadline(time.Time) error { return nil }

// clientHello produces the bytes of a real ClientHello (crypto/tls) carrying sni verbatim.
func clientHello(sni string) ([]byte, error) {
	cc := &captureConn{}
	_ = tls.Client(cc, &tls.Config{ServerName: sni, InsecureSkipVerify: true}).Handshake()
	b := cc.buf.Bytes()
	if len(b) < 6 || b[0] != 0x16 {
		return nil, errors.New("no client hello produced")
	}
	n := int(b[3])<<8 | int(b[4])
	if len(b) < 5+n {
		return nil, errors.New("short client hello")
	}
	return b[:5+n], nil
}

// doTLS sends a ClientHello with the SNI and reads either the clear-text identity of the backend the
// connection was routed to, or a refusal (TLS alert record and/or close without identity).
func (ua *userAgent) doTLS(r request) answer {
	hello, err := clientHello(r.Host)
	if err != nil {
		return answer{Err: err.Error()}
	}
	tag := helloTag(hello)
	c, err := net.DialTimeout("tcp", ua.tlsAddr, ioTimeout)
	if err != nil {
		return answer{Err: "dial: " + err.Error(), Tag: tag}
	}
	defer c.Close()
	_ = c.SetDeadline(time.Now().Add(ioTimeout))
	if err := writeSplit(c, hello, r.Split); err != nil {
		return answer{Err: "write: " + err.Error(), Tag: tag}
	}
	br := bufio.NewReader(c)
	first, err := br.Peek(1)
	if err != nil {
		if errors.Is(err, io.EOF) || isReset(err) {
			return answer{Refused: true, Dropped: true, Tag: tag}
		}
		return answer{Err: "tls read: " + err.Error(), Tag: tag}
	}
	if first[0] == 0x15 { // alert record
		return answer{Refused: true, Status: 0x15, Tag: tag}
	}
	if first[0] == 0x16 {
		// a TLS server answered the handshake: the vhost never terminates TLS (it forwards the ClientHello or
		// sends an alert), so another listener of the port (the control port's TLS listener) claimed the connection
		return answer{Refused: true, Foreign404: true, Status: 0x16, Body: "TLS handshake record from a TLS-terminating listener", ControlPort: ua.sharedTLS, Tag: tag}
	}
	line, err := br.ReadString('\n')
	if err != nil || !strings.HasPrefix(line, "IDENT ") {
		return answer{Err: fmt.Sprintf("tls: unexpected reply %q (%v)", line, err), Tag: tag}
	}
	return answer{Ident: strings.TrimSpace(strings.TrimPrefix(line, "IDENT ")), Tag: tag}
}

func isReset(err error) bool {
	return err != nil && (strings.Contains(err.Error(), "connection reset") || strings.Contains(err.Error(), "broken pipe"))
}

// doMux sends CONNECT to the tcpmux port; after "200" either the backend has answered itself
// (passthrough) or the tunnel is open and the nonce exchange tells who is at the other end.
func (ua *userAgent) doMux(r request) answer {
	tag := newTag(ua.caseIdx)
	c, err := net.DialTimeout("tcp", ua.muxAddr, ioTimeout)
	if err != nil {
		return answer{Err: "dial: " + err.Error(), Tag: tag}
	}
	defer c.Close()
	_ = c.SetDeadline(time.Now().Add(ioTimeout))
	rr := r
	rr.Form = "connect"
	if err := writeSplit(c, ua.httpBytes(rr, tag), r.Split); err != nil {
		return answer{Err: "write: " + err.Error(), Tag: tag}
	}
	br := bufio.NewReader(c)
	resp, err := http.ReadResponse(br, &http.Request{Method: "CONNECT"})
	if err != nil {
		return answer{Err: "connect: " + err.Error(), Tag: tag}
	}
	a := answer{Status: resp.StatusCode, Tag: tag}
	switch {
	case resp.StatusCode == 404:
		a.Refused = true
	case resp.StatusCode == 200 && resp.Header.Get("X-Ident") != "":
		a.Ident = resp.Header.Get("X-Ident")
		if e := resp.Header.Get("X-Echo-Tag"); e != tag {
			a.Err = fmt.Sprintf("response carries tag %q, request had %q", e, tag)
		}
	case resp.StatusCode == 200:
		if _, err := c.Write([]byte(tag)); err != nil {
			a.Err = "tunnel write: " + err.Error()
			return a
		}
		_ = c.SetDeadline(time.Now().Add(10 * time.Second)) // a tunnel dropped at the hand-over is not answered at all
		var id []byte
		for {
			b, err := br.ReadByte()
			if err != nil {
				a.Err = fmt.Sprintf("tunnel read: %v (got %q)", err, id)
				return a
			}
			id = append(id, b)
			if n := len(id); n > 17 && id[n-17] == '|' && string(id[n-16:]) == tag {
				a.Ident = string(id[:n-17])
				return a
			}
			if len(id) > 300 {
				a.Err = fmt.Sprintf("tunnel: no identity in %q", id)
				return a
			}
		}
	default:
		a.Err = fmt.Sprintf("unexpected status %d", resp.StatusCode)
	}
	return a
}

// presentHost varies the spelling of a host without changing what it denotes (statement:
// case is ignored; HTTP and CONNECT also ignore a port suffix and a trailing dot).
func presentHost(rng *rand.Rand, kind, host string, forcePort bool) string {
	b := []byte(host)
	if rng.Intn(3) == 0 {
		for i := range b {
			if b[i] >= 'a' && b[i] <= 'z' && rng.Intn(3) == 0 {
				b[i] -= 32
			}
		}
	}
	out := string(b)
	if kind == kTLS {
		return out
	}
	if rng.Intn(5) == 0 {
		out += "."
	}
	if forcePort || rng.Intn(3) == 0 {
		out += []string{":80", ":8080", ":443", ":7000"}[rng.Intn(4)]
	}
	return out
}
