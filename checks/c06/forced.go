package main

import (
	"fmt"

	"verif/h"
)

// Forced interleaving: the route table changes between the moment the http reverse proxy has selected the
// route of a request and the moment it creates the backend connection. Needs the hook point
// "vhost.http.beforeDial" (see fixes/C06-hook-request.md); without it the same scenario runs unforced.
const dialHook = "vhost.http.beforeDial"

func forcedDialCase(c *h.Case) {
	rng := c.Rng
	variant := rng.Intn(nVariants)
	s, err := acquire(variant)
	if err != nil {
		run.Inconclusive("no server: " + err.Error())
		return
	}
	clean := false
	defer func() { release(s, clean) }()
	B := fmt.Sprintf("k%d.test", c.Idx)
	host := "a." + B
	t := &tcase{c: c, rng: rng, s: s, B: B, pfx: fmt.Sprintf("k%d.", c.Idx), m: newModel(subHost), lg: newLedger(), peers: map[int]*h.Peer{}, nSess: 2, nKA: 2}
	t.ua = newUserAgent(c.Idx, s)
	defer t.ua.close()
	for i := 1; i <= 2; i++ {
		p, err := h.DialPeer(h.PeerOpts{ServerPort: s.bindPort, TCPMux: true, Token: token, AutoWork: true, WorkHandler: backendHandler(i, t.lg)})
		if err != nil || !p.LoggedIn() {
			run.Inconclusive("login failed")
			t.closePeers()
			clean = waitClean(s)
			return
		}
		t.peers[i] = p
	}
	shape := rng.Intn(4)
	c.Data["variant"], c.Data["shape"] = variantNames[variant], shape
	// general route (selected first), specific route (registered while the request waits at the dial), and the
	// two requests: X matches both (specific wins once it exists), Y matches the general route only
	var general, specific *pspec
	x := request{Kind: kHTTP, Form: "origin", Host: host, Target: "/a/x", Conn: 0}
	y := request{Kind: kHTTP, Form: "origin", Host: host, Target: "/x", Conn: 1}
	switch shape {
	case 0:
		general = &pspec{Sess: 1, Kind: kHTTP, Name: t.pfx + "h1", Domains: []string{"*"}, Locations: []string{"/"}}
		specific = &pspec{Sess: 2, Kind: kHTTP, Name: t.pfx + "h2", Domains: []string{host}, Locations: []string{"/a"}}
	case 1:
		general = &pspec{Sess: 1, Kind: kHTTP, Name: t.pfx + "h1", Domains: []string{"*." + B}}
		specific = &pspec{Sess: 2, Kind: kHTTP, Name: t.pfx + "h2", Domains: []string{host}, Locations: []string{"/a/"}}
		y.Host = "b." + B
		y.Target = "/a/x"
	case 2:
		general = &pspec{Sess: 1, Kind: kHTTP, Name: t.pfx + "h1", Domains: []string{host}}
		specific = &pspec{Sess: 2, Kind: kHTTP, Name: t.pfx + "h2", Domains: []string{host}, User: "alice"}
		x.User, x.Target = "alice", "/x"
	default:
		// no general route: X is unmatched when it arrives; Y repeats it after the specific route has gone again
		specific = &pspec{Sess: 2, Kind: kHTTP, Name: t.pfx + "h2", Domains: []string{host}, Locations: []string{"/a"}}
		y = x
		y.Conn = 1
	}
	if general != nil && !t.register(*general) {
		t.finish(&clean)
		return
	}
	phase := fmt.Sprintf("forced dial shape %d", shape)

	gate := h.NewGate(dialHook, host, 1)
	defer gate.Release()
	x.Tag = newTag(c.Idx)
	ch := make(chan answer, 1)
	go func() { ch <- t.ua.do(x) }()
	var ax answer
	held := false
	select {
	case ax = <-ch:
		run.Count("forced_dial_gate_unavailable", 1) // hook point not in this tree (or not reached): unforced run
	case <-func() chan struct{} {
		w := make(chan struct{})
		go func() {
			if gate.WaitArrived(ioTimeout) {
				close(w)
			}
		}()
		return w
	}():
		held = true
		run.Count("forced_dial_gate_held", 1)
	}
	okReg := t.register(*specific)
	gate.Release()
	if held {
		ax = <-ch
	}
	c.Ev("request", "phase", phase+": X", "req", x, "got", ax.String(), "held_at_dial", held)
	if !okReg {
		t.finish(&clean)
		return
	}
	// X was under way while the specific route appeared: owner before or after are both legal
	legal := []string{specific.ident()}
	if general != nil {
		legal = append(legal, general.ident())
	}
	switch {
	case ax.Err != "":
		run.Count("transport_anomalies", 1)
	case ax.Refused && general != nil:
		c.Violation("matching-route-refused-http", "%s: request X host=%q target=%q user=%q refused although a matching route existed before and after the registration of %v", phase, x.Host, x.Target, x.User, specific.triples(subHost))
	case ax.Ident != "" && !contains(legal, ax.Ident):
		c.Violation("wrong-route-selected-http", "%s: request X answered by %s, want one of %v", phase, ax.Ident, legal)
	}
	if general == nil {
		// remove the specific route again: Y (same spelling as X) must be refused
		peer := t.peers[specific.Sess]
		_ = peer.CloseProxy(specific.Name)
		if _, err := peer.Ping(ioTimeout); err != nil {
			run.Inconclusive("close barrier missing")
			t.finish(&clean)
			return
		}
		t.m.close(specific.Name)
	}
	t.ledgerCheck(phase)
	x.Tag, y.Tag = "", ""
	for i := 0; i < 3; i++ {
		t.eval(y, phase+": Y after X")
		t.eval(x, phase+": X again")
	}
	run.Distinct(fmt.Sprintf("forced|%d|%s|%v", shape, variantNames[variant], held))
	t.finish(&clean)
}
