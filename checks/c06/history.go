package main

import (
	"fmt"
	"math/rand"
	"sort"
	"strings"
	"sync"
	"time"

	"github.com/anishathalye/porcupine"

	"verif/h"
)

// Concurrent histories: registrars fight over a few triples while traffic clients look routes up.
// State of the model: owner identity per contended triple ("" = free).

const maxTriples = 4

type hState [maxTriples]string

type hIn struct {
	Op     string // reg | close | lookup
	Triple int    // reg/close: index of the contended triple
	Ident  string // reg/close: identity "S<k>|<proxy>"
	Req    request
}

type hOut struct {
	OK    bool   // reg: accepted
	Owner string // lookup: identity that answered ("" = refused)
	Unk   bool   // lookup: transport anomaly, or answer explained separately (stale owner)
	// Foreign: refused with a 404 that is not frps' not-found page (another listener of a shared port answered)
	Foreign string
}

func historyModel(kind string, trs []triple) porcupine.Model {
	return porcupine.Model{
		Init: func() interface{} { return hState{} },
		Step: func(state, input, output interface{}) (bool, interface{}) {
			st := state.(hState)
			in := input.(hIn)
			out := output.(hOut)
			switch in.Op {
			case "reg":
				if st[in.Triple] == "" {
					st[in.Triple] = in.Ident
					return out.OK, st
				}
				return !out.OK, st
			case "close":
				if st[in.Triple] == in.Ident {
					st[in.Triple] = ""
				}
				return true, st
			case "lookup":
				if out.Unk {
					return true, st
				}
				tab := table{}
				for i, tr := range trs {
					if st[i] != "" {
						tab[tr] = &entry{Owners: []string{st[i]}}
					}
				}
				want := ""
				if o := tab.owners(kind, in.Req.Host, in.Req.Target, in.Req.User); o != nil {
					want = o[0]
				}
				return want == out.Owner, st
			}
			return false, st
		},
		DescribeOperation: func(input, output interface{}) string {
			in := input.(hIn)
			if in.Op == "lookup" {
				return fmt.Sprintf("lookup %s %s %s -> %+v", in.Req.Host, in.Req.Target, in.Req.User, output)
			}
			return fmt.Sprintf("%s #%d %s -> %+v", in.Op, in.Triple, in.Ident, output)
		},
	}
}

// contendedTriples draws 2-4 triples that interact in the specification (same host family).
func contendedTriples(rng *rand.Rand, kind, B string) []triple {
	var pool []triple
	switch kind {
	case kHTTP:
		d := "a." + B
		pool = []triple{{d, "/a", ""}, {d, "/a/b", ""}, {d, "/a", "alice"}, {d, "", ""}, {"*." + B, "/a", ""}, {"*", "/", ""}, {d, "/ab", ""}, {"*." + B, "", "alice"}}
	case kMux:
		d := "a." + B
		pool = []triple{{d, "", ""}, {d, "", "alice"}, {"*." + B, "", ""}, {"*", "", ""}, {"*." + B, "", "alice"}, {"x." + d, "", ""}, {"*." + d, "", ""}}
	default:
		d := "a." + B
		pool = []triple{{d, "", ""}, {"*." + B, "", ""}, {"*", "", ""}, {"x." + d, "", ""}, {"*." + d, "", ""}}
	}
	n := 2 + rng.Intn(maxTriples-1)
	rng.Shuffle(len(pool), func(i, j int) { pool[i], pool[j] = pool[j], pool[i] })
	out := pool[:n]
	return out
}

func historyCase(c *h.Case) {
	rng := c.Rng
	variant := rng.Intn(nVariants)
	kind := kHTTP
	switch x := rng.Intn(10); {
	case x >= 6 && x < 8:
		kind = kTLS
	case x >= 8:
		kind = kMux
	}
	s, err := acquire(variant)
	if err != nil {
		run.Inconclusive("no server: " + err.Error())
		return
	}
	clean := false
	defer func() { release(s, clean) }()
	B := fmt.Sprintf("k%d.test", c.Idx)
	pfx := fmt.Sprintf("k%d.", c.Idx)
	trs := contendedTriples(rng, kind, B)
	nReg := 2 + rng.Intn(2)
	nTraffic := 2
	opsPerReg := 5 + rng.Intn(3)
	opsPerTraffic := 6 + rng.Intn(3)
	c.Data["variant"], c.Data["kind"], c.Data["triples"], c.Data["registrars"] = variantNames[variant], kind, trs, nReg

	// hook-point delays for everything that carries this case's names
	stopPerturb, trace := perturbCase(rng, pfx, "."+B)
	defer stopPerturb()

	lg := newLedger()
	ua := newUserAgent(c.Idx, s)
	defer ua.close()
	peers := make([]*h.Peer, nReg+1)
	closeAll := func() {
		for _, p := range peers {
			if p != nil {
				p.Close()
			}
		}
		clean = waitClean(s)
	}
	for i := 1; i <= nReg; i++ {
		p, err := h.DialPeer(h.PeerOpts{ServerPort: s.bindPort, TCPMux: true, Token: token, AutoWork: true, WorkHandler: backendHandler(i, lg)})
		if err != nil || !p.LoggedIn() {
			run.Inconclusive("login failed")
			closeAll()
			return
		}
		peers[i] = p
	}

	// plans
	type regOp struct {
		Close  bool
		Triple int
	}
	plans := make([][]regOp, nReg+1)
	var sig []string
	for i := 1; i <= nReg; i++ {
		for j := 0; j < opsPerReg; j++ {
			o := regOp{Close: rng.Intn(5) < 2, Triple: rng.Intn(len(trs))}
			plans[i] = append(plans[i], o)
			sig = append(sig, fmt.Sprintf("%d:%v:%d", i, o.Close, o.Triple))
		}
	}
	tmpT := &tcase{c: c, rng: rng, B: B, pfx: pfx, m: newModel(subHost), nKA: 1}
	// request generation wants a table to aim at: the fully populated one
	for i, tr := range trs {
		tmpT.m.tabs[kind][tr] = &entry{Owners: []string{fmt.Sprintf("T%d", i)}}
	}
	reqPlans := make([][]request, nTraffic)
	for i := range reqPlans {
		for j := 0; j < opsPerTraffic; j++ {
			tr := trs[rng.Intn(len(trs))]
			r := tmpT.genRequestKind(kind, &tr)
			r.Conn = i // each traffic client has its own keep-alive connection
			if r.Form == "connect" && rng.Intn(2) == 0 {
				r.Form = "origin"
				r.Target = "/a/b"
			}
			reqPlans[i] = append(reqPlans[i], r)
			sig = append(sig, norm(c, r.sig()))
		}
	}
	c.Data["reg_plans"], c.Data["req_plans"] = plans, reqPlans
	if c.Idx%500 == 0 {
		run.Sample(map[string]any{"kind": "history", "vhost": kind, "variant": variantNames[variant], "triples": trs, "registrar_plans": plans[1:], "requests_of_client_0": reqPlans[0]})
	}

	var mu sync.Mutex
	var ops []porcupine.Operation
	closeRet := map[string]int64{} // ident -> return time of its acknowledged close
	closeCall := map[string]int64{}
	record := func(client int, in hIn, out hOut, call, ret int64) {
		mu.Lock()
		ops = append(ops, porcupine.Operation{ClientId: client, Input: in, Output: out, Call: call, Return: ret})
		mu.Unlock()
		c.Ev("op", "client", client, "in", in, "out", out, "call", call, "ret", ret)
	}

	var wg sync.WaitGroup
	tainted := false
	for i := 1; i <= nReg; i++ {
		wg.Add(1)
		go func(i int) {
			defer wg.Done()
			p := peers[i]
			own := map[int]string{} // triple -> proxy name currently registered by this session
			seq := 0
			for _, o := range plans[i] {
				if o.Close {
					// close the proxy this session holds on that triple (or any it holds)
					name, ok := own[o.Triple]
					tri := o.Triple
					if !ok {
						for k := 0; k < len(trs) && !ok; k++ {
							if n, held := own[k]; held {
								name, tri, ok = n, k, true
							}
						}
					}
					if !ok {
						continue
					}
					call := h.Now()
					_ = p.CloseProxy(name)
					_, err := p.Ping(ioTimeout)
					ret := h.Now()
					if err != nil {
						run.Inconclusive("close barrier missing")
						mu.Lock()
						tainted = true
						mu.Unlock()
						return
					}
					delete(own, tri)
					mu.Lock()
					closeRet[identOf(i, name)] = ret
					closeCall[identOf(i, name)] = call
					mu.Unlock()
					record(i-1, hIn{Op: "close", Triple: tri, Ident: identOf(i, name)}, hOut{OK: true}, call, ret)
					run.Count("hist_closes", 1)
					continue
				}
				if _, mine := own[o.Triple]; mine {
					continue // registering one's own triple again is the same proxy name conflict, not a route question
				}
				seq++
				letter := map[string]string{kHTTP: "h", kTLS: "s", kMux: "m"}[kind]
				tr := trs[o.Triple]
				ps := pspec{Sess: i, Kind: kind, Name: fmt.Sprintf("%s%d.%s%d", pfx, i, letter, seq), Domains: []string{tr.Domain}, User: tr.User}
				if kind == kHTTP && tr.Loc != "" {
					ps.Locations = []string{tr.Loc}
				}
				call := h.Now()
				resp, err := p.NewProxy(ps.toMsg(), ioTimeout)
				ret := h.Now()
				if err != nil {
					run.Inconclusive("registration reply missing")
					mu.Lock()
					tainted = true
					mu.Unlock()
					return
				}
				if resp.Error == "" {
					own[o.Triple] = ps.Name
				}
				record(i-1, hIn{Op: "reg", Triple: o.Triple, Ident: ps.ident()}, hOut{OK: resp.Error == ""}, call, ret)
				run.Count("hist_registrations", 1)
				if resp.Error != "" {
					run.Count("hist_registrations_refused", 1)
				}
			}
		}(i)
	}
	lookup := func(client int, r request) {
		call := h.Now()
		a := ua.do(r)
		ret := h.Now()
		out := hOut{Owner: a.Ident}
		if a.Foreign404 {
			out.Foreign = claimedKey(a)
			if !a.ControlPort {
				out.Foreign = "matching-route-answered-by-foreign-not-found-" + kind
			}
			run.Count("hist_answers_by_another_listener_of_the_port", 1)
		}
		if a.Dropped {
			// closed without alert: the connection was routed to a listener that closed before the hand-over completed
			out.Unk = true
			run.Count("hist_tls_dropped_without_alert", 1)
		}
		if a.Err != "" {
			out.Unk = true
			if strings.HasPrefix(a.Err, "response carries tag") {
				c.Violation("response-of-another-request-"+r.Kind, "%s", a.Err)
			} else {
				run.Count("transport_anomalies", 1)
				c.Ev("anomaly", "req", r, "err", a.Err)
				debugf("case %d anomaly: %+v: %s", c.Idx, r, a.Err)
			}
		}
		record(client, hIn{Op: "lookup", Req: r}, out, call, ret)
		run.Count("hist_lookups", 1)
	}
	for i := 0; i < nTraffic; i++ {
		wg.Add(1)
		go func(i int) {
			defer wg.Done()
			for _, r := range reqPlans[i] {
				lookup(nReg+i, r)
				time.Sleep(time.Duration(200+100*i) * time.Microsecond)
			}
		}(i)
	}
	wg.Wait()
	// quiescent lookups pin the final state
	for i, tr := range trs {
		tr := tr
		r := tmpT.genRequestKind(kind, &tr)
		r.Conn = i % nTraffic
		lookup(nReg+nTraffic, r)
	}
	ua.close()
	if tainted {
		closeAll()
		return
	}

	// answers by a proxy whose close had been acknowledged before the request was sent are reported
	// under their own key (stale former owner) and taken out of the linearizability question
	mu.Lock()
	hist := append([]porcupine.Operation(nil), ops...)
	mu.Unlock()
	tripleOf := map[string]int{}
	for _, op := range hist {
		if in := op.Input.(hIn); in.Op == "reg" {
			tripleOf[in.Ident] = in.Triple
		}
	}
	for k, op := range hist {
		in := op.Input.(hIn)
		out := op.Output.(hOut)
		if in.Op != "lookup" || out.Unk || out.Owner == "" {
			continue
		}
		if ti, ok := tripleOf[out.Owner]; !ok || !trs[ti].matches(kind, in.Req.Host, in.Req.Target, in.Req.User) {
			// independent of any table state: a proxy must never get a request its route does not match
			c.Violation("request-served-by-non-matching-route-"+kind, "%s request host=%q target=%q user=%q was answered by %s, whose only route %v does not match it", kind, in.Req.Host, in.Req.Target, in.Req.User, out.Owner, trs[ti])
			out.Unk = true
			hist[k].Output = out
			continue
		}
		if t, ok := closeRet[out.Owner]; ok && t < op.Call {
			c.Violation(kind+"-request-served-by-former-owner-after-reregistration", "%s request host=%q target=%q user=%q sent at %d was answered by %s whose close was acknowledged at %d", kind, in.Req.Host, in.Req.Target, in.Req.User, op.Call, out.Owner, t)
			out.Unk = true
			hist[k].Output = out
		}
	}
	res, _ := porcupine.CheckOperationsVerbose(historyModel(kind, trs), hist, 60*time.Second)
	switch res {
	case porcupine.Illegal:
		// first question: is the history legal once refusals that did not come from the vhost (Go's plain 404 of the
		// control port's websocket server) are discounted? Then requests were claimed by the wrong listener.
		{
			w := append([]porcupine.Operation(nil), hist...)
			n, key := 0, ""
			for k, op := range w {
				if out := op.Output.(hOut); op.Input.(hIn).Op == "lookup" && out.Foreign != "" && !out.Unk {
					if key == "" || !strings.Contains(out.Foreign, "websocket-path") {
						key = out.Foreign
					}
					out.Unk = true
					w[k].Output = out
					n++
				}
			}
			if n > 0 {
				if r, _ := porcupine.CheckOperationsVerbose(historyModel(kind, trs), w, 60*time.Second); r == porcupine.Ok {
					c.Violation(key, "history of %d operations over triples %v (%s) is not linearizable; it is once %d refusals are discounted that were answered by another listener of the port (plain \"404 page not found\") and not by the vhost", len(hist), trs, kind, n)
					break
				}
			}
		}
		// second question: is the history legal once answers of proxies whose close was acknowledged before the
		// answer arrived (request and close overlapped) are discounted? Then the witness is a stale former owner.
		weak := append([]porcupine.Operation(nil), hist...)
		discounted := 0
		for k, op := range weak {
			in, out := op.Input.(hIn), op.Output.(hOut)
			if in.Op == "lookup" && !out.Unk && out.Owner != "" {
				if t, ok := closeRet[out.Owner]; ok && t < op.Return && closeCall[out.Owner] < op.Call {
					out.Unk = true
					weak[k].Output = out
					discounted++
				}
			}
		}
		res2 := porcupine.Illegal
		if discounted > 0 {
			res2, _ = porcupine.CheckOperationsVerbose(historyModel(kind, trs), weak, 60*time.Second)
		}
		if res2 == porcupine.Ok {
			c.Violation("stale-owner-answer-in-concurrent-history-"+kind, "history of %d operations over triples %v (%s) is not linearizable; it is once %d answers are discounted that were given by proxies whose close had been sent before the request and was acknowledged before the answer", len(hist), trs, kind, discounted)
		} else {
			c.Violation("route-history-not-linearizable-"+kind, "history of %d operations over triples %v (%s) is not linearizable w.r.t. the route-table model and the selection specification", len(hist), trs, kind)
		}
	case porcupine.Unknown:
		run.Inconclusive("porcupine timeout")
	}
	run.Count("histories_checked", 1)
	run.Count("history_ops", int64(len(hist)))
	sort.Strings(sig)
	run.Distinct("hist|" + kind + "|" + variantNames[variant] + "|" + norm(c, fmt.Sprint(trs)) + "|" + strings.Join(sig, ",") + "|" + h.TraceSig(trace()))
	closeAll()
	if !clean {
		sn := s.srv.Snapshot()
		c.Violation("routes-left-after-all-sessions-ended", "after every session was closed and left the session table the server still holds http=%v https=%v tcpmux=%v sessions=%d", sn.HTTPRoutes, sn.HTTPSRoutes, sn.TCPMuxRoutes, len(sn.Sessions))
	}
}

// perturbCase installs PRNG delays at every hook hit one of whose string arguments starts with pfx or
// contains sub (proxy names carry the prefix, domains the base domain).
func perturbCase(rng *rand.Rand, pfx, sub string) (remove func(), trace func() []string) {
	var mu sync.Mutex
	var tr []string
	local := rand.New(rand.NewSource(rng.Int63()))
	rm := h.OnHook("", "", func(point string, args []any) {
		match := false
		for _, a := range args {
			if s, ok := a.(string); ok && (strings.HasPrefix(s, pfx) || strings.Contains(s, sub)) {
				match = true
				break
			}
		}
		if !match {
			return
		}
		mu.Lock()
		x := local.Intn(100)
		if len(tr) < 4096 {
			tr = append(tr, point)
		}
		mu.Unlock()
		switch {
		case x < 55:
		case x < 80:
			time.Sleep(50 * time.Microsecond)
		case x < 97:
			time.Sleep(time.Millisecond)
		default:
			time.Sleep(8 * time.Millisecond)
		}
	})
	return rm, func() []string { mu.Lock(); defer mu.Unlock(); return append([]string(nil), tr...) }
}
