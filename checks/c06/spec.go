package main

// The independent specification of route selection, written from the property statement
// (not from the code): canonical host, candidate domains from most to least specific,
// user-restricted before unrestricted, longest location prefix; plus the reference model of
// the route table (registration refused iff a triple is taken, removal of exactly the
// triples of the closed proxy).

import (
	"sort"
	"strconv"
	"strings"
)

const (
	kHTTP = "http"   // HTTP request (origin form, absolute form, CONNECT) on the vhost HTTP port
	kTLS  = "https"  // TLS ClientHello on the vhost HTTPS port
	kMux  = "tcpmux" // HTTP CONNECT on the tcpmux port
)

var kinds = []string{kHTTP, kTLS, kMux}

// triple is one registered route; Domain is stored lower-case (host comparison ignores case).
type triple struct {
	Domain string
	Loc    string
	User   string
}

func (t triple) String() string { return t.Domain + " " + t.Loc + " " + t.User }

// entry is what a triple points to: the identities ("S<k>|<proxy>") that may answer.
// More than one owner only for load-balancing groups.
type entry struct {
	Owners []string
	Group  string
	Key    string
}

// table is the reference route table of one vhost kind.
type table map[triple]*entry

func canonHost(kind, host string) string {
	hst := strings.ToLower(host)
	if kind == kTLS {
		return hst
	}
	if i := strings.LastIndexByte(hst, ':'); i >= 0 && i+1 < len(hst) && strings.Trim(hst[i+1:], "0123456789") == "" {
		hst = hst[:i]
	}
	return strings.TrimSuffix(hst, ".")
}

// candidates lists the domains that match host, most specific first: the host itself, the
// wildcards "*.<suffix>" from the longest suffix down to two fixed labels, the catch-all.
func candidates(hst string) []string {
	out := []string{hst}
	labels := strings.Split(hst, ".")
	for i := 1; len(labels)-i >= 2; i++ {
		out = append(out, "*."+strings.Join(labels[i:], "."))
	}
	return append(out, "*")
}

func cleanPath(kind, target string) string {
	if kind != kHTTP {
		return ""
	}
	if i := strings.IndexByte(target, '?'); i >= 0 {
		target = target[:i]
	}
	return target
}

// route is the specification: the triple that must serve the request, if any.
func (t table) route(kind, host, target, user string) (triple, bool) {
	hst := canonHost(kind, host)
	path := cleanPath(kind, target)
	if kind == kTLS {
		user = ""
	}
	users := []string{user}
	if user != "" {
		users = append(users, "")
	}
	for _, d := range candidates(hst) {
		for _, u := range users {
			best, found := triple{}, false
			for tr := range t {
				if tr.Domain != d || tr.User != u || !strings.HasPrefix(path, tr.Loc) {
					continue
				}
				if !found || len(tr.Loc) > len(best.Loc) {
					best, found = tr, true
				}
			}
			if found {
				return best, true
			}
		}
	}
	return triple{}, false
}

// matches says whether the route matches the request at all (host pattern, user restriction, location prefix).
func (tr triple) matches(kind, host, target, user string) bool {
	if kind == kTLS {
		user = ""
	}
	okHost := false
	for _, d := range candidates(canonHost(kind, host)) {
		if d == tr.Domain {
			okHost = true
		}
	}
	return okHost && (tr.User == "" || tr.User == user) && strings.HasPrefix(cleanPath(kind, target), tr.Loc)
}

// triplesOf lists the triples an identity owns.
func (t table) triplesOf(ident string) []triple {
	var out []triple
	for tr, e := range t {
		for _, o := range e.Owners {
			if o == ident {
				out = append(out, tr)
			}
		}
	}
	return out
}

// owners returns the identities allowed to answer the request (nil = must be refused).
func (t table) owners(kind, host, target, user string) []string {
	tr, ok := t.route(kind, host, target, user)
	if !ok {
		return nil
	}
	return t[tr].Owners
}

func (t table) triples() []triple {
	out := make([]triple, 0, len(t))
	for tr := range t {
		out = append(out, tr)
	}
	sort.Slice(out, func(i, j int) bool { return out[i].String() < out[j].String() })
	return out
}

// pspec is one proxy definition as sent in NewProxy.
type pspec struct {
	Sess      int // 1-based session index
	Name      string
	Kind      string
	Domains   []string
	SubDomain string
	Locations []string
	User      string // routeByHTTPUser
	Group     string
	GroupKey  string
}

func (p pspec) ident() string { return identOf(p.Sess, p.Name) }

func identOf(sess int, name string) string { return "S" + strconv.Itoa(sess) + "|" + name }

// triples lists the routes the proxy asks for (statement: one per host x location, with its user).
func (p pspec) triples(subDomainHost string) []triple {
	var doms []string
	for _, d := range p.Domains {
		if d != "" {
			doms = append(doms, strings.ToLower(d))
		}
	}
	if p.SubDomain != "" {
		doms = append(doms, strings.ToLower(p.SubDomain+"."+subDomainHost))
	}
	locs := []string{""}
	if p.Kind == kHTTP && len(p.Locations) > 0 {
		locs = p.Locations
	}
	user := p.User
	if p.Kind == kTLS {
		user = ""
	}
	var out []triple
	for _, d := range doms {
		for _, l := range locs {
			out = append(out, triple{Domain: d, Loc: l, User: user})
		}
	}
	return out
}

// model is the reference state of one server: three route tables and the live proxies.
type model struct {
	subHost string
	tabs    map[string]table
	live    map[string]pspec // by proxy name
}

func newModel(subHost string) *model {
	m := &model{subHost: subHost, tabs: map[string]table{}, live: map[string]pspec{}}
	for _, k := range kinds {
		m.tabs[k] = table{}
	}
	return m
}

// register applies a registration to the model and says whether the statement demands acceptance.
// Refused iff one of the proxy's triples duplicates an existing one (or another one of its own);
// a refused registration leaves nothing behind. Group members share one triple.
func (m *model) register(p pspec) (accept bool) {
	tab := m.tabs[p.Kind]
	trs := p.triples(m.subHost)
	if p.Group != "" {
		// group semantics are C13's; the model covers the well-formed case only (generator guarantees it):
		// same group => same single triple and key.
		tr := trs[0]
		if e, ok := tab[tr]; ok {
			if e.Group != p.Group || e.Key != p.GroupKey {
				return false
			}
			e.Owners = append(e.Owners, p.ident())
			m.live[p.Name] = p
			return true
		}
		tab[tr] = &entry{Owners: []string{p.ident()}, Group: p.Group, Key: p.GroupKey}
		m.live[p.Name] = p
		return true
	}
	seen := map[triple]bool{}
	for _, tr := range trs {
		if _, ok := tab[tr]; ok || seen[tr] {
			return false
		}
		seen[tr] = true
	}
	for _, tr := range trs {
		tab[tr] = &entry{Owners: []string{p.ident()}}
	}
	m.live[p.Name] = p
	return true
}

// close removes exactly the triples of the named proxy.
func (m *model) close(name string) {
	p, ok := m.live[name]
	if !ok {
		return
	}
	delete(m.live, name)
	tab := m.tabs[p.Kind]
	for _, tr := range p.triples(m.subHost) {
		e, ok := tab[tr]
		if !ok {
			continue
		}
		var rest []string
		for _, o := range e.Owners {
			if o != p.ident() {
				rest = append(rest, o)
			}
		}
		if len(rest) == 0 {
			delete(tab, tr)
		} else {
			e.Owners = rest
		}
	}
}

func (m *model) dropSession(sess int) {
	var names []string
	for n, p := range m.live {
		if p.Sess == sess {
			names = append(names, n)
		}
	}
	for _, n := range names {
		m.close(n)
	}
}

func (m *model) isLive(ident string) bool {
	for _, p := range m.live {
		if p.ident() == ident {
			return true
		}
	}
	return false
}
