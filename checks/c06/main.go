// C06 — Virtual-host routing always picks the most specific matching route.
//
// Monitors (DESIGN.md §5/C06):
//  1. table cases: a generated route table (http / https / tcpmux routes built to collide) is registered by
//     2-3 scripted frp clients on a real frps; generated requests (HTTP origin/absolute/CONNECT on keep-alive
//     connections, TLS ClientHello SNI, CONNECT on the tcpmux port; host spelling variants) are compared with
//     an independent specification of route selection; the backend that answers identifies itself with the
//     ProxyName of StartWorkConn; a backend-side ledger joins request tags exactly-once.
//     Then a sequential history of close / re-register (same and other session) / register / session drop
//     with acknowledgement barriers, each step followed by targeted and random requests on the same
//     keep-alive connections, and a three-way comparison model vs. server route tables (verif snapshot).
//     Requests use all nine HTTP methods the control-port muxer sniffs, as first request of a fresh connection
//     and later on keep-alive connections, with paths/locations around the websocket signature "GET /~!frp" of the
//     control port; a 404/301 of Go's plain HTTP server or a TLS handshake answer is attributed to another
//     listener of the shared port (keys shared-port-request-*-claimed-by-control-listener).
//  2. history cases: concurrent registrars and traffic on a few contended triples; the recorded history
//     (client-boundary call/return times) is checked with porcupine against the map model + specification;
//     state-independent pre-checks: no answer by a proxy whose close was acknowledged before the request was
//     sent, no answer by a proxy whose route does not match the request.
//  3. forced cases: a request is parked between route selection and backend dial (hook vhost.http.beforeDial,
//     if present) while a more specific route is registered / the only route comes and goes.
//
// Every case has a server of its own (taken from a pool per configuration variant: separate vhost ports,
// vhost ports shared with the control port, tcpmux passthrough on/off), so the catch-all route and the
// route-table ledger are exact.
package main

import (
	"fmt"
	"os"
	"strings"
	"sync"
	"sync/atomic"
	"time"

	"verif/h"
)

const prop = "C06"
const token = "c06-token"
const subHost = "sub.test"

var run *h.Run
var ports *h.PortAlloc

// srvInst is one frps with its vhost endpoints.
type srvInst struct {
	srv         *h.Server
	variant     int
	bindPort    int
	httpPort    int
	httpsPort   int
	muxPort     int
	passthrough bool
}

const nVariants = 3

var variantNames = []string{"separate-ports", "http+https-on-control-port,passthrough", "http-on-control-port"}

var pools [nVariants]chan *srvInst
var allSrv struct {
	mu sync.Mutex
	l  []*srvInst
}

// newServer starts a server of the given variant; a port taken by another process between the allocator's
// probe and the bind is answered by trying the next block.
func newServer(variant int) (s *srvInst, err error) {
	for try := 0; try < 4; try++ {
		if s, err = newServerOnce(variant); err == nil {
			return s, nil
		}
	}
	return nil, err
}

func newServerOnce(variant int) (*srvInst, error) {
	s := &srvInst{variant: variant}
	switch variant {
	case 0:
		p := ports.Block(4)
		s.bindPort, s.httpPort, s.httpsPort, s.muxPort = p[0], p[1], p[2], p[3]
	case 1:
		p := ports.Block(2)
		s.bindPort, s.httpPort, s.httpsPort, s.muxPort = p[0], p[0], p[0], p[1]
		s.passthrough = true
	default:
		p := ports.Block(3)
		s.bindPort, s.httpPort, s.httpsPort, s.muxPort = p[0], p[0], p[1], p[2]
	}
	srv, err := h.StartServerText(prop, fmt.Sprintf(`
bindAddr = "127.0.0.1"
bindPort = %d
vhostHTTPPort = %d
vhostHTTPSPort = %d
tcpmuxHTTPConnectPort = %d
tcpmuxPassthrough = %v
subDomainHost = "%s"
auth.token = "%s"
allowPorts = [{start=16990,end=16999}]
userConnTimeout = 30
`, s.bindPort, s.httpPort, s.httpsPort, s.muxPort, s.passthrough, subHost, token))
	if err != nil {
		return nil, err
	}
	s.srv = srv
	allSrv.mu.Lock()
	allSrv.l = append(allSrv.l, s)
	allSrv.mu.Unlock()
	run.Count("servers_started", 1)
	return s, nil
}

// discarded counts servers given up because routes were left behind; beyond a bound the remaining cases are
// skipped (every one of them would report the same finding and use up the port range).
var discarded atomic.Int64

func acquire(variant int) (*srvInst, error) {
	if discarded.Load() > 40 {
		return nil, fmt.Errorf("too many servers left dirty by earlier cases")
	}
	select {
	case s := <-pools[variant]:
		return s, nil
	default:
		return newServer(variant)
	}
}

// release returns a server to the pool when its tables are empty again; a dirty server is discarded.
func release(s *srvInst, clean bool) {
	if !clean {
		s.srv.Close()
		run.Count("servers_discarded", 1)
		discarded.Add(1)
		return
	}
	select {
	case pools[s.variant] <- s:
	default:
		s.srv.Close()
	}
}

func routesEmpty(s *srvInst) bool {
	sn := s.srv.Snapshot()
	return len(sn.HTTPRoutes)+len(sn.HTTPSRoutes)+len(sn.TCPMuxRoutes)+len(sn.Sessions) == 0
}

// waitClean: every session has left the session table (frps closes a session's proxies before that, so this is
// the acknowledgement of the removals; bounded-progress watchdog 20 s), then the route tables must be empty
// (1 s grace for the snapshot to be taken).
func waitClean(s *srvInst) bool {
	h.Eventually(20*time.Second, func() bool { return len(s.srv.Snapshot().Sessions) == 0 })
	return h.Eventually(time.Second, func() bool { return routesEmpty(s) })
}

func main() {
	run = h.NewRun(prop, "exploration")
	run.Rule = "table case = PRNG-generated colliding route table (exact / nested wildcard / catch-all / sub-domain hosts, overlapping locations, user restrictions; http, https, tcpmux; 2-3 owning sessions; one of 3 server configurations) x generated requests x a sequential close/re-register/drop history; history case = concurrent registrars and traffic over 2-4 contended triples with hook-point delays; forced case = 4 shapes of a route-table change between route selection and backend dial. distinct = distinct (normalised route table, request spelling, expected owner) evaluations plus distinct (history plan, interleaving signature)"
	run.Assumptions = []string{
		"the backend that served a request is identified by the ProxyName of the StartWorkConn message the scripted client received on that work connection",
		"CloseProxy has no reply: a following Ping/Pong on the same session is the acknowledgement (frps handles a session's messages in order); a session drop is acknowledged when its run id left the session table (verif snapshot)",
		"the request's HTTP user is the user of the Basic credentials in Authorization (Proxy-Authorization for CONNECT); requests carrying both headers are not generated",
		"paths are generated without percent-escapes; the location prefix is taken over the path without the query",
		"TLS: only the ClientHello is real (crypto/tls); the backend answers in clear text, so the handshake after routing is not exercised",
		"load-balancing groups are exercised only in their well-formed shape (two members, same triple and key); group lifecycle is C13",
	}
	ports = h.Ports(prop)
	for i := range pools {
		pools[i] = make(chan *srvInst, 16)
	}

	nTable := run.N(560, 6000)
	nHist := run.N(240, 2400)
	nForced := run.N(24, 240)
	run.Parallel(nTable+nHist+nForced, 12, func(c *h.Case) {
		t0 := time.Now()
		switch {
		case c.Idx < nTable:
			tableCase(c)
		case c.Idx < nTable+nHist:
			historyCase(c)
		default:
			forcedDialCase(c)
		}
		if d := time.Since(t0); d > 5*time.Second {
			run.Count("slow_cases_over_5s", 1)
			if os.Getenv("C06_DEBUG") != "" {
				fmt.Fprintf(os.Stderr, "slow case %d: %v\n", c.Idx, d)
			}
		}
	})

	var wg sync.WaitGroup
	allSrv.mu.Lock()
	for _, s := range allSrv.l {
		wg.Add(1)
		go func(s *srvInst) { defer wg.Done(); s.srv.Close() }(s)
	}
	allSrv.mu.Unlock()
	wg.Wait()
	run.Finish(run.N(5000, 50000))
}

// ---------------------------------------------------------------------------------------------
// helpers shared by both case kinds

// norm replaces the case-specific labels so that signatures of equal shapes coincide.
func norm(c *h.Case, s string) string {
	s = strings.ReplaceAll(s, fmt.Sprintf("k%d.", c.Idx), "K.")
	s = strings.ReplaceAll(s, strings.ToUpper(fmt.Sprintf("k%d.", c.Idx)), "K.")
	return strings.ReplaceAll(s, fmt.Sprintf("s%dx", c.Idx), "SX")
}

// waitSessionGone waits for the run id to leave the server's session table (acknowledgement of a drop).
func waitSessionGone(s *srvInst, runID string) bool {
	return h.Eventually(20*time.Second, func() bool {
		for _, ss := range s.srv.Snapshot().Sessions {
			if ss.RunID == runID {
				return false
			}
		}
		return true
	})
}

func fail(err error) {
	fmt.Fprintln(os.Stderr, "harness:", err)
	os.Exit(h.ExitHarnessError)
}

func debugf(format string, args ...any) {
	if os.Getenv("C06_DEBUG") != "" {
		fmt.Fprintf(os.Stderr, format+"\n", args...)
	}
}
