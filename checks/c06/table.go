package main

import (
	"fmt"
	"math/rand"
	"sort"
	"strings"

	"github.com/fatedier/frp/pkg/msg"
	"github.com/fatedier/frp/pkg/util/vhost"

	"verif/h"
)

// tcase is the state of one table case.
type tcase struct {
	c     *h.Case
	rng   *rand.Rand
	s     *srvInst
	B     string // case base domain "k<idx>.test"
	pfx   string // proxy name prefix "k<idx>."
	m     *model
	lg    *ledger
	ua    *userAgent
	peers map[int]*h.Peer // live sessions
	nSess int
	seq   int
	sent  []sentRec
	// closed proxy specs, candidates for re-registration
	closed []pspec
	nKA    int
}

type sentRec struct {
	R    request
	A    answer
	Want []string
}

var regLabels = []string{"a", "b"}
var reqLabels = []string{"a", "b", "x", "ab", "www"}
var locPool = []string{"/", "/a", "/ab", "/a/b", "/a/", "/A", "/b", "", "/~", "/~!", "/~!frp", "/~a/", "/!", "/~!frp/"}
var pathPool = []string{"/", "/a", "/ab", "/abc", "/a/b", "/a/b/c", "/a/", "/a/x", "/b", "/A", "/x", "/a?q=/ab", "/a/b?x=1", "/ab/"}

// sniffPaths: prefixes, extensions and near-misses of the first-bytes signature of the control port's websocket
// listener ("GET /~!frp"), which sits in front of the vhost HTTP listener when the ports are shared. The path
// "/~!frp" itself (end of path or "?") is the websocket endpoint of frps and is never generated (avoidWS).
var sniffPaths = []string{"/~", "/~!", "/~!f", "/~!fr", "/~!frpx", "/~!frp/x", "/~!frp/", "/~!frp!", "/~alice/", "/~bob/notes.txt", "/~~", "/~?x=1", "/~!?q=/~!frp",
	"/!", "/!x", "/-/~alice", "/~a/b", "/~!FRP", "/~!frq", "/~!frp~"}

var httpMethods = []string{"POST", "PUT", "DELETE", "HEAD", "OPTIONS", "PATCH", "TRACE"}

// avoidWS keeps a request off frps' own websocket endpoint: exactly "/~!frp" followed by end of path or "?".
func avoidWS(target string) string {
	if cleanPath(kHTTP, target) == "/~!frp" {
		return "/~!frp/" + target[len("/~!frp"):]
	}
	return target
}

var userPool = []string{"alice", "bob"}

func mixCase(rng *rand.Rand, s string) string {
	b := []byte(s)
	for i := range b {
		if b[i] >= 'a' && b[i] <= 'z' && rng.Intn(2) == 0 {
			b[i] -= 32
		}
	}
	return string(b)
}

// regDomain draws a domain to register from a small universe so that tables collide.
func (t *tcase) regDomain() string {
	rng, B := t.rng, t.B
	var d string
	switch x := rng.Intn(100); {
	case x < 30:
		d = regLabels[rng.Intn(2)] + "." + B
	case x < 45:
		d = []string{"a.a.", "x.a.", "b.a."}[rng.Intn(3)] + B
	case x < 50:
		d = B
	case x < 66:
		d = "*." + B
	case x < 80:
		d = "*.a." + B
	case x < 84:
		d = "*.x.a." + B
	case x < 93:
		d = "*"
	default:
		d = "*.b." + B
	}
	if d != "*" && rng.Intn(7) == 0 {
		d = mixCase(rng, d)
	}
	return d
}

func (t *tcase) newSpec(kind string, sess int) pspec {
	rng := t.rng
	t.seq++
	letter := map[string]string{kHTTP: "h", kTLS: "s", kMux: "m"}[kind]
	p := pspec{Sess: sess, Kind: kind, Name: fmt.Sprintf("%s%s%d", t.pfx, letter, t.seq)}
	if rng.Intn(12) == 0 {
		p.SubDomain = fmt.Sprintf("s%dx", t.c.Idx)
		if rng.Intn(2) == 0 {
			p.SubDomain += regLabels[rng.Intn(2)]
		}
	}
	nd := 1
	if rng.Intn(10) < 3 {
		nd = 2
	}
	if p.SubDomain != "" && rng.Intn(2) == 0 {
		nd = 0
	}
	for i := 0; i < nd; i++ {
		p.Domains = append(p.Domains, t.regDomain())
	}
	if kind == kHTTP {
		switch x := rng.Intn(100); {
		case x < 35:
		case x < 80:
			p.Locations = []string{locPool[rng.Intn(len(locPool))]}
		default:
			p.Locations = []string{locPool[rng.Intn(len(locPool))], locPool[rng.Intn(len(locPool))]}
		}
	}
	if kind != kTLS && rng.Intn(10) < 4 {
		p.User = userPool[rng.Intn(2)]
	}
	return p
}

func (p pspec) toMsg() *msg.NewProxy {
	m := &msg.NewProxy{ProxyName: p.Name, ProxyType: p.Kind, CustomDomains: p.Domains, SubDomain: p.SubDomain,
		Locations: p.Locations, RouteByHTTPUser: p.User, Group: p.Group, GroupKey: p.GroupKey}
	if p.Kind == kMux {
		m.Multiplexer = "httpconnect"
	}
	return m
}

// register sends the registration, compares the reply with what the statement demands and updates the model.
func (t *tcase) register(p pspec) (ok bool) {
	c := t.c
	peer := t.peers[p.Sess]
	if peer == nil {
		return false
	}
	resp, err := peer.NewProxy(p.toMsg(), ioTimeout)
	if err != nil {
		run.Inconclusive("registration reply missing")
		c.Ev("register-noreply", "spec", p, "err", err.Error())
		return false
	}
	// decide on a copy of the model first (register mutates)
	before := t.m.tabs[p.Kind].triples()
	want := t.m.register(p)
	got := resp.Error == ""
	c.Ev("register", "spec", p, "want_accept", want, "error", resp.Error)
	run.Count("registrations", 1)
	if !want {
		run.Count("registrations_conflicting", 1)
	}
	if want && !got {
		t.m.close(p.Name) // follow the server so that later verdicts are not consequences of this one
		c.Violation("fresh-route-refused-"+p.Kind, "registration of %s %v (no triple taken; table %v) was refused: %s", p.Kind, p.triples(subHost), before, resp.Error)
		return false
	}
	if !want && got {
		c.Violation("duplicate-route-accepted-"+p.Kind, "registration of %s %v duplicates a triple of the table %v and was accepted", p.Kind, p.triples(subHost), before)
		// the server now holds something the model cannot express: stop judging this case
		return false
	}
	return got
}

func snapshotTriples(l []vhost.VerifRoute) []triple {
	out := make([]triple, 0, len(l))
	for _, r := range l {
		out = append(out, triple{Domain: r.Domain, Loc: r.Location, User: r.HTTPUser})
	}
	sort.Slice(out, func(i, j int) bool { return out[i].String() < out[j].String() })
	return out
}

// ledgerCheck compares the server's own route tables with the model (exact: the server belongs to the case).
func (t *tcase) ledgerCheck(phase string) {
	sn := t.s.srv.Snapshot()
	for _, k := range kinds {
		var got []triple
		switch k {
		case kHTTP:
			got = snapshotTriples(sn.HTTPRoutes)
		case kTLS:
			got = snapshotTriples(sn.HTTPSRoutes)
		default:
			got = snapshotTriples(sn.TCPMuxRoutes)
		}
		want := t.m.tabs[k].triples()
		if fmt.Sprint(got) != fmt.Sprint(want) {
			t.c.Violation("route-table-differs-from-model-"+k, "%s: %s routes registered at the server %v, acknowledged operations give %v", phase, k, got, want)
		}
		run.Count("ledger_comparisons", 1)
	}
}

// genRequest draws a request biased towards the registered routes and their near misses.
func (t *tcase) genRequest() request {
	rng := t.rng
	// kind proportional to table sizes (+1 so that empty kinds are probed too)
	w := []int{2*len(t.m.tabs[kHTTP]) + 1, len(t.m.tabs[kTLS]) + 1, len(t.m.tabs[kMux]) + 1}
	x := rng.Intn(w[0] + w[1] + w[2])
	kind := kHTTP
	if x >= w[0] {
		kind = kTLS
		if x >= w[0]+w[1] {
			kind = kMux
		}
	}
	return t.genRequestKind(kind, nil)
}

func (t *tcase) randHost() string {
	rng, B := t.rng, t.B
	switch x := rng.Intn(100); {
	case x < 25:
		return reqLabels[rng.Intn(len(reqLabels))] + "." + B
	case x < 50:
		return reqLabels[rng.Intn(len(reqLabels))] + "." + reqLabels[rng.Intn(3)] + "." + B
	case x < 60:
		return "y." + reqLabels[rng.Intn(3)] + "." + reqLabels[rng.Intn(3)] + "." + B
	case x < 68:
		return B
	case x < 76:
		return fmt.Sprintf("s%dx", t.c.Idx) + []string{"", "a", "b", "q"}[rng.Intn(4)] + "." + subHost
	case x < 84:
		return "other.test"
	case x < 92:
		return "q.other.test"
	case x < 96:
		return "test"
	default:
		return "localhost"
	}
}

// genRequestKind: aim (optional) is a triple the request should be about.
func (t *tcase) genRequestKind(kind string, aim *triple) request {
	rng := t.rng
	tab := t.m.tabs[kind]
	r := request{Kind: kind, Form: "origin"}
	trs := tab.triples()
	var base *triple
	if aim != nil {
		base = aim
	} else if len(trs) > 0 && rng.Intn(10) < 6 {
		base = &trs[rng.Intn(len(trs))]
	}
	host := ""
	if base != nil {
		d := base.Domain
		switch {
		case d == "*":
			host = t.randHost()
		case strings.HasPrefix(d, "*."):
			suffix := d[2:]
			switch rng.Intn(6) {
			case 0:
				host = suffix // the bare suffix is not covered by the wildcard
			case 1:
				host = "y." + reqLabels[rng.Intn(len(reqLabels))] + "." + suffix
			default:
				host = reqLabels[rng.Intn(len(reqLabels))] + "." + suffix
			}
		default:
			host = d
			if rng.Intn(8) == 0 {
				host = reqLabels[rng.Intn(len(reqLabels))] + "." + d // sub-host of an exact route: not covered by it
			}
		}
	} else {
		host = t.randHost()
	}
	if kind == kHTTP {
		switch x := rng.Intn(100); {
		case x < 72:
		case x < 88:
			r.Form = "absolute"
		default:
			r.Form = "connect"
		}
		if r.Form != "connect" {
			if base != nil && rng.Intn(10) < 7 {
				r.Target = base.Loc + []string{"", "", "b", "/", "/b", "x", "/c/d", "?q=/ab"}[rng.Intn(8)]
				if !strings.HasPrefix(r.Target, "/") {
					r.Target = "/" + r.Target
				}
				if rng.Intn(8) == 0 && len(base.Loc) > 1 {
					r.Target = base.Loc[:len(base.Loc)-1] // one short of the location
				}
			} else {
				r.Target = pathPool[rng.Intn(len(pathPool))]
			}
			if rng.Intn(5) == 0 {
				r.Target = sniffPaths[rng.Intn(len(sniffPaths))]
			}
			if r.Form == "absolute" && rng.Intn(6) == 0 {
				r.Target = "" // "GET http://host HTTP/1.1": empty path
			}
			r.Target = avoidWS(r.Target)
			if rng.Intn(10) < 4 {
				r.Method = httpMethods[rng.Intn(len(httpMethods))]
			}
		}
		r.Conn = rng.Intn(t.nKA)
		r.Fresh = r.Form != "connect" && rng.Intn(10) < 4
	}
	if kind != kTLS {
		switch x := rng.Intn(100); {
		case x < 40:
		case x < 70 && base != nil && base.User != "":
			r.User = base.User
		case x < 90:
			r.User = userPool[rng.Intn(2)]
		default:
			r.User = "carol"
		}
	}
	forcePort := (kind == kMux || r.Form == "connect") && rng.Intn(4) != 0
	r.Host = presentHost(rng, kind, host, forcePort)
	if rng.Intn(12) == 0 {
		r.Split = 1 + rng.Intn(40)
	}
	return r
}

// eval sends one request and judges the answer against the specification.
func (t *tcase) eval(r request, phase string) {
	c := t.c
	want := t.m.tabs[r.Kind].owners(r.Kind, r.Host, r.Target, r.User)
	a := t.ua.do(r)
	t.sent = append(t.sent, sentRec{R: r, A: a, Want: want})
	c.Ev("request", "phase", phase, "req", r, "want", want, "got", a.String(), "tag", a.Tag, "reused", a.Reused)
	run.Count("requests_"+r.Kind, 1)
	if r.Kind == kHTTP && !a.Reused && a.Err == "" {
		run.Count("http_first_requests_of_a_connection", 1)
		if a.ControlPort {
			run.Count("http_first_requests_on_shared_control_port_"+r.method(), 1)
		}
	}
	if a.Reused {
		run.Count("requests_on_reused_user_connection", 1)
	}
	wantS := "none"
	if want != nil {
		wantS = "owner"
	}
	run.Distinct("req|" + norm(c, fmt.Sprint(t.m.tabs[r.Kind].triples())) + "|" + norm(c, r.sig()) + "|" + wantS)
	judge(c, t.m, r, a, want, phase)
}

func anyMatches(trs []triple, r request) bool {
	for _, tr := range trs {
		if tr.matches(r.Kind, r.Host, r.Target, r.User) {
			return true
		}
	}
	return false
}

func contains(l []string, s string) bool {
	for _, x := range l {
		if x == s {
			return true
		}
	}
	return false
}

func judge(c *h.Case, m *model, r request, a answer, want []string, phase string) {
	desc := fmt.Sprintf("%s: %s request host=%q target=%q user=%q form=%s", phase, r.Kind, r.Host, r.Target, r.User, r.Form)
	tab := m.tabs[r.Kind].triples()
	switch {
	case strings.HasPrefix(a.Err, "response carries tag"):
		c.Violation("response-of-another-request-"+r.Kind, "%s: %s", desc, a.Err)
	case a.Err != "":
		run.Inconclusive("transport anomaly (" + r.Kind + ")")
		run.Count("transport_anomalies", 1)
		debugf("case %d anomaly: %+v: %s", c.Idx, r, a.Err)
	case a.Foreign404 && want != nil && a.ControlPort:
		c.Violation(claimedKey(a), "%s (method %s, first request of its connection: %v, that connection began with target %q) on the vhost port shared with the control port was answered %q by another listener of the port instead of being routed; route of %v matches; table %v", desc, r.method(), !a.Reused, a.FirstTarget, a.Body, want, tab)
	case a.Foreign404 && want != nil:
		c.Violation("matching-route-answered-by-foreign-not-found-"+r.Kind, "%s (method %s) was answered with a 404 that is not frps' not-found page (%q) although route of %v matches; table %v", desc, r.method(), a.Body, want, tab)
	case a.Refused && want != nil:
		c.Violation("matching-route-refused-"+r.Kind, "%s was refused (status %d) although route of %v matches; table %v", desc, a.Status, want, tab)
	case a.Refused:
		run.Count("refusals_correct", 1)
		if a.Foreign404 {
			run.Count("refusals_by_another_listener_of_the_port", 1)
		}
	case want == nil && !m.isLive(a.Ident):
		c.Violation(r.Kind+"-request-reached-closed-proxy", "%s matches no route but was answered by %s, whose proxy has been closed (acknowledged); table %v", desc, a.Ident, tab)
	case want == nil:
		c.Violation("unmatched-request-reached-backend-"+r.Kind, "%s matches no route of the table %v but was answered by %s", desc, tab, a.Ident)
	case !contains(want, a.Ident) && !m.isLive(a.Ident):
		c.Violation(r.Kind+"-request-served-by-former-owner-after-reregistration", "%s must be served by %v but was answered by %s, whose proxy has been closed (acknowledged) before the request was sent; table %v", desc, want, a.Ident, tab)
	case !anyMatches(m.tabs[r.Kind].triplesOf(a.Ident), r):
		c.Violation("request-served-by-non-matching-route-"+r.Kind, "%s was answered by %s, none of whose routes %v matches the request (must be served by %v); table %v", desc, a.Ident, m.tabs[r.Kind].triplesOf(a.Ident), want, tab)
	case !contains(want, a.Ident):
		c.Violation("wrong-route-selected-"+r.Kind, "%s must be served by %v (most specific match) but was answered by %s; table %v", desc, want, a.Ident, tab)
	default:
		run.Count("deliveries_correct", 1)
	}
}

func tableCase(c *h.Case) {
	rng := c.Rng
	variant := rng.Intn(nVariants)
	s, err := acquire(variant)
	if err != nil {
		run.Inconclusive("no server: " + err.Error())
		return
	}
	t := &tcase{c: c, rng: rng, s: s, B: fmt.Sprintf("k%d.test", c.Idx), pfx: fmt.Sprintf("k%d.", c.Idx),
		m: newModel(subHost), lg: newLedger(), peers: map[int]*h.Peer{}}
	t.ua = newUserAgent(c.Idx, s)
	t.nSess = 2 + rng.Intn(2)
	t.nKA = 1 + rng.Intn(3)
	c.Data["variant"], c.Data["sessions"] = variantNames[variant], t.nSess
	clean := false
	defer func() { release(s, clean) }()
	defer t.ua.close()

	for i := 1; i <= t.nSess; i++ {
		p, err := h.DialPeer(h.PeerOpts{ServerPort: s.bindPort, TCPMux: true, Token: token, AutoWork: true, WorkHandler: backendHandler(i, t.lg)})
		if err != nil || !p.LoggedIn() {
			run.Inconclusive("login failed")
			t.closePeers()
			clean = waitClean(s)
			return
		}
		t.peers[i] = p
	}

	// ---- phase 1: build the table
	nProxies := 4 + rng.Intn(6)
	var specs []pspec
	for i := 0; i < nProxies; i++ {
		kind := kHTTP
		switch x := rng.Intn(100); {
		case x >= 55 && x < 75:
			kind = kTLS
		case x >= 75:
			kind = kMux
		}
		sess := 1 + rng.Intn(t.nSess)
		p := t.newSpec(kind, sess)
		if kind == kHTTP && rng.Intn(9) == 0 {
			// a well-formed load-balancing group of two members in different sessions on one triple
			p.Domains, p.SubDomain = []string{strings.ToLower(t.regDomain())}, ""
			if len(p.Locations) > 1 {
				p.Locations = p.Locations[:1]
			}
			p.Group, p.GroupKey = fmt.Sprintf("%sg%d", t.pfx, t.seq), "gk"
			specs = append(specs, p)
			q := p
			t.seq++
			q.Name = fmt.Sprintf("%sh%d", t.pfx, t.seq)
			q.Sess = 1 + p.Sess%t.nSess
			specs = append(specs, q)
			continue
		}
		specs = append(specs, p)
	}
	c.Data["specs"] = specs
	judging := true
	for _, p := range specs {
		if p.Group != "" {
			// group members only when the model can decide: fresh triple or joining its own group
			tr := p.triples(subHost)[0]
			if e, ok := t.m.tabs[kHTTP][tr]; ok && e.Group != p.Group {
				continue
			}
			if _, ok := t.m.tabs[kHTTP][tr]; ok {
				run.Count("group_joins", 1)
			}
		}
		want := t.m.registerWould(p)
		got := t.register(p)
		if want != got {
			judging = false
			break
		}
	}
	if !judging {
		t.finish(&clean)
		return
	}
	t.ledgerCheck("after building the table")
	tsig := ""
	for _, k := range kinds {
		tsig += k + norm(c, fmt.Sprint(t.m.tabs[k].triples())) + ";"
	}
	run.Distinct("table|" + variantNames[variant] + "|" + tsig)
	run.Count("tables", 1)
	run.Count("routes_registered", int64(len(t.m.tabs[kHTTP])+len(t.m.tabs[kTLS])+len(t.m.tabs[kMux])))
	if c.Idx < 2 {
		run.Sample(map[string]any{"kind": "table", "variant": variantNames[variant], "http": t.m.tabs[kHTTP].triples(), "https": t.m.tabs[kTLS].triples(), "tcpmux": t.m.tabs[kMux].triples()})
	}

	// ---- phase 2: requests against the static table, sharing keep-alive connections
	nReq := run.N(40, 80)
	for i := 0; i < nReq; i++ {
		t.eval(t.genRequest(), "static table")
	}

	// ---- phase 3: sequential history of removals and (re-)registrations, traffic after every step
	nSteps := 4 + rng.Intn(5)
	for step := 0; step < nSteps && c.Violations() == 0; step++ {
		if !t.step(step) {
			break
		}
	}
	t.finish(&clean)
}

// registerWould answers what register will decide, without changing the model.
func (m *model) registerWould(p pspec) bool {
	tab := m.tabs[p.Kind]
	trs := p.triples(m.subHost)
	if p.Group != "" {
		if e, ok := tab[trs[0]]; ok {
			return e.Group == p.Group && e.Key == p.GroupKey
		}
		return true
	}
	seen := map[triple]bool{}
	for _, tr := range trs {
		if _, ok := tab[tr]; ok || seen[tr] {
			return false
		}
		seen[tr] = true
	}
	return true
}

func (t *tcase) liveNames() []string {
	var out []string
	for n := range t.m.live {
		out = append(out, n)
	}
	sort.Strings(out)
	return out
}

// step performs one operation of the sequential history and probes around it.
func (t *tcase) step(i int) bool {
	c, rng := t.c, t.rng
	live := t.liveNames()
	var affected []triple
	var kind string
	probe := func(phase string, n int) {
		for j := 0; j < n; j++ {
			if len(affected) > 0 && j%2 == 0 {
				a := affected[rng.Intn(len(affected))]
				t.eval(t.genRequestKind(kind, &a), phase)
			} else {
				t.eval(t.genRequest(), phase)
			}
		}
	}
	x := rng.Intn(100)
	if x < 70 && x >= 55 {
		if done, ok := t.stepInFlight(i, live); done {
			return ok
		}
	}
	switch {
	case x < 40 && len(live) > 0: // close one proxy
		p := t.m.live[live[rng.Intn(len(live))]]
		kind, affected = p.Kind, p.triples(subHost)
		probe(fmt.Sprintf("step %d: before closing %s", i, p.Name), 3) // warm the route (backend connection pool)
		peer := t.peers[p.Sess]
		_ = peer.CloseProxy(p.Name)
		if _, err := peer.Ping(ioTimeout); err != nil {
			run.Inconclusive("close barrier missing")
			return false
		}
		t.m.close(p.Name)
		t.closed = append(t.closed, p)
		c.Ev("close", "proxy", p.Name, "triples", affected)
		run.Count("closes", 1)
		t.ledgerCheck(fmt.Sprintf("step %d: after closing %s", i, p.Name))
		probe(fmt.Sprintf("step %d: after closing %s", i, p.Name), 4)
	case x < 70 && len(t.closed) > 0: // re-register the routes of a closed proxy, by the same or another session
		old := t.closed[rng.Intn(len(t.closed))]
		p := old
		t.seq++
		p.Name = fmt.Sprintf("%s%c%d", t.pfx, old.Name[len(t.pfx)], t.seq)
		who := "another session"
		if rng.Intn(3) == 0 {
			who = "the same session"
		} else {
			p.Sess = 1 + old.Sess%t.nSess
		}
		if t.peers[p.Sess] == nil {
			return true
		}
		if p.Group != "" {
			p.Group, p.GroupKey = "", "" // re-register the triple as a plain route
		}
		kind, affected = p.Kind, p.triples(subHost)
		if t.register(p) {
			run.Count("reregistrations", 1)
			if who == "another session" {
				run.Count("reregistrations_by_another_session", 1)
			}
		}
		if c.Violations() > 0 {
			return false
		}
		t.ledgerCheck(fmt.Sprintf("step %d: after re-registering routes of %s as %s by %s", i, old.Name, p.Name, who))
		probe(fmt.Sprintf("step %d: after re-registering routes of %s as %s by %s", i, old.Name, p.Name, who), 5)
	case x < 88: // register something new (may conflict)
		var alive []int
		for sidx := range t.peers {
			alive = append(alive, sidx)
		}
		sort.Ints(alive)
		k := kinds[rng.Intn(3)]
		p := t.newSpec(k, alive[rng.Intn(len(alive))])
		kind, affected = p.Kind, p.triples(subHost)
		t.register(p)
		if c.Violations() > 0 {
			return false
		}
		t.ledgerCheck(fmt.Sprintf("step %d: after registration attempt of %s", i, p.Name))
		probe(fmt.Sprintf("step %d: after registration attempt of %s", i, p.Name), 4)
	default: // drop a whole session
		if len(t.peers) < 2 {
			return true
		}
		var alive []int
		for sidx := range t.peers {
			alive = append(alive, sidx)
		}
		sort.Ints(alive)
		sidx := alive[rng.Intn(len(alive))]
		for _, n := range live { // probe the routes of one kind the session holds
			p := t.m.live[n]
			if p.Sess == sidx && (kind == "" || p.Kind == kind) {
				kind = p.Kind
				affected = append(affected, p.triples(subHost)...)
			}
		}
		probe(fmt.Sprintf("step %d: before dropping session %d", i, sidx), 2)
		peer := t.peers[sidx]
		peer.Close()
		if !waitSessionGone(t.s, peer.RunID) {
			c.Violation("session-not-removed", "session %d (%s) still in the session table 20 s after its connection was closed", sidx, peer.RunID)
			return false
		}
		delete(t.peers, sidx)
		t.m.dropSession(sidx)
		c.Ev("drop", "session", sidx)
		run.Count("session_drops", 1)
		t.ledgerCheck(fmt.Sprintf("step %d: after dropping session %d", i, sidx))
		probe(fmt.Sprintf("step %d: after dropping session %d", i, sidx), 4)
	}
	return true
}

// stepInFlight: a request is held in flight at the backend of an http route while that route is closed and
// registered again by another session; the late answer may come from the old owner (the request preceded the
// close), every request sent afterwards must reach the new owner although the old owner's connection goes
// back into the server's pool after the re-registration.
func (t *tcase) stepInFlight(i int, live []string) (done, ok bool) {
	c, rng := t.c, t.rng
	var cands []pspec
	for _, n := range live {
		p := t.m.live[n]
		if p.Kind == kHTTP && p.Group == "" && t.peers[1+p.Sess%t.nSess] != nil && t.peers[p.Sess] != nil {
			cands = append(cands, p)
		}
	}
	if len(cands) == 0 {
		return false, true
	}
	p := cands[rng.Intn(len(cands))]
	trs := p.triples(subHost)
	var slow request
	found := false
	for try := 0; try < 20 && !found; try++ {
		tr := trs[rng.Intn(len(trs))]
		slow = t.genRequestKind(kHTTP, &tr)
		if slow.Form == "connect" {
			continue
		}
		o := t.m.tabs[kHTTP].owners(kHTTP, slow.Host, slow.Target, slow.User)
		found = len(o) == 1 && o[0] == p.ident()
	}
	if !found {
		return false, true
	}
	slow.Conn = 100 + i
	slow.Tag = newTag(c.Idx)
	slow.DelayMs = 400
	phase := fmt.Sprintf("step %d: close %s and re-register by another session with a request in flight", i, p.Name)
	ch := make(chan answer, 1)
	go func() { ch <- t.ua.do(slow) }()
	if !h.Eventually(ioTimeout, func() bool { return len(t.lg.by(slow.Tag)) > 0 }) {
		<-ch
		run.Inconclusive("in-flight request did not reach its backend")
		return true, true
	}
	peer := t.peers[p.Sess]
	_ = peer.CloseProxy(p.Name)
	if _, err := peer.Ping(ioTimeout); err != nil {
		<-ch
		run.Inconclusive("close barrier missing")
		return true, false
	}
	t.m.close(p.Name)
	c.Ev("close", "proxy", p.Name, "triples", trs, "in_flight", slow.Tag)
	q := p
	t.seq++
	q.Name = fmt.Sprintf("%sh%d", t.pfx, t.seq)
	q.Sess = 1 + p.Sess%t.nSess
	regOK := t.register(q)
	a := <-ch
	c.Ev("request", "phase", phase, "req", slow, "got", a.String(), "tag", a.Tag, "in_flight", true)
	run.Count("requests_in_flight_across_reregistration", 1)
	if a.Ident == "" {
		run.Count("in_flight_requests_not_answered", 1)
	}
	switch {
	case a.Ident == "" || a.Ident == p.ident():
	case !t.m.isLive(a.Ident):
		c.Violation("http-request-served-by-former-owner-after-reregistration", "%s: the request in flight was answered by %s, whose proxy had been closed (acknowledged) before the request was sent; owner at that time: %s", phase, a.Ident, p.ident())
	default:
		c.Violation("wrong-route-selected-http", "%s: the request in flight was answered by %s, not by the owner at the time it was sent and seen by a backend (%s)", phase, a.Ident, p.ident())
	}
	if !regOK || c.Violations() > 0 {
		return true, false
	}
	t.ledgerCheck(phase)
	for j := 0; j < 5; j++ {
		tr := trs[rng.Intn(len(trs))]
		t.eval(t.genRequestKind(kHTTP, &tr), phase)
	}
	return true, true
}

func (t *tcase) closePeers() {
	for _, p := range t.peers {
		p.Close()
	}
}

// finish: backend-side exactly-once join of all request tags, then teardown and emptiness of the server's tables.
func (t *tcase) finish(clean *bool) {
	c := t.c
	for _, sr := range t.sent {
		if sr.A.Tag == "" || sr.A.Err != "" {
			continue
		}
		seen := t.lg.by(sr.A.Tag)
		switch {
		case sr.A.Refused && len(seen) > 0:
			c.Violation("refused-request-reached-backend-"+sr.R.Kind, "%s request host=%q target=%q user=%q was answered with a refusal, yet backend(s) %v received it", sr.R.Kind, sr.R.Host, sr.R.Target, sr.R.User, seen)
		case sr.A.Ident != "" && (len(seen) != 1 || seen[0] != sr.A.Ident):
			c.Violation("backend-ledger-mismatch-"+sr.R.Kind, "%s request tag %s: the user was answered by %s, the backends that saw the tag: %v (want exactly that one)", sr.R.Kind, sr.A.Tag, sr.A.Ident, seen)
		}
		run.Count("tags_joined", 1)
	}
	t.ua.close()
	t.closePeers()
	*clean = waitClean(t.s)
	if !*clean {
		sn := t.s.srv.Snapshot()
		c.Violation("routes-left-after-all-sessions-ended", "after every session was closed and left the session table the server still holds http=%v https=%v tcpmux=%v sessions=%d", sn.HTTPRoutes, sn.HTTPSRoutes, sn.TCPMuxRoutes, len(sn.Sessions))
	}
}
