// C12 — Sessions own their proxies; names are unique; re-login replaces cleanly.
//
// Monitors (DESIGN.md §5/C12):
//  1. porcupine per proxy name over register / close / probe / session-end histories
//     recorded at scripted clients (model: owner or none).
//  2. hand-over monitor for re-login with the same run id (also with the old session's
//     deletion delayed at the server.control.beforeDel gate, and several re-logins at once).
//  3. run ids of fresh logins: format, distinctness, no counter / clock structure.
package main

import (
	"fmt"
	"math/bits"
	"net"
	"os"
	"regexp"
	"sort"
	"strings"
	"sync"
	"time"

	"github.com/anishathalye/porcupine"

	"github.com/fatedier/frp/pkg/msg"

	"verif/h"
)

const prop = "C12"
const token = "c12-token"

var srv *h.Server
var run *h.Run

func main() {
	run = h.NewRun(prop, "exploration")
	run.Rule = "histories: PRNG-generated concurrent register/close/probe/drop operations of 2-6 scripted sessions over 1-3 proxy names (stcp, so only the name is contended) with hook-point delays; distinct = distinct (operation multiset, interleaving signature) per history; hand-over cases are distinct by (variant, gate order, number of names, simultaneous logins); run-id cases by id value"
	run.Assumptions = []string{
		"CloseProxy has no reply in the protocol: a following Ping/Pong on the same session is used as acknowledgement (frps handles a session's messages in order on one goroutine)",
		"session end is acknowledged when the run id has left the server's session table (verif snapshot), bounded by 10 s",
		"unpredictability of run ids is not decidable by executions; only format, distinctness and absence of counter/clock structure are checked",
	}
	pa := h.Ports(prop)
	port := pa.Get()
	var err error
	srv, err = h.StartServerText(prop, fmt.Sprintf(`
bindAddr = "127.0.0.1"
bindPort = %d
auth.token = "%s"
allowPorts = [{start=%d,end=%d},{start=12100,end=12499}]
userConnTimeout = 3
transport.maxPoolCount = 2
`, port, token, 12500, 12999))
	if err != nil {
		fmt.Fprintln(os.Stderr, "server:", err)
		os.Exit(h.ExitHarnessError)
	}

	nHist := run.N(150, 6000)
	nHand := run.N(60, 2400)
	nIDs := run.N(5000, 400000)

	total := nHist + nHand
	run.Parallel(total, 12, func(c *h.Case) {
		if c.Idx < nHist {
			historyCase(c)
		} else {
			handoverCase(c)
		}
	})
	run.ParallelRange(9000000, run.N(24, 600), 8, existAddWindowCase)
	if run.OnlyCase < 0 {
		runIDs(nIDs)
	}
	srv.Close()
	run.Finish(20)
}

// ---------------------------------------------------------------------------------------------
// 1. porcupine histories

type opIn struct {
	Kind string // reg | close | probe | end
	Sess int    // 1-based session index
	Name string
}
type opOut struct {
	OK    bool
	Owner int  // probe: owning session observed (0 = none)
	Unk   bool // probe: outcome not informative
	Late  bool // reg: refused at the second step ("already in use": its listener existed for a moment)
}

var nameModel = porcupine.Model{
	Init: func() interface{} { return 0 },
	Step: func(state, input, output interface{}) (bool, interface{}) {
		owner := state.(int)
		in := input.(opIn)
		out := output.(opOut)
		switch in.Kind {
		case "reg":
			if owner == 0 {
				return out.OK, in.Sess
			}
			return !out.OK, owner
		case "close":
			if owner == in.Sess {
				return true, 0
			}
			return true, owner
		case "end":
			if owner == in.Sess {
				return true, 0
			}
			return true, owner
		case "probe":
			if out.Unk {
				return true, owner
			}
			return out.Owner == owner, owner
		}
		return false, owner
	},
	DescribeOperation: func(input, output interface{}) string {
		return fmt.Sprintf("%+v -> %+v", input, output)
	},
}

func historyCase(c *h.Case) {
	rng := c.Rng
	pfx := fmt.Sprintf("c%d.", c.Idx)
	nSess := 2 + rng.Intn(5)
	nNames := 1 + rng.Intn(3)
	nOps := 6 + rng.Intn(10)
	names := make([]string, nNames)
	for i := range names {
		names[i] = fmt.Sprintf("%sn%d", pfx, i)
	}
	c.Data["sessions"], c.Data["names"], c.Data["ops_per_session"] = nSess, names, nOps

	rmPerturb, trace := h.Perturb(rng, pfx)
	defer rmPerturb()

	var mu sync.Mutex
	ops := map[string][]porcupine.Operation{}
	tainted := map[string]bool{} // partitions with an unanswered registration are not judged
	record := func(name string, sess int, in opIn, out opOut, call, ret int64) {
		mu.Lock()
		ops[name] = append(ops[name], porcupine.Operation{ClientId: sess - 1, Input: in, Output: out, Call: call, Return: ret})
		mu.Unlock()
		c.Ev("op", "in", in, "out", out, "call", call, "ret", ret)
	}

	peers := make([]*h.Peer, nSess+1)
	for s := 1; s <= nSess; s++ {
		p, err := h.DialPeer(h.PeerOpts{ServerPort: srv.Cfg.BindPort, TCPMux: true, Token: token, AutoWork: true,
			WorkHandler: h.IdentBackend(fmt.Sprintf("S%d", s), token, false, false, nil)})
		if err != nil || !p.LoggedIn() {
			run.Inconclusive("login failed in history case")
			return
		}
		peers[s] = p
		rm := h.OnHook("", p.RunID, func(string, []any) {}) // make the run id part of the perturbed set
		defer rm()
	}
	prober, err := h.DialPeer(h.PeerOpts{ServerPort: srv.Cfg.BindPort, TCPMux: true, Token: token})
	if err != nil || !prober.LoggedIn() {
		run.Inconclusive("prober login failed")
		return
	}
	defer prober.Close()

	var plan [][]opIn
	var sig []string
	for s := 1; s <= nSess; s++ {
		var l []opIn
		dropAt := -1
		if rng.Intn(3) == 0 {
			dropAt = 2 + rng.Intn(nOps)
		}
		for i := 0; i < nOps; i++ {
			if i == dropAt {
				l = append(l, opIn{Kind: "end", Sess: s})
				break
			}
			k := []string{"reg", "reg", "close", "probe"}[rng.Intn(4)]
			l = append(l, opIn{Kind: k, Sess: s, Name: names[rng.Intn(nNames)]})
		}
		plan = append(plan, l)
		for _, o := range l {
			sig = append(sig, o.Kind+strings.TrimPrefix(o.Name, pfx))
		}
	}
	c.Data["plan"] = plan

	var wg sync.WaitGroup
	var endMu sync.Mutex
	endCalls := map[int]int64{}
	for s := 1; s <= nSess; s++ {
		wg.Add(1)
		go func(s int, l []opIn) {
			defer wg.Done()
			p := peers[s]
			for _, o := range l {
				switch o.Kind {
				case "reg":
					call := h.Now()
					resp, err := p.NewProxy(&msg.NewProxy{ProxyName: o.Name, ProxyType: "stcp", Sk: "k", AllowUsers: []string{"*"}}, 10*time.Second)
					ret := h.Now()
					if err != nil {
						run.Inconclusive("registration reply missing")
						_, _ = call, ret
						mu.Lock()
						tainted[o.Name] = true
						mu.Unlock()
						return
					}
					record(o.Name, s, o, opOut{OK: resp.Error == "", Late: strings.Contains(resp.Error, "already in use")}, call, ret)
					run.Count("registrations", 1)
					if resp.Error != "" {
						run.Count("registrations_refused", 1)
					}
				case "close":
					call := h.Now()
					_ = p.CloseProxy(o.Name)
					_, err := p.Ping(10 * time.Second)
					ret := h.Now()
					if err != nil {
						run.Inconclusive("close barrier missing")
						return
					}
					record(o.Name, s, o, opOut{OK: true}, call, ret)
					run.Count("closes", 1)
				case "probe":
					call := h.Now()
					owner, unk := probe(prober, o.Name)
					ret := h.Now()
					record(o.Name, s, o, opOut{Owner: owner, Unk: unk}, call, ret)
					run.Count("probes", 1)
					if unk {
						run.Count("probes_uninformative", 1)
					}
				case "end":
					endMu.Lock()
					endCalls[s] = h.Now()
					endMu.Unlock()
					p.Close()
					run.Count("session_drops", 1)
					return
				}
			}
		}(s, plan[s-1])
	}
	wg.Wait()
	// session ends: returned when the run id has left the session table
	for s, call := range endCalls {
		rid := peers[s].RunID
		gone := h.Eventually(10*time.Second, func() bool {
			for _, ss := range srv.Snapshot().Sessions {
				if ss.RunID == rid {
					return false
				}
			}
			return true
		})
		ret := h.Now()
		if !gone {
			c.Violation("session-not-removed", "session %s still in the session table 10 s after its connection was closed", rid)
		}
		for _, n := range names {
			record(n, s, opIn{Kind: "end", Sess: s, Name: n}, opOut{OK: true}, call, ret)
		}
	}
	// final probes at quiescence (sequential reads pin down the final state)
	for _, n := range names {
		call := h.Now()
		owner, unk := probe(prober, n)
		record(n, nSess+1, opIn{Kind: "probe", Sess: nSess + 1, Name: n}, opOut{Owner: owner, Unk: unk}, call, h.Now())
	}
	// ledger: the proxy-name table must equal the visitor table restricted to this case
	snap := srv.Snapshot()
	inCase := func(l []string) []string {
		var o []string
		for _, x := range l {
			if strings.HasPrefix(x, pfx) {
				o = append(o, x)
			}
		}
		sort.Strings(o)
		return o
	}
	if a, b := inCase(snap.ProxyNames), inCase(snap.Visitors); strings.Join(a, ",") != strings.Join(b, ",") {
		c.Violation("ledger-names-vs-visitors", "proxy name table %v != visitor listener table %v at quiescence", a, b)
	}
	owned := map[string]int{}
	for _, ss := range snap.Sessions {
		for _, n := range ss.Proxies {
			if strings.HasPrefix(n, pfx) {
				owned[n]++
			}
		}
	}
	for n, k := range owned {
		if k > 1 {
			c.Violation("two-owners", "name %s is held by %d sessions at quiescence", n, k)
		}
	}

	for n, hist := range ops {
		if tainted[n] {
			continue
		}
		// Closing a proxy updates two tables one after the other (visitor listener first, then the name
		// table). A probe that sees "no such proxy" while a close / session end of that name is still in
		// progress has observed the first half only; the name itself may legitimately still be taken for
		// a moment (a registration refused during a concurrent close is not a violation of the property).
		// Such probes are uninformative for the single-register model.
		for i := range hist {
			in, out := hist[i].Input.(opIn), hist[i].Output.(opOut)
			if in.Kind != "probe" || out.Unk || out.Owner != 0 {
				continue
			}
			for j := range hist {
				k := hist[j].Input.(opIn).Kind
				if (k == "close" || k == "end") && hist[j].Call <= hist[i].Return && hist[i].Call <= hist[j].Return {
					out.Unk = true
					hist[i].Output = out
					run.Count("probes_concurrent_with_close", 1)
					break
				}
			}
		}
		// Registration is two steps as well (the visitor listener is created, then the name is entered). A
		// registration that finds the listener slot free while another session's close has not yet removed the
		// name is refused at the second step ("already in use") and undone — but for that moment its listener exists and may serve
		// a visitor. A probe answered by a session whose registration of the name was in progress at that time
		// and was then REFUSED has seen this transient; it says nothing about the register's value.
		for i := range hist {
			in, out := hist[i].Input.(opIn), hist[i].Output.(opOut)
			if in.Kind != "probe" || out.Unk || out.Owner <= 0 {
				continue
			}
			for j := range hist {
				jin, jout := hist[j].Input.(opIn), hist[j].Output.(opOut)
				if jin.Kind == "reg" && jin.Sess == out.Owner && !jout.OK && jout.Late && hist[j].Call <= hist[i].Return && hist[i].Call <= hist[j].Return {
					out.Unk = true
					hist[i].Output = out
					run.Count("probes_answered_by_refused_registration_in_progress", 1)
					break
				}
			}
		}
		res, info := porcupine.CheckOperationsVerbose(nameModel, hist, 60*time.Second)
		switch res {
		case porcupine.Illegal:
			_ = info
			c.Data["illegal_history_name"] = n
			c.Violation("name-history-not-linearizable", "history of proxy name %s (%d operations) is not linearizable w.r.t. the owner-or-none model", n, len(hist))
		case porcupine.Unknown:
			run.Inconclusive("porcupine timeout")
		}
		run.Count("histories_checked", 1)
		run.Count("history_ops", int64(len(hist)))
	}
	sort.Strings(sig)
	run.Distinct("hist|" + strings.Join(sig, ",") + "|" + h.TraceSig(trace()))
	if c.Idx < 2 {
		run.Sample(map[string]any{"kind": "history", "sessions": nSess, "names": names, "plan": plan})
	}
	for s := 1; s <= nSess; s++ {
		peers[s].Close()
	}
}

var identRe = regexp.MustCompile(`^S(\d+)\|`)

// probe opens a visitor connection to the stcp proxy `name` and reports which session answered.
func probe(prober *h.Peer, name string) (owner int, unknown bool) {
	ts := time.Now().Unix()
	conn, resp, err := prober.OpenVisitorConn(&msg.NewVisitorConn{RunID: prober.RunID, ProxyName: name, Timestamp: ts, SignKey: h.AuthKey("k", ts)}, 10*time.Second)
	if err != nil {
		return 0, true
	}
	defer conn.Close()
	if resp.Error != "" {
		if strings.Contains(resp.Error, "doesn't exist") {
			return 0, false
		}
		return 0, true
	}
	id, err := h.AskIdentOn(conn, 8*time.Second)
	if err != nil {
		return 0, true // accepted but closed before bridging (concurrent close): uninformative
	}
	m := identRe.FindStringSubmatch(id + "|")
	if m == nil {
		return 0, true
	}
	var s int
	fmt.Sscanf(m[1], "%d", &s)
	if !strings.HasSuffix(id, "|"+name) {
		return -1, false // answered for another proxy name: never legal
	}
	return s, false
}

// ---------------------------------------------------------------------------------------------
// 2. hand-over on re-login

func handoverCase(c *h.Case) {
	rng := c.Rng
	pfx := fmt.Sprintf("c%d.", c.Idx)
	variant := []string{"plain", "delayed-del", "simultaneous", "held-teardown", "held-teardown", "cut-before-ack", "dropped-held-teardown", "inflight-registration"}[rng.Intn(8)]
	nNames := 1 + rng.Intn(3)
	withTCP := rng.Intn(2) == 0 || variant == "inflight-registration"
	nSim := 2 + rng.Intn(3)
	c.Data["variant"], c.Data["names"], c.Data["tcp"], c.Data["simultaneous"] = variant, nNames, withTCP, nSim
	rmPerturb, trace := h.Perturb(rng, pfx)
	defer rmPerturb()

	mk := func(id string, runID string) (*h.Peer, error) {
		// The first session asks for no pooled work connections: the scripted "old client" stays alive
		// after it was replaced, and a pooled offer of its own, delayed past the re-login, would
		// legitimately be attached to the new session of the same run id and answer as S1.
		pool := 1
		if runID == "" {
			pool = 0
		}
		return h.DialPeer(h.PeerOpts{ServerPort: srv.Cfg.BindPort, TCPMux: true, Token: token, RunID: runID, AutoWork: true, PoolCount: pool,
			WorkHandler: h.IdentBackend(id, token, false, false, nil)})
	}
	old, err := mk("S1", "")
	if err != nil || !old.LoggedIn() {
		run.Inconclusive("handover: first login failed")
		return
	}
	defer old.Close()
	R := old.RunID
	var regs []*msg.NewProxy
	for i := 0; i < nNames; i++ {
		// stcp and sudp are the same kind of object for the server (a named visitor listener), but each has
		// its own Close path: alternate so that both are taken through re-login and re-registration
		typ := "stcp"
		if (c.Idx+i)%2 == 1 {
			typ = "sudp"
		}
		regs = append(regs, &msg.NewProxy{ProxyName: fmt.Sprintf("%sh%d", pfx, i), ProxyType: typ, Sk: "k", AllowUsers: []string{"*"}})
	}
	tcpPort := 0
	if withTCP {
		tcpPort = 12500 + (c.Idx*7)%480
		regs = append(regs, &msg.NewProxy{ProxyName: pfx + "tcp", ProxyType: "tcp", RemotePort: tcpPort})
	}
	for _, m := range regs {
		resp, err := old.NewProxy(m, 10*time.Second)
		if err != nil {
			run.Inconclusive("handover: initial registration got no reply")
			return
		}
		if resp.Error != "" {
			if withTCP && strings.Contains(resp.Error, "port") {
				run.Inconclusive("handover: tcp port busy")
				return
			}
			c.Violation("handover-initial-registration-refused", "fresh name %s refused: %s", m.ProxyName, resp.Error)
			return
		}
	}
	prober, err := h.DialPeer(h.PeerOpts{ServerPort: srv.Cfg.BindPort, TCPMux: true, Token: token})
	if err != nil || !prober.LoggedIn() {
		run.Inconclusive("prober login failed")
		return
	}
	defer prober.Close()

	var gate *h.Gate
	if variant == "delayed-del" {
		gate = h.NewGate("server.control.beforeDel", R, 1)
		defer gate.Release()
	}

	reqSeenOld := old.ReqWorkConnSeen.Load()
	var survivors []*h.Peer
	if variant == "simultaneous" {
		var wg sync.WaitGroup
		var mu sync.Mutex
		for i := 0; i < nSim; i++ {
			wg.Add(1)
			go func(i int) {
				defer wg.Done()
				p, err := mk(fmt.Sprintf("S%d", i+2), R)
				if err == nil && p.LoggedIn() {
					mu.Lock()
					survivors = append(survivors, p)
					mu.Unlock()
				} else if p != nil {
					p.Close()
				}
			}(i)
		}
		wg.Wait()
		run.Count("simultaneous_relogins", int64(nSim))
	} else if variant == "cut-before-ack" {
		// A re-login whose connection is cut after frps has accepted it but before the LoginResp is written
		// (parked at registerControl.beforeStart). The half-made session must not block the run id: the next
		// re-login with R has to be acknowledged and take over.
		hold := h.NewGate("server.registerControl.beforeStart", R, 1)
		defer hold.Release()
		raw, err := h.DialPeer(h.PeerOpts{ServerPort: srv.Cfg.BindPort, TCPMux: true, Token: token, SkipLogin: true})
		if err != nil {
			run.Inconclusive("handover: transport dial failed")
			return
		}
		ts := time.Now().Unix()
		_ = msg.WriteMsg(raw.Ctl, &msg.Login{Version: "0.62.1", RunID: R, Timestamp: ts, PrivilegeKey: h.AuthKey(token, ts), PoolCount: 1})
		if !hold.WaitArrived(10 * time.Second) {
			run.Inconclusive("beforeStart gate not reached")
			raw.Close()
			return
		}
		raw.Close() // the peer is gone before its login could be acknowledged
		time.Sleep(20 * time.Millisecond)
		hold.Release()
		run.Count("gate_relogin_cut_before_ack", 1)
		p, err := mk("S2", R)
		if err != nil || !p.LoggedIn() {
			c.Violation("relogin-not-acknowledged-after-cut-login", "a re-login with run id %s was cut before its LoginResp; the next re-login with the same run id is not acknowledged: %v", R, err)
			if p != nil {
				p.Close()
			}
			return
		}
		survivors = []*h.Peer{p}
	} else if variant == "inflight-registration" {
		// The old session has a registration in flight (parked right after the name look-up) when the client logs
		// in again with its run id. The old connection is closed by the replacement; a user connection to another
		// proxy of the old session then makes the server WRITE on that dead connection. Whatever fails there, the
		// old session's teardown must come after its in-flight registration, or that registration completes on a
		// dead session and holds its name for ever.
		extra := pfx + "inflight"
		hold := h.NewGate("server.registerProxy.afterExist", R, 1)
		defer hold.Release()
		go func() {
			_, _ = old.NewProxy(&msg.NewProxy{ProxyName: extra, ProxyType: "stcp", Sk: "k", AllowUsers: []string{"*"}}, 20*time.Second)
		}()
		if !hold.WaitArrived(10 * time.Second) {
			run.Inconclusive("afterExist gate not reached")
			return
		}
		type res struct {
			p   *h.Peer
			err error
		}
		ch := make(chan res, 1)
		go func() { p, err := mk("S2", R); ch <- res{p, err} }()
		time.Sleep(50 * time.Millisecond)
		for i := 0; i < 3; i++ { // users of the old session's tcp proxy: the server asks the dead connection for work connections
			if uc, err := net.DialTimeout("tcp", fmt.Sprintf("127.0.0.1:%d", tcpPort), time.Second); err == nil {
				_, _ = uc.Write([]byte("N000000000000000"))
				defer uc.Close()
			}
		}
		run.Count("gate_inflight_registration_during_relogin", 1)
		var got *res
		select {
		case r := <-ch:
			got = &r
		case <-time.After(400 * time.Millisecond):
		}
		if got != nil && got.err == nil && got.p.LoggedIn() {
			c.Violation("relogin-acknowledged-before-old-teardown", "LoginResp for re-login with run id %s arrived while a registration of the previous session (%s) was still in flight (parked after the name look-up): the previous session cannot have been torn down completely", R, extra)
		}
		hold.Release()
		if got == nil {
			r := <-ch
			got = &r
		}
		if got.err != nil || !got.p.LoggedIn() {
			c.Violation("relogin-refused", "re-login with the run id the server handed out was not accepted: %v", got.err)
			return
		}
		survivors = []*h.Peer{got.p}
		regs = append(regs, &msg.NewProxy{ProxyName: extra, ProxyType: "stcp", Sk: "k", AllowUsers: []string{"*"}})
	} else if variant == "held-teardown" || variant == "dropped-held-teardown" {
		// park the old session's teardown right after its dispatcher ended: the new login must not be
		// acknowledged while the old session still holds its resources. In the "dropped" form the old
		// connection is lost first (the teardown starts by itself and is parked), then the client comes back
		// with its run id: the session whose teardown is unfinished is still the predecessor to wait for.
		// the teardown is parked either right after the dispatcher ended or after the old connection was closed,
		// right before pooled connections and proxies are released
		holdPoint := []string{"server.worker.afterDispatcherDone", "server.worker.beforeClosePool"}[rng.Intn(2)]
		c.Data["hold_point"] = holdPoint
		hold := h.NewGate(holdPoint, R, 1)
		defer hold.Release()
		type res struct {
			p   *h.Peer
			err error
		}
		ch := make(chan res, 1)
		if variant == "dropped-held-teardown" {
			old.Close()
			if !hold.WaitArrived(10 * time.Second) {
				run.Inconclusive("teardown gate not reached after the connection was dropped")
				return
			}
			time.Sleep(time.Duration(rng.Intn(30)) * time.Millisecond)
			run.Count("gate_teardown_held_after_drop", 1)
			go func() { p, err := mk("S2", R); ch <- res{p, err} }()
		} else {
			go func() { p, err := mk("S2", R); ch <- res{p, err} }()
			if !hold.WaitArrived(10 * time.Second) {
				run.Inconclusive("teardown gate not reached")
				hold.Release()
				r := <-ch
				if r.p != nil {
					r.p.Close()
				}
				return
			}
			run.Count("gate_teardown_held", 1)
		}
		var got *res
		select {
		case r := <-ch:
			got = &r
		case <-time.After(300 * time.Millisecond):
		}
		if got != nil && got.err == nil && got.p.LoggedIn() {
			snapNames := srv.Snapshot().ProxyNames
			c.Violation("relogin-acknowledged-before-old-teardown", "LoginResp for re-login with run id %s arrived while the previous session's teardown was parked at %s (its proxies are still registered: %v)", R, holdPoint, snapNames)
		}
		hold.Release()
		if got == nil {
			r := <-ch
			got = &r
		}
		if got.err != nil || !got.p.LoggedIn() {
			c.Violation("relogin-refused", "re-login with the run id the server handed out was not accepted: %v", got.err)
			return
		}
		survivors = []*h.Peer{got.p}
	} else {
		p, err := mk("S2", R)
		if err != nil || !p.LoggedIn() {
			c.Violation("relogin-refused", "re-login with the run id the server handed out was not accepted: %v", err)
			return
		}
		survivors = []*h.Peer{p}
	}
	defer func() {
		for _, p := range survivors {
			p.Close()
		}
	}()
	run.Count("relogins", 1)

	if variant != "simultaneous" {
		nw := survivors[0]
		if nw.RunID != R {
			c.Violation("relogin-runid-changed", "re-login with run id %s was answered with run id %s", R, nw.RunID)
		}
		// immediately on LoginResp: the client's own earlier registrations must not block the new ones
		for _, m := range regs {
			resp, err := nw.NewProxy(m, 10*time.Second)
			if err != nil {
				c.Violation("handover-no-reply", "re-registration of %s after re-login got no reply: %v", m.ProxyName, err)
				return
			}
			if resp.Error != "" {
				c.Violation("handover-reregistration-refused", "after LoginResp for re-login (variant %s) the client's own earlier registration %s (%s) blocks the new one: %s",
					variant, m.ProxyName, m.ProxyType, resp.Error)
				return
			}
			run.Count("handover_reregistrations", 1)
		}
		check := func(phase string) {
			for _, m := range regs {
				if m.ProxyType == "tcp" {
					id, err := h.AskIdent(fmt.Sprintf("127.0.0.1:%d", tcpPort), 8*time.Second)
					if err != nil || !strings.HasPrefix(id, "S2|") {
						c.Violation("handover-traffic-not-new-session", "%s: tcp proxy of run id %s answered by %q (err %v), want the new session S2", phase, R, id, err)
					}
					continue
				}
				owner, unk := probe(prober, m.ProxyName)
				if unk || owner != 2 {
					c.Violation("handover-traffic-not-new-session", "%s: proxy %s of run id %s served by session %d (uninformative=%v), want the new session 2", phase, m.ProxyName, R, owner, unk)
				}
				run.Count("handover_probes", 1)
			}
			if old.ReqWorkConnSeen.Load() != reqSeenOld {
				c.Violation("reqworkconn-on-old-connection", "%s: ReqWorkConn arrived on the replaced control connection", phase)
			}
			found := 0
			for _, ss := range srv.Snapshot().Sessions {
				if ss.RunID == R {
					found++
				}
			}
			if found != 1 {
				c.Violation("runid-not-resolving-to-new-session", "%s: run id %s resolves to %d sessions in the session table", phase, R, found)
			}
		}
		check("right after re-login")
		if gate != nil {
			if !gate.WaitArrived(10 * time.Second) {
				run.Inconclusive("beforeDel gate not reached")
			} else {
				run.Count("gate_beforeDel_forced", 1)
			}
			gate.Release()
			time.Sleep(50 * time.Millisecond)
		} else {
			time.Sleep(time.Duration(rng.Intn(40)) * time.Millisecond)
		}
		check("after the old session's late cleanup")
		if !old.WaitClosed(10 * time.Second) {
			c.Violation("old-connection-not-closed", "replaced session's control connection still open 10 s after re-login")
		}
	} else {
		// several re-logins at once: exactly one live session for R at quiescence, and it works
		h.Eventually(10*time.Second, func() bool {
			live := 0
			for _, p := range survivors {
				if !p.Closed() {
					live++
				}
			}
			return live <= 1
		})
		time.Sleep(100 * time.Millisecond)
		var live []*h.Peer
		for _, p := range survivors {
			if !p.Closed() {
				live = append(live, p)
			}
		}
		found := 0
		for _, ss := range srv.Snapshot().Sessions {
			if ss.RunID == R {
				found++
				if len(ss.Proxies) != 0 {
					c.Violation("simultaneous-relogin-residue", "session table entry of %s holds %v although no re-login registered anything", R, ss.Proxies)
				}
			}
		}
		if len(live) != 1 || found != 1 {
			c.Violation("simultaneous-relogin-not-exactly-one", "%d simultaneous re-logins with run id %s: %d acknowledged, %d still connected, %d session table entries (want exactly 1 and 1)",
				nSim, R, len(survivors), len(live), found)
			return
		}
		nw := live[0]
		for _, m := range regs {
			resp, err := nw.NewProxy(m, 10*time.Second)
			if err != nil || resp.Error != "" {
				c.Violation("simultaneous-relogin-survivor-blocked", "surviving session cannot register %s: %v %v", m.ProxyName, err, resp)
				return
			}
		}
		for _, m := range regs {
			if m.ProxyType == "tcp" {
				continue
			}
			ts := time.Now().Unix()
			conn, resp, err := prober.OpenVisitorConn(&msg.NewVisitorConn{RunID: prober.RunID, ProxyName: m.ProxyName, Timestamp: ts, SignKey: h.AuthKey("k", ts)}, 10*time.Second)
			if err != nil || resp.Error != "" {
				c.Violation("simultaneous-relogin-survivor-dead", "visitor to %s refused: %v %v", m.ProxyName, err, resp)
				continue
			}
			id, err := h.AskIdentOn(conn, 8*time.Second)
			conn.Close()
			if err != nil || !strings.HasSuffix(id, "|"+m.ProxyName) {
				c.Violation("simultaneous-relogin-survivor-dead", "proxy %s of the surviving session does not carry traffic: %q %v", m.ProxyName, id, err)
			}
		}
	}
	run.Distinct(fmt.Sprintf("handover|%s|%d|%v|%d|%s", variant, nNames, withTCP, nSim, h.TraceSig(trace())))
	if c.Idx%97 == 0 {
		run.Sample(map[string]any{"kind": "handover", "variant": variant, "names": nNames, "tcp": withTCP, "run_id": R})
	}
}

// ---------------------------------------------------------------------------------------------
// 3. run ids

var hex16 = regexp.MustCompile(`^[0-9a-f]{16}$`)

func runIDs(n int) {
	seen := map[string]bool{}
	var prev uint64
	havePrev := false
	var mu sync.Mutex
	ids := make([]string, 0, n)
	// sequential logins on raw connections: cheapest path to many fresh run ids
	var wg sync.WaitGroup
	per := n / 8
	for w := 0; w < 8; w++ {
		wg.Add(1)
		go func() {
			defer wg.Done()
			var local []string
			for i := 0; i < per; i++ {
				p, err := h.DialPeer(h.PeerOpts{ServerPort: srv.Cfg.BindPort, TCPMux: true, Token: token})
				if err != nil || !p.LoggedIn() {
					run.Inconclusive("run-id login failed")
					if p != nil {
						p.Close()
					}
					continue
				}
				local = append(local, p.RunID)
				p.Close()
			}
			mu.Lock()
			ids = append(ids, local...)
			mu.Unlock()
		}()
	}
	wg.Wait()
	for _, id := range ids {
		if !hex16.MatchString(id) {
			run.Violation("runid-format", "run id %q is not 16 lowercase hex digits", id)
			break
		}
		if seen[id] {
			run.Violation("runid-duplicate", "two fresh logins received the same run id %s", id)
			break
		}
		seen[id] = true
		var v uint64
		fmt.Sscanf(id, "%x", &v)
		if havePrev && bits.OnesCount64(v^prev) < 8 {
			run.Violation("runid-structured", "consecutive run ids %016x and %016x differ in fewer than 8 bits (counter or clock derived)", prev, v)
			break
		}
		prev, havePrev = v, true
		run.Distinct("runid|" + id)
	}
	run.Count("fresh_run_ids", int64(len(ids)))
	run.Eval(len(ids))
	if len(ids) > 2 {
		run.Sample(map[string]any{"kind": "run ids", "first": ids[:3]})
	}
}

// ---------------------------------------------------------------------------------------------
// 4. the window between "name not taken" and "name entered": two sessions, one name

// existAddWindowCase parks session A's registration of a name right after the server found the name free, lets
// session B register the same name completely (other remote port, so nothing else collides), and releases A.
// Exactly one of them may hold the name afterwards; the other is refused and leaves nothing behind.
func existAddWindowCase(c *h.Case) {
	k := c.Idx - 9000000
	name := fmt.Sprintf("x%d.dup", c.Idx)
	portA, portB := 12100+2*(k%200), 12101+2*(k%200)
	mk := func(id string) (*h.Peer, error) {
		return h.DialPeer(h.PeerOpts{ServerPort: srv.Cfg.BindPort, TCPMux: true, Token: token, AutoWork: true, WorkHandler: h.IdentBackend(id, token, false, false, nil)})
	}
	a, err := mk("A")
	if err != nil || !a.LoggedIn() {
		run.Inconclusive("exist-add: login failed")
		return
	}
	defer a.Close()
	b, err := mk("B")
	if err != nil || !b.LoggedIn() {
		run.Inconclusive("exist-add: login failed")
		return
	}
	defer b.Close()
	gate := h.NewGate("server.registerProxy.afterExist", a.RunID, 1)
	defer gate.Release()
	type res struct {
		r   *msg.NewProxyResp
		err error
	}
	chA := make(chan res, 1)
	go func() {
		r, err := a.NewProxy(&msg.NewProxy{ProxyName: name, ProxyType: "tcp", RemotePort: portA}, 20*time.Second)
		chA <- res{r, err}
	}()
	if !gate.WaitArrived(10 * time.Second) {
		run.Inconclusive("exist-add: afterExist gate not reached")
		return
	}
	rb, errB := b.NewProxy(&msg.NewProxy{ProxyName: name, ProxyType: "tcp", RemotePort: portB}, 10*time.Second)
	gate.Release()
	ra := <-chA
	if ra.err != nil || errB != nil {
		c.Violation("registration-no-reply", "exist-add window: no NewProxyResp (A: %v, B: %v)", ra.err, errB)
		return
	}
	run.Count("exist_add_window_forced", 1)
	if strings.Contains(ra.r.Error+rb.Error, "port") {
		run.Inconclusive("exist-add: tcp port busy")
		return
	}
	okA, okB := ra.r.Error == "", rb.Error == ""
	listening := func(p int) bool {
		cn, err := net.DialTimeout("tcp", fmt.Sprintf("127.0.0.1:%d", p), 2*time.Second)
		if err != nil {
			return false
		}
		cn.Close()
		return true
	}
	switch {
	case okA && okB:
		c.Violation("name-granted-to-two-sessions", "proxy name %s: session A's registration was parked between the server's name look-up and the entry of the name, session B registered the same name meanwhile, then A went on: both were granted (A at %s accepting=%v, B at %s accepting=%v)",
			name, ra.r.RemoteAddr, listening(portA), rb.RemoteAddr, listening(portB))
		return
	case !okA && !okB:
		c.Violation("free-name-refused-to-both", "proxy name %s was free: both concurrent registrations were refused (A: %s, B: %s)", name, ra.r.Error, rb.Error)
		return
	}
	winner, wPort, lPort, loser := "A", portA, portB, b
	if okB {
		winner, wPort, lPort, loser = "B", portB, portA, a
	}
	if id, err := h.AskIdent(fmt.Sprintf("127.0.0.1:%d", wPort), 8*time.Second); err != nil || id != winner+"|"+name {
		c.Violation("name-owner-does-not-serve", "proxy name %s was granted to session %s at port %d, a user there is answered by %q (err %v)", name, winner, wPort, id, err)
	}
	if h.Eventually(3*time.Second, func() bool { return !listening(lPort) }) == false {
		c.Violation("refused-registration-left-listener", "proxy name %s: the refused registration's port %d still accepts connections", name, lPort)
	}
	n := 0
	for _, pn := range srv.Snapshot().ProxyNames {
		if pn == name {
			n++
		}
	}
	if n != 1 {
		c.Violation("ledger-names", "proxy name %s is listed %d times in the server's name table after one grant and one refusal", name, n)
	}
	// a close request (or the end) of the REFUSED session affects nothing of the winner: the name stays taken
	w := a
	if okB {
		w = b
	}
	if k%2 == 0 {
		_ = loser.CloseProxy(name)
		if _, err := loser.Ping(10 * time.Second); err != nil {
			run.Inconclusive("close barrier missing")
			return
		}
	} else {
		rid := loser.RunID
		loser.Close()
		h.Eventually(10*time.Second, func() bool {
			for _, ss := range srv.Snapshot().Sessions {
				if ss.RunID == rid {
					return false
				}
			}
			return true
		})
		nl, err := mk("L2")
		if err != nil || !nl.LoggedIn() {
			run.Inconclusive("exist-add: login failed")
			return
		}
		defer nl.Close()
		loser = nl
	}
	third, err := mk("C")
	if err != nil || !third.LoggedIn() {
		run.Inconclusive("exist-add: login failed")
		return
	}
	defer third.Close()
	if r3, err := third.NewProxy(&msg.NewProxy{ProxyName: name, ProxyType: "tcp", RemotePort: lPort}, 10*time.Second); err == nil && r3.Error == "" {
		c.Violation("refused-session-freed-the-winners-name", "proxy name %s is held by session %s (port %d, accepting=%v); after the close request / end of the session whose registration of that name had been REFUSED, a third session was granted the same name at %s", name, winner, wPort, listening(wPort), r3.RemoteAddr)
		return
	}
	if id, err := h.AskIdent(fmt.Sprintf("127.0.0.1:%d", wPort), 8*time.Second); err != nil || id != winner+"|"+name {
		c.Violation("name-owner-does-not-serve", "proxy name %s: after the refused session's close / end the owner %s at port %d answers %q (err %v)", name, winner, wPort, id, err)
	}
	// the loser can take the name once the winner closed it
	_ = w.CloseProxy(name)
	if _, err := w.Ping(10 * time.Second); err != nil {
		run.Inconclusive("close barrier missing")
		return
	}
	if r, err := loser.NewProxy(&msg.NewProxy{ProxyName: name, ProxyType: "tcp", RemotePort: lPort}, 10*time.Second); err != nil || r.Error != "" {
		c.Violation("name-not-reusable-after-close", "proxy name %s closed by its owner and acknowledged; the other session's registration is refused: %v %+v", name, err, r)
	}
	run.Distinct(fmt.Sprintf("exist-add|%s|%d", winner, k%50))
}
