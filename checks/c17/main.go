// C17 — Control-protocol codec: lossless, bounded, total, wire-stable.
//
// Monitors (DESIGN.md §5/C17):
//  1. round trip decode(encode(m)) == m (semantic equality) over generated values of all 18 types,
//     frame layout = type byte ‖ 8-byte big-endian length ‖ JSON body, field names and type bytes
//     against an independent table and against committed golden vectors (/verif/golden/msg/*.bin);
//  2. decoder totality on random and mutated byte strings: no panic, bytes consumed never beyond the
//     frame, header-only consumption for unknown type / negative / oversized length, bounded allocation;
//  3. a live frps given malformed / unexpected first messages closes the connection (watchdog) and an
//     honest session keeps working.
package main

import (
	"bufio"
	"bytes"
	"crypto/tls"
	"encoding/binary"
	"encoding/json"
	"fmt"
	"io"
	"math/rand"
	"net"
	"os"
	"path/filepath"
	"reflect"
	"runtime"
	"sort"
	"strings"
	"sync"
	"time"
	"unicode/utf8"

	"github.com/fatedier/frp/pkg/msg"
	"github.com/hashicorp/yamux"

	"verif/h"
)

const prop = "C17"
const maxBody = 10240

var run *h.Run

// The released protocol, written down independently of pkg/msg: type byte and JSON field names.
type wireType struct {
	b      byte
	name   string
	proto  any
	fields []string
	nested map[string][]string // field -> names inside nested objects (or arrays of objects)
}

var wire = []wireType{
	{'o', "Login", &msg.Login{}, []string{"version", "hostname", "os", "arch", "user", "privilege_key", "timestamp", "run_id", "metas", "client_spec", "pool_count"},
		map[string][]string{"client_spec": {"type", "always_auth_pass"}}},
	{'1', "LoginResp", &msg.LoginResp{}, []string{"version", "run_id", "error"}, nil},
	{'p', "NewProxy", &msg.NewProxy{}, []string{"proxy_name", "proxy_type", "use_encryption", "use_compression", "bandwidth_limit", "bandwidth_limit_mode", "group", "group_key", "metas", "annotations",
		"remote_port", "custom_domains", "subdomain", "locations", "http_user", "http_pwd", "host_header_rewrite", "headers", "response_headers", "route_by_http_user", "sk", "allow_users", "multiplexer"}, nil},
	{'2', "NewProxyResp", &msg.NewProxyResp{}, []string{"proxy_name", "remote_addr", "error"}, nil},
	{'c', "CloseProxy", &msg.CloseProxy{}, []string{"proxy_name"}, nil},
	{'w', "NewWorkConn", &msg.NewWorkConn{}, []string{"run_id", "privilege_key", "timestamp"}, nil},
	{'r', "ReqWorkConn", &msg.ReqWorkConn{}, nil, nil},
	{'s', "StartWorkConn", &msg.StartWorkConn{}, []string{"proxy_name", "src_addr", "dst_addr", "src_port", "dst_port", "error"}, nil},
	{'v', "NewVisitorConn", &msg.NewVisitorConn{}, []string{"run_id", "proxy_name", "sign_key", "timestamp", "use_encryption", "use_compression"}, nil},
	{'3', "NewVisitorConnResp", &msg.NewVisitorConnResp{}, []string{"proxy_name", "error"}, nil},
	{'h', "Ping", &msg.Ping{}, []string{"privilege_key", "timestamp"}, nil},
	{'4', "Pong", &msg.Pong{}, []string{"error"}, nil},
	{'u', "UDPPacket", &msg.UDPPacket{}, []string{"c", "l", "r"}, map[string][]string{"l": {"IP", "Port", "Zone"}, "r": {"IP", "Port", "Zone"}}},
	{'i', "NatHoleVisitor", &msg.NatHoleVisitor{}, []string{"transaction_id", "proxy_name", "pre_check", "protocol", "sign_key", "timestamp", "mapped_addrs", "assisted_addrs"}, nil},
	{'n', "NatHoleClient", &msg.NatHoleClient{}, []string{"transaction_id", "proxy_name", "sid", "mapped_addrs", "assisted_addrs"}, nil},
	{'m', "NatHoleResp", &msg.NatHoleResp{}, []string{"transaction_id", "sid", "protocol", "candidate_addrs", "assisted_addrs", "detect_behavior", "error"},
		map[string][]string{"detect_behavior": {"role", "mode", "ttl", "send_delay_ms", "read_timeout", "candidate_ports", "send_random_ports", "listen_random_ports"}, "candidate_ports": {"from", "to"}}},
	{'5', "NatHoleSid", &msg.NatHoleSid{}, []string{"transaction_id", "sid", "response", "nonce"}, nil},
	{'6', "NatHoleReport", &msg.NatHoleReport{}, []string{"sid", "success"}, nil},
}

func main() {
	run = h.NewRun(prop, "exploration")
	run.Rule = "values: reflection-filled messages of the 18 types from the case PRNG (boundary ints, unicode/empty/long strings, nil/empty/populated maps and lists, nil/zero/IPv4/IPv6 UDP addresses), sized to <= 10 KiB JSON; byte strings: random, and valid frames mutated by bit flips, truncation, length-field and type-byte substitution; distinct = distinct encoded frame (values) or distinct (type byte class, length class, outcome) tuple + input hash (byte strings)"
	run.Assumptions = []string{
		"string fields are valid UTF-8 (JSON cannot carry other byte strings losslessly; the protocol's own senders only produce UTF-8)",
		"semantic equality: nil and empty maps/lists are equal, IP addresses compare by net.IP.Equal",
		"golden vectors in /verif/golden/msg were produced from the pinned tree and cross-checked against the independent field table in this file",
		"allocation bound measured with runtime.MemStats.TotalAlloc in a phase where no other harness goroutine runs",
		"the live-server phase runs with the garbage collector off (soft limit 10 GiB): a dropped connection is not closed by a finalizer",
	}
	if len(os.Args) > 1 && os.Args[1] == "--gen-golden" {
		genGolden()
		return
	}
	registryAndGolden()
	allocPhase() // sequential, before anything concurrent starts
	nVals := run.N(20000, 1200000)
	nBytes := run.N(100000, 12000000)
	const shard = 1000
	run.Parallel((nVals+shard-1)/shard, 14, func(c *h.Case) { valueCases(c, shard) })
	run.Parallel((nBytes+shard-1)/shard, 14, func(c *h.Case) {
		c.Idx += 1 << 20 // separate PRNG stream from the value cases
		c.Rng = run.RandFor("bytes", c.Idx)
		byteCases(c, shard)
	})
	if run.OnlyCase < 0 {
		liveServer()
	}
	run.Finish(1000)
}

// ---------------------------------------------------------------------------------------------
// generators

var strPool = []string{"", "a", "proxy-1", "ünïcödé-名前-🙂", "with \"quotes\" and \\ and \n newline", "<>&  ", strings.Repeat("x", 300), "0", "null", "{}", " "}

func genString(r *rand.Rand, budget *int) string {
	var s string
	switch r.Intn(6) {
	case 0:
		s = strPool[r.Intn(len(strPool))]
	case 1:
		n := r.Intn(40)
		rs := make([]rune, n)
		for i := range rs {
			rs[i] = rune(0x20 + r.Intn(0x2fff))
			if !utf8.ValidRune(rs[i]) || (rs[i] >= 0xd800 && rs[i] <= 0xdfff) {
				rs[i] = 'z'
			}
		}
		s = string(rs)
	case 2:
		s = strings.Repeat(string(rune('a'+r.Intn(26))), r.Intn(1500))
	default:
		b := make([]byte, r.Intn(24))
		for i := range b {
			b[i] = "abcdefghijklmnopqrstuvwxyz0123456789-_.:/"[r.Intn(41)]
		}
		s = string(b)
	}
	cost := len(s)*6 + 8
	if cost > *budget {
		return ""
	}
	*budget -= cost
	return s
}

var intPool = []int64{0, 1, -1, 2, 80, 443, 65535, 65536, -65536, 1 << 31, -(1 << 31), 1<<31 - 1, 1<<63 - 1, -(1 << 63), 1700000000}

func fill(r *rand.Rand, v reflect.Value, budget *int, full bool) {
	switch v.Kind() {
	case reflect.String:
		if full {
			v.SetString(fmt.Sprintf("s%d-é", r.Intn(1000)))
		} else {
			v.SetString(genString(r, budget))
		}
	case reflect.Bool:
		v.SetBool(full || r.Intn(2) == 0)
	case reflect.Int, reflect.Int64, reflect.Int32:
		x := intPool[r.Intn(len(intPool))]
		if full {
			x = int64(1 + r.Intn(60000))
		} else if r.Intn(3) == 0 {
			x = r.Int63() - r.Int63()
		}
		if v.Kind() == reflect.Int32 {
			x = int64(int32(x))
		}
		v.SetInt(x)
	case reflect.Uint16:
		x := []uint64{0, 1, 80, 65535}[r.Intn(4)]
		if full {
			x = uint64(1 + r.Intn(65000))
		} else if r.Intn(2) == 0 {
			x = uint64(r.Intn(65536))
		}
		v.SetUint(x)
	case reflect.Uint8:
		v.SetUint(uint64(r.Intn(256)))
	case reflect.Map:
		k := r.Intn(4)
		if full {
			k = 2
		} else if r.Intn(4) == 0 {
			if r.Intn(2) == 0 {
				v.Set(reflect.MakeMap(v.Type()))
			}
			return
		}
		m := reflect.MakeMap(v.Type())
		for i := 0; i < k; i++ {
			kk := reflect.New(v.Type().Key()).Elem()
			vv := reflect.New(v.Type().Elem()).Elem()
			fill(r, kk, budget, full)
			fill(r, vv, budget, full)
			m.SetMapIndex(kk, vv)
		}
		v.Set(m)
	case reflect.Slice:
		if v.Type() == reflect.TypeOf(net.IP{}) {
			switch c := r.Intn(5); {
			case full || c == 0:
				v.Set(reflect.ValueOf(net.IPv4(byte(1+r.Intn(250)), byte(r.Intn(256)), byte(r.Intn(256)), byte(1+r.Intn(250)))))
			case c == 1:
				ip := make(net.IP, 16)
				r.Read(ip)
				ip[0] = 0x20
				v.Set(reflect.ValueOf(ip))
			case c == 2:
				v.Set(reflect.ValueOf(net.IPv4zero))
			case c == 3:
				v.Set(reflect.ValueOf(net.IPv6loopback))
			}
			return
		}
		k := r.Intn(4)
		if full {
			k = 2
		} else if r.Intn(4) == 0 {
			if r.Intn(2) == 0 {
				v.Set(reflect.MakeSlice(v.Type(), 0, 0))
			}
			return
		}
		s := reflect.MakeSlice(v.Type(), k, k)
		for i := 0; i < k; i++ {
			fill(r, s.Index(i), budget, full)
		}
		v.Set(s)
	case reflect.Ptr:
		if !full && r.Intn(3) == 0 {
			return
		}
		p := reflect.New(v.Type().Elem())
		fill(r, p.Elem(), budget, full)
		v.Set(p)
	case reflect.Struct:
		for i := 0; i < v.NumField(); i++ {
			if v.Field(i).CanSet() {
				if v.Type() == reflect.TypeOf(net.UDPAddr{}) && v.Type().Field(i).Name == "Zone" {
					if !full && r.Intn(4) == 0 {
						v.Field(i).SetString("eth0")
					}
					continue
				}
				fill(r, v.Field(i), budget, full)
			}
		}
	}
}

func semEqual(a, b reflect.Value, path string) error {
	if a.Type() != b.Type() {
		return fmt.Errorf("%s: type %v != %v", path, a.Type(), b.Type())
	}
	switch a.Kind() {
	case reflect.Ptr:
		if a.IsNil() || b.IsNil() {
			if a.IsNil() != b.IsNil() {
				return fmt.Errorf("%s: nil-ness differs (%v vs %v)", path, a.IsNil(), b.IsNil())
			}
			return nil
		}
		return semEqual(a.Elem(), b.Elem(), path)
	case reflect.Struct:
		for i := 0; i < a.NumField(); i++ {
			if err := semEqual(a.Field(i), b.Field(i), path+"."+a.Type().Field(i).Name); err != nil {
				return err
			}
		}
		return nil
	case reflect.Map:
		if a.Len() != b.Len() {
			return fmt.Errorf("%s: map size %d != %d", path, a.Len(), b.Len())
		}
		for _, k := range a.MapKeys() {
			bv := b.MapIndex(k)
			if !bv.IsValid() {
				return fmt.Errorf("%s: key %v missing", path, k)
			}
			if err := semEqual(a.MapIndex(k), bv, fmt.Sprintf("%s[%v]", path, k)); err != nil {
				return err
			}
		}
		return nil
	case reflect.Slice:
		if a.Type() == reflect.TypeOf(net.IP{}) {
			ia, ib := a.Interface().(net.IP), b.Interface().(net.IP)
			if len(ia) == 0 && len(ib) == 0 {
				return nil
			}
			if !ia.Equal(ib) {
				return fmt.Errorf("%s: IP %v != %v", path, ia, ib)
			}
			return nil
		}
		if a.Len() != b.Len() {
			return fmt.Errorf("%s: len %d != %d", path, a.Len(), b.Len())
		}
		for i := 0; i < a.Len(); i++ {
			if err := semEqual(a.Index(i), b.Index(i), fmt.Sprintf("%s[%d]", path, i)); err != nil {
				return err
			}
		}
		return nil
	default:
		if !reflect.DeepEqual(a.Interface(), b.Interface()) {
			return fmt.Errorf("%s: %v != %v", path, a.Interface(), b.Interface())
		}
		return nil
	}
}

// countingReader counts consumed bytes.
type countingReader struct {
	r io.Reader
	n int
}

func (c *countingReader) Read(p []byte) (int, error) {
	n, err := c.r.Read(p)
	c.n += n
	return n, err
}

func encode(m any) ([]byte, error) {
	var b bytes.Buffer
	err := msg.WriteMsg(&b, m)
	return b.Bytes(), err
}

// checkFrame verifies the layout of an encoded frame against the independent table.
func checkFrame(wt wireType, frame []byte) error {
	if len(frame) < 9 {
		return fmt.Errorf("frame shorter than header: %d", len(frame))
	}
	if frame[0] != wt.b {
		return fmt.Errorf("type byte 0x%02x (%q), released protocol says %q for %s", frame[0], frame[0], wt.b, wt.name)
	}
	l := int64(binary.BigEndian.Uint64(frame[1:9]))
	if l != int64(len(frame)-9) {
		return fmt.Errorf("length field %d != body length %d", l, len(frame)-9)
	}
	var obj map[string]json.RawMessage
	if err := json.Unmarshal(frame[9:], &obj); err != nil {
		return fmt.Errorf("body is not a JSON object: %v", err)
	}
	allowed := map[string]bool{}
	for _, f := range wt.fields {
		allowed[f] = true
	}
	for k, raw := range obj {
		if !allowed[k] {
			return fmt.Errorf("field name %q is not part of the released %s message", k, wt.name)
		}
		if sub, ok := wt.nested[k]; ok {
			if err := checkNested(wt, k, sub, raw); err != nil {
				return err
			}
		}
	}
	return nil
}

func checkNested(wt wireType, field string, names []string, raw json.RawMessage) error {
	var one map[string]json.RawMessage
	var many []map[string]json.RawMessage
	if json.Unmarshal(raw, &one) == nil && one != nil {
		many = []map[string]json.RawMessage{one}
	} else if json.Unmarshal(raw, &many) != nil {
		return nil // null
	}
	ok := map[string]bool{}
	for _, n := range names {
		ok[n] = true
	}
	for _, o := range many {
		for k, r2 := range o {
			if !ok[k] {
				return fmt.Errorf("field name %q inside %s.%s is not part of the released protocol", k, wt.name, field)
			}
			if sub, has := wt.nested[k]; has {
				if err := checkNested(wt, k, sub, r2); err != nil {
					return err
				}
			}
		}
	}
	return nil
}

// ---------------------------------------------------------------------------------------------
// 1a. registry bijection and golden vectors

func goldenDir() string { return filepath.Join(h.Root(), "golden", "msg") }

func goldenValue(wt wireType) any {
	v := reflect.New(reflect.TypeOf(wt.proto).Elem())
	budget := 1 << 20
	fill(rand.New(rand.NewSource(int64(wt.b)*7919)), v.Elem(), &budget, true)
	return v.Interface()
}

func genGolden() {
	_ = os.MkdirAll(goldenDir(), 0o755)
	for _, wt := range wire {
		fr, err := encode(goldenValue(wt))
		if err != nil {
			panic(err)
		}
		if err := checkFrame(wt, fr); err != nil {
			panic(fmt.Sprintf("%s: %v", wt.name, err))
		}
		// every declared field must be present in the fully populated value
		var obj map[string]json.RawMessage
		_ = json.Unmarshal(fr[9:], &obj)
		for _, f := range wt.fields {
			if _, ok := obj[f]; !ok {
				panic(fmt.Sprintf("%s: field %s missing from fully populated value", wt.name, f))
			}
		}
		if err := os.WriteFile(filepath.Join(goldenDir(), wt.name+".bin"), fr, 0o644); err != nil {
			panic(err)
		}
		fmt.Printf("golden %s: %d bytes\n", wt.name, len(fr))
	}
}

func registryAndGolden() {
	seenBytes := map[byte]string{}
	for _, wt := range wire {
		if other, dup := seenBytes[wt.b]; dup {
			fmt.Fprintf(os.Stderr, "harness table error: duplicate byte %q for %s and %s\n", wt.b, other, wt.name)
			os.Exit(h.ExitHarnessError)
		}
		seenBytes[wt.b] = wt.name
		// decoding an empty object under this type byte must yield exactly this Go type
		frame := append([]byte{wt.b}, 0, 0, 0, 0, 0, 0, 0, 2, '{', '}')
		m, err := msg.ReadMsg(bytes.NewReader(frame))
		if err != nil {
			run.Violation("registry-type-byte-unknown", "type byte %q of %s is not accepted by the decoder: %v", wt.b, wt.name, err)
		} else if reflect.TypeOf(m) != reflect.TypeOf(wt.proto) {
			run.Violation("registry-type-byte-maps-to-other-message", "type byte %q decodes to %T, released protocol says %s", wt.b, m, wt.name)
		}
		gv := goldenValue(wt)
		fr, err := encode(gv)
		if err != nil {
			run.Violation("encode-error", "%s: %v", wt.name, err)
			continue
		}
		if err := checkFrame(wt, fr); err != nil {
			run.Violation("wire-layout-"+wt.name, "%v", err)
		}
		gold, err := os.ReadFile(filepath.Join(goldenDir(), wt.name+".bin"))
		if err != nil {
			fmt.Fprintf(os.Stderr, "golden vector missing: %v\n", err)
			os.Exit(h.ExitHarnessError)
		}
		if !bytes.Equal(gold, fr) {
			run.Violation("golden-mismatch-"+wt.name, "encoding of the fully populated %s differs from the released wire form:\n got  %q\n want %q", wt.name, fr, gold)
		}
		dm, err := msg.ReadMsg(bytes.NewReader(gold))
		if err != nil {
			run.Violation("golden-undecodable-"+wt.name, "released wire form of %s is rejected: %v", wt.name, err)
		} else if reflect.TypeOf(dm) != reflect.TypeOf(gv) {
			run.Violation("golden-decodes-to-other-type", "%s golden decodes to %T", wt.name, dm)
		} else if err := semEqual(reflect.ValueOf(gv), reflect.ValueOf(dm), wt.name); err != nil {
			run.Violation("golden-decode-differs-"+wt.name, "decoding the released wire form loses content: %v", err)
		}
		run.Count("golden_vectors_checked", 1)
	}
	// no byte outside the table may be accepted
	for b := 0; b < 256; b++ {
		if _, ok := seenBytes[byte(b)]; ok {
			continue
		}
		frame := append([]byte{byte(b)}, 0, 0, 0, 0, 0, 0, 0, 2, '{', '}')
		if m, err := msg.ReadMsg(bytes.NewReader(frame)); err == nil {
			run.Violation("registry-extra-type-byte", "type byte 0x%02x is not part of the released protocol but decodes to %T", b, m)
		}
	}
	run.Count("type_bytes_probed", 256)
}

// ---------------------------------------------------------------------------------------------
// 1b. round trips

func valueCases(c *h.Case, n int) {
	r := c.Rng
	for i := 0; i < n; i++ {
		wt := wire[r.Intn(len(wire))]
		v := reflect.New(reflect.TypeOf(wt.proto).Elem())
		budget := 9000
		if r.Intn(50) == 0 {
			budget = 40000 // may exceed the frame limit: must then be rejected by the decoder
		}
		fill(r, v.Elem(), &budget, false)
		fr, err := encode(v.Interface())
		if err != nil {
			c.Violation("encode-error", "%s: %v", wt.name, err)
			continue
		}
		run.Count("values_encoded", 1)
		if err := checkFrame(wt, fr); err != nil {
			c.Data["frame"] = string(fr)
			c.Violation("wire-layout-"+wt.name, "%v", err)
			continue
		}
		cr := &countingReader{r: io.MultiReader(bytes.NewReader(fr), bytes.NewReader([]byte("TRAILING-BYTES-OF-NEXT-FRAME")))}
		m, err := msg.ReadMsg(cr)
		if len(fr)-9 > maxBody {
			run.Count("oversized_values", 1)
			if err == nil {
				c.Violation("oversized-frame-accepted", "%s frame with %d-byte body accepted (limit %d)", wt.name, len(fr)-9, maxBody)
			}
			if cr.n > 9 {
				c.Violation("oversized-frame-body-consumed", "decoder consumed %d bytes of a frame declaring %d > %d", cr.n, len(fr)-9, maxBody)
			}
			continue
		}
		if err != nil {
			c.Data["frame"] = string(fr)
			c.Violation("roundtrip-decode-error-"+wt.name, "own encoding rejected: %v", err)
			continue
		}
		if cr.n != len(fr) {
			c.Violation("roundtrip-consumption", "decoder consumed %d bytes for a %d-byte frame", cr.n, len(fr))
		}
		if reflect.TypeOf(m) != v.Type() {
			c.Violation("roundtrip-type-changed", "%s decoded as %T", wt.name, m)
			continue
		}
		if err := semEqual(v, reflect.ValueOf(m), wt.name); err != nil {
			c.Data["frame"] = string(fr)
			c.Violation("roundtrip-differs-"+wt.name, "decode(encode(m)) != m: %v", err)
			continue
		}
		// ReadMsgInto path
		into := reflect.New(v.Type().Elem())
		if err := msg.ReadMsgInto(bytes.NewReader(fr), into.Interface()); err != nil {
			c.Violation("roundtrip-readinto-error", "%s: %v", wt.name, err)
		} else if err := semEqual(v, into, wt.name); err != nil {
			c.Violation("roundtrip-readinto-differs-"+wt.name, "%v", err)
		}
		run.Count("roundtrips_ok", 1)
		run.Distinct(string(fr))
		if c.Idx == 0 && i < 3 {
			run.Sample(map[string]any{"kind": "value", "type": wt.name, "frame": string(fr)})
		}
	}
}

// ---------------------------------------------------------------------------------------------
// 2. decoder totality

var lenPool = []int64{-1, 0, 1, 2, 100, maxBody - 1, maxBody, maxBody + 1, 1 << 20, 1 << 31, 1<<63 - 1, -(1 << 63), -2}

func knownType(b byte) bool {
	for _, wt := range wire {
		if wt.b == b {
			return true
		}
	}
	return false
}

func mutate(r *rand.Rand) []byte {
	switch r.Intn(7) {
	case 0: // pure random
		b := make([]byte, r.Intn(64))
		r.Read(b)
		return b
	case 1: // random with a plausible header
		body := make([]byte, r.Intn(200))
		r.Read(body)
		hdr := make([]byte, 9)
		hdr[0] = wire[r.Intn(len(wire))].b
		binary.BigEndian.PutUint64(hdr[1:], uint64(lenPool[r.Intn(len(lenPool))]))
		return append(hdr, body...)
	}
	wt := wire[r.Intn(len(wire))]
	v := reflect.New(reflect.TypeOf(wt.proto).Elem())
	budget := 2000
	fill(r, v.Elem(), &budget, false)
	fr, _ := encode(v.Interface())
	fr = append([]byte(nil), fr...)
	switch r.Intn(6) {
	case 0: // bit flips
		for k := 1 + r.Intn(4); k > 0 && len(fr) > 0; k-- {
			fr[r.Intn(len(fr))] ^= 1 << uint(r.Intn(8))
		}
	case 1: // truncation
		fr = fr[:r.Intn(len(fr)+1)]
	case 2: // length field substitution
		binary.BigEndian.PutUint64(fr[1:9], uint64(lenPool[r.Intn(len(lenPool))]))
	case 3: // type byte substitution
		fr[0] = byte(r.Intn(256))
	case 4: // JSON structure damage
		if len(fr) > 10 {
			p := 9 + r.Intn(len(fr)-9)
			const dmg = "{}[]\":,x0"
			fr[p] = dmg[r.Intn(len(dmg))]
		}
	case 5: // body replaced by JSON of wrong shape, length fixed up
		bodies := []string{"[]", "null", "1", "\"x\"", "{\"pool_count\":\"x\"}", "{\"timestamp\":1e400}", "{\"metas\":[1]}", "{\"l\":{\"IP\":\"not-an-ip\"}}", "{\"l\":{\"Port\":-1}}", "{\"src_port\":70000}", "{", "{\"a\":"}
		body := bodies[r.Intn(len(bodies))]
		fr = append(fr[:9], body...)
		binary.BigEndian.PutUint64(fr[1:9], uint64(len(body)))
	}
	return fr
}

func decodeOnce(in []byte) (consumed int, m any, err error, panicked any) {
	cr := &countingReader{r: bytes.NewReader(in)}
	func() {
		defer func() { panicked = recover() }()
		m, err = msg.ReadMsg(cr)
	}()
	return cr.n, m, err, panicked
}

func judgeDecode(rep func(key, format string, args ...any), in []byte) (class string) {
	consumed, m, err, pan := decodeOnce(in)
	if pan != nil {
		rep("decoder-panic", "decoder panicked on %d-byte input %q: %v", len(in), trunc(in), pan)
		return "panic"
	}
	if len(in) == 0 {
		return "empty"
	}
	if !knownType(in[0]) {
		if err == nil {
			rep("unknown-type-accepted", "type byte 0x%02x accepted as %T", in[0], m)
		}
		if consumed > 1 {
			rep("unknown-type-read-past-type-byte", "decoder consumed %d bytes after unknown type byte 0x%02x", consumed, in[0])
		}
		return "unknown-type"
	}
	if len(in) < 9 {
		if err == nil {
			rep("short-header-accepted", "input of %d bytes decoded as %T", len(in), m)
		}
		return "short-header"
	}
	l := int64(binary.BigEndian.Uint64(in[1:9]))
	switch {
	case l < 0 || l > maxBody:
		if err == nil {
			rep("bad-length-accepted", "declared length %d accepted as %T", l, m)
		}
		if consumed > 9 {
			rep("bad-length-body-consumed", "decoder consumed %d bytes of a frame declaring length %d", consumed, l)
		}
		return "bad-length"
	default:
		if int64(consumed) > 9+l {
			rep("read-past-frame", "decoder consumed %d bytes, frame is 9+%d", consumed, l)
		}
		if int64(len(in)) < 9+l {
			if err == nil {
				rep("truncated-frame-accepted", "frame declaring %d with only %d body bytes decoded as %T", l, len(in)-9, m)
			}
			return "truncated"
		}
		jsonOK := json.Valid(in[9 : 9+l])
		if err == nil {
			if !jsonOK {
				rep("malformed-body-accepted", "body %q accepted as %T", trunc(in[9:9+l]), m)
			}
			if m == nil {
				rep("nil-message-without-error", "decoder returned neither message nor error")
			}
			return "ok"
		}
		return "body-error"
	}
}

func trunc(b []byte) string {
	if len(b) > 120 {
		return string(b[:120]) + "..."
	}
	return string(b)
}

func byteCases(c *h.Case, n int) {
	r := c.Rng
	classes := map[string]int64{}
	for i := 0; i < n; i++ {
		in := mutate(r)
		cls := judgeDecode(func(key, format string, args ...any) {
			c.Data["input_hex"] = fmt.Sprintf("%x", in)
			c.Violation(key, format, args...)
		}, in)
		classes[cls]++
		if cls != "ok" || r.Intn(8) == 0 {
			run.Distinct(cls + "|" + string(in))
		}
	}
	for k, v := range classes {
		run.Count("bytes_"+k, v)
	}
	if c.Idx == 1<<20 {
		run.Sample(map[string]any{"kind": "byte strings", "classes": classes})
	}
}

// allocPhase: sequential allocation bound per decode call.
func allocPhase() {
	r := run.RandFor("alloc", 0)
	var ms runtime.MemStats
	worst := uint64(0)
	inputs := [][]byte{}
	for _, l := range lenPool {
		for _, wt := range wire[:4] {
			hdr := make([]byte, 9, 9+64)
			hdr[0] = wt.b
			binary.BigEndian.PutUint64(hdr[1:], uint64(l))
			inputs = append(inputs, append(hdr, []byte(`{"version":"x"}`)...))
		}
	}
	for i := 0; i < run.N(3000, 80000); i++ {
		inputs = append(inputs, mutate(r))
	}
	// a maximal legal frame
	big := &msg.Login{Metas: map[string]string{}}
	for i := 0; len(big.Metas) < 60; i++ {
		big.Metas[fmt.Sprintf("k%03d", i)] = strings.Repeat("v", 150)
	}
	if fr, err := encode(big); err == nil && len(fr)-9 <= maxBody {
		inputs = append(inputs, fr)
	}
	runtime.GC()
	for _, in := range inputs {
		if len(in) > 9+maxBody {
			continue
		}
		runtime.ReadMemStats(&ms)
		before := ms.TotalAlloc
		_, _, _, pan := decodeOnce(in)
		runtime.ReadMemStats(&ms)
		d := ms.TotalAlloc - before
		if pan != nil {
			run.Violation("decoder-panic", "decoder panicked on %q: %v", trunc(in), pan)
		}
		if d > worst {
			worst = d
		}
		if d > 1<<20 {
			run.Violation("decoder-unbounded-allocation", "decoding a %d-byte input (%q) allocated %d bytes (> 1 MiB; the declared length must be checked before allocating)", len(in), trunc(in), d)
			break
		}
		run.Count("alloc_measurements", 1)
	}
	run.Set("worst_alloc_bytes_per_decode", worst)
}

// ---------------------------------------------------------------------------------------------
// 3. live server

func liveServer() {
	// "disconnected" means closed by the code: with the collector running, a connection that frps merely drops is
	// closed by its finalizer a few seconds later and looks like a disconnect
	defer h.DisableGC(10)()
	pa := h.Ports(prop)
	type variant struct {
		name string
		data []byte
		slow bool // server only notices after its 10 s read timeout
		fin  bool // the peer ends its sending direction after these bytes (stream FIN / TCP half-close)
	}
	hdr := func(t byte, l int64, body string) []byte {
		b := make([]byte, 9)
		b[0] = t
		binary.BigEndian.PutUint64(b[1:], uint64(l))
		return append(b, body...)
	}
	frame := func(m any) []byte { b, _ := encode(m); return b }
	vars := []variant{
		{"unknown-type", hdr('Z', 2, "{}"), false, false},
		{"negative-length", hdr('o', -1, "{}"), false, false},
		{"oversized-length", hdr('o', maxBody+1, strings.Repeat("x", 64)), false, false},
		{"huge-length", hdr('o', 1<<62, "{}"), false, false},
		{"malformed-json-login", hdr('o', 5, "{\"a\":"), false, false},
		{"wrong-shape-login", hdr('o', 20, "{\"pool_count\":\"xyz\"}"), false, false},
		{"unexpected-pong", frame(&msg.Pong{}), false, false},
		{"unexpected-reqworkconn", frame(&msg.ReqWorkConn{}), false, false},
		{"unexpected-startworkconn", frame(&msg.StartWorkConn{ProxyName: "x"}), false, false},
		{"unexpected-newproxy", frame(&msg.NewProxy{ProxyName: "x", ProxyType: "tcp"}), false, false},
		{"unexpected-udppacket", frame(&msg.UDPPacket{Content: "aGVsbG8="}), false, false},
		{"unexpected-nathole", frame(&msg.NatHoleVisitor{ProxyName: "x"}), false, false},
		{"unexpected-loginresp", frame(&msg.LoginResp{RunID: "abc"}), false, false},
		{"truncated-frame-then-silence", hdr('o', 100, "{\"version\""), true, false},
		{"one-byte-then-silence", []byte{'o'}, true, false},
		{"random-garbage", []byte("\x00\xff\x10GARBAGE GARBAGE GARBAGE\r\n\r\n"), false, false},
		// the peer's bytes end exactly where the decoder starts a read (plain io.EOF, not a truncation error)
		{"nothing-then-fin", nil, false, true},
		{"type-byte-then-fin", []byte{'o'}, false, true},
		{"header-then-fin", hdr('o', 100, ""), false, true},
		{"half-body-then-fin", hdr('o', 100, "{\"version\""), false, true},
	}
	var outer sync.WaitGroup
	for _, mux := range []bool{false, true} {
		outer.Add(1)
		go func(mux bool) {
			defer outer.Done()
			port := pa.Get()
			backPort := pa.Get()
			scopes := ""
			if !mux { // one of the two servers also verifies work connections: the refusal of a wrongly signed one is a reply like any other
				scopes = "auth.additionalScopes = [\"NewWorkConns\"]\n"
			}
			srv, err := h.StartServerText(prop, fmt.Sprintf("bindAddr = \"127.0.0.1\"\nbindPort = %d\nauth.token = \"t17\"\n%stransport.tcpMux = %v\nallowPorts = [{single=%d}]\n", port, scopes, mux, backPort))
			if err != nil {
				fmt.Fprintln(os.Stderr, "server:", err)
				os.Exit(h.ExitHarnessError)
			}
			honest, err := h.DialPeer(h.PeerOpts{ServerPort: port, TCPMux: mux, Token: "t17", AutoWork: true, SignWorkConn: true, WorkHandler: h.IdentBackend("H", "t17", false, false, nil)})
			if err != nil || !honest.LoggedIn() {
				fmt.Fprintln(os.Stderr, "honest peer:", err)
				os.Exit(h.ExitHarnessError)
			}
			if r, err := honest.NewProxy(&msg.NewProxy{ProxyName: "honest17", ProxyType: "tcp", RemotePort: backPort}, 10*time.Second); err != nil || r.Error != "" {
				fmt.Fprintln(os.Stderr, "honest proxy:", err, r)
				os.Exit(h.ExitHarnessError)
			}
			var wg sync.WaitGroup
			for _, v := range vars {
				for rep := 0; rep < run.N(2, 8); rep++ {
					inStream := mux && rep%2 == 1
					wg.Add(1)
					go func(v variant) {
						defer wg.Done()
						var c net.Conn
						var err error
						if inStream {
							// a proper yamux session; the malformed message is the first message of a stream
							sp, derr := h.DialPeer(h.PeerOpts{ServerPort: port, TCPMux: true, Token: "t17", SkipLogin: true})
							if derr != nil {
								run.Inconclusive("live: mux dial failed")
								return
							}
							defer sp.Close()
							c = sp.Ctl
						} else {
							c, err = net.DialTimeout("tcp", fmt.Sprintf("127.0.0.1:%d", port), 5*time.Second)
							if err != nil {
								run.Inconclusive("live: dial failed")
								return
							}
							defer c.Close()
						}
						t0 := time.Now()
						if len(v.data) > 0 {
							_, _ = c.Write(v.data)
						}
						if v.fin {
							if inStream {
								_ = c.Close() // a yamux stream's Close is a half-close: FIN, reading stays possible
							} else if tc, ok := c.(*net.TCPConn); ok {
								_ = tc.CloseWrite()
							}
						}
						// the server must close the connection: read until EOF/reset. Upper bound = watchdog:
						// server read timeout 10 s (+ yamux) → grace 45 s; exceeding it means "kept open".
						_ = c.SetReadDeadline(time.Now().Add(45 * time.Second))
						buf := make([]byte, 4096)
						got := 0
						for {
							n, err := c.Read(buf)
							got += n
							if err != nil {
								if ne, ok := err.(net.Error); ok && ne.Timeout() {
									run.Violation("malformed-first-message-connection-kept-open", "tcpMux=%v in-stream=%v first message %s: connection still open after 45 s", mux, inStream, v.name)
								}
								break
							}
						}
						run.Count("live_malformed_first_messages", 1)
						if mux == false && got > 0 && !strings.HasPrefix(v.name, "malformed-json") && !strings.HasPrefix(v.name, "wrong-shape") {
							// a reply to garbage is not forbidden as such; record it
							run.Count("live_replies_to_malformed", 1)
						}
						if !v.slow && time.Since(t0) > 8*time.Second {
							run.Count("live_slow_close", 1)
						}
						run.Distinct(fmt.Sprintf("live|%v|%v|%s", mux, inStream, v.name))
					}(v)
				}
			}
			// the same first messages over the websocket carrier of the control port (GET /~!frp upgrade written by hand:
			// with an Origin header, without one, and with an opaque one — frpc always sends one, other peers need not)
			for _, v := range vars {
				if v.fin {
					continue
				}
				for oi, origin := range []string{"Origin: http://127.0.0.1\r\n", "", "Origin: null\r\n"} {
					if !run.Thorough() && oi == 2 && len(v.name)%2 == 0 {
						continue
					}
					wg.Add(1)
					go func(v variant, origin string) {
						defer wg.Done()
						c, err := net.DialTimeout("tcp", fmt.Sprintf("127.0.0.1:%d", port), 5*time.Second)
						if err != nil {
							run.Inconclusive("live: dial failed")
							return
						}
						defer c.Close()
						_ = c.SetDeadline(time.Now().Add(20 * time.Second))
						fmt.Fprintf(c, "GET /~!frp HTTP/1.1\r\nHost: 127.0.0.1:%d\r\nUpgrade: websocket\r\nConnection: Upgrade\r\nSec-WebSocket-Key: dGhlIHNhbXBsZSBub25jZQ==\r\nSec-WebSocket-Version: 13\r\n%s\r\n", port, origin)
						br := bufio.NewReader(c)
						status, err := br.ReadString('\n')
						if err != nil {
							run.Count("live_websocket_handshake_closed", 1)
							return
						}
						for {
							line, err := br.ReadString('\n')
							if err != nil || line == "\r\n" {
								break
							}
						}
						if !strings.Contains(status, " 101 ") {
							run.Count("live_websocket_upgrade_refused", 1)
							return
						}
						// one masked binary frame carrying the first message
						frame := []byte{0x82}
						n := len(v.data)
						switch {
						case n < 126:
							frame = append(frame, 0x80|byte(n))
						default:
							frame = append(frame, 0x80|126, byte(n>>8), byte(n))
						}
						mask := [4]byte{0x11, 0x22, 0x33, 0x44}
						frame = append(frame, mask[:]...)
						for i, b := range v.data {
							frame = append(frame, b^mask[i%4])
						}
						_, _ = c.Write(frame)
						_ = c.SetReadDeadline(time.Now().Add(45 * time.Second))
						buf := make([]byte, 4096)
						for {
							_, err := br.Read(buf)
							if err != nil {
								if ne, ok := err.(net.Error); ok && ne.Timeout() {
									run.Violation("malformed-first-message-connection-kept-open", "websocket carrier (%q) first message %s: connection still open after 45 s", strings.TrimSpace(origin), v.name)
								}
								break
							}
						}
						run.Count("live_malformed_first_messages_websocket", 1)
						run.Distinct(fmt.Sprintf("live-ws|%v|%q|%s", mux, strings.TrimSpace(origin), v.name))
					}(v, origin)
				}
			}
			// well-formed, correctly signed logins whose other fields take extreme values: accepted or refused,
			// but the peer is answered and other sessions are not affected (an unrecovered panic in the server
			// would end this process: the ./check wrapper reports that as a violation with the crashing frame)
			for _, pc := range []int{-1 << 62, -1 << 31, -65536, -100, -11, -10, -1, 0, 1, 1 << 31, 1 << 62} {
				for _, ts := range []int64{0, -1, 1 << 62} {
					wg.Add(1)
					go func(pc int, ts int64) {
						defer wg.Done()
						p, err := h.DialPeer(h.PeerOpts{ServerPort: port, TCPMux: mux, Token: "t17", PoolCount: pc, MutateLogin: func(l *msg.Login) {
							if ts != 0 {
								l.Timestamp, l.PrivilegeKey = ts, h.AuthKey("t17", ts)
							}
							l.Metas = map[string]string{"": "", "k": strings.Repeat("v", 2000)}
						}})
						run.Count("live_extreme_logins", 1)
						if err != nil {
							run.Violation("well-formed-login-with-extreme-field-not-answered", "tcpMux=%v pool_count=%d timestamp=%d: no LoginResp: %v", mux, pc, ts, err)
							return
						}
						run.Distinct(fmt.Sprintf("live-login|%v|%d|%d|%v", mux, pc, ts, p.LoggedIn()))
						p.Close()
					}(pc, ts)
				}
			}
			// first messages that END exactly where the decoder starts a read (plain end-of-stream, not a truncation), on the
			// carriers that reach the first-message reader with fewer than 11 bytes: a yamux stream (tcpMux on) and a TLS
			// connection (tcpMux off). The peer only ends its sending direction; frps has to close its side.
			for _, v := range vars {
				if !v.fin {
					continue
				}
				wg.Add(1)
				go func(v variant) {
					defer wg.Done()
					raw, err := net.DialTimeout("tcp", fmt.Sprintf("127.0.0.1:%d", port), 5*time.Second)
					if err != nil {
						run.Inconclusive("live: dial failed")
						return
					}
					defer raw.Close()
					if mux {
						cfg := yamux.DefaultConfig()
						cfg.LogOutput = io.Discard
						sess, err := yamux.Client(raw, cfg)
						if err != nil {
							run.Inconclusive("live: yamux client failed")
							return
						}
						defer sess.Close()
						st, err := sess.OpenStream()
						if err != nil {
							run.Inconclusive("live: yamux stream failed")
							return
						}
						if len(v.data) > 0 {
							_, _ = st.Write(v.data)
						}
						_ = st.Close() // FIN for our direction; the stream disappears from the session once frps closed its side too
						if !h.Eventually(45*time.Second, func() bool { return sess.NumStreams() == 0 }) {
							run.Violation("malformed-first-message-connection-kept-open", "yamux stream, first message %s: the peer ended its direction, frps has not closed the stream after 45 s", v.name)
						}
						run.Count("live_first_message_ended_by_fin_yamux", 1)
						run.Distinct("live-fin|yamux|" + v.name)
						return
					}
					tc := tls.Client(raw, &tls.Config{InsecureSkipVerify: true})
					_ = tc.SetDeadline(time.Now().Add(20 * time.Second))
					if err := tc.Handshake(); err != nil {
						run.Inconclusive("live: TLS handshake with the control port failed")
						return
					}
					if len(v.data) > 0 {
						_, _ = tc.Write(v.data)
					}
					_ = tc.CloseWrite()
					_ = tc.SetReadDeadline(time.Now().Add(45 * time.Second))
					buf := make([]byte, 1024)
					for {
						_, err := tc.Read(buf)
						if err != nil {
							if ne, ok := err.(net.Error); ok && ne.Timeout() {
								run.Violation("malformed-first-message-connection-kept-open", "TLS connection, first message %s: the peer ended its direction, frps has not closed the connection after 45 s", v.name)
							}
							break
						}
					}
					run.Count("live_first_message_ended_by_fin_tls", 1)
					run.Distinct("live-fin|tls|" + v.name)
				}(v)
			}
			// frps reads exactly one frame as the first message: bytes that follow it in the same segment belong to
			// whoever takes the connection over (here: an stcp visitor that sends its payload without waiting)
			if r, err := honest.NewProxy(&msg.NewProxy{ProxyName: "pipe17", ProxyType: "stcp", Sk: "sk17", AllowUsers: []string{"*"}}, 10*time.Second); err == nil && r.Error == "" {
				for rep := 0; rep < run.N(6, 24); rep++ {
					wg.Add(1)
					go func(rep int) {
						defer wg.Done()
						sp, derr := h.DialPeer(h.PeerOpts{ServerPort: port, TCPMux: mux, Token: "t17", SkipLogin: true})
						if derr != nil {
							run.Inconclusive("live: dial failed")
							return
						}
						defer sp.Close()
						ts := time.Now().Unix()
						first, _ := encode(&msg.NewVisitorConn{RunID: "", ProxyName: "pipe17", SignKey: h.AuthKey("sk17", ts), Timestamp: ts})
						nonce := []byte(fmt.Sprintf("N%015x", rep))
						extra := append([]byte{}, nonce...)
						if rep%2 == 1 { // more than one buffer's worth behind the frame
							extra = append(extra, bytes.Repeat([]byte{'x'}, 6000)...)
						}
						_, _ = sp.Ctl.Write(append(first, extra...))
						_ = sp.Ctl.SetReadDeadline(time.Now().Add(20 * time.Second))
						var resp msg.NewVisitorConnResp
						if err := msg.ReadMsgInto(sp.Ctl, &resp); err != nil || resp.Error != "" {
							run.Inconclusive("live: pipelining visitor was not admitted")
							return
						}
						want := "H|pipe17|" + string(nonce)
						got := make([]byte, len(want))
						if _, err := io.ReadFull(sp.Ctl, got); err != nil || string(got) != want {
							run.Violation("bytes-after-first-frame-lost", "tcpMux=%v: a visitor sent NewVisitorConn and %d payload bytes in one write; it was admitted, but the backend's answer to the payload is %q (%v) instead of %q: bytes behind the first frame did not reach the proxy", mux, len(extra), got, err, want)
							return
						}
						run.Count("live_pipelined_first_frames", 1)
						run.Distinct(fmt.Sprintf("live-pipeline|%v|%d", mux, rep%2))
					}(rep)
				}
			} else {
				run.Inconclusive("live: stcp proxy for the pipelining test was not registered")
			}
			// wire stability of the server's own answers to first messages: each refusal (and acceptance) is framed with
			// the type byte the released protocol assigns to that answer — a peer that dispatches on the type byte
			// (as msg.ReadMsg does) must find the message it expects
			{
				ts := time.Now().Unix()
				type probe struct {
					name string
					first any
					want byte // type byte of the answer ('\x00': the connection is just closed)
				}
				probes := []probe{
					{"login-with-wrong-key", &msg.Login{Version: "0.62.1", Timestamp: ts, PrivilegeKey: "00000000000000000000000000000000"}, '1'},
					{"visitor-for-unknown-proxy", &msg.NewVisitorConn{ProxyName: "no-such-proxy-17", Timestamp: ts, SignKey: h.AuthKey("sk17", ts)}, '3'},
					{"visitor-with-wrong-secret", &msg.NewVisitorConn{ProxyName: "pipe17", Timestamp: ts, SignKey: h.AuthKey("wrong", ts)}, '3'},
					{"visitor-admitted", &msg.NewVisitorConn{ProxyName: "pipe17", Timestamp: ts, SignKey: h.AuthKey("sk17", ts)}, '3'},
				}
				if !mux {
					probes = append(probes, probe{"work-connection-with-wrong-key", &msg.NewWorkConn{RunID: honest.RunID, Timestamp: ts, PrivilegeKey: "00000000000000000000000000000000"}, 's'})
				}
				for _, pr := range probes {
					wg.Add(1)
					go func(pr probe) {
						defer wg.Done()
						sp, derr := h.DialPeer(h.PeerOpts{ServerPort: port, TCPMux: mux, Token: "t17", SkipLogin: true})
						if derr != nil {
							run.Inconclusive("live: dial failed")
							return
						}
						defer sp.Close()
						frame, _ := encode(pr.first)
						_, _ = sp.Ctl.Write(frame)
						_ = sp.Ctl.SetReadDeadline(time.Now().Add(20 * time.Second))
						var tb [1]byte
						if _, err := io.ReadFull(sp.Ctl, tb[:]); err != nil {
							run.Violation("first-message-not-answered", "tcpMux=%v %s: the connection ended without an answer frame: %v", mux, pr.name, err)
							return
						}
						run.Count("live_answer_type_bytes_checked", 1)
						if tb[0] != pr.want {
							run.Violation("answer-framed-with-wrong-type-byte", "tcpMux=%v %s: the answer is framed with type byte %q, the released protocol uses %q for it", mux, pr.name, tb[0], pr.want)
						}
						run.Distinct(fmt.Sprintf("live-answer|%v|%s", mux, pr.name))
					}(pr)
				}
			}
			// every registered message type, sent by a logged-in peer on its control connection: frps handles six of
			// them and has no handler for the rest; whatever it does with the session, it stays up for the others
			for _, wt := range wire {
				wg.Add(1)
				go func(wt wireType) {
					defer wg.Done()
					p, err := h.DialPeer(h.PeerOpts{ServerPort: port, TCPMux: mux, Token: "t17"})
					if err != nil || !p.LoggedIn() {
						run.Inconclusive("live: login for the after-login barrage failed")
						return
					}
					defer p.Close()
					m := goldenValue(wt).(msg.Message)
					_ = p.Send(m)
					_, perr := p.Ping(15 * time.Second)
					run.Count("live_after_login_messages", 1)
					run.Distinct(fmt.Sprintf("live-after-login|%v|%c|%v", mux, wt.b, perr == nil))
				}(wt)
			}
			// honest traffic while the barrage runs
			stop := make(chan struct{})
			var hw sync.WaitGroup
			hw.Add(1)
			go func() {
				defer hw.Done()
				for {
					select {
					case <-stop:
						return
					default:
					}
					id, err := h.AskIdent(fmt.Sprintf("127.0.0.1:%d", backPort), 20*time.Second)
					if err != nil || id != "H|honest17" {
						run.Violation("honest-session-disturbed-by-malformed-peer", "tcpMux=%v: honest tunnel answered %q err %v during malformed-first-message barrage", mux, id, err)
						return
					}
					run.Count("live_honest_exchanges", 1)
					time.Sleep(20 * time.Millisecond)
				}
			}()
			wg.Wait()
			close(stop)
			hw.Wait()
			if _, err := honest.Ping(20 * time.Second); err != nil {
				run.Violation("honest-session-disturbed-by-malformed-peer", "tcpMux=%v: honest session got no Pong after the barrage: %v", mux, err)
			}
			if n := len(srv.Snapshot().Sessions); n != 1 {
				run.Violation("malformed-first-message-left-session", "tcpMux=%v: %d sessions in the table after the barrage, want 1 (the honest one)", mux, n)
			}
			honest.Close()
			srv.Close()
		}(mux)
	}
	outer.Wait()
	run.Eval(len(vars) * 2)
	keys := []string{}
	for _, v := range vars {
		keys = append(keys, v.name)
	}
	sort.Strings(keys)
	run.Sample(map[string]any{"kind": "live first messages", "variants": keys})
}
