// C16 — No input or interleaving crashes or wedges frps or frpc.   (uses vnode)
//
// Monitors (DESIGN.md §5/C16): sacrificial child processes (real frps / frpc built with -race and the
// verif hooks delaying at every hook point) are bombarded with generated protocol messages — every
// type, every field over hostile values, unauthenticated and authenticated, on control, work and
// visitor connections, from many connections at once — interleaved with honest registration, closure,
// group, visitor and NAT-hole traffic. Observers: (1) abnormal exit of the child (panic / fatal error),
// (2) wedge: after the barrage a fresh login + registration + echo must work and the honest session
// opened before the barrage must still be served, (3) race-detector reports of the *map* class in the
// child (in a production build: "fatal error: concurrent map read and map write").
// Every message is written to a per-batch log before it is sent.
package main

import (
	"encoding/json"
	"fmt"
	"math/rand"
	"net"
	"os"
	"path/filepath"
	"reflect"
	"strings"
	"sync"
	"sync/atomic"
	"time"

	"github.com/fatedier/frp/pkg/msg"
	netpkg "github.com/fatedier/frp/pkg/util/net"

	"verif/h"
)

const prop = "C16"
const token = "c16-token"

var run *h.Run

func main() {
	run = h.NewRun(prop, "exploration")
	run.Rule = "batches: one sacrificial frps (or frpc) per batch with PRNG hook delays; per batch 4 unauthenticated fuzzers, 3 authenticated fuzzers (hostile login fields, then hostile control / work / visitor messages), churn actors (tcp/http groups, stcp visitors, xtcp + NAT-hole pre-check and session traffic) and an honest tunnel; login-window cases: logins whose connection dies while frps is between accepting the Login and answering it (window widened by a 40 ms delay at registerControl.beforeStart), then a re-login with the same run id; messages = reflection-filled values of the 18 types over hostile pools (negative/zero/huge ints, empty/long/odd strings, nil/empty/large maps and lists, nil/IPv6 addresses); distinct = distinct (context, message type, encoded frame)"
	run.Assumptions = []string{
		"race policy: only reports whose top frame on either side is a runtime map function are judged (map class); close-vs-send channel reports are frp's recover idiom; other reports are listed in the evidence, not judged",
		"wedge verdicts are decided after the barrage with bounded-progress watchdogs (30 s for a fresh login+registration+echo; 90 s for frpc to log in again at a benign server: max back-off 20 s x 1.1 + dial + slack)",
		"string fields are sent as valid JSON (invalid UTF-8 cannot be carried by the JSON encoder); raw malformed frames are C17's business",
	}
	nS := run.N(6, 40)
	nC := run.N(2, 10)
	run.ParallelRange(0, nS, 3, serverBatch)
	run.ParallelRange(1000, nC, 2, clientBatch)
	run.ParallelRange(2000, run.N(4, 16), 4, clientCancelCase)
	run.ParallelRange(3000, run.N(4, 16), 2, loginWindowCase)
	run.Finish(2000)
}

// ---------------------------------------------------------------------------------------------
// hostile value generator

var hostileInts = []int64{0, -1, 1, -100, -65536, 65535, 65536, 70000, 1 << 31, -(1 << 31), 1<<31 - 1, 1<<63 - 1, -(1 << 63), 1 << 40}
var hostileStrs = []string{"", " ", "a", "*", "..", "/", "\x00", "\n", "%s%s%n", "../../etc/passwd", "null", "{}", "[]", "0", "-1", "tcp", "udp", "http", "https", "stcp", "xtcp", "sudp", "tcpmux", "httpconnect",
	"127.0.0.1:0", "127.0.0.1:-5", "127.0.0.1:70000", "[::1]:80", "::1", "1.2.3.4", "256.256.256.256:99999", "host:port", ":", "a:b:c", "*.example.com", "EXAMPLE.com", "ünï.cödé", "1KB", "-1MB", "99999999999GB", "client", "server",
	strings.Repeat("A", 300), strings.Repeat("x.", 200), strings.Repeat("9", 40)}

type gen struct {
	r   *rand.Rand
	pfx string
}

func (g *gen) str() string {
	switch g.r.Intn(8) {
	case 0:
		return g.pfx + fmt.Sprint(g.r.Intn(6)) // names that collide within the batch
	case 1:
		return strings.Repeat(string(rune('a'+g.r.Intn(26))), g.r.Intn(3000))
	default:
		return hostileStrs[g.r.Intn(len(hostileStrs))]
	}
}

func (g *gen) fill(v reflect.Value, depth int) {
	r := g.r
	switch v.Kind() {
	case reflect.String:
		v.SetString(g.str())
	case reflect.Bool:
		v.SetBool(r.Intn(2) == 0)
	case reflect.Int, reflect.Int64:
		v.SetInt(hostileInts[r.Intn(len(hostileInts))])
	case reflect.Uint16:
		v.SetUint(uint64([]int{0, 1, 80, 65535}[r.Intn(4)]))
	case reflect.Uint8:
		v.SetUint(uint64(r.Intn(256)))
	case reflect.Map:
		switch r.Intn(4) {
		case 0:
			return
		case 1:
			v.Set(reflect.MakeMap(v.Type()))
			return
		}
		n := 1 + r.Intn(3)
		if r.Intn(10) == 0 {
			n = 60
		}
		m := reflect.MakeMap(v.Type())
		for i := 0; i < n; i++ {
			k := reflect.New(v.Type().Key()).Elem()
			e := reflect.New(v.Type().Elem()).Elem()
			g.fill(k, depth+1)
			g.fill(e, depth+1)
			if n == 60 {
				k.SetString(fmt.Sprintf("k%d", i))
				e.SetString("v")
			}
			m.SetMapIndex(k, e)
		}
		v.Set(m)
	case reflect.Slice:
		if v.Type() == reflect.TypeOf(net.IP{}) {
			switch r.Intn(4) {
			case 0:
				v.Set(reflect.ValueOf(net.IPv4(127, 0, 0, 1)))
			case 1:
				v.Set(reflect.ValueOf(net.IPv6loopback))
			case 2:
				v.Set(reflect.ValueOf(net.IP{1, 2, 3})) // malformed length
			}
			return
		}
		switch r.Intn(4) {
		case 0:
			return
		case 1:
			v.Set(reflect.MakeSlice(v.Type(), 0, 0))
			return
		}
		n := 1 + r.Intn(4)
		if r.Intn(12) == 0 {
			n = 100
		}
		s := reflect.MakeSlice(v.Type(), n, n)
		for i := 0; i < n; i++ {
			g.fill(s.Index(i), depth+1)
		}
		v.Set(s)
	case reflect.Ptr:
		if r.Intn(3) == 0 {
			return
		}
		p := reflect.New(v.Type().Elem())
		g.fill(p.Elem(), depth+1)
		v.Set(p)
	case reflect.Struct:
		for i := 0; i < v.NumField(); i++ {
			if v.Field(i).CanSet() && r.Intn(5) != 0 { // leave ~20% of the fields at zero
				g.fill(v.Field(i), depth+1)
			}
		}
	}
}

var protos = []any{&msg.Login{}, &msg.LoginResp{}, &msg.NewProxy{}, &msg.NewProxyResp{}, &msg.CloseProxy{}, &msg.NewWorkConn{}, &msg.ReqWorkConn{}, &msg.StartWorkConn{},
	&msg.NewVisitorConn{}, &msg.NewVisitorConnResp{}, &msg.Ping{}, &msg.Pong{}, &msg.UDPPacket{}, &msg.NatHoleVisitor{}, &msg.NatHoleClient{}, &msg.NatHoleResp{}, &msg.NatHoleSid{}, &msg.NatHoleReport{}}

func (g *gen) message() any {
	p := protos[g.r.Intn(len(protos))]
	v := reflect.New(reflect.TypeOf(p).Elem())
	g.fill(v.Elem(), 0)
	return v.Interface()
}

func (g *gen) messageOf(p any) any {
	v := reflect.New(reflect.TypeOf(p).Elem())
	g.fill(v.Elem(), 0)
	return v.Interface()
}

// ---------------------------------------------------------------------------------------------
// per-batch message log (written before sending)

type mlog struct {
	mu   sync.Mutex
	f    *os.File
	last []string
	n    atomic.Int64
}

func newMlog(path string) *mlog {
	f, _ := os.Create(path)
	return &mlog{f: f}
}

func (l *mlog) add(ctx string, m any) {
	b, _ := json.Marshal(m)
	line := fmt.Sprintf("%s %T %s", ctx, m, b)
	if len(line) > 1500 {
		line = line[:1500] + "..."
	}
	l.mu.Lock()
	if l.f != nil {
		fmt.Fprintln(l.f, line)
	}
	l.last = append(l.last, line)
	if len(l.last) > 60 {
		l.last = l.last[1:]
	}
	l.n.Add(1)
	l.mu.Unlock()
	run.Distinct(line)
}

func (l *mlog) tail() []string {
	l.mu.Lock()
	defer l.mu.Unlock()
	return append([]string(nil), l.last...)
}
func (l *mlog) close() { l.mu.Lock(); l.f.Close(); l.f = nil; l.mu.Unlock() }

// ---------------------------------------------------------------------------------------------
// frps batches

type batch struct {
	c        *h.Case
	child    *h.Child
	log      *mlog
	bind     int
	http     int
	mux      int
	dash     int
	stalled  atomic.Bool // a session stall was reported: stop probing (every probe would wait out its watchdog)
	lo, hi   int
	pfx      string
	perActor int
}

func (b *batch) dead() bool { return b.child.Exited() || b.stalled.Load() }

func (b *batch) dial(o h.PeerOpts) (*h.Peer, error) {
	o.ServerPort, o.TCPMux = b.bind, true
	if o.Token == "" {
		o.Token = token
	}
	return h.DialPeer(o)
}

var slots = func() chan int {
	ch := make(chan int, 3)
	for i := 0; i < 3; i++ {
		ch <- i
	}
	return ch
}()

func serverBatch(c *h.Case) {
	slot := <-slots // concurrent batches own disjoint port ranges
	defer func() { slots <- slot }()
	pa := h.PortsSub(prop, slot, 4)
	ps := pa.Block(4)
	lo := 26000 + slot*250 + 60
	hi := lo + 150
	b := &batch{c: c, bind: ps[0], http: ps[1], mux: ps[2], dash: ps[3], lo: lo, hi: hi, pfx: fmt.Sprintf("b%d.", c.Idx), perActor: run.N(2500, 9000)}
	vhostLines := fmt.Sprintf("vhostHTTPPort = %d\ntcpmuxHTTPConnectPort = %d", b.http, b.mux)
	if c.Idx%2 == 1 {
		// a server without vhost http / tcpmux listeners: registrations that need them must be refused, not crash
		vhostLines = ""
	}
	c.Data["vhost_listeners"] = vhostLines != ""
	cfg := fmt.Sprintf(`
bindAddr = "127.0.0.1"
bindPort = %d
%s
auth.token = "%s"
userConnTimeout = 2
maxPortsPerClient = 8
subDomainHost = "sub.test"
webServer.addr = "127.0.0.1"
webServer.port = %d
allowPorts = [{start=%d,end=%d}]
`, b.bind, vhostLines, token, b.dash, lo, hi)
	child, err := h.StartChild(prop, "frps", cfg, fmt.Sprintf("VNODE_PERTURB=%d", c.Rng.Int63()))
	if err != nil {
		if child != nil {
			if line, frame, ok := child.Crash(); ok {
				c.Violation("frps-crash:"+frame, "frps died at start: %s", line)
				return
			}
		}
		run.Inconclusive("child frps did not start")
		return
	}
	b.child = child
	defer child.Kill()
	b.log = newMlog(filepath.Join(h.RunDir(prop), fmt.Sprintf("batch-%d-msgs.log", c.Idx)))
	defer b.log.close()
	c.Data["msg_log"] = filepath.Join(h.RunDir(prop), fmt.Sprintf("batch-%d-msgs.log", c.Idx))

	// honest session opened before the barrage
	honestPort := lo
	honest, err := b.dial(h.PeerOpts{AutoWork: true, WorkHandler: h.IdentBackend("HONEST", token, false, false, nil)})
	if err != nil || !honest.LoggedIn() {
		run.Inconclusive("honest login failed")
		return
	}
	defer honest.Close()
	if r, err := honest.NewProxy(&msg.NewProxy{ProxyName: b.pfx + "honest", ProxyType: "tcp", RemotePort: honestPort}, 15*time.Second); err != nil || r.Error != "" {
		run.Inconclusive("honest registration failed")
		return
	}
	var honestFail atomic.Value
	stop := make(chan struct{})
	var hw sync.WaitGroup
	hw.Add(1)
	go func() {
		defer hw.Done()
		for {
			select {
			case <-stop:
				return
			default:
			}
			id, err := h.AskIdent(fmt.Sprintf("127.0.0.1:%d", honestPort), 30*time.Second)
			if b.dead() {
				return
			}
			if err != nil || id != "HONEST|"+b.pfx+"honest" {
				honestFail.Store(fmt.Sprintf("honest tunnel answered %q err %v during the barrage", id, err))
				return
			}
			run.Count("honest_exchanges", 1)
			time.Sleep(30 * time.Millisecond)
		}
	}()

	var wg sync.WaitGroup
	actor := func(name string, i int, fn func(g *gen, n int)) {
		wg.Add(1)
		go func() {
			defer wg.Done()
			g := &gen{r: run.RandFor(fmt.Sprintf("actor-%s-%d", name, i), c.Idx), pfx: b.pfx}
			fn(g, b.perActor)
		}()
	}
	for i := 0; i < 4; i++ {
		actor("unauth", i, b.unauthFuzzer)
	}
	for i := 0; i < 3; i++ {
		actor("auth", i, b.authFuzzer)
	}
	actor("groups", 0, b.groupChurn)
	actor("visitors", 0, b.visitorChurn)
	actor("nathole", 0, b.natholeChurn)
	actor("nathole", 1, b.natholeChurn)
	actor("quota", 0, b.quotaActor)
	actor("registrations", 0, b.registrationVariants)
	actor("traffic", 0, func(g *gen, n int) { b.trafficActor(g, n, honestPort) })
	actor("dashboard", 0, b.dashboardActor)
	actor("backlog", 0, b.backlogActor)
	wg.Wait()
	close(stop)
	hw.Wait()
	run.Count("messages_sent_to_frps", b.log.n.Load())

	// verdicts
	time.Sleep(200 * time.Millisecond)
	if child.Exited() {
		line, frame, ok := child.Crash()
		if !ok {
			line, frame = "child exited without panic text", "unknown"
		}
		c.Data["last_messages"] = b.log.tail()
		c.Data["stderr_tail"] = tailStr(child.Stderr(), 6000)
		c.Violation("frps-crash:"+frame, "frps terminated abnormally: %s (innermost frp frame %s); the last messages sent are in the replay file", line, frame)
		return
	}
	if v := honestFail.Load(); v != nil {
		c.Data["last_messages"] = b.log.tail()
		c.Violation("frps-honest-session-disturbed", "%v", v)
	}
	if _, err := honest.Ping(30 * time.Second); err != nil {
		c.Data["last_messages"] = b.log.tail()
		c.Violation("frps-wedged-existing-session", "session opened before the barrage gets no Pong afterwards: %v", err)
	}
	if r, err := honest.NewProxy(&msg.NewProxy{ProxyName: b.pfx + "honest2", ProxyType: "stcp", Sk: "k"}, 30*time.Second); err != nil || r.Error != "" {
		c.Violation("frps-wedged-existing-session", "session opened before the barrage cannot register a proxy afterwards: %v %+v", err, r)
	}
	fresh, err := b.dial(h.PeerOpts{AutoWork: true, WorkHandler: h.IdentBackend("FRESH", token, false, false, nil)})
	if err != nil || !fresh.LoggedIn() {
		c.Violation("frps-wedged-new-login", "fresh login after the barrage fails: %v", err)
	} else {
		defer fresh.Close()
		ok := false
		var lastErr string
		for p := hi; p > hi-20 && !ok; p-- {
			r, err := fresh.NewProxy(&msg.NewProxy{ProxyName: b.pfx + "fresh", ProxyType: "tcp", RemotePort: p}, 30*time.Second)
			if err != nil {
				lastErr = err.Error()
				break
			}
			if r.Error != "" {
				lastErr = r.Error
				continue
			}
			id, err := h.AskIdent(fmt.Sprintf("127.0.0.1:%d", p), 30*time.Second)
			if err == nil && id == "FRESH|"+b.pfx+"fresh" {
				ok = true
			} else {
				lastErr = fmt.Sprintf("echo through fresh tunnel: %q %v", id, err)
				break
			}
		}
		if !ok {
			c.Violation("frps-wedged-new-registration", "fresh login + registration + echo after the barrage fails: %s", lastErr)
		}
	}
	// group registrations still work (a lock-order slip between a join and a last leave wedges one group kind for
	// every session while everything else keeps working)
	if fresh != nil && fresh.LoggedIn() && vhostLines != "" {
		for _, m := range []*msg.NewProxy{
			{ProxyName: b.pfx + "pg-tcp", ProxyType: "tcp", RemotePort: hi - 45, Group: b.pfx + "pg1", GroupKey: "k"},
			{ProxyName: b.pfx + "pg-http", ProxyType: "http", CustomDomains: []string{b.pfx + "pg.test"}, Group: b.pfx + "pg2", GroupKey: "k"},
			{ProxyName: b.pfx + "pg-mux", ProxyType: "tcpmux", Multiplexer: "httpconnect", CustomDomains: []string{b.pfx + "pg.mux.test"}, Group: b.pfx + "pg3", GroupKey: "k"},
		} {
			r, err := fresh.NewProxy(m, 30*time.Second)
			if err != nil {
				c.Data["last_messages"] = b.log.tail()
				c.Violation("frps-wedged-group-registration", "after the barrage a %s group registration (group %s) gets no reply within 30 s: %v", m.ProxyType, m.Group, err)
				continue
			}
			if r.Error == "" {
				_ = fresh.CloseProxy(m.ProxyName)
				if _, err := fresh.Ping(30 * time.Second); err != nil {
					c.Violation("frps-wedged-group-registration", "after the barrage the close of a %s group proxy wedges the session: no Pong within 30 s: %v", m.ProxyType, err)
					break
				}
			}
		}
	}
	judgeRaces(c, "frps", child)
	if c.Idx < 2 {
		run.Sample(map[string]any{"batch": "frps", "messages": b.log.n.Load(), "sample_messages": firstN(b.log.tail(), 5)})
	}
}

func firstN(s []string, n int) []string {
	if len(s) > n {
		return s[:n]
	}
	return s
}

func tailStr(s string, n int) string {
	if len(s) > n {
		return s[len(s)-n:]
	}
	return s
}

func judgeRaces(c *h.Case, who string, child *h.Child) {
	for _, r := range child.Races() {
		run.Count("race_reports_"+r.Class, int64(r.Count))
		if r.Class == "map" {
			c.Data["race_"+r.Key] = r.Text
			c.Violation("map-race:"+shortKey(r.Key), "%s: unsynchronised concurrent access to a map (production: fatal error: concurrent map read and map write): %v", who, r.Tops)
		}
	}
}

func shortKey(k string) string {
	k = strings.ReplaceAll(k, "github.com/fatedier/frp/", "")
	k = strings.ReplaceAll(k, "map|", "")
	k = strings.NewReplacer("(", "", ")", "", "*", "", "|", "~").Replace(k)
	return k
}

func (b *batch) unauthFuzzer(g *gen, n int) {
	var sess *h.Peer
	for i := 0; i < n && !b.dead(); i++ {
		if sess == nil || g.r.Intn(40) == 0 {
			if sess != nil {
				sess.Close()
			}
			p, err := b.dial(h.PeerOpts{SkipLogin: true})
			if err != nil {
				time.Sleep(20 * time.Millisecond)
				continue
			}
			sess = p
		}
		st, err := sess.NewStream()
		if err != nil {
			sess.Close()
			sess = nil
			continue
		}
		k := 1 + g.r.Intn(3)
		for j := 0; j < k; j++ {
			m := g.message()
			if j == 0 && g.r.Intn(3) == 0 {
				m = g.messageOf([]any{&msg.Login{}, &msg.NewWorkConn{}, &msg.NewVisitorConn{}}[g.r.Intn(3)])
			}
			b.log.add("unauth-first", m)
			if msg.WriteMsg(st, m) != nil {
				break
			}
			i++
		}
		if g.r.Intn(3) == 0 {
			_ = st.SetReadDeadline(time.Now().Add(20 * time.Millisecond))
			var buf [256]byte
			_, _ = st.Read(buf[:])
		}
		st.Close()
		run.Count("unauth_connections", 1)
	}
	if sess != nil {
		sess.Close()
	}
}

func (b *batch) authFuzzer(g *gen, n int) {
	for sent := 0; sent < n && !b.dead(); {
		// hostile login with a valid key
		lm := g.messageOf(&msg.Login{}).(*msg.Login)
		p, err := b.dial(h.PeerOpts{PoolCount: 0, MutateLogin: func(l *msg.Login) {
			ts, key := l.Timestamp, l.PrivilegeKey
			*l = *lm
			l.Timestamp, l.PrivilegeKey = ts, key
			l.ClientSpec = msg.ClientSpec{}
			if g.r.Intn(2) == 0 {
				l.RunID = "" // fresh session
			}
			b.log.add("auth-login", l)
		}})
		sent++
		if err != nil || p == nil {
			time.Sleep(10 * time.Millisecond)
			continue
		}
		if !p.LoggedIn() {
			p.Close()
			continue
		}
		run.Count("auth_sessions", 1)
		k := 20 + g.r.Intn(200)
		for j := 0; j < k && !p.Closed(); j++ {
			switch g.r.Intn(10) {
			case 0, 1, 2, 3: // hostile control message of any type
				m := g.message()
				if g.r.Intn(2) == 0 {
					m = g.messageOf([]any{&msg.NewProxy{}, &msg.NewProxy{}, &msg.CloseProxy{}, &msg.Ping{}, &msg.NatHoleVisitor{}, &msg.NatHoleClient{}, &msg.NatHoleReport{}}[g.r.Intn(7)])
				}
				if np, ok := m.(*msg.NewProxy); ok && g.r.Intn(2) == 0 {
					np.ProxyType = []string{"tcp", "udp", "http", "https", "stcp", "sudp", "xtcp", "tcpmux"}[g.r.Intn(8)]
					if g.r.Intn(2) == 0 {
						np.RemotePort = b.lo + 1 + g.r.Intn(b.hi-b.lo)
					}
					if np.ProxyType == "tcpmux" {
						np.Multiplexer = "httpconnect"
					}
				}
				b.log.add("auth-control", m)
				if p.Send(m) != nil {
					j = k
				}
			case 4, 5: // work connection offers
				m := g.messageOf(&msg.NewWorkConn{}).(*msg.NewWorkConn)
				if g.r.Intn(2) == 0 {
					m.RunID = p.RunID
				}
				b.log.add("auth-workconn", m)
				if wc, err := p.OpenWorkConnMsg(m); err == nil {
					if g.r.Intn(2) == 0 {
						j2 := g.message()
						b.log.add("auth-workconn-followup", j2)
						_ = msg.WriteMsg(wc.Conn, j2)
					}
					if g.r.Intn(2) == 0 {
						wc.Conn.Close()
					}
				}
			case 6, 7: // visitor connections
				m := g.messageOf(&msg.NewVisitorConn{}).(*msg.NewVisitorConn)
				if g.r.Intn(2) == 0 {
					m.RunID = p.RunID
				}
				b.log.add("auth-visitor", m)
				if conn, _, err := p.OpenVisitorConn(m, 2*time.Second); err == nil {
					conn.Close()
				}
			case 8: // user traffic against whatever is registered
				port := b.lo + 1 + g.r.Intn(b.hi-b.lo)
				if uc, err := net.DialTimeout("tcp", fmt.Sprintf("127.0.0.1:%d", port), 200*time.Millisecond); err == nil {
					_, _ = uc.Write([]byte("GET / HTTP/1.1\r\nHost: x\r\n\r\n"))
					uc.Close()
				}
				if hc, err := net.DialTimeout("tcp", fmt.Sprintf("127.0.0.1:%d", b.http), 200*time.Millisecond); err == nil {
					fmt.Fprintf(hc, "GET /%s HTTP/1.1\r\nHost: %s\r\nAuthorization: Basic %s\r\n\r\n", g.str(), hostileStrs[g.r.Intn(len(hostileStrs))], "eDp5")
					hc.Close()
				}
			default: // let the server answer
				_, _ = p.WaitMsg(5*time.Millisecond, func(msg.Message) bool { return true })
			}
			sent++
		}
		b.sessionLiveness(p, "authenticated fuzz session")
		if g.r.Intn(2) == 0 {
			p.CloseControlOnly()
			time.Sleep(time.Duration(g.r.Intn(3)) * time.Millisecond)
		}
		p.Close()
	}
}

// sessionLiveness: a session that the server has not closed must still have its messages handled
// (frps handles a session's NewProxy / CloseProxy / Ping in order on one goroutine: an unanswered Ping
// means that goroutine is stuck). Bounded-progress watchdog: 30 s.
func (b *batch) sessionLiveness(p *h.Peer, what string) {
	if p.Closed() || b.dead() {
		return
	}
	ts := time.Now().Unix()
	if p.Send(&msg.Ping{Timestamp: ts, PrivilegeKey: h.AuthKey(token, ts)}) != nil {
		return
	}
	_, err := p.WaitMsg(30*time.Second, func(m msg.Message) bool { _, ok := m.(*msg.Pong); return ok })
	run.Count("session_liveness_probes", 1)
	if err == h.ErrTimeout && !p.Closed() && !b.dead() {
		b.c.Data["last_messages"] = b.log.tail()
		b.stalled.Store(true)
		b.c.Violation("frps-session-message-handling-stalled", "%s: the control connection is open but a Ping sent after the session's other messages got no Pong within 30 s (the session's message handling is stuck)", what)
	}
}

// registrationVariants enumerates NewProxy messages over proxy type x multiplexer x group x endpoint fields
// with otherwise well-formed values (the random fuzzers rarely produce a registration that passes validation).
func (b *batch) registrationVariants(g *gen, n int) {
	types := []string{"tcp", "udp", "http", "https", "tcpmux", "stcp", "sudp", "xtcp", "", "TCP", "unknown"}
	muxes := []string{"", "httpconnect", "HTTPCONNECT", "other"}
	for round := 0; round < n/400+1 && !b.dead(); round++ {
		p, err := b.dial(h.PeerOpts{})
		if err != nil || !p.LoggedIn() {
			continue
		}
		k := 0
		for _, typ := range types {
			for _, mux := range muxes {
				for _, grp := range []string{"", b.pfx + "vg"} {
					for _, dom := range [][]string{nil, {fmt.Sprintf("v%d.%sreg.test", k, b.pfx)}} {
						k++
						m := &msg.NewProxy{ProxyName: fmt.Sprintf("%sv%d-%d", b.pfx, round, k), ProxyType: typ, Multiplexer: mux, Group: grp, GroupKey: "k", CustomDomains: dom, Sk: "k"}
						if g.r.Intn(3) == 0 {
							m.SubDomain = fmt.Sprintf("s%d", k)
						}
						if g.r.Intn(3) == 0 {
							m.RemotePort = b.lo + 1 + g.r.Intn(b.hi-b.lo)
						}
						b.log.add("registration-variant", m)
						if p.Send(m) != nil {
							break
						}
						if k%8 == 0 {
							_ = p.CloseProxy(m.ProxyName)
						}
					}
				}
			}
		}
		b.sessionLiveness(p, "session after the registration variants")
		p.Close()
		run.Count("registration_variant_sessions", 1)
	}
}

// quotaActor drives sessions over their port quota and then expects them to keep being served.
func (b *batch) quotaActor(g *gen, n int) {
	for i := 0; i < n/60 && !b.dead(); i++ {
		p, err := b.dial(h.PeerOpts{})
		if err != nil || !p.LoggedIn() {
			continue
		}
		refused := 0
		for k := 0; k < 14 && refused < 2; k++ {
			typ := []string{"tcp", "udp"}[g.r.Intn(2)]
			m := &msg.NewProxy{ProxyName: fmt.Sprintf("%sq%d-%d", b.pfx, i, k), ProxyType: typ, RemotePort: 0}
			b.log.add("quota-register", m)
			r, err := p.NewProxy(m, 30*time.Second)
			if err != nil {
				if err == h.ErrTimeout && !p.Closed() && !b.dead() {
					b.c.Data["last_messages"] = b.log.tail()
					b.stalled.Store(true)
					b.c.Violation("frps-session-message-handling-stalled", "quota session: registration %d after %d refusals got no reply within 30 s although the control connection is open", k, refused)
				}
				break
			}
			if r.Error != "" {
				refused++
			}
		}
		if g.r.Intn(2) == 0 {
			_ = p.CloseProxy(fmt.Sprintf("%sq%d-0", b.pfx, i))
		}
		b.sessionLiveness(p, fmt.Sprintf("session after %d refused over-quota registrations", refused))
		p.Close()
		run.Count("quota_sessions", 1)
	}
}

// trafficActor: bursts of simultaneous short user connections through the honest tunnel (traffic accounting).
func (b *batch) trafficActor(g *gen, n int, port int) {
	for i := 0; i < n/50 && !b.dead(); i++ {
		var wg sync.WaitGroup
		for j := 0; j < 24; j++ {
			wg.Add(1)
			go func() {
				defer wg.Done()
				_, _ = h.AskIdent(fmt.Sprintf("127.0.0.1:%d", port), 20*time.Second)
			}()
		}
		wg.Wait()
		run.Count("traffic_bursts", 1)
	}
}

// dashboardActor polls the dashboard API while everything else runs.
func (b *batch) dashboardActor(g *gen, n int) {
	paths := []string{"/api/serverinfo", "/api/proxy/tcp", "/api/proxy/udp", "/api/proxy/http", "/api/proxy/stcp", "/api/proxy/xtcp", "/api/traffic/" + b.pfx + "honest", "/api/proxy/tcp/" + b.pfx + "honest", "/metrics", "/api/proxy/" + hostileStrs[g.r.Intn(len(hostileStrs))]}
	for i := 0; i < n/4 && !b.dead(); i++ {
		path := paths[g.r.Intn(len(paths))]
		raw := fmt.Sprintf("GET %s HTTP/1.1\r\nHost: dash\r\nConnection: close\r\n\r\n", strings.ReplaceAll(path, " ", "%20"))
		_, _, _ = h.RawHTTP(fmt.Sprintf("127.0.0.1:%d", b.dash), []byte(raw), 10*time.Second)
		run.Count("dashboard_requests", 1)
	}
}

func (b *batch) groupChurn(g *gen, n int) {
	for i := 0; i < n/40 && !b.dead(); i++ {
		var peers []*h.Peer
		k := 2 + g.r.Intn(3)
		for j := 0; j < k; j++ {
			p, err := b.dial(h.PeerOpts{})
			if err != nil || !p.LoggedIn() {
				continue
			}
			peers = append(peers, p)
		}
		port := b.hi - 30 - g.r.Intn(10)
		gname := fmt.Sprintf("%sg%d", b.pfx, g.r.Intn(3))
		var wg sync.WaitGroup
		for j, p := range peers {
			wg.Add(1)
			go func(j int, p *h.Peer) {
				defer wg.Done()
				for r := 0; r < 9; r++ {
					name := fmt.Sprintf("%sgm%d-%d", b.pfx, i, j)
					var m *msg.NewProxy
					switch r % 3 {
					case 0:
						m = &msg.NewProxy{ProxyName: name, ProxyType: "tcp", RemotePort: port, Group: gname, GroupKey: "k"}
					case 1:
						m = &msg.NewProxy{ProxyName: name, ProxyType: "http", CustomDomains: []string{gname + ".test"}, Group: gname, GroupKey: "k"}
					default:
						m = &msg.NewProxy{ProxyName: name, ProxyType: "tcpmux", Multiplexer: "httpconnect", CustomDomains: []string{gname + ".mux.test"}, Group: gname, GroupKey: "k"}
					}
					b.log.add("group-join", m)
					_, _ = p.NewProxy(m, 10*time.Second)
					if uc, err := net.DialTimeout("tcp", fmt.Sprintf("127.0.0.1:%d", port), 100*time.Millisecond); err == nil {
						uc.Close()
					}
					_ = p.CloseProxy(name)
				}
			}(j, p)
		}
		wg.Wait()
		for _, p := range peers {
			p.Close()
		}
		run.Count("group_rounds", 1)
	}
}

func (b *batch) visitorChurn(g *gen, n int) {
	for i := 0; i < n/40 && !b.dead(); i++ {
		owner, err := b.dial(h.PeerOpts{AutoWork: true, WorkHandler: h.IdentBackend("V", token, false, false, nil)})
		if err != nil || !owner.LoggedIn() {
			continue
		}
		name := fmt.Sprintf("%sst%d", b.pfx, g.r.Intn(3))
		typ := []string{"stcp", "sudp"}[g.r.Intn(2)]
		m := &msg.NewProxy{ProxyName: name, ProxyType: typ, Sk: "k", AllowUsers: []string{"*"}}
		b.log.add("visitor-owner", m)
		_, _ = owner.NewProxy(m, 10*time.Second)
		var wg sync.WaitGroup
		for j := 0; j < 4; j++ {
			wg.Add(1)
			go func() {
				defer wg.Done()
				for r := 0; r < 5; r++ {
					ts := time.Now().Unix()
					vm := &msg.NewVisitorConn{RunID: owner.RunID, ProxyName: name, Timestamp: ts, SignKey: h.AuthKey("k", ts)}
					if conn, resp, err := owner.OpenVisitorConn(vm, 5*time.Second); err == nil {
						if resp.Error == "" && typ == "stcp" {
							_, _ = h.AskIdentOn(conn, 3*time.Second)
						}
						conn.Close()
					}
				}
			}()
		}
		if g.r.Intn(2) == 0 {
			time.Sleep(time.Duration(g.r.Intn(5)) * time.Millisecond)
			_ = owner.CloseProxy(name)
		}
		wg.Wait()
		owner.Close()
		run.Count("visitor_rounds", 1)
	}
}

func (b *batch) natholeChurn(g *gen, n int) {
	var gmu sync.Mutex // the actor's generator is shared with the work-connection handlers of its owners
	for i := 0; i < n/30 && !b.dead(); i++ {
		gmu.Lock()
		name := fmt.Sprintf("%sx%d", b.pfx, g.r.Intn(3))
		gmu.Unlock()
		// frps hands the session id of an admitted request to the owner on a work connection: the owner answers
		// every one with a NatHoleClient whose fields come from the hostile pools (no / one / many mapped
		// addresses, malformed and out-of-range ones) — sometimes with a plausible one
		owner, err := b.dial(h.PeerOpts{AutoWork: true, WorkHandler: func(p *h.Peer, wc *h.WorkConn) {
			defer wc.Conn.Close()
			_ = wc.Conn.SetReadDeadline(time.Now().Add(5 * time.Second))
			var sm msg.NatHoleSid
			if err := msg.ReadMsgInto(wc.Conn, &sm); err != nil {
				return
			}
			gmu.Lock()
			cm := g.messageOf(&msg.NatHoleClient{}).(*msg.NatHoleClient)
			switch g.r.Intn(4) {
			case 0:
				cm.MappedAddrs = []string{"198.51.100.7:40001"}
			case 1:
				cm.MappedAddrs = []string{"198.51.100.7:40001", "198.51.100.7:40002"}
				cm.AssistedAddrs = []string{"10.0.0.2:5000"}
			}
			gmu.Unlock()
			cm.Sid, cm.ProxyName = sm.Sid, name
			gmu.Lock()
			when := g.r.Intn(4) // success / failure reports for the real session id, before or after the owner's answer
			gmu.Unlock()
			rep := &msg.NatHoleReport{Sid: sm.Sid, Success: when%2 == 0}
			if when < 2 {
				b.log.add("nathole-report", rep)
				_ = p.Send(rep)
			}
			b.log.add("nathole-client", cm)
			_ = p.Send(cm)
			if when >= 2 {
				b.log.add("nathole-report", rep)
				_ = p.Send(rep)
			}
			run.Count("nathole_sids_answered", 1)
		}})
		if err != nil || !owner.LoggedIn() {
			continue
		}
		visitor, err := b.dial(h.PeerOpts{})
		if err != nil || !visitor.LoggedIn() {
			owner.Close()
			continue
		}
		var wg sync.WaitGroup
		wg.Add(2)
		go func() { // xtcp proxies register and close
			defer wg.Done()
			for r := 0; r < 10; r++ {
				m := &msg.NewProxy{ProxyName: name, ProxyType: "xtcp", Sk: "k", AllowUsers: []string{"*"}}
				_, _ = owner.NewProxy(m, 10*time.Second)
				gmu.Lock()
				up := g.r.Intn(30)
				gmu.Unlock()
				time.Sleep(time.Duration(up) * time.Millisecond) // leave the registration up for some requests
				_ = owner.CloseProxy(name)
			}
		}()
		go func() { // pre-check and session requests hammered meanwhile
			defer wg.Done()
			for r := 0; r < 40; r++ {
				ts := time.Now().Unix()
				gmu.Lock()
				vm := g.messageOf(&msg.NatHoleVisitor{}).(*msg.NatHoleVisitor)
				vm.ProxyName = name
				vm.PreCheck = r%2 == 0
				if g.r.Intn(3) > 0 {
					vm.Timestamp, vm.SignKey = ts, h.AuthKey("k", ts)
				}
				if g.r.Intn(2) == 0 { // a plausible observation, so that admitted requests reach the analysis
					vm.MappedAddrs = []string{"203.0.113.9:41001", "203.0.113.9:41002"}
				}
				var rep any
				if g.r.Intn(4) == 0 {
					rep = g.messageOf(&msg.NatHoleReport{})
				}
				gmu.Unlock()
				b.log.add("nathole-visitor", vm)
				if visitor.Send(vm) != nil {
					return
				}
				if rep != nil {
					b.log.add("nathole-report", rep)
					_ = visitor.Send(rep.(msg.Message))
				}
			}
		}()
		wg.Wait()
		owner.Close()
		visitor.Close()
		run.Count("nathole_rounds", 1)
	}
}

// ---------------------------------------------------------------------------------------------
// frpc batches: a real frpc against a malicious scripted server

func clientBatch(c *h.Case) {
	pa := h.PortsSub(prop, 3, 4)
	ps := pa.Block(6)
	port := ps[0]
	var malicious atomic.Bool
	malicious.Store(true)
	lg := newMlog(filepath.Join(h.RunDir(prop), fmt.Sprintf("batch-%d-msgs.log", c.Idx)))
	defer lg.close()
	g := &gen{r: run.RandFor("malicious-server", c.Idx), pfx: "m."}
	var gmu sync.Mutex
	next := func(p any) any {
		gmu.Lock()
		defer gmu.Unlock()
		if p == nil {
			return g.message()
		}
		return g.messageOf(p)
	}
	rnd := func(n int) int { gmu.Lock(); defer gmu.Unlock(); return g.r.Intn(n) }
	var benignRegs sync.Map
	fs, err := h.StartFakeServer(h.FakeServerOpts{Port: port, Token: token, TCPMux: true,
		OnLogin: func(fs *h.FakeServer, l *msg.Login) (*msg.LoginResp, bool) {
			if !malicious.Load() {
				return nil, true
			}
			switch rnd(5) {
			case 0:
				r := next(&msg.LoginResp{}).(*msg.LoginResp)
				lg.add("fake-loginresp", r)
				return r, true
			case 1:
				return nil, false // silence
			default:
				return nil, true
			}
		},
		OnSession: func(s *h.FakeSession) {
			if !malicious.Load() {
				// benign: answer registrations and pings
				for {
					m, err := s.Box.Wait(60*time.Second, func(msg.Message) bool { return true })
					if err != nil {
						return
					}
					switch v := m.(type) {
					case *msg.NewProxy:
						benignRegs.Store(v.ProxyName, true)
						_ = s.Send(&msg.NewProxyResp{ProxyName: v.ProxyName, RemoteAddr: ":1"})
					case *msg.Ping:
						_ = s.Send(&msg.Pong{})
					}
				}
			}
			k := 200 + rnd(600)
			for i := 0; i < k; i++ {
				var m any
				switch rnd(6) {
				case 0:
					m = next(nil)
				case 1:
					m = next(&msg.NewProxyResp{})
				case 2:
					m = &msg.ReqWorkConn{}
				case 3:
					m = next(&msg.NatHoleResp{})
				case 4:
					m = next(&msg.NatHoleSid{})
				default:
					// answer a pending registration with a hostile reply that names a real proxy
					if rm, err := s.Box.Wait(2*time.Millisecond, func(x msg.Message) bool { _, ok := x.(*msg.NewProxy); return ok }); err == nil {
						r := next(&msg.NewProxyResp{}).(*msg.NewProxyResp)
						r.ProxyName = rm.(*msg.NewProxy).ProxyName
						if rnd(2) == 0 {
							r.Error = ""
						}
						m = r
					} else {
						m = next(&msg.Pong{})
					}
				}
				lg.add("fake-control", m)
				if s.Send(m) != nil {
					return
				}
				if rnd(8) == 0 {
					time.Sleep(time.Duration(rnd(5)) * time.Millisecond)
				}
			}
			if rnd(2) == 0 {
				s.Close()
			}
		},
		OnWorkConn: func(fs *h.FakeServer, conn net.Conn, m *msg.NewWorkConn) {
			defer conn.Close()
			if !malicious.Load() {
				return
			}
			k := 1 + rnd(3)
			for i := 0; i < k; i++ {
				var x any = next(&msg.StartWorkConn{})
				if rnd(2) == 0 {
					sw := x.(*msg.StartWorkConn)
					sw.ProxyName = []string{"p-tcp", "p-udp", "p-stcp", "p-xtcp", "p-sudp", "p-http"}[rnd(6)]
					sw.Error = ""
				}
				if rnd(4) == 0 {
					x = next(nil)
				}
				lg.add("fake-workconn", x)
				if msg.WriteMsg(conn, x) != nil {
					return
				}
			}
			// then udp packets / garbage as payload
			for i := 0; i < rnd(4); i++ {
				x := next(&msg.UDPPacket{})
				lg.add("fake-workconn-payload", x)
				_ = msg.WriteMsg(conn, x)
			}
			_, _ = conn.Write([]byte("\x00\x01garbage after start\r\n\r\n"))
			time.Sleep(time.Duration(rnd(20)) * time.Millisecond)
		},
		OnVisitor: func(fs *h.FakeServer, conn net.Conn, m *msg.NewVisitorConn) {
			defer conn.Close()
			if !malicious.Load() {
				return
			}
			x := next(&msg.NewVisitorConnResp{})
			lg.add("fake-visitor-resp", x)
			_ = msg.WriteMsg(conn, x)
			_, _ = conn.Write([]byte("junk junk junk"))
		},
	})
	if err != nil {
		run.Inconclusive("fake server did not start: " + err.Error())
		return
	}
	defer fs.Close()
	names := []string{"p-tcp", "p-udp", "p-stcp", "p-xtcp", "p-sudp", "p-http"}
	cfg := fmt.Sprintf(`
serverAddr = "127.0.0.1"
serverPort = %d
auth.token = "%s"
loginFailExit = false
transport.tls.enable = false
transport.poolCount = 2
transport.heartbeatInterval = 1
transport.heartbeatTimeout = 5
natHoleStunServer = "127.0.0.1:%d"
[[proxies]]
name = "p-tcp"
type = "tcp"
localIP = "127.0.0.1"
localPort = %d
remotePort = 6000
[[proxies]]
name = "p-udp"
type = "udp"
localIP = "127.0.0.1"
localPort = %d
remotePort = 6001
[[proxies]]
name = "p-stcp"
type = "stcp"
secretKey = "k"
localIP = "127.0.0.1"
localPort = %d
[[proxies]]
name = "p-xtcp"
type = "xtcp"
secretKey = "k"
localIP = "127.0.0.1"
localPort = %d
[[proxies]]
name = "p-sudp"
type = "sudp"
secretKey = "k"
localIP = "127.0.0.1"
localPort = %d
[[proxies]]
name = "p-http"
type = "http"
customDomains = ["m.test"]
localIP = "127.0.0.1"
localPort = %d
[[visitors]]
name = "v-stcp"
type = "stcp"
serverName = "p-stcp"
secretKey = "k"
bindAddr = "127.0.0.1"
bindPort = %d
[[visitors]]
name = "v-xtcp"
type = "xtcp"
serverName = "p-xtcp"
secretKey = "k"
bindAddr = "127.0.0.1"
bindPort = %d
keepTunnelOpen = true
`, port, token, ps[1], ps[1], ps[1], ps[1], ps[1], ps[1], ps[1], ps[2], ps[3])
	if c.Idx%2 == 1 {
		// many proxies: more registrations than the control channel's send buffer holds
		var sb strings.Builder
		for i := 0; i < 150; i++ {
			n := fmt.Sprintf("bulk-%03d", i)
			names = append(names, n)
			fmt.Fprintf(&sb, "[[proxies]]\nname = \"%s\"\ntype = \"stcp\"\nsecretKey = \"k\"\nlocalIP = \"127.0.0.1\"\nlocalPort = %d\n", n, ps[1])
		}
		cfg += sb.String()
	}
	c.Data["proxies"] = len(names)
	child, err := h.StartChild(prop, "frpc", cfg, fmt.Sprintf("VNODE_PERTURB=%d", c.Rng.Int63()))
	if err != nil {
		if child != nil {
			if line, frame, ok := child.Crash(); ok {
				c.Violation("frpc-crash:"+frame, "frpc died at start: %s", line)
				return
			}
		}
		run.Inconclusive("child frpc did not start")
		return
	}
	defer child.Kill()
	// user traffic into the visitors while the server misbehaves
	stop := make(chan struct{})
	go func() {
		for {
			select {
			case <-stop:
				return
			default:
			}
			for _, p := range []int{ps[2], ps[3]} {
				if uc, err := net.DialTimeout("tcp", fmt.Sprintf("127.0.0.1:%d", p), 100*time.Millisecond); err == nil {
					_, _ = uc.Write([]byte("hello"))
					uc.Close()
				}
			}
			time.Sleep(20 * time.Millisecond)
		}
	}()
	// malicious phase: a fixed number of hostile sessions (not a time budget), each cut after a while
	rounds := run.N(5, 9)
	for i := 0; i < rounds && !child.Exited(); i++ {
		before := fs.Logins.Load()
		h.Eventually(25*time.Second, func() bool { return fs.Logins.Load() > before || child.Exited() })
		time.Sleep(time.Duration(100+rnd(600)) * time.Millisecond)
		fs.CutAll()
	}
	close(stop)
	run.Count("messages_sent_to_frpc", lg.n.Load())
	run.Count("frpc_logins_seen", fs.Logins.Load())
	if child.Exited() {
		line, frame, ok := child.Crash()
		if !ok {
			line, frame = "child exited without panic text: "+tailStr(child.Stderr(), 300), "unknown"
		}
		c.Data["last_messages"] = lg.tail()
		c.Data["stderr_tail"] = tailStr(child.Stderr(), 6000)
		c.Violation("frpc-crash:"+frame, "frpc terminated abnormally: %s (innermost frp frame %s)", line, frame)
		return
	}
	// benign phase: frpc must log in again and register every configured proxy (bounded-progress watchdog)
	malicious.Store(false)
	fs.CutAll()
	ok := h.Eventually(90*time.Second, func() bool {
		if child.Exited() {
			return true
		}
		for _, n := range names {
			if _, ok := benignRegs.Load(n); !ok {
				return false
			}
		}
		return true
	})
	if child.Exited() {
		line, frame, _ := child.Crash()
		c.Data["stderr_tail"] = tailStr(child.Stderr(), 6000)
		c.Violation("frpc-crash:"+frame, "frpc terminated abnormally: %s", line)
		return
	}
	if !ok {
		var missing []string
		for _, n := range names {
			if _, ok := benignRegs.Load(n); !ok {
				missing = append(missing, n)
			}
		}
		child.DumpGoroutines()
		c.Data["goroutines"] = tailStr(child.Stderr(), 20000)
		c.Data["last_messages"] = lg.tail()
		if len(missing) > 8 {
			missing = append(missing[:8], fmt.Sprintf("... %d in total", len(missing)))
		}
		c.Violation("frpc-wedged-after-connection-loss", "%d configured proxies: 90 s after the server became benign frpc has not re-registered %v (logins seen %d)", len(names), missing, fs.Logins.Load())
		return
	}
	run.Count("frpc_recovered_after_malicious_server", 1)
	judgeRaces(c, "frpc", child)
	run.Sample(map[string]any{"batch": "frpc", "messages": lg.n.Load(), "logins": fs.Logins.Load(), "sample_messages": firstN(lg.tail(), 5)})
}

// ---------------------------------------------------------------------------------------------
// frpc stopped in the instant after a successful login (operator's SIGTERM racing with the login path)

func clientCancelCase(c *h.Case) {
	port := h.PortsSub(prop, 3, 4).Get()
	logged := make(chan struct{}, 4)
	fs, err := h.StartFakeServer(h.FakeServerOpts{Port: port, Token: token, TCPMux: true,
		OnSession: func(s *h.FakeSession) { logged <- struct{}{} }})
	for try := 0; err != nil && try < 3; try++ { // the port was free a moment ago; take another one
		port = h.PortsSub(prop, 3, 4).Get()
		fs, err = h.StartFakeServer(h.FakeServerOpts{Port: port, Token: token, TCPMux: true,
			OnSession: func(s *h.FakeSession) { logged <- struct{}{} }})
	}
	if err != nil {
		run.Inconclusive("fake server did not start: " + err.Error())
		return
	}
	defer fs.Close()
	cfg := fmt.Sprintf("serverAddr = \"127.0.0.1\"\nserverPort = %d\nauth.token = \"%s\"\nloginFailExit = false\ntransport.tls.enable = false\n[[proxies]]\nname = \"p\"\ntype = \"stcp\"\nsecretKey = \"k\"\nlocalIP = \"127.0.0.1\"\nlocalPort = 9\n", port, token)
	// widen the window between "login done" and "controller keeper started" with a delay at the hook point
	delay := []int{0, 100, 300, 600}[c.Idx%4]
	child, err := h.StartChild(prop, "frpc", cfg, fmt.Sprintf("VNODE_DELAY_AT=client.keepControllerWorking.enter:%d", delay))
	if err != nil {
		run.Inconclusive("child frpc did not start")
		return
	}
	defer child.Kill()
	select {
	case <-logged:
	case <-time.After(30 * time.Second):
		run.Inconclusive("frpc did not log in")
		return
	}
	time.Sleep(time.Duration(c.Rng.Intn(40)) * time.Millisecond)
	child.Term(20 * time.Second) // SIGTERM = the operator stops the client
	run.Count("frpc_stopped_right_after_login", 1)
	if line, frame, ok := child.Crash(); ok {
		c.Data["stderr_tail"] = tailStr(child.Stderr(), 6000)
		c.Violation("frpc-crash:"+frame, "frpc stopped right after a successful login (delay %d ms at keepControllerWorking) terminated abnormally: %s", delay, line)
	}
	run.Distinct(fmt.Sprintf("cancel-after-login|%d|%d", delay, c.Idx))
}

// ---------------------------------------------------------------------------------------------
// login-window cases: the peer vanishes while frps is between accepting its Login and answering it. Whatever frps
// does with the half-made session, the run id must stay usable: the client's next login carries the same run id
// (frpc re-sends it on every reconnect) and has to be answered. A stall here is permanent and hits exactly the
// clients that lost a connection at the wrong moment.

func loginWindowCase(c *h.Case) {
	mux := c.Idx%2 == 0
	ps := h.PortsSub(prop, 3, 4)
	bind := ps.Get()
	cfg := fmt.Sprintf("bindAddr = \"127.0.0.1\"\nbindPort = %d\nauth.token = \"%s\"\ntransport.tcpMux = %v\n", bind, token, mux)
	delay := []int{40, 40, 120, 15}[(c.Idx/2)%4]
	child, err := h.StartChild(prop, "frps", cfg, fmt.Sprintf("VNODE_DELAY_AT=server.registerControl.beforeStart:%d", delay))
	if err != nil {
		run.Inconclusive("child frps did not start")
		return
	}
	defer child.Kill()
	c.Data["tcp_mux"], c.Data["delay_ms"] = mux, delay
	dial := func(o h.PeerOpts) (*h.Peer, error) {
		o.ServerPort, o.TCPMux, o.Token = bind, mux, token
		return h.DialPeer(o)
	}
	n := 12
	for i := 0; i < n; i++ {
		rid := fmt.Sprintf("lw%d-%d", c.Idx, i)
		raw, err := dial(h.PeerOpts{SkipLogin: true})
		if err != nil {
			if child.Exited() {
				break
			}
			run.Inconclusive("login-window: transport dial failed")
			return
		}
		ts := time.Now().Unix()
		_ = msg.WriteMsg(raw.Ctl, &msg.Login{Version: "0.62.1", RunID: rid, Timestamp: ts, PrivilegeKey: h.AuthKey(token, ts), PoolCount: c.Rng.Intn(3)})
		// the peer is gone before the answer can be written (frps sits in the widened window)
		time.Sleep(time.Duration(c.Rng.Intn(delay)) * time.Millisecond / 2)
		raw.Close()
		run.Count("logins_cut_in_login_window", 1)
		time.Sleep(time.Duration(delay+20+c.Rng.Intn(60)) * time.Millisecond)
		type res struct {
			p   *h.Peer
			err error
		}
		ch := make(chan res, 1)
		go func() { p, err := dial(h.PeerOpts{RunID: rid}); ch <- res{p, err} }()
		select {
		case r := <-ch:
			if r.err != nil || !r.p.LoggedIn() {
				if r.p != nil {
					r.p.Close()
				}
				if child.Exited() {
					break
				}
				c.Violation("frps-relogin-refused-after-login-window-cut", "tcpMux=%v: a login with run id %s was cut before it was answered; the re-login with the same run id failed: %v", mux, rid, r.err)
				return
			}
			if _, err := r.p.Ping(20 * time.Second); err != nil {
				c.Violation("frps-wedged-relogin-after-login-window-cut", "tcpMux=%v: re-login with run id %s was acknowledged but the session gets no Pong: %v", mux, rid, err)
			}
			r.p.Close()
			run.Count("relogins_after_login_window_cut", 1)
		case <-time.After(30 * time.Second):
			// positive control: does frps answer a login with a fresh run id?
			fresh, ferr := dial(h.PeerOpts{})
			freshOK := ferr == nil && fresh.LoggedIn()
			if fresh != nil {
				fresh.Close()
			}
			c.Data["stderr_tail"] = tailStr(child.Stderr(), 4000)
			c.Violation("frps-wedged-relogin-after-login-window-cut", "tcpMux=%v, %d ms window: a login with run id %s was cut before it was answered; the client's re-login with the same run id got no LoginResp within 30 s (a login with a fresh run id answered: %v) — every reconnect of that client hangs from now on", mux, delay, rid, freshOK)
			return
		}
	}
	if child.Exited() {
		line, frame, ok := child.Crash()
		if !ok {
			line, frame = "child exited without panic text", "unknown"
		}
		c.Data["stderr_tail"] = tailStr(child.Stderr(), 6000)
		c.Violation("frps-crash:"+frame, "frps terminated abnormally during login-window cuts: %s", line)
		return
	}
	judgeRaces(c, "frps", child)
	run.Distinct(fmt.Sprintf("login-window|%v|%d|%d", mux, delay, c.Idx))
}

// backlogActor: a logged-in peer sends requests that are all answered from the session's read loop (pings, refused
// registrations) and never reads an answer, until its own writes stall or a cap is reached, then drops the connection.
// Whatever frps does with the unwritable answers, the session has to be torn down: the client's re-login with the
// same run id (what frpc does on every reconnect) must be answered.
func (b *batch) backlogActor(g *gen, n int) {
	for round := 0; round < 2 && !b.dead(); round++ {
		raw, err := b.dial(h.PeerOpts{SkipLogin: true})
		if err != nil {
			continue
		}
		rid := fmt.Sprintf("%sbacklog%d", b.pfx, round)
		ts := time.Now().Unix()
		if err := msg.WriteMsg(raw.Ctl, &msg.Login{Version: "0.62.1", RunID: rid, Timestamp: ts, PrivilegeKey: h.AuthKey(token, ts), PoolCount: 1}); err != nil {
			raw.Close()
			continue
		}
		var lr msg.LoginResp
		_ = raw.Ctl.SetReadDeadline(time.Now().Add(20 * time.Second))
		if err := msg.ReadMsgInto(raw.Ctl, &lr); err != nil || lr.Error != "" {
			raw.Close()
			continue
		}
		enc, err := netpkg.NewCryptoReadWriter(raw.Ctl, []byte(token))
		if err != nil {
			raw.Close()
			continue
		}
		long := strings.Repeat("n", 3000)
		sent := 0
		for ; sent < 6000; sent++ {
			_ = raw.Ctl.SetWriteDeadline(time.Now().Add(1200 * time.Millisecond))
			var m msg.Message = &msg.Ping{}
			if sent%2 == 0 {
				m = &msg.NewProxy{ProxyName: long, ProxyType: "no-such-type"} // refused with a long answer
			}
			if err := msg.WriteMsg(enc, m); err != nil {
				break // our writes stall: frps is no longer reading, its answers have nowhere to go
			}
		}
		raw.Close()
		run.Count("backlog_requests_unread", int64(sent))
		type res struct {
			p   *h.Peer
			err error
		}
		ch := make(chan res, 1)
		go func() { p, err := b.dial(h.PeerOpts{RunID: rid}); ch <- res{p, err} }()
		select {
		case r := <-ch:
			if r.p != nil {
				if r.err == nil && r.p.LoggedIn() {
					b.sessionLiveness(r.p, "re-login after an unread backlog")
				} else if !b.dead() {
					b.c.Data["last_messages"] = b.log.tail()
					b.c.Violation("frps-relogin-refused-after-unread-backlog", "a session sent %d requests without reading an answer and dropped its connection; the re-login with the same run id %s failed: %v", sent, rid, r.err)
				}
				r.p.Close()
			} else if !b.dead() {
				b.c.Violation("frps-relogin-refused-after-unread-backlog", "a session sent %d requests without reading an answer and dropped its connection; the re-login with the same run id %s failed: %v", sent, rid, r.err)
			}
		case <-time.After(45 * time.Second):
			if !b.dead() {
				b.c.Data["last_messages"] = b.log.tail()
				b.c.Violation("frps-wedged-relogin-after-unread-backlog", "a session sent %d requests without reading an answer and dropped its connection; its re-login with the same run id %s got no LoginResp within 45 s: the dead session is never torn down", sent, rid)
				b.stalled.Store(true)
			}
		}
	}
}
