package main

import (
	"fmt"
	"net"
	"strconv"
	"strings"
	"time"

	"github.com/fatedier/frp/pkg/msg"

	"verif/h"
)

// Visitors that cannot start: the harness holds the visitor's bindPort with its own listener while the
// configuration is loaded, so the visitor is configured but not running and is retried by the visitor
// manager's periodic check (client/visitor/visitor_manager.go: checkInterval = 10 s, a constant of the
// code). Reloads then (a) remove such a visitor, (b) move it to a free port, (c) leave it unchanged;
// afterwards the harness frees the ports.
//
//	(a) for longer than the retry interval nothing of this client may listen on the removed visitor's port;
//	(b) a listener of this client must appear on the new port, and never on the old one;
//	(c) the unchanged visitor must come up once its port is free (positive control).
//
// Whose socket listens on a port is decided by the socket's inode in /proc/net/tcp and by ownership
// (the process's own descriptors), not by connectability: the harness itself listens there for a while.

const (
	visitorRetryInterval = 10 * time.Second // checkInterval in client/visitor/visitor_manager.go
	visitorAbsenceWindow = visitorRetryInterval + 2500*time.Millisecond
	visitorStartGrace    = 3*visitorRetryInterval + 10*time.Second
)

var visitorSlots = newSlotPool(8, 29800, 4)

// holder is a listener of the harness that occupies a port.
type holder struct {
	port  int
	ln    net.Listener
	inode string
}

func hold(port int) (*holder, error) {
	ln, err := net.Listen("tcp", "127.0.0.1:"+strconv.Itoa(port))
	if err != nil {
		return nil, err
	}
	go func() {
		for {
			cn, err := ln.Accept()
			if err != nil {
				return
			}
			cn.Close()
		}
	}()
	hd := &holder{port: port, ln: ln}
	hd.inode = listenInode(port)
	if hd.inode == "" {
		ln.Close()
		return nil, fmt.Errorf("own listener on %d not found in /proc/net/tcp", port)
	}
	return hd, nil
}

// foreignListener reports whether a socket other than the harness's holder listens on the port and
// belongs to this process (i.e. to the frpc under test: the port block is private to the case).
func foreignListener(port int, holderInode string) (bool, string) {
	if !portAccepts(port) { // cheap pre-filter: nothing listens at all
		return false, ""
	}
	ino := listenInode(port)
	if ino == "" || ino == holderInode {
		return false, ino
	}
	return ownsInode(ino), ino
}

func unstartableVisitorCase(c *h.Case) {
	begin(c)
	rng := c.Rng
	slot, blk, ok := visitorSlots.get()
	defer visitorSlots.put(slot)
	if !ok {
		run.Inconclusive("visitors: port block still busy")
		return
	}
	pfx := fmt.Sprintf("c%d.", c.Idx)
	defer forgetPhases(pfx)
	pA, pB, pC, pD := blk[0], blk[1], blk[2], blk[3]
	nUnchanged := rng.Intn(3)            // unchanged reloads before the decisive one
	freeBeforeReload := rng.Intn(4) == 0 // variant: only (c) — the ports are freed first, everything must come up
	reorder := rng.Intn(2) == 0
	keepA := (c.Idx-baseVisitors)%3 == 1 // variant without a removal: only the move (b) and the control (c) are judged
	c.Data["kind"] = "visitors-that-cannot-start"
	c.Data["ports"] = map[string]int{"removed(a)": pA, "changed-from(b)": pB, "unchanged(c)": pC, "changed-to(b)": pD}
	c.Data["unchanged_reloads_first"], c.Data["ports_freed_before_reload"], c.Data["reordered"], c.Data["no_removal"] = nUnchanged, freeBeforeReload, reorder, keepA

	// anchor: the stcp proxy the visitors point to
	anchor, err := h.DialPeer(h.PeerOpts{ServerPort: srv.Cfg.BindPort, TCPMux: true, Token: token, AutoWork: true, PoolCount: 1,
		WorkHandler: h.IdentBackend("ANCHOR", token, false, false, nil)})
	if err != nil || !anchor.LoggedIn() {
		run.Inconclusive("visitors: anchor login failed")
		return
	}
	defer anchor.Close()
	if resp, err := anchor.NewProxy(&msg.NewProxy{ProxyName: pfx + "anchor", ProxyType: "stcp", Sk: "vk", AllowUsers: []string{"*"}}, 10*time.Second); err != nil || resp.Error != "" {
		run.Inconclusive("visitors: anchor registration failed")
		return
	}

	holders := map[int]*holder{}
	for _, p := range []int{pA, pB, pC} {
		hd, err := hold(p)
		if err != nil {
			run.Inconclusive("visitors: cannot hold the port: " + err.Error())
			return
		}
		holders[p] = hd
		defer hd.ln.Close()
	}
	free := func(ports ...int) {
		for _, p := range ports {
			holders[p].ln.Close()
		}
		c.Ev("ports-freed", "ports", ports)
	}

	type vis struct {
		name string
		port int
	}
	cfg := func(vs []vis) string {
		var b strings.Builder
		fmt.Fprintf(&b, `serverAddr = "127.0.0.1"
serverPort = %d
auth.token = "%s"
loginFailExit = false
transport.tls.enable = false

[[proxies]]
name = %q
type = "stcp"
secretKey = "mk"
localIP = "127.0.0.1"
localPort = 9
`, srv.Cfg.BindPort, token, pfx+"mark")
		for _, v := range vs {
			fmt.Fprintf(&b, "\n[[visitors]]\nname = %q\ntype = \"stcp\"\nserverName = %q\nsecretKey = \"vk\"\nbindAddr = \"127.0.0.1\"\nbindPort = %d\n", v.name, pfx+"anchor", v.port)
		}
		return b.String()
	}
	va, vb, vc := pfx+"va", pfx+"vb", pfx+"vc"
	set0 := []vis{{va, pA}, {vb, pB}, {vc, pC}}
	set1 := []vis{{vb, pD}, {vc, pC}} // va removed, vb moved to a free port, vc unchanged
	if reorder {
		set0 = []vis{{vc, pC}, {va, pA}, {vb, pB}}
		set1 = []vis{{vc, pC}, {vb, pD}}
	}
	if keepA {
		set1 = append(set1, vis{va, pA})
	}
	cli, err := h.StartClientText(prop, cfg(set0))
	if err != nil {
		run.Inconclusive("visitors: client did not start: " + err.Error())
		return
	}
	defer cli.Close()
	reload := func(vs []vis) bool {
		_, pcs, vcs, err := h.LoadClientConfig(prop, cfg(vs))
		if err != nil {
			run.Inconclusive("visitors: configuration does not load: " + err.Error())
			return false
		}
		if err := cli.Svc.UpdateAllConfigurer(pcs, vcs); err != nil {
			viol(c, "reload-refused", "UpdateAllConfigurer returned %v", err)
			return false
		}
		c.Ev("reload", "visitors", fmt.Sprint(vs))
		run.Count("reloads", 1)
		return true
	}
	// the client's marker proxy is registered: the login is done and the visitor manager has made its
	// first start attempts (visitors are started right after the proxies when a session begins)
	if !h.Eventually(15*time.Second, func() bool { return liveNames(pfx + "mark")[pfx+"mark"] }) {
		run.Inconclusive("visitors: client did not log in")
		return
	}
	time.Sleep(300 * time.Millisecond)
	for _, p := range []int{pA, pB, pC} {
		if ino := listenInode(p); ino != holders[p].inode {
			run.Inconclusive("visitors: the held port is not held")
			return
		}
	}
	c.Ev("state", "visitors", "configured, none listening (ports held by the harness)")
	for i := 0; i < nUnchanged; i++ {
		if !reload(set0) {
			return
		}
		time.Sleep(time.Duration(rng.Intn(30)) * time.Millisecond)
	}

	ident := func(port int) (string, error) { return h.AskIdent(fmt.Sprintf("127.0.0.1:%d", port), 10*time.Second) }
	wantID := "ANCHOR|" + pfx + "anchor"

	if freeBeforeReload {
		// positive control only: all three ports are freed, the unchanged configuration is reloaded, every
		// visitor has to come up on its own port through the periodic retry
		free(pA, pB, pC)
		if !reload(set0) {
			return
		}
		for _, v := range set0 {
			v := v
			if !h.Eventually(visitorStartGrace, func() bool { ok, _ := foreignListener(v.port, holders[v.port].inode); return ok }) {
				viol(c, "unstartable-visitor-never-started-after-port-freed", "visitor %s could not start because port %d was in use; %v after the port became free (retry interval %v) nothing of the client listens there", v.name, v.port, visitorStartGrace, visitorRetryInterval)
				return
			}
			if id, err := ident(v.port); err != nil || id != wantID {
				viol(c, "configured-visitor-carries-no-traffic", "visitor %s on %d answered %q / %v", v.name, v.port, id, err)
				return
			}
		}
		run.Count("unstartable_visitors_started_after_port_freed", 3)
		run.Count("unstartable_visitor_cases", 1)
		run.Distinct(fmt.Sprintf("visitors|control|%d|%v", nUnchanged, reorder))
		return
	}

	// the decisive reload, while none of the three visitors is running
	if !reload(set1) {
		return
	}
	tReload := time.Now()
	// (b) the moved visitor starts on its new port (UpdateAll starts new entries at once; a failed start
	// is retried every 10 s, hence the long watchdog). The ports are freed after a short while in any case.
	isUpD := func() bool { ok, _ := foreignListener(pD, ""); return ok }
	seenD := h.Eventually(3*time.Second, isUpD)
	free(pA, pB, pC)
	tFree := time.Now()
	seenC := false
	for time.Since(tFree) < visitorAbsenceWindow {
		if ok, ino := foreignListener(pA, holders[pA].inode); ok && !keepA {
			viol(c, "removed-visitor-started-after-reload", "visitor %s (bindPort %d) could not start because the port was in use and was then removed by a reload; %v after the port became free a socket of the client (inode %s) listens on %d: the removed visitor was started by the periodic retry",
				va, pA, time.Since(tFree).Round(time.Millisecond), ino, pA)
			return
		}
		if ok, ino := foreignListener(pB, holders[pB].inode); ok {
			viol(c, "changed-visitor-started-with-old-configuration", "visitor %s could not start on port %d (in use) and was moved to port %d by a reload; %v after the old port became free a socket of the client (inode %s) listens on the old port %d",
				vb, pB, pD, time.Since(tFree).Round(time.Millisecond), ino, pB)
			return
		}
		if !seenD {
			seenD = isUpD()
		}
		if !seenC {
			seenC, _ = foreignListener(pC, holders[pC].inode)
		}
		time.Sleep(200 * time.Millisecond)
	}
	if !keepA {
		run.Count("removed_unstartable_visitor_absent_for_retry_interval", 1)
	}
	if !seenD {
		seenD = h.Eventually(visitorStartGrace-time.Since(tReload), isUpD)
	}
	if !seenD {
		viol(c, "changed-visitor-never-started", "visitor %s could not start on port %d (in use) and was moved to the free port %d by a reload: %v later nothing of the client listens on %d (retry interval %v): the new configuration was never started",
			vb, pB, pD, visitorStartGrace, pD, visitorRetryInterval)
		return
	}
	if id, err := ident(pD); err != nil || id != wantID {
		viol(c, "configured-visitor-carries-no-traffic", "visitor %s on its new port %d answered %q / %v", vb, pD, id, err)
		return
	}
	run.Count("changed_unstartable_visitor_started_on_new_port", 1)
	// (c) positive control: the untouched visitor comes up on its own port through the periodic retry
	if !seenC {
		seenC = h.Eventually(visitorStartGrace-time.Since(tFree), func() bool { ok, _ := foreignListener(pC, holders[pC].inode); return ok })
	}
	if !seenC {
		viol(c, "unstartable-visitor-never-started-after-port-freed", "visitor %s could not start because port %d was in use and was left unchanged by the reloads; %v after the port became free (retry interval %v) nothing of the client listens there", vc, pC, visitorStartGrace, visitorRetryInterval)
		return
	}
	if id, err := ident(pC); err != nil || id != wantID {
		viol(c, "configured-visitor-carries-no-traffic", "visitor %s on %d answered %q / %v", vc, pC, id, err)
		return
	}
	run.Count("unstartable_visitors_started_after_port_freed", 1)
	// at the end: exactly the configured visitors listen
	if ok, ino := foreignListener(pA, holders[pA].inode); ok && !keepA {
		viol(c, "removed-visitor-started-after-reload", "at the end of the case a socket of the client (inode %s) listens on port %d of the removed visitor %s", ino, pA, va)
		return
	}
	if ok, ino := foreignListener(pB, holders[pB].inode); ok {
		viol(c, "changed-visitor-started-with-old-configuration", "at the end of the case a socket of the client (inode %s) listens on the old port %d of visitor %s", ino, pB, vb)
		return
	}
	run.Count("unstartable_visitor_cases", 1)
	run.Distinct(fmt.Sprintf("visitors|remove-change-keep|%d|%v|%v", nUnchanged, reorder, keepA))
	if c.Idx%4 == 0 {
		run.Sample(map[string]any{"kind": "visitors that cannot start", "unchanged_reloads_first": nUnchanged, "reordered": reorder})
	}
}
