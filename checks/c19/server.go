package main

import (
	"encoding/json"
	"fmt"
	"io"
	"net"
	"net/http"
	"strconv"
	"strings"
	"sync"
	"time"

	"verif/h"
)

// The shared real frps and the stub server plugin that records every NewProxy / CloseProxy operation.

var srv *h.Server

type regEvent struct {
	T    int64  `json:"t"`
	Op   string `json:"op"` // NewProxy | CloseProxy
	Name string `json:"name"`
	// NewProxy content
	Type       string            `json:"type,omitempty"`
	RemotePort int               `json:"remote_port,omitempty"`
	Enc        bool              `json:"enc,omitempty"`
	Comp       bool              `json:"comp,omitempty"`
	Metas      map[string]string `json:"metas,omitempty"`
	RunID      string            `json:"run_id,omitempty"`
}

var (
	regMu     sync.Mutex
	regLog    = map[string][]regEvent{} // proxy name -> events in arrival order
	regDelay  = map[string]time.Duration{}
	pluginSrv *http.Server
)

// pluginDelay makes the plugin hold NewProxy operations for names with the given prefix
// (frps answers the registration only after the plugin returned: a late reply from a real server).
func pluginDelay(prefix string, d time.Duration) {
	regMu.Lock()
	if d == 0 {
		delete(regDelay, prefix)
	} else {
		regDelay[prefix] = d
	}
	regMu.Unlock()
}

func regEvents(name string) []regEvent {
	regMu.Lock()
	defer regMu.Unlock()
	return append([]regEvent(nil), regLog[name]...)
}

func regCounts(name string) (attempts, closes int) {
	for _, e := range regEvents(name) {
		if e.Op == "NewProxy" {
			attempts++
		} else {
			closes++
		}
	}
	return
}

func forgetRegs(prefix string) {
	regMu.Lock()
	for n := range regLog {
		if strings.HasPrefix(n, prefix) {
			delete(regLog, n)
		}
	}
	regMu.Unlock()
}

func pluginHandler(w http.ResponseWriter, r *http.Request) {
	body, _ := io.ReadAll(r.Body)
	var req struct {
		Op      string `json:"op"`
		Content struct {
			User struct {
				RunID string `json:"run_id"`
			} `json:"user"`
			ProxyName      string            `json:"proxy_name"`
			ProxyType      string            `json:"proxy_type"`
			RemotePort     int               `json:"remote_port"`
			UseEncryption  bool              `json:"use_encryption"`
			UseCompression bool              `json:"use_compression"`
			Metas          map[string]string `json:"metas"`
		} `json:"content"`
	}
	_ = json.Unmarshal(body, &req)
	ev := regEvent{T: h.Now(), Op: req.Op, Name: req.Content.ProxyName, Type: req.Content.ProxyType, RemotePort: req.Content.RemotePort,
		Enc: req.Content.UseEncryption, Comp: req.Content.UseCompression, Metas: req.Content.Metas, RunID: req.Content.User.RunID}
	var d time.Duration
	regMu.Lock()
	regLog[ev.Name] = append(regLog[ev.Name], ev)
	if ev.Op == "NewProxy" {
		for p, x := range regDelay {
			if strings.HasPrefix(ev.Name, p) {
				d = x
			}
		}
	}
	regMu.Unlock()
	run.Count("server_plugin_"+req.Op, 1)
	if d > 0 {
		time.Sleep(d)
	}
	w.Header().Set("Content-Type", "application/json")
	_, _ = w.Write([]byte(`{"reject":false,"unchange":true}`))
}

const (
	allowLo = 29100
	allowHi = 29999
)

func startSharedServer() error {
	pport := ports.Get()
	ln, err := net.Listen("tcp", "127.0.0.1:"+strconv.Itoa(pport))
	if err != nil {
		return err
	}
	mux := http.NewServeMux()
	mux.HandleFunc("/handler", pluginHandler)
	pluginSrv = &http.Server{Handler: mux}
	go pluginSrv.Serve(ln)
	port := ports.Get()
	srv, err = h.StartServerText(prop, fmt.Sprintf(`
bindAddr = "127.0.0.1"
bindPort = %d
auth.token = "%s"
allowPorts = [{start=%d,end=%d}]
userConnTimeout = 5
transport.maxPoolCount = 2

[[httpPlugins]]
name = "recorder"
addr = "127.0.0.1:%d"
path = "/handler"
ops = ["NewProxy", "CloseProxy"]
`, port, token, allowLo, allowHi, pport))
	return err
}

func stopSharedServer() {
	srv.Close()
	pluginSrv.Close()
}

// liveNames returns the names with the given prefix in the server's proxy name table.
func liveNames(prefix string) map[string]bool {
	out := map[string]bool{}
	for _, n := range srv.Snapshot().ProxyNames {
		if strings.HasPrefix(n, prefix) {
			out[n] = true
		}
	}
	return out
}

// ---------------------------------------------------------------------------------------------
// static port blocks per concurrently running case (slot), all inside the property's range

type slotPool struct {
	ch         chan int
	base, size int
}

func newSlotPool(n, base, size int) *slotPool {
	p := &slotPool{ch: make(chan int, n), base: base, size: size}
	for i := 0; i < n; i++ {
		p.ch <- i
	}
	return p
}

// get returns a slot and its ports once all of them are free (a previous case in the slot has released them).
func (p *slotPool) get() (slot int, blk []int, ok bool) {
	slot = <-p.ch
	blk = make([]int, p.size)
	for i := range blk {
		blk[i] = p.base + slot*p.size + i
	}
	ok = h.Eventually(15*time.Second, func() bool {
		// frps closes a proxy's listener first and releases the port in its own accounting afterwards:
		// the block is free when the operating system and the server's port manager both say so
		if srv != nil {
			used := srv.Snapshot().TCPPorts.Used
			for _, q := range blk {
				if _, busy := used[q]; busy {
					return false
				}
			}
		}
		for _, q := range blk {
			l, err := net.Listen("tcp", "127.0.0.1:"+strconv.Itoa(q))
			if err != nil {
				return false
			}
			l.Close()
		}
		return true
	})
	return
}

func (p *slotPool) put(slot int) { p.ch <- slot }
