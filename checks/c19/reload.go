package main

import (
	"context"
	"encoding/json"
	"fmt"
	"io"
	"math/rand"
	"net"
	"os"
	"path/filepath"
	"reflect"
	"sort"
	"strconv"
	"strings"
	"time"

	"github.com/fatedier/frp/client"
	"github.com/fatedier/frp/pkg/config"
	"github.com/fatedier/frp/pkg/config/v1/validation"
	"github.com/fatedier/frp/pkg/msg"

	"verif/h"
)

// ---------------------------------------------------------------------------------------------
// configuration sets

type pEntry struct {
	Name       string `json:"name"`
	Type       string `json:"type"` // tcp | stcp
	Backend    int    `json:"backend"`
	RemotePort int    `json:"remote_port,omitempty"`
	Meta       string `json:"meta"`
	Enc        bool   `json:"enc,omitempty"`
	Comp       bool   `json:"comp,omitempty"`
	Health     bool   `json:"health,omitempty"` // tcp health check against the case's switchable target
}

type vEntry struct {
	Name     string `json:"name"`
	BindPort int    `json:"bind_port"`
}

type cfgSet struct {
	P []pEntry `json:"proxies"`
	V []vEntry `json:"visitors"`
}

func (s cfgSet) clone() cfgSet {
	return cfgSet{P: append([]pEntry(nil), s.P...), V: append([]vEntry(nil), s.V...)}
}

func (s cfgSet) pByName(n string) []pEntry {
	var o []pEntry
	for _, e := range s.P {
		if e.Name == n {
			o = append(o, e)
		}
	}
	return o
}

func (s cfgSet) vByName(n string) []vEntry {
	var o []vEntry
	for _, e := range s.V {
		if e.Name == n {
			o = append(o, e)
		}
	}
	return o
}

type reloadEnv struct {
	pfx        string
	serverPort int
	adminPort  int
	backends   []int // local ports of the ident backends
	healthPort int
	remote     []int
	vports     []int
	racedLogin bool // a reload was applied before the client had a session
}

func (env *reloadEnv) toml(s cfgSet) string {
	var b strings.Builder
	fmt.Fprintf(&b, `serverAddr = "127.0.0.1"
serverPort = %d
auth.token = "%s"
loginFailExit = false
transport.tls.enable = false
transport.poolCount = 1
`, env.serverPort, token)
	if env.adminPort > 0 {
		fmt.Fprintf(&b, "webServer.addr = \"127.0.0.1\"\nwebServer.port = %d\n", env.adminPort)
	}
	for _, e := range s.P {
		fmt.Fprintf(&b, "\n[[proxies]]\nname = %q\ntype = %q\nlocalIP = \"127.0.0.1\"\n", e.Name, e.Type)
		if e.Health {
			fmt.Fprintf(&b, "localPort = %d\nhealthCheck.type = \"tcp\"\nhealthCheck.intervalSeconds = 1\nhealthCheck.timeoutSeconds = 1\nhealthCheck.maxFailed = 1\n", env.healthPort)
		} else {
			fmt.Fprintf(&b, "localPort = %d\n", env.backends[e.Backend])
		}
		if e.Type == "tcp" {
			fmt.Fprintf(&b, "remotePort = %d\n", e.RemotePort)
		} else {
			b.WriteString("secretKey = \"sk\"\n")
		}
		if e.Enc {
			b.WriteString("transport.useEncryption = true\n")
		}
		if e.Comp {
			b.WriteString("transport.useCompression = true\n")
		}
		fmt.Fprintf(&b, "metadatas.m = %q\n", e.Meta)
	}
	for _, v := range s.V {
		fmt.Fprintf(&b, "\n[[visitors]]\nname = %q\ntype = \"stcp\"\nserverName = %q\nsecretKey = \"vk\"\nbindAddr = \"127.0.0.1\"\nbindPort = %d\n",
			v.Name, env.pfx+"anchor", v.BindPort)
	}
	return b.String()
}

// ---------------------------------------------------------------------------------------------
// history generation

type step struct {
	Ops    []string `json:"ops"`
	Set    cfgSet   `json:"set"`
	Mode   string   `json:"mode"` // api | http
	Settle bool     `json:"settle"`
	Toggle bool     `json:"toggle_health,omitempty"` // the health target changes state before this step is applied
}

type histGen struct {
	rng     *rand.Rand
	env     *reloadEnv
	pnames  []string
	vnames  []string
	health  bool
	healthN string
}

func (g *histGen) freeRemote(s cfgSet, except string) int {
	used := map[int]bool{}
	for _, e := range s.P {
		if e.Name != except {
			used[e.RemotePort] = true
		}
	}
	var free []int
	for _, p := range g.env.remote {
		if !used[p] {
			free = append(free, p)
		}
	}
	if len(free) == 0 {
		return 0
	}
	return free[g.rng.Intn(len(free))]
}

func (g *histGen) freeVPort(s cfgSet) int {
	used := map[int]bool{}
	for _, e := range s.V {
		used[e.BindPort] = true
	}
	var free []int
	for _, p := range g.env.vports {
		if !used[p] {
			free = append(free, p)
		}
	}
	if len(free) == 0 {
		return 0
	}
	return free[g.rng.Intn(len(free))]
}

func (g *histGen) newP(s cfgSet, name string) (pEntry, bool) {
	e := pEntry{Name: name, Type: "tcp", Backend: g.rng.Intn(len(g.env.backends)), Meta: string(rune('a' + g.rng.Intn(6))), Enc: g.rng.Intn(4) == 0, Comp: g.rng.Intn(4) == 0}
	if strings.HasSuffix(name, "p3") {
		e.Type = "stcp"
		return e, true
	}
	if g.health && name == g.healthN {
		e.Health = true
		e.Enc, e.Comp = false, false
	}
	e.RemotePort = g.freeRemote(s, name)
	return e, e.RemotePort != 0
}

func (g *histGen) absentP(s cfgSet) []string {
	var o []string
	for _, n := range g.pnames {
		if len(s.pByName(n)) == 0 {
			o = append(o, n)
		}
	}
	return o
}

func (g *histGen) uniqueP(s cfgSet) []int {
	var o []int
	for i, e := range s.P {
		if len(s.pByName(e.Name)) == 1 {
			o = append(o, i)
		}
	}
	return o
}

// mutate applies one random operation to s and returns its description ("" = not applicable).
func (g *histGen) mutate(s *cfgSet) string {
	rng := g.rng
	switch rng.Intn(14) {
	case 0, 1: // add a proxy
		if ab := g.absentP(*s); len(ab) > 0 {
			n := ab[rng.Intn(len(ab))]
			if e, ok := g.newP(*s, n); ok {
				s.P = append(s.P, e)
				return "add " + n
			}
		}
	case 2: // remove a proxy (all entries of the name)
		if len(s.P) > 0 {
			n := s.P[rng.Intn(len(s.P))].Name
			var keep []pEntry
			for _, e := range s.P {
				if e.Name != n {
					keep = append(keep, e)
				}
			}
			s.P = keep
			return "remove " + n
		}
	case 3, 4, 5: // change one field of a unique entry
		if u := g.uniqueP(*s); len(u) > 0 {
			i := u[rng.Intn(len(u))]
			e := &s.P[i]
			switch f := rng.Intn(5); {
			case f == 0 && e.Type == "tcp":
				if p := g.freeRemote(*s, ""); p != 0 {
					e.RemotePort = p
					return "change " + e.Name + ".remotePort"
				}
			case f == 1 && !e.Health:
				e.Backend = (e.Backend + 1) % len(g.env.backends)
				return "change " + e.Name + ".localPort"
			case f == 2 && !e.Health:
				e.Enc = !e.Enc
				return "change " + e.Name + ".useEncryption"
			case f == 3 && !e.Health:
				e.Comp = !e.Comp
				return "change " + e.Name + ".useCompression"
			default:
				e.Meta = e.Meta + "x"
				return "change " + e.Name + ".metadatas"
			}
		}
	case 6: // reorder
		if len(s.P) > 1 {
			rng.Shuffle(len(s.P), func(i, j int) { s.P[i], s.P[j] = s.P[j], s.P[i] })
			rng.Shuffle(len(s.V), func(i, j int) { s.V[i], s.V[j] = s.V[j], s.V[i] })
			return "reorder"
		}
	case 7: // duplicate name, identical content
		if u := g.uniqueP(*s); len(u) > 0 {
			e := s.P[u[rng.Intn(len(u))]]
			if !e.Health {
				s.P = append(s.P, e)
				return "duplicate " + e.Name + " (identical)"
			}
		}
	case 8: // duplicate name, different content
		if u := g.uniqueP(*s); len(u) > 0 {
			e := s.P[u[rng.Intn(len(u))]]
			if !e.Health {
				e.Meta += "d"
				if rng.Intn(2) == 0 {
					s.P = append(s.P, e)
				} else {
					s.P = append([]pEntry{e}, s.P...)
				}
				return "duplicate " + e.Name + " (different metadatas)"
			}
		}
	case 9: // two tcp proxies exchange their remote ports
		var t []int
		for _, i := range g.uniqueP(*s) {
			if s.P[i].Type == "tcp" {
				t = append(t, i)
			}
		}
		if len(t) >= 2 {
			rng.Shuffle(len(t), func(i, j int) { t[i], t[j] = t[j], t[i] })
			a, b := &s.P[t[0]], &s.P[t[1]]
			a.RemotePort, b.RemotePort = b.RemotePort, a.RemotePort
			return "swap remote ports of " + a.Name + " and " + b.Name
		}
	case 10: // a new name takes over the remote port of a removed one
		ab := g.absentP(*s)
		var t []int
		for _, i := range g.uniqueP(*s) {
			if s.P[i].Type == "tcp" && !s.P[i].Health {
				t = append(t, i)
			}
		}
		if len(ab) > 0 && len(t) > 0 {
			n := ab[rng.Intn(len(ab))]
			if e, ok := g.newP(*s, n); ok && e.Type == "tcp" && !e.Health {
				i := t[rng.Intn(len(t))]
				old := s.P[i]
				e.RemotePort = old.RemotePort
				s.P[i] = e
				return "replace " + old.Name + " by " + n + " on the same remote port"
			}
		}
	case 11: // visitor add / remove
		var ab []string
		for _, n := range g.vnames {
			if len(s.vByName(n)) == 0 {
				ab = append(ab, n)
			}
		}
		if len(ab) > 0 && rng.Intn(3) > 0 {
			if p := g.freeVPort(*s); p != 0 {
				n := ab[rng.Intn(len(ab))]
				s.V = append(s.V, vEntry{Name: n, BindPort: p})
				return "add visitor " + n
			}
		} else if len(s.V) > 0 {
			n := s.V[rng.Intn(len(s.V))].Name
			var keep []vEntry
			for _, e := range s.V {
				if e.Name != n {
					keep = append(keep, e)
				}
			}
			s.V = keep
			return "remove visitor " + n
		}
	case 12: // visitor change / duplicate
		if len(s.V) > 0 {
			i := rng.Intn(len(s.V))
			if len(s.vByName(s.V[i].Name)) == 1 {
				if rng.Intn(3) == 0 {
					s.V = append(s.V, s.V[i])
					return "duplicate visitor " + s.V[i].Name + " (identical)"
				}
				if p := g.freeVPort(*s); p != 0 {
					s.V[i].BindPort = p
					return "change visitor " + s.V[i].Name + ".bindPort"
				}
			}
		}
	default:
		return "no-op"
	}
	return ""
}

func (g *histGen) history(n int) []step {
	var cur cfgSet
	// initial set
	for _, nme := range g.pnames {
		if g.rng.Intn(3) > 0 {
			if e, ok := g.newP(cur, nme); ok {
				cur.P = append(cur.P, e)
			}
		}
	}
	if g.rng.Intn(2) == 0 {
		cur.V = append(cur.V, vEntry{Name: g.vnames[0], BindPort: g.freeVPort(cur)})
	}
	steps := []step{{Ops: []string{"initial"}, Set: cur.clone(), Mode: "start", Settle: g.rng.Intn(4) > 0}}
	for i := 1; i < n; i++ {
		nx := cur.clone()
		var ops []string
		for k := 0; k < 1+g.rng.Intn(3); k++ {
			for try := 0; try < 6; try++ {
				if d := g.mutate(&nx); d != "" {
					ops = append(ops, d)
					break
				}
			}
		}
		st := step{Ops: ops, Set: nx.clone(), Mode: []string{"api", "http"}[g.rng.Intn(2)], Settle: g.rng.Intn(5) < 3}
		if g.health && g.rng.Intn(3) == 0 {
			st.Toggle = true
		}
		steps = append(steps, st)
		cur = nx
	}
	steps[len(steps)-1].Settle = true
	return steps
}

// ---------------------------------------------------------------------------------------------
// the case

var reloadSlots = newSlotPool(16, 29100, 12)

// frpc never closes its admin listener (cmd/frpc exits instead), so every admin port is used by one
// case only; cases that get none reload through UpdateAllConfigurer only.
var adminPorts = func() chan int {
	ch := make(chan int, 100)
	for p := 29010; p < 29100; p++ {
		ch <- p
	}
	return ch
}()

type nameTrack struct {
	gens, settled        int  // upper bound of generations started / lower bound: generations seen registered at a settle point
	ended, endedSettled  int  // upper bound of generations ended / lower bound: registered generations that ended
	curSettled, present  bool // state of the current generation
	health               bool // health-checked: registrations follow the target, counts are not judged
	dupUnchangedReload   bool // an identical list of duplicates was reloaded
	conn                 net.Conn
	connGen              int
	inode                string // listening socket of a visitor at the last settle point
	neverHealthySinceGen bool
	attemptsAtGenStart   int
}

func reloadCase(c *h.Case) {
	begin(c)
	if os.Getenv("C19_TRACE") != "" {
		t0 := time.Now()
		defer func() {
			if d := time.Since(t0); d > 8*time.Second {
				fmt.Fprintf(os.Stderr, "slow reload case %d: %v %v\n", c.Idx, d, c.Data["kind"])
			}
		}()
	}
	if (c.Idx-baseReload)%20 == 0 {
		staleReplyCase(c)
		return
	}
	if (c.Idx-baseReload)%20 == 10 {
		healthDefaultsReloadCase(c)
		return
	}
	rng := c.Rng
	slot, blk, ok := reloadSlots.get()
	defer reloadSlots.put(slot)
	if !ok {
		run.Inconclusive("reload: port block still busy")
		return
	}
	pfx := fmt.Sprintf("c%d.", c.Idx)
	env := &reloadEnv{pfx: pfx, serverPort: srv.Cfg.BindPort, remote: blk[0:6], vports: blk[6:9]}
	for env.adminPort == 0 {
		select {
		case p := <-adminPorts:
			if l, err := net.Listen("tcp", "127.0.0.1:"+strconv.Itoa(p)); err == nil {
				l.Close()
				env.adminPort = p
			}
			continue
		default:
		}
		break
	}
	defer forgetRegs(pfx)
	defer forgetPhases(pfx)

	// backends
	for i := 0; i < 2; i++ {
		b, err := h.StartTCPBackend(0, h.IdentEcho(fmt.Sprintf("B%d", i)))
		if err != nil {
			run.Inconclusive("reload: backend did not start")
			return
		}
		defer b.Close()
		env.backends = append(env.backends, b.Port)
	}
	target := &tcpTarget{}
	if err := target.open(); err != nil {
		run.Inconclusive("reload: health target did not start")
		return
	}
	defer target.release()
	env.healthPort = target.port
	targetOpen := true
	if rng.Intn(2) == 0 {
		if err := target.fail(false); err != nil {
			run.Inconclusive("reload: health target could not be switched to refusing")
			return
		}
		targetOpen = false
	}

	// anchor: an always-on stcp proxy of a scripted session, the destination of the case's visitors
	anchor, err := h.DialPeer(h.PeerOpts{ServerPort: srv.Cfg.BindPort, TCPMux: true, Token: token, AutoWork: true, PoolCount: 1,
		WorkHandler: h.IdentBackend("ANCHOR", token, false, false, nil)})
	if err != nil || !anchor.LoggedIn() {
		run.Inconclusive("reload: anchor login failed")
		return
	}
	defer anchor.Close()
	if resp, err := anchor.NewProxy(&msg.NewProxy{ProxyName: pfx + "anchor", ProxyType: "stcp", Sk: "vk", AllowUsers: []string{"*"}}, 10*time.Second); err != nil || resp.Error != "" {
		run.Inconclusive("reload: anchor registration failed")
		return
	}

	g := &histGen{rng: rng, env: env, health: rng.Intn(3) == 0, healthN: pfx + "p4"}
	for i := 0; i < 5; i++ {
		g.pnames = append(g.pnames, fmt.Sprintf("%sp%d", pfx, i))
	}
	g.vnames = []string{pfx + "v0", pfx + "v1"}
	nSteps := 3 + rng.Intn(4)
	steps := g.history(nSteps)
	c.Data["kind"], c.Data["history"], c.Data["health_target_open_at_start"] = "reload", steps, targetOpen

	// the client, started from a configuration file like cmd/frpc does
	cfgPath := filepath.Join(h.RunDir(prop), "cfg", fmt.Sprintf("reload-%d-%d.toml", os.Getpid(), c.Idx))
	_ = os.MkdirAll(filepath.Dir(cfgPath), 0o755)
	defer os.Remove(cfgPath)
	write := func(s cfgSet) error { return os.WriteFile(cfgPath, []byte(env.toml(s)), 0o644) }
	if err := write(steps[0].Set); err != nil {
		run.Inconclusive("reload: cannot write configuration")
		return
	}
	common, pcs, vcs, _, err := config.LoadClientConfig(cfgPath, true)
	if err != nil {
		run.Inconclusive("reload: generated configuration does not load: " + err.Error())
		return
	}
	if _, err := validation.ValidateAllClientConfig(common, pcs, vcs); err != nil {
		run.Inconclusive("reload: generated configuration does not validate: " + err.Error())
		return
	}
	svc, err := client.NewService(client.ServiceOptions{Common: common, ProxyCfgs: pcs, VisitorCfgs: vcs, ConfigFilePath: cfgPath})
	if err != nil {
		run.Inconclusive("reload: client service: " + err.Error())
		return
	}
	ctx, cancel := context.WithCancel(context.Background())
	cliDone := make(chan struct{})
	go func() { defer close(cliDone); _ = svc.Run(ctx) }()
	defer func() {
		cancel()
		select {
		case <-cliDone:
		case <-time.After(10 * time.Second):
		}
	}()
	if env.adminPort > 0 {
		if err := h.WaitTCP(fmt.Sprintf("127.0.0.1:%d", env.adminPort), 10*time.Second); err != nil {
			run.Inconclusive("reload: admin server not reachable")
			return
		}
	}

	tracks := map[string]*nameTrack{}
	vtracks := map[string]*nameTrack{}
	tr := func(m map[string]*nameTrack, n string) *nameTrack {
		if m[n] == nil {
			m[n] = &nameTrack{}
		}
		return m[n]
	}
	defer func() {
		for _, m := range []map[string]*nameTrack{tracks, vtracks} {
			for _, t := range m {
				if t.conn != nil {
					t.conn.Close()
				}
			}
		}
	}()

	quiet := true // the previous step was followed by a settle point (nothing of older generations is in flight)
	// classify the change of every name between two sets and move the generation counters
	advance := func(prev, next cfgSet, first bool) {
		for _, n := range g.pnames {
			a, b := prev.pByName(n), next.pByName(n)
			if first {
				a = nil
			}
			t := tr(tracks, n)
			startGen := func() {
				t.gens++
				t.present, t.curSettled = true, false
				t.neverHealthySinceGen = !targetOpen && quiet
				at, _ := regCounts(n)
				t.attemptsAtGenStart = at
			}
			endGen := func() {
				t.ended++
				if t.curSettled {
					t.endedSettled++
				}
				t.present, t.curSettled = false, false
			}
			switch {
			case len(a) == 0 && len(b) == 0:
			case len(a) == 0:
				startGen()
			case len(b) == 0:
				endGen()
			case reflect.DeepEqual(a, b):
				if len(a) > 1 {
					t.dupUnchangedReload = true
				}
			case len(a) == 1 && len(b) == 1:
				endGen()
				startGen()
			default: // duplicates appear, disappear or change: the property does not fix which entry runs,
				// so the running one may or may not be replaced (bounds move, nothing is demanded)
				t.gens++
				t.ended++
			}
			if len(b) > 0 && b[0].Health {
				t.health = true
			}
		}
		for _, n := range g.vnames {
			a, b := prev.vByName(n), next.vByName(n)
			if first {
				a = nil
			}
			t := tr(vtracks, n)
			switch {
			case len(a) == 0 && len(b) == 0:
			case len(a) == 0:
				t.gens++
				t.present = true
			case len(b) == 0:
				t.ended++
				t.present = false
			case reflect.DeepEqual(a, b):
			case len(a) == 1 && len(b) == 1:
				t.ended++
				t.gens++
			default:
				t.gens++
			}
		}
	}

	var sigParts []string
	prev := cfgSet{}
	for i, st := range steps {
		if st.Toggle {
			if targetOpen {
				if err := target.fail(false); err != nil {
					run.Inconclusive("reload: health target could not be switched to refusing")
					return
				}
			} else if err := target.open(); err != nil {
				run.Inconclusive("reload: health target could not be reopened")
				return
			}
			targetOpen = !targetOpen
			c.Ev("health-target", "open", targetOpen)
			if targetOpen {
				for _, t := range tracks {
					t.neverHealthySinceGen = false
				}
			}
		}
		advance(prev, st.Set, i == 0)
		if i > 0 {
			if err := write(st.Set); err != nil {
				run.Inconclusive("reload: cannot write configuration")
				return
			}
			if !env.racedLogin {
				hasSession := false
				for _, n := range g.pnames {
					if _, ok := svc.StatusExporter().GetProxyStatus(n); ok {
						hasSession = true
					}
				}
				if !hasSession && len(prev.P) > 0 {
					env.racedLogin = true
					c.Data["reload_applied_before_first_login_completed"] = i
				}
			}
			c.Ev("reload", "step", i, "mode", st.Mode, "ops", st.Ops)
			if env.adminPort == 0 {
				st.Mode = "api"
			}
			switch st.Mode {
			case "api":
				_, pcs, vcs, _, err := config.LoadClientConfig(cfgPath, true)
				if err != nil {
					run.Inconclusive("reload: generated configuration does not load: " + err.Error())
					return
				}
				if err := svc.UpdateAllConfigurer(pcs, vcs); err != nil {
					viol(c, "reload-refused", "UpdateAllConfigurer returned %v for a valid configuration", err)
					return
				}
			case "http":
				resp, err := ownHTTP.Get(fmt.Sprintf("http://127.0.0.1:%d/api/reload", env.adminPort))
				if err != nil {
					run.Inconclusive("reload: admin API not reachable")
					return
				}
				body, _ := io.ReadAll(resp.Body)
				resp.Body.Close()
				if resp.StatusCode != 200 {
					viol(c, "reload-refused", "GET /api/reload answered %d %q for a valid configuration file", resp.StatusCode, body)
					return
				}
			}
			run.Count("reloads", 1)
		}
		sigParts = append(sigParts, st.Mode+":"+strings.Join(st.Ops, ",")+fmt.Sprintf(":%v:%v", st.Settle, st.Toggle))
		prev = st.Set
		quiet = st.Settle
		if !st.Settle {
			if d := rng.Intn(4); d > 0 {
				time.Sleep(time.Duration(rng.Intn(3000)) * time.Microsecond)
			}
			continue
		}
		if !settleAndJudge(c, env, g, svc, st.Set, targetOpen, tracks, vtracks, i) {
			return
		}
		run.Count("settle_points", 1)
	}
	sig := strings.ReplaceAll(strings.Join(sigParts, "|"), pfx, "")
	for _, p := range blk {
		sig = strings.ReplaceAll(sig, strconv.Itoa(p), "P")
	}
	run.Distinct("reload|" + sig)
	run.Count("reload_histories", 1)
	if os.Getenv("C19_TRACE") != "" {
		for _, e := range c.Log.Snapshot() {
			fmt.Fprintf(os.Stderr, "%8.1f ms %s %v\n", float64(e.T)/1e6, e.Kind, e.F)
		}
	}
	if c.Idx%13 == 0 {
		var ops [][]string
		for _, s := range steps {
			ops = append(ops, s.Ops)
		}
		run.Sample(map[string]any{"kind": "reload", "steps": ops})
	}
}

// expectedLive returns the names that must be registered for the set, given the health target's state.
func expectedLive(s cfgSet, targetOpen bool) map[string]bool {
	out := map[string]bool{}
	for _, e := range s.P {
		if e.Health && !targetOpen {
			continue
		}
		out[e.Name] = true
	}
	return out
}

func setKeys(m map[string]bool) []string {
	var o []string
	for k := range m {
		o = append(o, k)
	}
	sort.Strings(o)
	return o
}

const convergeGrace = 25 * time.Second // >= 3x every timer involved (1 s health interval, 5 s back-off) + 10 s

func settleAndJudge(c *h.Case, env *reloadEnv, g *histGen, svc *client.Service, s cfgSet, targetOpen bool, tracks, vtracks map[string]*nameTrack, stepIdx int) bool {
	pfx := env.pfx + "p"
	// A reload that was applied before the client's first login had completed and never takes effect shows
	// up as a plain convergence failure here: it gets the key of that defect.
	vio := func(key, format string, args ...any) {
		if env.racedLogin {
			switch key {
			case "not-converged-stale-proxy-registered", "not-converged-configured-proxy-missing", "registered-with-stale-configuration",
				"configured-visitor-not-listening", "removed-visitor-still-listening", "configured-visitor-carries-no-traffic",
				"status-api-lists-other-than-configured", "remote-port-of-removed-proxy-still-listening", "registered-proxy-carries-no-traffic-to-configured-backend":
				viol(c, "reload-during-login-lost", "a reload was applied while the client's first login was completing; "+format+" [observed as "+key+"]", args...)
				return
			}
		}
		viol(c, key, format, args...)
	}
	want := expectedLive(s, targetOpen)
	var live map[string]bool
	wantRemote := map[int]bool{}
	for _, e := range s.P {
		if e.Type == "tcp" && want[e.Name] {
			wantRemote[e.RemotePort] = true
		}
	}
	strayPort := 0
	conv := h.Eventually(convergeGrace, func() bool {
		live = liveNames(pfx)
		if !reflect.DeepEqual(setKeys(live), setKeys(want)) {
			return false
		}
		// messages of a burst may still be in flight (registered, then closed): the ledger is taken when
		// the operating system agrees with the server's table (a connect is refused on every other port)
		strayPort = 0
		for _, p := range env.remote {
			if !wantRemote[p] && portAccepts(p) {
				strayPort = p
				return false
			}
		}
		return true
	})
	c.Ev("settle", "step", stepIdx, "want", setKeys(want), "live", setKeys(live))
	if !conv {
		if strayPort != 0 && reflect.DeepEqual(setKeys(live), setKeys(want)) {
			vio("remote-port-of-removed-proxy-still-listening", "step %d: %v after the reload port %d belongs to no configured-and-healthy proxy but is still listening (server table %v)", stepIdx, convergeGrace, strayPort, setKeys(live))
			return false
		}
		for n := range live {
			if !want[n] {
				why := "is not in the configuration any more"
				if len(s.pByName(n)) > 0 {
					why = "is configured with a health check whose target refuses connections"
				}
				vio("not-converged-stale-proxy-registered", "step %d: %v after the reload the server still holds %s, which %s (server %v, configured-and-healthy %v)", stepIdx, convergeGrace, n, why, setKeys(live), setKeys(want))
				return false
			}
		}
		for n := range want {
			if !live[n] {
				st, _ := svc.StatusExporter().GetProxyStatus(n)
				vio("not-converged-configured-proxy-missing", "step %d: %v after the reload %s is configured (and healthy) but not registered at the server (server %v); client status %+v", stepIdx, convergeGrace, n, setKeys(live), st)
				return false
			}
		}
	}
	// client side: the status API lists exactly the configured names, registered ones as running
	okStatus := h.Eventually(convergeGrace, func() bool {
		for n := range want {
			st, ok := svc.StatusExporter().GetProxyStatus(n)
			if !ok || st.Phase != "running" {
				return false
			}
		}
		return true
	})
	if !okStatus {
		for n := range want {
			st, ok := svc.StatusExporter().GetProxyStatus(n)
			if !ok || st.Phase != "running" {
				vio("status-not-running-for-registered-proxy", "step %d: %s is registered at the server but the status API reports %+v (found %v)", stepIdx, n, st, ok)
				return false
			}
		}
	}
	cfgNames := map[string]bool{}
	for _, e := range s.P {
		cfgNames[e.Name] = true
	}
	readStatus := func() (map[string]string, error) {
		if env.adminPort > 0 {
			return apiStatusNames(env.adminPort)
		}
		listed := map[string]string{}
		for _, n := range g.pnames {
			if st, ok := svc.StatusExporter().GetProxyStatus(n); ok {
				listed[n] = st.Phase
			}
		}
		return listed, nil
	}
	// a reply may still be on its way on a loaded machine: the status ledger is polled like the server's
	var badKey, badMsg string
	okListed := h.Eventually(convergeGrace, func() bool {
		badKey, badMsg = "", ""
		listed, err := readStatus()
		if err != nil {
			badKey = "-"
			return false
		}
		if !reflect.DeepEqual(setKeys(cfgNames), setKeys(listedNames(listed))) {
			badKey, badMsg = "status-api-lists-other-than-configured", fmt.Sprintf("step %d: the status API lists %v, configured %v", stepIdx, setKeys(listedNames(listed)), setKeys(cfgNames))
			return false
		}
		for n, ph := range listed {
			if want[n] && ph != "running" {
				badKey, badMsg = "status-not-running-for-registered-proxy", fmt.Sprintf("step %d: the status API reports %q for %s, which is registered at the server", stepIdx, ph, n)
				return false
			}
			if !want[n] && ph != "check failed" && ph != "new" {
				badKey, badMsg = "status-of-unhealthy-proxy", fmt.Sprintf("step %d: the status API reports %q for %s whose health target refuses connections", stepIdx, ph, n)
				return false
			}
			st, ok := svc.StatusExporter().GetProxyStatus(n)
			lp := lastPhase(n)
			if !(ok && (st.Phase == lp || ((lp == "" || lp == "closed") && st.Phase == "new"))) {
				badKey, badMsg = "status-differs-from-last-transition", fmt.Sprintf("step %d: status of %s is %+v, last recorded transition went to %q", stepIdx, n, st, lp)
				return false
			}
		}
		return true
	})
	if !okListed {
		if badKey == "-" {
			run.Inconclusive("reload: /api/status unreadable")
		} else {
			vio(badKey, "%s", badMsg)
			return false
		}
	}

	// registration content, traffic, operating system
	for n := range want {
		entries := s.pByName(n)
		// (polled: the last message of a burst may still be on its way to the server)
		var last *regEvent
		match := -1
		h.Eventually(convergeGrace, func() bool {
			evs := regEvents(n)
			last, match = nil, -1
			for i := range evs {
				if evs[i].Op == "NewProxy" {
					last = &evs[i]
				}
			}
			if last == nil {
				return false
			}
			for i, e := range entries {
				if last.Type == e.Type && last.Enc == e.Enc && last.Comp == e.Comp && last.Metas["m"] == e.Meta && (e.Type != "tcp" || last.RemotePort == e.RemotePort) {
					match = i
				}
			}
			return match >= 0
		})
		if last == nil {
			vio("registered-without-registration-message", "step %d: %s is in the server's table but the plugin saw no NewProxy for it", stepIdx, n)
			return false
		}
		if match < 0 {
			vio("registered-with-stale-configuration", "step %d: %v after the reload %s is registered as %+v, the loaded configuration says %+v", stepIdx, convergeGrace, n, *last, entries)
			return false
		}
		run.Count("registrations_content_checked", 1)
		e := entries[match]
		t := tracks[n]
		if e.Type == "tcp" && !e.Health {
			// which backend answers must be one the configuration names (duplicates may differ in nothing else)
			okIDs := map[string]bool{}
			for _, x := range entries {
				okIDs[fmt.Sprintf("B%d|", x.Backend)] = true
			}
			addr := fmt.Sprintf("127.0.0.1:%d", e.RemotePort)
			// persistent connection across unchanged reloads
			if t.conn != nil && t.connGen == t.gens {
				if err := echoOnce(t.conn); err != nil {
					key := "unchanged-entry-tunnel-interrupted"
					if t.dupUnchangedReload {
						key = "unchanged-duplicate-name-entry-restarted"
					}
					vio(key, "step %d: the connection through %s opened before the reload(s) is dead (%v) although the entry did not change", stepIdx, n, err)
					return false
				}
				run.Count("tunnel_connections_survived_reload", 1)
			} else {
				if t.conn != nil {
					t.conn.Close()
					t.conn = nil
				}
				var cn net.Conn
				var id string
				var err error
				for deadline := time.Now().Add(convergeGrace); ; { // polled like the tables above
					cn, err = net.DialTimeout("tcp", addr, 5*time.Second)
					if err == nil {
						id, err = h.AskIdentOn(cn, 10*time.Second)
					}
					if err == nil && okIDs[id] {
						break
					}
					if cn != nil {
						cn.Close()
					}
					if time.Now().After(deadline) {
						vio("registered-proxy-carries-no-traffic-to-configured-backend", "step %d: %v after the reload %s on %s answers %q / %v, configured backend(s) %v", stepIdx, convergeGrace, n, addr, id, err, setKeys(okIDs))
						return false
					}
					time.Sleep(50 * time.Millisecond)
				}
				t.conn, t.connGen = cn, t.gens
				run.Count("tunnel_connections_opened", 1)
			}
		}
	}

	// registration counts: one NewProxy per generation, unchanged entries are not registered again
	for _, n := range g.pnames {
		t := tracks[n]
		if t == nil {
			continue
		}
		if t.present && want[n] {
			if !t.curSettled {
				t.curSettled = true
				t.settled++
			}
		}
		at, cl := 0, 0
		h.Eventually(3*time.Second, func() bool { // close notifications are sent asynchronously by frps
			at, cl = regCounts(n)
			return cl >= t.endedSettled
		})
		entries := s.pByName(n)
		if len(entries) > 0 && entries[0].Health {
			if t.neverHealthySinceGen && at != t.attemptsAtGenStart {
				vio("registered-before-first-successful-probe", "step %d: %s has a health check whose target has refused every connection since the entry was added, yet %d NewProxy message(s) reached the server", stepIdx, n, at-t.attemptsAtGenStart)
				return false
			}
			continue
		}
		if t.health {
			continue
		}
		// legal repetitions (reply later than the reply timeout on a loaded machine, retry after a start
		// error) are not re-registrations of an unchanged entry: they are discounted through the phase log
		_, _, resent, retried := sendBreakdown(n)
		if resent+retried > 0 {
			run.Count("registrations_repeated_after_timeout_or_error", int64(resent+retried))
		}
		clientOrder := false
		for _, txt := range startErrorTexts(n) {
			// "proxy [x] already exists" / "port already used": the server still held the old registration
			// when the new one arrived. (Other texts, e.g. "port unavailable", are the server's own business.)
			if strings.Contains(txt, "already exists") || strings.Contains(txt, "already used") {
				clientOrder = true
			}
		}
		if retried > 0 && !clientOrder {
			run.Count("start_errors_not_caused_by_message_order", int64(retried))
		}
		if retried > 0 && clientOrder {
			// every name and port of the case is its own: the server has no reason to refuse anything, unless
			// the client sent its messages in an order that makes old and new registrations collide
			vio("start-error-without-cause-during-reload", "step %d: %s went through %d start error(s) because the server still held an older registration (names and ports of the history never collide when closes precede registrations); error texts %q, transitions %+v, server events %+v", stepIdx, n, retried, startErrorTexts(n), phaseHistory(n), regEvents(n))
			return false
		}
		if at > t.gens+resent+retried {
			key := "unchanged-entry-registered-again"
			what := "did not change"
			if t.dupUnchangedReload {
				key = "unchanged-duplicate-name-entry-restarted"
				what = "is listed more than once and the same list was reloaded unchanged"
			}
			vio(key, "step %d: %d NewProxy messages for %s reached the server, but the history started only %d generation(s) of it (%d repetitions after reply timeouts / start errors); the entry %s", stepIdx, at, n, t.gens, resent+retried, what)
			return false
		}
		if at < t.settled {
			vio("registration-count-below-generations", "step %d: %d NewProxy for %s, %d settled generations", stepIdx, at, n, t.settled)
			return false
		}
		if cl > t.ended {
			vio("unchanged-entry-closed-at-server", "step %d: the server closed %s %d time(s), the history ended only %d generation(s) of it", stepIdx, n, cl, t.ended)
			return false
		}
		if cl < t.endedSettled {
			vio("changed-entry-not-closed-at-server", "step %d: %d registered generation(s) of %s were removed or changed, the server closed only %d", stepIdx, t.endedSettled, n, cl)
			return false
		}
		run.Count("registration_counts_judged", 1)
	}

	// visitors: exactly the configured ones listen, and connect to the anchor
	wantV := map[int]string{}
	for _, v := range s.V {
		if _, dup := wantV[v.BindPort]; !dup {
			wantV[v.BindPort] = v.Name
		}
	}
	okV := h.Eventually(convergeGrace, func() bool {
		for _, p := range env.vports {
			if _, w := wantV[p]; !w && portAccepts(p) {
				return false
			}
		}
		return true
	})
	if !okV {
		for _, p := range env.vports {
			if _, w := wantV[p]; !w && portAccepts(p) {
				vio("removed-visitor-still-listening", "step %d: %v after the reload port %d belongs to no configured visitor but still accepts connections", stepIdx, convergeGrace, p)
				return false
			}
		}
	}
	for _, n := range g.vnames {
		t := vtracks[n]
		vs := s.vByName(n)
		if t == nil || len(vs) == 0 {
			if t != nil && t.conn != nil {
				t.conn.Close()
				t.conn = nil
			}
			continue
		}
		if t.conn != nil && t.connGen == t.gens {
			// an established connection survives a restart of its visitor, the listening socket does not
			if ino := listenInode(vs[0].BindPort); ino != "" && t.inode != "" && ino != t.inode {
				key := "unchanged-visitor-restarted"
				if len(vs) > 1 {
					key = "unchanged-duplicate-name-visitor-restarted"
				}
				vio(key, "step %d: visitor %s did not change, but the socket listening on its port %d is another one than before the reload(s) (inode %s -> %s)", stepIdx, n, vs[0].BindPort, t.inode, ino)
				return false
			}
			run.Count("visitor_listeners_unchanged", 1)
			if err := echoOnce(t.conn); err != nil {
				key := "unchanged-visitor-connection-interrupted"
				if len(vs) > 1 {
					key = "unchanged-duplicate-name-visitor-restarted"
				}
				vio(key, "step %d: the connection through visitor %s opened before the reload(s) is dead (%v) although the visitor did not change", stepIdx, n, err)
				return false
			}
			run.Count("visitor_connections_survived_reload", 1)
			continue
		}
		if t.conn != nil {
			t.conn.Close()
			t.conn = nil
		}
		addr := fmt.Sprintf("127.0.0.1:%d", vs[0].BindPort)
		cn, err := net.DialTimeout("tcp", addr, 5*time.Second)
		var id string
		if err == nil {
			id, err = h.AskIdentOn(cn, 10*time.Second)
		}
		if err != nil || id != "ANCHOR|"+env.pfx+"anchor" {
			if cn != nil {
				cn.Close()
			}
			key := "configured-visitor-carries-no-traffic"
			if err != nil && strings.Contains(err.Error(), "refused") {
				key = "configured-visitor-not-listening"
			}
			vio(key, "step %d: visitor %s on %s answered %q / %v", stepIdx, n, addr, id, err)
			return false
		}
		t.conn, t.connGen = cn, t.gens
		t.inode = listenInode(vs[0].BindPort)
		run.Count("visitor_connections_opened", 1)
	}
	return true
}

func echoOnce(cn net.Conn) error {
	_ = cn.SetDeadline(time.Now().Add(10 * time.Second))
	defer cn.SetDeadline(time.Time{})
	probe := []byte(fmt.Sprintf("echo-%012d", h.Now()%1e12))
	if _, err := cn.Write(probe); err != nil {
		return err
	}
	buf := make([]byte, len(probe))
	if _, err := io.ReadFull(cn, buf); err != nil {
		return err
	}
	if string(buf) != string(probe) {
		return fmt.Errorf("echo mismatch %q != %q", buf, probe)
	}
	return nil
}

func apiStatusNames(adminPort int) (map[string]string, error) {
	resp, err := ownHTTP.Get(fmt.Sprintf("http://127.0.0.1:%d/api/status", adminPort))
	if err != nil {
		return nil, err
	}
	defer resp.Body.Close()
	var m map[string][]struct {
		Name   string `json:"name"`
		Status string `json:"status"`
	}
	if err := json.NewDecoder(resp.Body).Decode(&m); err != nil {
		return nil, err
	}
	out := map[string]string{}
	for _, l := range m {
		for _, e := range l {
			out[e.Name] = e.Status
		}
	}
	return out, nil
}

func listedNames(m map[string]string) map[string]bool {
	o := map[string]bool{}
	for k := range m {
		o[k] = true
	}
	return o
}

// staleReplyCase: a real frps whose registration replies are late (the NewProxy plugin operation takes
// 400 ms). The entry is changed while the reply to its first registration is outstanding, and the port
// of the new version is taken at that moment, so frps answers: success (old request), error (new
// request). The error has to be retried after the back-off interval; the port is free by then.
func staleReplyCase(c *h.Case) {
	slot, blk, ok := reloadSlots.get()
	defer reloadSlots.put(slot)
	if !ok {
		run.Inconclusive("reload: port block still busy")
		return
	}
	pfx := fmt.Sprintf("c%d.", c.Idx)
	name := pfx + "p0"
	defer forgetRegs(pfx)
	defer forgetPhases(pfx)
	c.Data["kind"] = "changed-while-reply-outstanding (real frps, late replies)"
	b, err := h.StartTCPBackend(0, h.IdentEcho("B0"))
	if err != nil {
		run.Inconclusive("reload: backend did not start")
		return
	}
	defer b.Close()
	squat, err := net.Listen("tcp", "127.0.0.1:"+strconv.Itoa(blk[1]))
	if err != nil {
		run.Inconclusive("reload: cannot take the port")
		return
	}
	defer squat.Close()
	pluginDelay(pfx, 400*time.Millisecond)
	defer pluginDelay(pfx, 0)
	cfg := func(remote int) string {
		return fmt.Sprintf(`serverAddr = "127.0.0.1"
serverPort = %d
auth.token = "%s"
loginFailExit = false
transport.tls.enable = false

[[proxies]]
name = %q
type = "tcp"
localIP = "127.0.0.1"
localPort = %d
remotePort = %d
`, srv.Cfg.BindPort, token, name, b.Port, remote)
	}
	cli, err := h.StartClientText(prop, cfg(blk[0]))
	if err != nil {
		run.Inconclusive("reload: client did not start")
		return
	}
	defer cli.Close()
	if !h.Eventually(10*time.Second, func() bool { at, _ := regCounts(name); return at >= 1 }) {
		run.Inconclusive("reload: first registration not seen")
		return
	}
	_, pcs, vcs, err := h.LoadClientConfig(prop, cfg(blk[1]))
	if err != nil {
		run.Inconclusive("reload: configuration does not load")
		return
	}
	if err := cli.Svc.UpdateAllConfigurer(pcs, vcs); err != nil {
		viol(c, "reload-refused", "UpdateAllConfigurer returned %v", err)
		return
	}
	c.Ev("reload", "remotePort", blk[1], "while", "reply to the first NewProxy outstanding")
	if !h.Eventually(10*time.Second, func() bool { at, _ := regCounts(name); return at >= 2 }) {
		viol(c, "changed-entry-not-restarted", "%s changed (remotePort) while waiting for its reply: no second NewProxy reached the server", name)
		return
	}
	time.Sleep(1500 * time.Millisecond) // both replies are out by now
	c.Ev("state", "client_status", cli.ProxyPhase(name), "server", setKeys(liveNames(name)))
	squat.Close()
	if !h.Eventually(3*tStartErr+10*time.Second, func() bool { return liveNames(name)[name] }) {
		if _, _, resent, _ := sendBreakdown(name); resent > 0 {
			run.Inconclusive("reload: reply later than the reply timeout in the stale-reply scenario")
			return
		}
		st, _ := cli.Svc.StatusExporter().GetProxyStatus(name)
		c.Data["server_events"] = regEvents(name)
		c.Data["phases"] = phaseHistory(name)
		viol(c, "start-error-after-stale-reply-abandoned", "real frps, replies 400 ms late: %s was changed (remotePort %d -> %d) while the reply to its first registration was outstanding and port %d was taken at that moment. frps answered success (old request) then an error (new request). %v after the port became free the proxy is still not registered (server: %v) and the client reports status %q err %q: the old reply was taken for the new request and the start error was dropped instead of retried",
			name, blk[0], blk[1], blk[1], 3*tStartErr+10*time.Second, setKeys(liveNames(pfx)), st.Phase, st.Err)
		return
	}
	if err := cli.WaitRunning(10*time.Second, name); err != nil {
		if _, _, resent, _ := sendBreakdown(name); resent > 0 {
			// a reply took longer than the reply timeout (loaded machine): the request was repeated and the
			// scenario is no longer the one under test
			run.Inconclusive("reload: reply later than the reply timeout in the stale-reply scenario")
			return
		}
		viol(c, "status-not-running-for-registered-proxy", "%s is registered at the server but the status API reports %q", name, cli.ProxyPhase(name))
		return
	}
	if id, err := h.AskIdent(fmt.Sprintf("127.0.0.1:%d", blk[1]), 10*time.Second); err != nil || id != "B0|" {
		viol(c, "registered-proxy-carries-no-traffic-to-configured-backend", "%s on port %d answered %q / %v", name, blk[1], id, err)
		return
	}
	run.Count("stale_reply_real_server_cases", 1)
	run.Distinct("reload|stale-reply-real-server")
}

// portAccepts asks the operating system whether something listens on the loopback port.
func portAccepts(p int) bool {
	cn, err := net.DialTimeout("tcp", "127.0.0.1:"+strconv.Itoa(p), 2*time.Second)
	if err != nil {
		return false
	}
	cn.Close()
	return true
}

// healthDefaultsReloadCase: health-checked entries that leave intervalSeconds / timeoutSeconds / maxFailed
// partly or wholly unset (the code applies defaults 10 s / 3 s / 1). The identical configuration, parsed
// anew from its text (fresh objects, as a file reload builds them), is loaded several times: nothing may be
// closed or registered again at the server, and the tunnels opened before keep answering.
func healthDefaultsReloadCase(c *h.Case) {
	begin(c)
	rng := c.Rng
	slot, blk, ok := reloadSlots.get()
	defer reloadSlots.put(slot)
	if !ok {
		run.Inconclusive("reload: port block still busy")
		return
	}
	pfx := fmt.Sprintf("c%d.", c.Idx)
	defer forgetRegs(pfx)
	defer forgetPhases(pfx)
	b, err := h.StartTCPBackend(0, h.IdentEcho("HD")) // backend and health target at once
	if err != nil {
		run.Inconclusive("reload: backend did not start")
		return
	}
	defer b.Close()
	// which of the three numbers are written down (i = intervalSeconds, t = timeoutSeconds, m = maxFailed)
	combos := []string{"", "i", "it", "im", "tm", "itm", "t", "m"}
	rng.Shuffle(len(combos), func(i, j int) { combos[i], combos[j] = combos[j], combos[i] })
	combos = combos[:5]
	hasUnset := false
	for _, cb := range combos {
		if len(cb) < 3 {
			hasUnset = true
		}
	}
	if !hasUnset {
		combos[0] = ""
	}
	hcType := []string{"tcp", "tcp", "http"}[rng.Intn(3)]
	var hb *hback
	if hcType == "http" {
		hb, err = newHback(fmt.Sprintf("hd%d", c.Idx), 3*time.Second)
		if err != nil {
			run.Inconclusive("reload: health backend did not start")
			return
		}
		defer hb.Close()
	}
	var names []string
	var cfg strings.Builder
	fmt.Fprintf(&cfg, "serverAddr = \"127.0.0.1\"\nserverPort = %d\nauth.token = %q\nloginFailExit = false\ntransport.tls.enable = false\ntransport.poolCount = 1\n", srv.Cfg.BindPort, token)
	for i, cb := range combos {
		n := fmt.Sprintf("%shd%d", pfx, i)
		names = append(names, n)
		lport := b.Port
		fmt.Fprintf(&cfg, "\n[[proxies]]\nname = %q\ntype = \"tcp\"\nlocalIP = \"127.0.0.1\"\nremotePort = %d\nhealthCheck.type = %q\n", n, blk[i], hcType)
		if hcType == "http" {
			lport = hb.port
			fmt.Fprintf(&cfg, "healthCheck.path = %q\n", hb.path)
		}
		fmt.Fprintf(&cfg, "localPort = %d\n", lport)
		if strings.Contains(cb, "i") {
			cfg.WriteString("healthCheck.intervalSeconds = 1\n")
		}
		if strings.Contains(cb, "t") {
			cfg.WriteString("healthCheck.timeoutSeconds = 2\n")
		}
		if strings.Contains(cb, "m") {
			cfg.WriteString("healthCheck.maxFailed = 2\n")
		}
	}
	nReloads := 2 + rng.Intn(3)
	c.Data["kind"], c.Data["health_type"], c.Data["fields_written"], c.Data["reloads"] = "unchanged reload of health-checked entries with defaulted settings", hcType, combos, nReloads
	cli, err := h.StartClientText(prop, cfg.String())
	if err != nil {
		run.Inconclusive("reload: client did not start: " + err.Error())
		return
	}
	defer cli.Close()
	if err := cli.WaitRunning(convergeGrace, names...); err != nil {
		viol(c, "not-registered-after-successful-probe", "health-checked entries with a healthy backend are not running: %v", err)
		return
	}
	conns := map[string]net.Conn{}
	defer func() {
		for _, cn := range conns {
			cn.Close()
		}
	}()
	if hcType == "tcp" { // the backend speaks the ident/echo protocol: keep one tunnel connection per entry
		for i, n := range names {
			cn, err := net.DialTimeout("tcp", fmt.Sprintf("127.0.0.1:%d", blk[i]), 5*time.Second)
			var id string
			if err == nil {
				id, err = h.AskIdentOn(cn, 10*time.Second)
			}
			if err != nil || id != "HD|" {
				viol(c, "registered-proxy-carries-no-traffic-to-configured-backend", "%s on port %d answered %q / %v", n, blk[i], id, err)
				return
			}
			conns[n] = cn
		}
	}
	for _, n := range names {
		if at, cl := regCounts(n); at != 1 || cl != 0 {
			run.Inconclusive("reload: registration repeated before the reloads (loaded machine)")
			return
		}
	}
	for r := 1; r <= nReloads; r++ {
		_, pcs, vcs, err := h.LoadClientConfig(prop, cfg.String()) // fresh objects from the same text
		if err != nil {
			run.Inconclusive("reload: configuration does not load")
			return
		}
		if err := cli.Svc.UpdateAllConfigurer(pcs, vcs); err != nil {
			viol(c, "reload-refused", "UpdateAllConfigurer returned %v", err)
			return
		}
		c.Ev("reload", "round", r, "identical", true)
		run.Count("reloads", 1)
		time.Sleep(time.Duration(200+rng.Intn(500)) * time.Millisecond)
		for i, n := range names {
			at, cl := regCounts(n)
			var trans []string
			for _, p := range phaseHistory(n) {
				trans = append(trans, p.From+"->"+p.To)
			}
			written := combos[i]
			if written == "" {
				written = "none"
			}
			if at != 1 || cl != 0 {
				viol(c, "unchanged-health-checked-entry-restarted-on-reload", "%s (health check %s; of intervalSeconds/timeoutSeconds/maxFailed written down: %s): after reload number %d of the identical configuration text the server has seen %d NewProxy and %d CloseProxy for it (want 1 and 0); transitions %v", n, hcType, written, r, at, cl, trans)
				return
			}
			if ph := cli.ProxyPhase(n); ph != "running" {
				viol(c, "unchanged-health-checked-entry-restarted-on-reload", "%s (fields written: %s): status %q after reload number %d of the identical configuration; transitions %v", n, written, ph, r, trans)
				return
			}
			if cn := conns[n]; cn != nil {
				if err := echoOnce(cn); err != nil {
					viol(c, "unchanged-health-checked-entry-restarted-on-reload", "%s (fields written: %s): the tunnel connection opened before the reload is dead after reload number %d of the identical configuration: %v", n, written, r, err)
					return
				}
				run.Count("tunnel_connections_survived_reload", 1)
			}
		}
	}
	run.Count("health_default_reload_cases", 1)
	run.Distinct(fmt.Sprintf("reload|health-defaults|%s|%v|%d", hcType, combos, nReloads))
}
