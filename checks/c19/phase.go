package main

import (
	"fmt"
	"strings"
	"sync"
	"time"

	clientproxy "github.com/fatedier/frp/client/proxy"

	"verif/h"
)

// Legal-transition automaton over the client.wrapper.phase hook. The hook runs inside the wrapper's
// lock: the handler only records; verdicts are reported from a separate goroutine.

var legalNext = map[string]map[string]bool{
	"new":          {"wait start": true, "closed": true},
	"wait start":   {"running": true, "start error": true, "check failed": true, "wait start": true /* request sent again after the reply timeout */, "closed": true},
	"start error":  {"wait start": true, "closed": true},
	"running":      {"check failed": true, "closed": true},
	"check failed": {"wait start": true, "closed": true},
}

type phaseEv struct {
	T        int64 `json:"t"`
	W        int   `json:"wrapper"` // sequence number of the wrapper instance
	From, To string
}

type wstate struct {
	id    int
	name  string
	phase string
}

var (
	phaseMu    sync.Mutex
	wrappers   = map[any]*wstate{}
	phaseLog   = map[string][]phaseEv{} // proxy name -> transitions
	phaseSeq   int
	phaseBad   = make(chan [2]string, 256)
	phaseDone  = make(chan struct{})
	phaseCount int64
	phaseEdges = map[string]int64{}
	startErrs  = map[string][]string{} // proxy name -> error texts of its start errors
)

func startErrorTexts(name string) []string {
	phaseMu.Lock()
	defer phaseMu.Unlock()
	return append([]string(nil), startErrs[name]...)
}

func installPhaseMonitor() {
	h.OnHook("client.wrapper.phase", "", func(_ string, args []any) {
		if len(args) < 4 {
			return
		}
		name, _ := args[0].(string)
		from, _ := args[1].(string)
		to, _ := args[2].(string)
		ptr := args[3]
		now := h.Now()
		phaseMu.Lock()
		ws := wrappers[ptr]
		if ws == nil {
			phaseSeq++
			ws = &wstate{id: phaseSeq, name: name, phase: "new"}
			wrappers[ptr] = ws
		}
		var bad [2]string
		switch {
		case ws.phase == "closed":
			bad = [2]string{"phase-change-after-closed", fmt.Sprintf("proxy %s: transition %q -> %q reported after the wrapper was closed", name, from, to)}
		case from != ws.phase:
			bad = [2]string{"phase-history-inconsistent", fmt.Sprintf("proxy %s: transition %q -> %q, but the previous transition left the wrapper in %q", name, from, to, ws.phase)}
		case !legalNext[from][to]:
			bad = [2]string{"illegal-phase-transition:" + strings.ReplaceAll(from, " ", "-") + "->" + strings.ReplaceAll(to, " ", "-"), fmt.Sprintf("proxy %s: transition %q -> %q is not a legal status transition", name, from, to)}
		}
		ws.phase = to
		phaseLog[name] = append(phaseLog[name], phaseEv{T: now, W: ws.id, From: from, To: to})
		phaseCount++
		phaseEdges[from+"->"+to]++
		phaseMu.Unlock()
		if bad[0] != "" {
			select {
			case phaseBad <- bad:
			default:
			}
		}
		if to == "start error" {
			// the error text is stored right after the hook returns; fetch it for diagnostics
			if pw, ok := ptr.(*clientproxy.Wrapper); ok {
				go func() {
					time.Sleep(20 * time.Millisecond)
					if st := pw.GetStatus(); st.Err != "" {
						phaseMu.Lock()
						startErrs[name] = append(startErrs[name], st.Err)
						phaseMu.Unlock()
					}
				}()
			}
		}
	})
	go func() {
		defer close(phaseDone)
		for b := range phaseBad {
			run.Violation(b[0], "%s", b[1])
		}
	}()
}

// phaseHistory returns the transitions recorded for a proxy name.
func phaseHistory(name string) []phaseEv {
	phaseMu.Lock()
	defer phaseMu.Unlock()
	return append([]phaseEv(nil), phaseLog[name]...)
}

// lastPhase returns the phase of the newest wrapper of a name according to the hook ("" = none).
func lastPhase(name string) string {
	phaseMu.Lock()
	defer phaseMu.Unlock()
	l := phaseLog[name]
	if len(l) == 0 {
		return ""
	}
	return l[len(l)-1].To
}

func forgetPhases(prefix string) {
	phaseMu.Lock()
	for n := range phaseLog {
		if strings.HasPrefix(n, prefix) {
			delete(phaseLog, n)
		}
	}
	phaseMu.Unlock() // wrapper states stay: a transition after "closed" must remain detectable
}

func finishPhaseMonitor() {
	close(phaseBad)
	<-phaseDone
	phaseMu.Lock()
	run.Count("phase_transitions", phaseCount)
	edges := map[string]int64{}
	for k, v := range phaseEdges {
		edges[k] = v
	}
	phaseMu.Unlock()
	run.Set("phase_edges", edges)
}

// sendBreakdown classifies the NewProxy messages a proxy name has sent according to the recorded
// transitions: first registrations of a wrapper instance, registrations after a health recovery,
// repetitions after the reply timeout and retries after a start error.
func sendBreakdown(name string) (fresh, revived, resent, retried int) {
	for _, p := range phaseHistory(name) {
		if p.To != "wait start" {
			continue
		}
		switch p.From {
		case "new":
			fresh++
		case "check failed":
			revived++
		case "wait start":
			resent++
		case "start error":
			retried++
		}
	}
	return
}
