package main

import (
	"bufio"
	"fmt"
	"io"
	"net"
	"net/http"
	"strings"
	"sync"
	"time"

	"github.com/fatedier/frp/pkg/msg"

	"verif/h"
)

// A real frpc against a scripted server: the replies to NewProxy are success, error, late or missing,
// reloads are applied while replies are outstanding, and work connections are offered for proxies
// that are stopped, unhealthy or running. The server side records the exact message stream.

type streamEv struct {
	T    int64  `json:"t"`
	Kind string `json:"kind"` // new | close
	Name string `json:"name"`
	Meta string `json:"meta,omitempty"`
	N    int    `json:"n"` // number of this NewProxy for the name (1-based)
}

type heldReply struct {
	name string
	n    int
}

type fakeCtl struct {
	mu        sync.Mutex
	fs        *h.FakeServer
	sess      *h.FakeSession
	stream    []streamEv
	policy    map[string][]string // name -> reply policy per arrival ("ok" | "err" | "silent" | "hold"); beyond the list: ok
	errSent   map[string][]int64  // instants right before an error reply was written
	okSent    map[string][]int64
	workQ     []chan workResult
	workReq   []string
	onLogin   func() // runs right before the LoginResp is written
	lateDelay time.Duration
	counts    map[string]int

	// churn mode: per name one byte per message (N = NewProxy with the original metadatas, n = NewProxy with
	// other metadatas, C = CloseProxy); every NewProxy is answered with success at once
	compact     map[string][]byte
	compactMeta string
	compactN    int64
}

type workResult struct {
	outcome string // bridged | closed | timeout | error
	detail  string
}

func (f *fakeCtl) arrivals(name string) []streamEv {
	f.mu.Lock()
	defer f.mu.Unlock()
	var o []streamEv
	for _, e := range f.stream {
		if e.Kind == "new" && e.Name == name {
			o = append(o, e)
		}
	}
	return o
}

func (f *fakeCtl) closes(name string) []streamEv {
	f.mu.Lock()
	defer f.mu.Unlock()
	var o []streamEv
	for _, e := range f.stream {
		if e.Kind == "close" && e.Name == name {
			o = append(o, e)
		}
	}
	return o
}

func (f *fakeCtl) streamOf(name string) string {
	f.mu.Lock()
	defer f.mu.Unlock()
	var b strings.Builder
	for _, e := range f.stream {
		if e.Name == name {
			if e.Kind == "new" {
				b.WriteByte('N')
			} else {
				b.WriteByte('C')
			}
		}
	}
	return b.String()
}

func (f *fakeCtl) streamLen() int { f.mu.Lock(); defer f.mu.Unlock(); return len(f.stream) }

func (f *fakeCtl) snapshot() []streamEv {
	f.mu.Lock()
	defer f.mu.Unlock()
	return append([]streamEv(nil), f.stream...)
}

func (f *fakeCtl) reply(name string, errText string) {
	f.mu.Lock()
	s := f.sess
	if f.compact != nil {
		f.mu.Unlock()
		if s != nil {
			_ = s.Send(&msg.NewProxyResp{ProxyName: name, RemoteAddr: ":7000"})
		}
		return
	}
	if errText != "" {
		f.errSent[name] = append(f.errSent[name], h.Now())
	} else {
		f.okSent[name] = append(f.okSent[name], h.Now())
	}
	f.mu.Unlock()
	if s != nil {
		_ = s.Send(&msg.NewProxyResp{ProxyName: name, RemoteAddr: ":7000", Error: errText})
	}
}

func (f *fakeCtl) session(s *h.FakeSession) {
	f.mu.Lock()
	f.sess = s
	f.mu.Unlock()
	for {
		m, err := s.Box.Wait(120*time.Second, func(msg.Message) bool { return true })
		if err != nil {
			return
		}
		switch v := m.(type) {
		case *msg.NewProxy:
			f.mu.Lock()
			if f.compact != nil { // churn: one byte per message, prompt success
				b := byte('N')
				if v.Metas["m"] != f.compactMeta {
					b = 'n'
				}
				f.compact[v.ProxyName] = append(f.compact[v.ProxyName], b)
				f.compactN++
				f.mu.Unlock()
				f.reply(v.ProxyName, "")
				continue
			}
			if f.counts == nil {
				f.counts = map[string]int{}
			}
			f.counts[v.ProxyName]++
			n := f.counts[v.ProxyName]
			f.stream = append(f.stream, streamEv{T: h.Now(), Kind: "new", Name: v.ProxyName, Meta: v.Metas["m"], N: n})
			pol := "ok"
			if l := f.policy[v.ProxyName]; n-1 < len(l) {
				pol = l[n-1]
			}
			f.mu.Unlock()
			run.Count("scripted_NewProxy_seen", 1)
			switch pol {
			case "ok":
				f.reply(v.ProxyName, "")
			case "err":
				f.reply(v.ProxyName, "port unavailable")
			case "lateerr": // the refusal takes a while (inside the client's reply timeout)
				name, d := v.ProxyName, f.lateDelay
				go func() {
					time.Sleep(d)
					f.reply(name, "port unavailable")
				}()
			case "silent", "hold":
			}
		case *msg.CloseProxy:
			f.mu.Lock()
			if f.compact != nil {
				f.compact[v.ProxyName] = append(f.compact[v.ProxyName], 'C')
				f.compactN++
				f.mu.Unlock()
				continue
			}
			f.stream = append(f.stream, streamEv{T: h.Now(), Kind: "close", Name: v.ProxyName})
			f.mu.Unlock()
			run.Count("scripted_CloseProxy_seen", 1)
		case *msg.Ping:
			_ = s.Send(&msg.Pong{})
		}
	}
}

// offerWork makes the client open a work connection, announces it for proxy `name` and reports what
// the client did with it. httpBackend: the proxy's backend speaks HTTP (hback) instead of the ident echo.
func (f *fakeCtl) offerWork(name string, httpBackend bool) workResult {
	ch := make(chan workResult, 1)
	f.mu.Lock()
	f.workQ = append(f.workQ, ch)
	f.workReq = append(f.workReq, name)
	if httpBackend {
		f.workReq[len(f.workReq)-1] = "http:" + name
	}
	s := f.sess
	f.mu.Unlock()
	if s == nil || s.Send(&msg.ReqWorkConn{}) != nil {
		return workResult{"error", "no session"}
	}
	select {
	case r := <-ch:
		return r
	case <-time.After(30 * time.Second):
		return workResult{"timeout", "client opened no work connection"}
	}
}

func (f *fakeCtl) onWorkConn(_ *h.FakeServer, conn net.Conn, _ *msg.NewWorkConn) {
	defer conn.Close()
	f.mu.Lock()
	if len(f.workQ) == 0 {
		f.mu.Unlock()
		return
	}
	ch, name := f.workQ[0], f.workReq[0]
	f.workQ, f.workReq = f.workQ[1:], f.workReq[1:]
	f.mu.Unlock()
	isHTTP := strings.HasPrefix(name, "http:")
	name = strings.TrimPrefix(name, "http:")
	if err := msg.WriteMsg(conn, &msg.StartWorkConn{ProxyName: name, SrcAddr: "127.0.0.1", SrcPort: 5555, DstAddr: "127.0.0.1", DstPort: 7000}); err != nil {
		ch <- workResult{"closed", "write StartWorkConn: " + err.Error()}
		return
	}
	if isHTTP {
		_ = conn.SetDeadline(time.Now().Add(10 * time.Second))
		if _, err := conn.Write([]byte("GET /user HTTP/1.0\r\nHost: x\r\n\r\n")); err != nil {
			ch <- workResult{"closed", err.Error()}
			return
		}
		resp, err := http.ReadResponse(bufio.NewReader(conn), nil)
		if err != nil {
			if ne, ok := err.(net.Error); ok && ne.Timeout() {
				ch <- workResult{"timeout", err.Error()}
			} else {
				ch <- workResult{"closed", err.Error()}
			}
			return
		}
		b, _ := io.ReadAll(resp.Body)
		ch <- workResult{"bridged", string(b)}
		return
	}
	id, err := h.AskIdentOn(conn, 10*time.Second)
	switch {
	case err == nil:
		ch <- workResult{"bridged", id}
	case strings.Contains(err.Error(), "timeout"):
		ch <- workResult{"timeout", err.Error()}
	default:
		ch <- workResult{"closed", err.Error()}
	}
}

// ---------------------------------------------------------------------------------------------

var scriptedSlots = newSlotPool(32, 29700, 2)

type sEnv struct {
	c       *h.Case
	f       *fakeCtl
	cli     *h.Client
	pfx     string
	port    int
	backend *h.TCPBackend
	hb      *hback // backend of the health-checked proxy (nil = none)
	metas   map[string]string
	names   []string // configured plain proxies, in order
	withHC  bool
	hcMax   int
	hcHold  bool // the reply to the health-checked proxy's first registration is held back
}

func (e *sEnv) cfgText() string {
	var b strings.Builder
	fmt.Fprintf(&b, `serverAddr = "127.0.0.1"
serverPort = %d
auth.token = "%s"
loginFailExit = false
transport.tls.enable = false
transport.poolCount = 0
`, e.port, token)
	for _, n := range e.names {
		fmt.Fprintf(&b, "\n[[proxies]]\nname = %q\ntype = \"tcp\"\nlocalIP = \"127.0.0.1\"\nlocalPort = %d\nremotePort = %d\nmetadatas.m = %q\n", n, e.backend.Port, 7000+int(n[len(n)-1]-'a'), e.metas[n])
	}
	if e.withHC {
		fmt.Fprintf(&b, "\n[[proxies]]\nname = %q\ntype = \"tcp\"\nlocalIP = \"127.0.0.1\"\nlocalPort = %d\nremotePort = 7100\nmetadatas.m = \"hc\"\nhealthCheck.type = \"http\"\nhealthCheck.path = %q\nhealthCheck.intervalSeconds = 1\nhealthCheck.timeoutSeconds = 1\nhealthCheck.maxFailed = %d\n",
			e.pfx+"hc", e.hb.port, e.hb.path, e.hcMax)
	}
	return b.String()
}

func (e *sEnv) reload() bool {
	_, pcs, vcs, err := h.LoadClientConfig(prop, e.cfgText())
	if err != nil {
		run.Inconclusive("scripted: configuration does not load: " + err.Error())
		return false
	}
	if err := e.cli.Svc.UpdateAllConfigurer(pcs, vcs); err != nil {
		viol(e.c, "reload-refused", "UpdateAllConfigurer returned %v", err)
		return false
	}
	e.c.Ev("reload", "names", append([]string(nil), e.names...), "metas", fmt.Sprint(e.metas))
	run.Count("reloads", 1)
	return true
}

func (e *sEnv) fail(key, format string, args ...any) {
	e.c.Data["stream"] = e.f.snapshot()
	ph := map[string][]phaseEv{}
	for _, n := range append(append([]string(nil), e.names...), e.pfx+"hc", e.pfx+"a", e.pfx+"b", e.pfx+"c") {
		if l := phaseHistory(n); len(l) > 0 {
			ph[n] = l
		}
	}
	e.c.Data["phases"] = ph
	viol(e.c, key, format, args...)
}

func (e *sEnv) phase(n string) string { return e.cli.ProxyPhase(n) }

func (e *sEnv) waitPhase(n, want string, d time.Duration) bool {
	return h.Eventually(d, func() bool { return e.phase(n) == want })
}

const (
	retryGrace = 3*tStartErr + 10*time.Second
	respGrace  = 3*tWaitResp + 10*time.Second
)

func scriptedCase(c *h.Case) {
	begin(c)
	rng := c.Rng
	slot, blk, ok := scriptedSlots.get()
	defer scriptedSlots.put(slot)
	if !ok {
		run.Inconclusive("scripted: port still busy")
		return
	}
	pfx := fmt.Sprintf("c%d.", c.Idx)
	defer forgetPhases(pfx)
	f := &fakeCtl{policy: map[string][]string{}, errSent: map[string][]int64{}, okSent: map[string][]int64{}}
	templates := []string{"start-error", "missing-reply", "removed-while-outstanding", "changed-while-outstanding", "health-gated-work-conn", "unchanged-reload", "reload-during-login", "reload-during-login", "start-error-then-health-flap", "start-error-late-reply"}
	tpl := templates[rng.Intn(len(templates))]
	if c.Idx-baseScripted < len(templates) {
		tpl = templates[c.Idx-baseScripted] // every template at least once in every run
	}
	a, b, cc := pfx+"a", pfx+"b", pfx+"c"
	e := &sEnv{c: c, f: f, pfx: pfx, port: blk[0], metas: map[string]string{a: "a0", b: "b0", cc: "c0"}, names: []string{a, b, cc}}
	c.Data["kind"], c.Data["template"] = "scripted", tpl

	var err error
	e.backend, err = h.StartTCPBackend(0, h.IdentEcho("BK"))
	if err != nil {
		run.Inconclusive("scripted: backend did not start")
		return
	}
	defer e.backend.Close()

	// template parameters and reply policies must exist before the client starts
	k := 1 + rng.Intn(3)
	if !run.Thorough() && k == 3 {
		k = 2 // the back-off is 5 s: three errors in a row are left to the thorough tier
	}
	lateKind := rng.Intn(3)
	switch tpl {
	case "start-error":
		for i := 0; i < k; i++ {
			f.policy[a] = append(f.policy[a], "err")
		}
		c.Data["errors"] = k
	case "start-error-late-reply":
		// the error answer arrives 40-54 % of the back-off interval after the request (the reply timeout of
		// 3 s must not expire first): the back-off runs from the refusal, not from the request
		k = 1
		f.lateDelay = tStartErr*40/100 + time.Duration(rng.Int63n(int64(tStartErr*14/100)))
		f.policy[a] = []string{"lateerr"}
		c.Data["error_reply_delay"] = f.lateDelay.String()
	case "missing-reply":
		f.policy[a] = []string{"silent"}
		c.Data["late_reply"] = []string{"none", "success", "error"}[lateKind]
	case "removed-while-outstanding", "changed-while-outstanding":
		f.policy[a] = []string{"hold"}
	case "health-gated-work-conn":
		e.withHC = true
		e.hcMax = 1 + rng.Intn(2)
		e.hb, err = newHback(fmt.Sprintf("s%d", c.Idx), time.Second)
		if err != nil {
			run.Inconclusive("scripted: health backend did not start")
			return
		}
		defer e.hb.Close()
		e.hb.extend("", "NT"[rng.Intn(2)], rng) // unhealthy (but accepting tcp connections) from the start
		e.hcHold = rng.Intn(2) == 0
		if e.hcHold {
			f.policy[pfx+"hc"] = []string{"hold", "hold", "hold", "hold", "hold", "hold"}
		}
		c.Data["hc_maxFailed"], c.Data["hc_hold_first_reply"] = e.hcMax, e.hcHold
	case "start-error-then-health-flap":
		e.withHC = true
		e.hcMax = 1 + rng.Intn(2)
		e.hb, err = newHback(fmt.Sprintf("s%d", c.Idx), time.Second)
		if err != nil {
			run.Inconclusive("scripted: health backend did not start")
			return
		}
		defer e.hb.Close() // healthy from the start
		f.policy[pfx+"hc"] = []string{"err"}
		c.Data["hc_maxFailed"] = e.hcMax
	}

	f.fs, err = h.StartFakeServer(h.FakeServerOpts{Port: e.port, Token: token, TCPMux: true, OnSession: f.session, OnWorkConn: f.onWorkConn,
		OnLogin: func(*h.FakeServer, *msg.Login) (*msg.LoginResp, bool) {
			f.mu.Lock()
			fn := f.onLogin
			f.mu.Unlock()
			if fn != nil {
				fn()
			}
			return nil, true
		}})
	if err != nil {
		run.Inconclusive("scripted: fake server did not start")
		return
	}
	defer f.fs.Close()
	e.cli, err = h.StartClientText(prop, e.cfgText())
	if err != nil {
		run.Inconclusive("scripted: client did not start: " + err.Error())
		return
	}
	defer e.cli.Close()
	// the untouched proxies b and c must come up in every template
	if err := e.cli.WaitRunning(15*time.Second, b, cc); err != nil {
		e.fail("configured-proxy-not-started", "proxies with prompt successful replies are not running: %v", err)
		return
	}
	sigExtra := ""
	okRun := false
	switch tpl {
	case "start-error":
		okRun = tplStartError(e, a, k, false)
		sigExtra = fmt.Sprint(k)
	case "start-error-late-reply":
		okRun = tplStartError(e, a, 1, true)
		sigExtra = fmt.Sprint(f.lateDelay / (100 * time.Millisecond))
	case "missing-reply":
		okRun = tplMissingReply(e, a, lateKind)
		sigExtra = fmt.Sprint(lateKind)
	case "removed-while-outstanding":
		okRun = tplRemovedOutstanding(e, a, rng.Intn(2) == 0)
	case "changed-while-outstanding":
		staleThenErr := rng.Intn(2) == 0
		if c.Idx-baseScripted < len(templates) {
			staleThenErr = true
		}
		okRun = tplChangedOutstanding(e, a, staleThenErr)
		sigExtra = fmt.Sprint(staleThenErr)
	case "health-gated-work-conn":
		okRun = tplHealthGated(e)
		sigExtra = fmt.Sprint(e.hcMax, e.hcHold)
	case "unchanged-reload":
		okRun = tplUnchanged(e, rng.Intn(3))
	case "reload-during-login":
		okRun = tplReloadDuringLogin(e)
	case "start-error-then-health-flap":
		okRun = tplStartErrorHealthFlap(e)
		sigExtra = fmt.Sprint(e.hcMax)
	}
	if !okRun {
		return
	}
	// common end of every template: the untouched proxies were registered exactly once and never closed
	for _, n := range []string{b, cc} {
		if tpl == "reload-during-login" {
			break // sessions are cut on purpose there
		}
		if s := f.streamOf(n); s != "N" {
			e.fail("unchanged-entry-registered-again", "message stream of the untouched proxy %s is %q (N = NewProxy, C = CloseProxy), want a single registration", n, s)
			return
		}
		if r := f.offerWork(n, false); r.outcome != "bridged" || r.detail != "BK|" {
			e.fail("running-proxy-refuses-work-connection", "work connection for the running proxy %s: %s %q", n, r.outcome, r.detail)
			return
		}
		run.Count("work_connections_bridged", 1)
	}
	// ledger of the message streams at quiescence, in every template: the last message of a name is a
	// NewProxy iff the final configuration contains the name (with that content), else a CloseProxy or nothing
	time.Sleep(3 * tCheck)
	final := map[string]bool{}
	for _, n := range e.names {
		final[n] = true
	}
	lastOf := map[string]streamEv{}
	for _, ev := range f.snapshot() {
		lastOf[ev.Name] = ev
	}
	for n, ev := range lastOf {
		if n == pfx+"hc" {
			continue // follows its health check: judged inside the template
		}
		if final[n] && (ev.Kind != "new" || ev.Meta != e.metas[n]) {
			e.fail("final-stream-ledger-configured-entry-not-registered", "%s is configured with metadatas %q; the last message for it is %s (metadatas %q), stream %q", n, e.metas[n], ev.Kind, ev.Meta, f.streamOf(n))
			return
		}
		if !final[n] && ev.Kind == "new" {
			e.fail("registration-sent-after-stop", "%s is not in the final configuration, but the last message the server got for it is a NewProxy (stream %q): the server keeps a proxy the client no longer tracks", n, f.streamOf(n))
			return
		}
	}
	run.Count("scripted_cases", 1)
	run.Distinct("scripted|" + tpl + "|" + sigExtra + "|" + fmt.Sprint(c.Idx%7))
	if c.Idx-baseScripted < len(templates) {
		run.Sample(map[string]any{"kind": "scripted", "template": tpl, "stream": f.snapshot()})
	}
}

// start error x k, then success: every retry waits for the back-off interval, none is abandoned
func tplStartError(e *sEnv, a string, k int, late bool) bool {
	f := e.f
	sawStartErr := false
	for i := 0; i < k; i++ {
		if !h.Eventually(retryGrace, func() bool { return len(f.arrivals(a)) >= i+1 }) {
			e.fail("start-error-not-retried", "%s: %v after error reply number %d no further NewProxy arrived; status %q", a, retryGrace, i, e.phase(a))
			return false
		}
		if e.waitPhase(a, "start error", 2*time.Second) {
			sawStartErr = true
			if st, ok := e.cli.Svc.StatusExporter().GetProxyStatus(a); ok && st.Phase == "start error" && st.Err == "" {
				e.fail("start-error-without-error-text", "%s: status start error with an empty error text", a)
				return false
			}
		}
	}
	if !h.Eventually(retryGrace, func() bool { return len(f.arrivals(a)) >= k+1 }) {
		e.fail("start-error-not-retried", "%s: %v after error reply number %d no further NewProxy arrived; status %q", a, retryGrace, k, e.phase(a))
		return false
	}
	if !e.waitPhase(a, "running", 10*time.Second) {
		e.fail("not-running-after-successful-reply", "%s: successful reply to retry %d, status %q", a, k, e.phase(a))
		return false
	}
	ar := f.arrivals(a)
	f.mu.Lock()
	errs := append([]int64(nil), f.errSent[a]...)
	f.mu.Unlock()
	if late {
		if _, _, resent, _ := sendBreakdown(a); resent > 0 {
			run.Inconclusive("scripted: the late error reply came later than the reply timeout")
			return false
		}
	}
	for i := 0; i < k && i < len(errs) && i+1 < len(ar); i++ {
		if gap := time.Duration(ar[i+1].T - errs[i]); gap < tStartErr {
			if late {
				e.fail("start-error-retried-before-backoff-after-late-reply", "%s: the server sent its error reply %v after the registration had arrived; the next NewProxy arrived %v after that error reply, the back-off interval is %v (measured from the request it would be %v)", a, time.Duration(errs[i]-ar[i].T).Round(time.Millisecond), gap.Round(time.Millisecond), tStartErr, time.Duration(ar[i+1].T-ar[i].T).Round(time.Millisecond))
				return false
			}
			e.fail("start-error-retried-before-back-off", "%s: retry %d arrived %v after the error reply was sent, the back-off interval is %v", a, i+1, gap, tStartErr)
			return false
		}
		run.Count("start_error_retries_timed", 1)
	}
	time.Sleep(3 * tCheck)
	if s := f.streamOf(a); s != strings.Repeat("N", k+1) {
		e.fail("start-error-message-stream", "%s: message stream %q, want %d registrations and no close", a, s, k+1)
		return false
	}
	if !sawStartErr {
		run.Count("start_error_status_not_sampled", 1)
	}
	if r := f.offerWork(a, false); r.outcome != "bridged" {
		e.fail("running-proxy-refuses-work-connection", "work connection for %s after its start errors: %s %q", a, r.outcome, r.detail)
		return false
	}
	return true
}

// no reply to the first NewProxy: sent again after the reply timeout, not earlier; a late first reply is ignored
func tplMissingReply(e *sEnv, a string, lateKind int) bool {
	f := e.f
	if !h.Eventually(respGrace, func() bool { return len(f.arrivals(a)) >= 2 }) {
		e.fail("missing-reply-not-retried", "%s: %v without a reply, NewProxy was not sent again; status %q", a, respGrace, e.phase(a))
		return false
	}
	// client-side instants of the two sends (phase hook)
	var sends []int64
	for _, p := range phaseHistory(a) {
		if p.To == "wait start" {
			sends = append(sends, p.T)
		}
	}
	if len(sends) >= 2 {
		if gap := time.Duration(sends[1] - sends[0]); gap < tWaitResp/2 {
			e.fail("registration-repeated-before-reply-timeout", "%s: NewProxy sent again %v after the first one, the reply timeout is %v", a, gap, tWaitResp)
			return false
		}
		run.Count("reply_timeouts_timed", 1)
	}
	if !e.waitPhase(a, "running", 10*time.Second) {
		e.fail("not-running-after-successful-reply", "%s: successful reply to the repeated NewProxy, status %q", a, e.phase(a))
		return false
	}
	switch lateKind {
	case 1:
		f.reply(a, "")
	case 2:
		f.reply(a, "late error for a request that was answered already")
	}
	before := f.streamLen()
	time.Sleep(5*tCheck + 200*time.Millisecond)
	if ph := e.phase(a); ph != "running" {
		e.fail("late-reply-changes-running-proxy", "%s: a second (late) reply moved the running proxy to %q", a, ph)
		return false
	}
	if f.streamLen() != before {
		e.fail("late-reply-causes-messages", "%s: messages after a late reply to a running proxy: %+v", a, f.snapshot()[before:])
		return false
	}
	return true
}

// the proxy is removed by a reload while its registration reply is outstanding
func tplRemovedOutstanding(e *sEnv, a string, replyOK bool) bool {
	f := e.f
	if !h.Eventually(15*time.Second, func() bool { return len(f.arrivals(a)) >= 1 }) {
		e.fail("configured-proxy-not-started", "%s: no NewProxy", a)
		return false
	}
	e.names = []string{e.pfx + "b", e.pfx + "c"}
	if !e.reload() {
		return false
	}
	if !h.Eventually(15*time.Second, func() bool { return len(f.closes(a)) >= 1 }) {
		e.fail("removed-proxy-not-closed-at-server", "%s was removed from the configuration while waiting for its reply: no CloseProxy reached the server within 15 s (stream %q)", a, f.streamOf(a))
		return false
	}
	if replyOK {
		f.reply(a, "")
	} else {
		f.reply(a, "port unavailable")
	}
	accepts := e.backend.Accepts.Load()
	time.Sleep(tWaitResp + 5*tCheck)
	if s := f.streamOf(a); s != "NC" {
		e.fail("stopped-proxy-sends-registration", "%s was removed (reply arrived after the removal): message stream %q, want NC", a, s)
		return false
	}
	if _, ok := e.cli.Svc.StatusExporter().GetProxyStatus(a); ok {
		e.fail("status-api-lists-other-than-configured", "%s was removed but still has a status: %q", a, e.phase(a))
		return false
	}
	r := f.offerWork(a, false)
	if r.outcome == "bridged" || e.backend.Accepts.Load() != accepts {
		e.fail("stopped-proxy-accepts-work-connection", "work connection announced for the removed proxy %s: %s %q, backend connections %d -> %d", a, r.outcome, r.detail, accepts, e.backend.Accepts.Load())
		return false
	}
	if r.outcome != "closed" {
		e.fail("work-connection-for-stopped-proxy-left-open", "work connection announced for the removed proxy %s: %s %q", a, r.outcome, r.detail)
		return false
	}
	run.Count("work_connections_refused_by_stopped_proxy", 1)
	// added again: a new entry is started
	e.names = []string{a, e.pfx + "b", e.pfx + "c"}
	if !e.reload() {
		return false
	}
	if !e.waitPhase(a, "running", 15*time.Second) {
		e.fail("configured-proxy-not-started", "%s was added again, status %q, stream %q", a, e.phase(a), f.streamOf(a))
		return false
	}
	if s := f.streamOf(a); s != "NCN" {
		e.fail("stopped-proxy-sends-registration", "%s: message stream %q, want NCN", a, s)
		return false
	}
	return true
}

// the proxy is changed by a reload while the reply to the old registration is outstanding
func tplChangedOutstanding(e *sEnv, a string, staleThenErr bool) bool {
	f := e.f
	if !h.Eventually(15*time.Second, func() bool { return len(f.arrivals(a)) >= 1 }) {
		e.fail("configured-proxy-not-started", "%s: no NewProxy", a)
		return false
	}
	if staleThenErr {
		f.mu.Lock()
		f.policy[a] = []string{"hold", "hold"}
		f.mu.Unlock()
	}
	e.metas[a] = "a1"
	if !e.reload() {
		return false
	}
	if !h.Eventually(15*time.Second, func() bool { return len(f.arrivals(a)) >= 2 && len(f.closes(a)) >= 1 }) {
		e.fail("changed-entry-not-restarted", "%s changed (metadatas) while waiting for its reply: stream %q after 15 s, want NCN", a, f.streamOf(a))
		return false
	}
	if s := f.streamOf(a); s != "NCN" {
		e.fail("changed-entry-message-order", "%s changed while waiting for its reply: stream %q, want NCN", a, s)
		return false
	}
	if ar := f.arrivals(a); ar[1].Meta != "a1" {
		e.fail("registered-with-stale-configuration", "%s: second NewProxy carries metadatas %q, configuration says a1", a, ar[1].Meta)
		return false
	}
	if !staleThenErr {
		// what a real server does when everything succeeds: reply to the old request, then (the second was answered by policy) nothing else
		f.reply(a, "")
		if !e.waitPhase(a, "running", 10*time.Second) {
			e.fail("not-running-after-successful-reply", "%s: status %q", a, e.phase(a))
			return false
		}
		time.Sleep(3 * tCheck)
		if s := f.streamOf(a); s != "NCN" {
			e.fail("unchanged-entry-registered-again", "%s: stream %q after both replies, want NCN", a, s)
			return false
		}
		return true
	}
	// the server registered the old version, closed it, and refuses the new one (its port was taken meanwhile):
	// success for request 1, error for request 2, in this order, as frps would send them
	f.reply(a, "")
	f.reply(a, "port unavailable")
	// the error belongs to the running configuration: it has to be retried after the back-off interval
	if !h.Eventually(retryGrace, func() bool { return len(f.arrivals(a)) >= 3 }) {
		e.fail("start-error-after-stale-reply-abandoned", "%s was changed while the reply to its old registration was outstanding; the server then answered success (old request) and 'port unavailable' (new request). %v later the client has not retried: status %q, stream %q. The old reply was taken for the new request and the error was dropped", a, retryGrace, e.phase(a), f.streamOf(a))
		return false
	}
	if !e.waitPhase(a, "running", 10*time.Second) {
		e.fail("not-running-after-successful-reply", "%s: status %q", a, e.phase(a))
		return false
	}
	return true
}

// a health-checked proxy whose backend accepts tcp connections but fails the http health check
func tplHealthGated(e *sEnv) bool {
	f := e.f
	n := e.pfx + "hc"
	rng := e.c.R.RandFor("hcgate", e.c.Idx)
	if !h.Eventually(30*time.Second, func() bool { return e.hb.nProbes() >= 2 }) {
		run.Inconclusive("scripted: no probes")
		return false
	}
	if s := f.streamOf(n); s != "" {
		e.fail("registered-before-first-successful-probe", "%s: every probe failed so far, message stream %q", n, s)
		return false
	}
	other := e.hb.other.Load()
	r := f.offerWork(n, true)
	if r.outcome == "bridged" || e.hb.other.Load() != other {
		e.fail("unhealthy-proxy-accepts-work-connection", "work connection announced for %s before its first successful probe: %s %q", n, r.outcome, r.detail)
		return false
	}
	run.Count("work_connections_refused_by_unhealthy_proxy", 1)
	e.hb.extend("S", 'S', rng)
	if !h.Eventually(gateGrace, func() bool { return len(f.arrivals(n)) >= 1 }) {
		e.fail("not-registered-after-successful-probe", "%s: health check succeeds for %v, no NewProxy; status %q", n, gateGrace, e.phase(n))
		return false
	}
	if e.hcHold {
		// the health check fails again while the registration reply is outstanding: the server may have
		// registered the proxy, so it has to be told to close it, and the late reply must change nothing
		var s string
		for i := 0; i < e.hcMax; i++ {
			s += "N"
		}
		e.hb.extend(s, 'N', rng)
		if !h.Eventually(gateGrace+time.Duration(e.hcMax)*3*time.Second, func() bool { return len(f.closes(n)) >= 1 }) {
			e.fail("withdrawn-while-reply-outstanding-not-closed-at-server", "%s (maxFailed %d): NewProxy was sent, the reply is outstanding, the health check has been failing for %v: no CloseProxy reached the server (stream %q, status %q)", n, e.hcMax, gateGrace, f.streamOf(n), e.phase(n))
			return false
		}
		f.mu.Lock()
		f.policy[n] = nil // from now on: prompt successful replies
		f.mu.Unlock()
		for range f.arrivals(n) {
			f.reply(n, "") // the held replies, late
		}
		time.Sleep(5 * tCheck)
		if ph := e.phase(n); ph != "check failed" {
			e.fail("late-reply-revives-withdrawn-proxy", "%s: a reply arriving after the proxy was withdrawn moved it to %q", n, ph)
			return false
		}
		if r := f.offerWork(n, true); r.outcome == "bridged" {
			e.fail("unhealthy-proxy-accepts-work-connection", "work connection announced for the withdrawn proxy %s: %s %q", n, r.outcome, r.detail)
			return false
		}
		before := len(f.arrivals(n))
		e.hb.extend("S", 'S', rng)
		if !h.Eventually(gateGrace, func() bool { return len(f.arrivals(n)) > before }) {
			e.fail("not-registered-after-successful-probe", "%s: health check succeeds again for %v, no NewProxy; status %q", n, gateGrace, e.phase(n))
			return false
		}
		run.Count("withdrawn_while_reply_outstanding", 1)
	}
	if !e.waitPhase(n, "running", 10*time.Second) {
		e.fail("not-running-after-successful-reply", "%s: status %q", n, e.phase(n))
		return false
	}
	if r := f.offerWork(n, true); r.outcome != "bridged" || !strings.Contains(r.detail, "backend") {
		e.fail("running-proxy-refuses-work-connection", "work connection for the healthy proxy %s: %s %q", n, r.outcome, r.detail)
		return false
	}
	var s string
	for i := 0; i < e.hcMax; i++ {
		s += string("NT"[rng.Intn(2)])
	}
	closesBefore := len(f.closes(n))
	e.hb.extend(s, 'N', rng)
	if !h.Eventually(gateGrace+time.Duration(e.hcMax)*3*time.Second, func() bool { return len(f.closes(n)) > closesBefore }) {
		e.fail("not-withdrawn-after-max-consecutive-failures", "%s (maxFailed %d): health check failing for %v, no CloseProxy; status %q", n, e.hcMax, gateGrace, e.phase(n))
		return false
	}
	other = e.hb.other.Load()
	r = f.offerWork(n, true)
	if r.outcome == "bridged" || e.hb.other.Load() != other {
		e.fail("unhealthy-proxy-accepts-work-connection", "work connection announced for %s after it was withdrawn (status %q): %s %q", n, e.phase(n), r.outcome, r.detail)
		return false
	}
	if r.outcome != "closed" {
		e.fail("work-connection-for-stopped-proxy-left-open", "work connection announced for the withdrawn proxy %s: %s %q", n, r.outcome, r.detail)
		return false
	}
	run.Count("work_connections_refused_by_unhealthy_proxy", 1)
	time.Sleep(1200 * time.Millisecond)
	if s := f.streamOf(n); !strings.HasSuffix(s, "NC") || (!e.hcHold && s != "NC") {
		e.fail("registered-while-health-check-failing", "%s: message stream %q while the health check keeps failing, want it to end with one registration and one close", n, s)
		return false
	}
	// judge the probe sequence against the message stream
	probes, _, _ := e.hb.snapshot()
	outcomes := make([]bool, len(probes))
	for i, p := range probes {
		outcomes[i] = p.OK
	}
	model := healthModel(e.hcMax, outcomes)
	if len(model) >= 2 && !model[1].Up {
		if cl := f.closes(n); len(cl) > 0 && cl[0].T < probes[model[1].After].End {
			e.fail("withdrawn-without-max-consecutive-failures", "%s (maxFailed %d): CloseProxy arrived before failure number %d in a row had been observed", n, e.hcMax, e.hcMax)
			return false
		}
	}
	return true
}

// reloads that change nothing (identical, reordered) or only other entries: no message for unchanged names
func tplUnchanged(e *sEnv, variant int) bool {
	f := e.f
	a := e.pfx + "a"
	if !e.waitPhase(a, "running", 15*time.Second) {
		e.fail("configured-proxy-not-started", "%s: status %q", a, e.phase(a))
		return false
	}
	before := f.streamLen()
	switch variant {
	case 0:
	case 1:
		e.names = []string{e.pfx + "c", a, e.pfx + "b"}
	case 2:
		e.names = []string{e.pfx + "c", a, e.pfx + "b", e.pfx + "d"}
		e.metas[e.pfx+"d"] = "d0"
	}
	for i := 0; i < 3; i++ {
		if !e.reload() {
			return false
		}
	}
	if variant == 2 {
		if !e.waitPhase(e.pfx+"d", "running", 15*time.Second) {
			e.fail("configured-proxy-not-started", "added proxy d: status %q", e.phase(e.pfx+"d"))
			return false
		}
		before++
	}
	time.Sleep(5 * tCheck)
	if f.streamLen() != before {
		e.fail("unchanged-entry-registered-again", "reloading an unchanged configuration produced messages: %+v", f.snapshot()[before:])
		return false
	}
	if s := f.streamOf(a); s != "N" {
		e.fail("unchanged-entry-registered-again", "%s: stream %q", a, s)
		return false
	}
	return true
}

// a reload arrives while a (re-)login is completing: whatever the interleaving, the session that
// results must end up with the configuration loaded last
func tplReloadDuringLogin(e *sEnv) bool {
	f := e.f
	a := e.pfx + "a"
	rng := e.c.R.RandFor("relogin", e.c.Idx)
	if !e.waitPhase(a, "running", 15*time.Second) {
		e.fail("configured-proxy-not-started", "%s: status %q", a, e.phase(a))
		return false
	}
	rounds := 10
	for r := 1; r <= rounds; r++ {
		delay := []time.Duration{0, 20 * time.Microsecond, 50 * time.Microsecond, 100 * time.Microsecond, 200 * time.Microsecond, 400 * time.Microsecond, 800 * time.Microsecond, 2 * time.Millisecond}[rng.Intn(8)]
		meta := fmt.Sprintf("a%d", r)
		// the new configuration is parsed beforehand: only UpdateAllConfigurer itself runs at the chosen instant
		e.metas[a] = meta
		_, pcs, vcs, err := h.LoadClientConfig(prop, e.cfgText())
		if err != nil {
			run.Inconclusive("scripted: configuration does not load: " + err.Error())
			return false
		}
		applied := make(chan error, 1)
		f.mu.Lock()
		f.onLogin = func() {
			f.mu.Lock()
			f.onLogin = nil
			f.mu.Unlock()
			go func() {
				if delay > 0 {
					time.Sleep(delay)
				}
				applied <- e.cli.Svc.UpdateAllConfigurer(pcs, vcs)
			}()
		}
		f.mu.Unlock()
		logins := f.fs.Logins.Load()
		f.fs.CutAll() // the client logs in again (first retries come after ~200 ms)
		if !h.Eventually(30*time.Second, func() bool { return f.fs.Logins.Load() > logins }) {
			run.Inconclusive("scripted: client did not log in again")
			return false
		}
		select {
		case err := <-applied:
			if err != nil {
				viol(e.c, "reload-refused", "UpdateAllConfigurer returned %v", err)
				return false
			}
			run.Count("reloads", 1)
		case <-time.After(20 * time.Second):
			run.Inconclusive("scripted: reload did not return")
			return false
		}
		// bounded progress: the last NewProxy for a carries the metadatas loaded last, and a is running
		okc := h.Eventually(10*time.Second, func() bool {
			ar := f.arrivals(a)
			return len(ar) > 0 && ar[len(ar)-1].Meta == meta && e.phase(a) == "running"
		})
		if !okc {
			ar := f.arrivals(a)
			last := ""
			if len(ar) > 0 {
				last = ar[len(ar)-1].Meta
			}
			e.fail("reload-during-login-lost", "round %d: a reload (metadatas.m = %q) was applied %v after the server accepted a re-login and returned without error; 10 s later the new session still runs %s with metadatas %q (status %q): the reload was stored but never applied", r, meta, delay, a, last, e.phase(a))
			return false
		}
		run.Count("reloads_during_login", 1)
	}
	return true
}

// a health-checked proxy whose registration the server refuses, and whose backend then fails and recovers
// inside the back-off interval: the recovery must not shorten the back-off, the refused proxy has nothing
// to close, and "start error" never turns into "check failed"
func tplStartErrorHealthFlap(e *sEnv) bool {
	f := e.f
	n := e.pfx + "hc"
	rng := e.c.R.RandFor("hcflap", e.c.Idx)
	if !h.Eventually(gateGrace, func() bool { return len(f.arrivals(n)) >= 1 }) {
		e.fail("not-registered-after-successful-probe", "%s: health check succeeds for %v, no NewProxy; status %q", n, gateGrace, e.phase(n))
		return false
	}
	if !e.waitPhase(n, "start error", 10*time.Second) {
		e.fail("start-error-not-reported", "%s: the server answered its registration with an error, status %q", n, e.phase(n))
		return false
	}
	f.mu.Lock()
	tErr := f.errSent[n][0]
	f.mu.Unlock()
	// the flap: maxFailed failed probes, then success again — about maxFailed+1 seconds, the back-off is 5 s
	var s string
	for i := 0; i < e.hcMax; i++ {
		s += string("NR"[rng.Intn(2)])
	}
	before := e.hb.nProbes()
	e.hb.extend(s+"S", 'S', rng)
	if !h.Eventually(gateGrace, func() bool { return e.hb.nProbes() >= before+len(s)+1 }) {
		run.Inconclusive("scripted: probes stalled")
		return false
	}
	probes, _, _ := e.hb.snapshot()
	flapEnd := probes[len(probes)-1].End
	inside := time.Duration(flapEnd-tErr) < tStartErr-500*time.Millisecond
	if inside {
		run.Count("health_flaps_inside_back_off", 1)
	} else {
		run.Count("health_flap_finished_too_late", 1)
	}
	// the retry: not before the back-off interval has passed since the error reply, and not abandoned
	if !h.Eventually(retryGrace, func() bool { return len(f.arrivals(n)) >= 2 }) {
		e.fail("start-error-not-retried", "%s: %v after the error reply no further NewProxy arrived; status %q", n, retryGrace, e.phase(n))
		return false
	}
	ar := f.arrivals(n)
	if gap := time.Duration(ar[1].T - tErr); gap < tStartErr {
		e.fail("start-error-retried-before-backoff-after-health-flap", "%s (maxFailed %d): the server refused the registration; the backend then failed %d probe(s) and recovered %v after the error reply; the next NewProxy arrived %v after the error reply, the back-off interval is %v. Transitions: %+v", n, e.hcMax, e.hcMax, time.Duration(flapEnd-tErr).Round(time.Millisecond), gap.Round(time.Millisecond), tStartErr, phaseHistory(n))
		return false
	}
	for _, p := range phaseHistory(n) {
		if p.From == "start error" && p.To == "check failed" {
			e.fail("illegal-transition-start-error-to-check-failed", "%s: status went from start error to check failed (the proxy was not registered); transitions %+v", n, phaseHistory(n))
			return false
		}
	}
	// between the refused registration and the retry the server holds nothing for the name: nothing to close
	if st := f.streamOf(n); st != "NN" {
		e.fail("closeproxy-for-unregistered-proxy", "%s: the server refused the registration, so it holds nothing for the name; message stream up to the retry is %q (N = NewProxy, C = CloseProxy), want NN", n, st)
		return false
	}
	if !e.waitPhase(n, "running", 10*time.Second) {
		e.fail("not-running-after-successful-reply", "%s: status %q", n, e.phase(n))
		return false
	}
	run.Count("start_error_retries_timed", 1)
	return true
}
