package main

import (
	"crypto/tls"
	"fmt"
	"io"
	"net"
	"net/http"
	"os"
	"path/filepath"
	"strings"
	"time"

	"verif/h"
)

// Local start failures: the server accepts the registration, but the proxy's own start fails at the
// client (a tls2raw / https2http plugin whose certificate files do not exist yet). The client then has
// to withdraw the registration (CloseProxy), report "start error", retry after the back-off interval, and
// come up on both sides once the files exist.
//
//	real frps:        while the start fails the server's table must not keep the name and its remote port must
//	                  refuse; after the files appear: running, registered, TLS traffic reaches the backend.
//	scripted server:  in the exact message stream every accepted NewProxy is followed by a CloseProxy before
//	                  the next NewProxy; after the files appear the stream ends with one NewProxy and no close.
//
// (udp / sudp with a local host name that resolves only later is not driven: nothing can make a name
// resolve later without touching the machine's resolver configuration.)

var localFailSlots = newSlotPool(8, 29840, 2)

func localFailCase(c *h.Case) {
	begin(c)
	rng := c.Rng
	slot, blk, ok := localFailSlots.get()
	defer localFailSlots.put(slot)
	if !ok {
		run.Inconclusive("localfail: port block still busy")
		return
	}
	k := c.Idx - baseLocalFail
	scripted := k%3 == 2
	plugin := []string{"tls2raw", "https2http"}[(k/3+k%3)%2]
	pfx := fmt.Sprintf("c%d.", c.Idx)
	name := pfx + "lf"
	defer forgetRegs(pfx)
	defer forgetPhases(pfx)
	dir := filepath.Join(h.RunDir(prop), "localfail", fmt.Sprintf("%d-%d", os.Getpid(), c.Idx))
	_ = os.RemoveAll(dir)
	if err := os.MkdirAll(dir, 0o755); err != nil {
		run.Inconclusive("localfail: cannot create directory")
		return
	}
	defer os.RemoveAll(dir)
	crt, key := filepath.Join(dir, "srv.crt"), filepath.Join(dir, "srv.key")
	cyclesBefore := 1 + rng.Intn(2) // failed start cycles observed before the files are created
	c.Data["kind"], c.Data["plugin"], c.Data["server"], c.Data["failed_cycles_observed"] = "local-start-failure", plugin, map[bool]string{false: "real frps", true: "scripted"}[scripted], cyclesBefore

	// backend behind the plugin
	var localAddr string
	var httpB *h.HTTPBackend
	if plugin == "tls2raw" {
		b, err := h.StartTCPBackend(0, h.IdentEcho("LF"))
		if err != nil {
			run.Inconclusive("localfail: backend did not start")
			return
		}
		defer b.Close()
		localAddr = fmt.Sprintf("127.0.0.1:%d", b.Port)
	} else {
		var err error
		httpB, err = h.StartHTTPBackend("LF", 0)
		if err != nil {
			run.Inconclusive("localfail: backend did not start")
			return
		}
		defer httpB.Close()
		localAddr = fmt.Sprintf("127.0.0.1:%d", httpB.Port)
	}

	serverPort, remotePort := srv.Cfg.BindPort, blk[0]
	var f *fakeCtl
	if scripted {
		f = &fakeCtl{policy: map[string][]string{}, errSent: map[string][]int64{}, okSent: map[string][]int64{}}
		fs, err := h.StartFakeServer(h.FakeServerOpts{Port: blk[1], Token: token, TCPMux: true, OnSession: f.session, OnWorkConn: f.onWorkConn})
		if err != nil {
			run.Inconclusive("localfail: fake server did not start")
			return
		}
		f.fs = fs
		defer fs.Close()
		serverPort = blk[1]
	}
	cfg := fmt.Sprintf(`serverAddr = "127.0.0.1"
serverPort = %d
auth.token = "%s"
loginFailExit = false
transport.tls.enable = false
transport.poolCount = 0

[[proxies]]
name = %q
type = "tcp"
remotePort = %d
[proxies.plugin]
type = %q
localAddr = %q
crtPath = %q
keyPath = %q
`, serverPort, token, name, remotePort, plugin, localAddr, crt, key)
	cli, err := h.StartClientText(prop, cfg)
	if err != nil {
		run.Inconclusive("localfail: client did not start: " + err.Error())
		return
	}
	defer cli.Close()
	fail := func(key, format string, args ...any) {
		c.Data["phases"] = phaseHistory(name)
		c.Data["start_error_texts"] = startErrorTexts(name)
		if scripted {
			c.Data["stream"] = f.snapshot()
		} else {
			c.Data["server_events"] = regEvents(name)
		}
		viol(c, key, format, args...)
	}
	status := func() (string, string) {
		st, ok := cli.Svc.StatusExporter().GetProxyStatus(name)
		if !ok || st == nil {
			return "", ""
		}
		return st.Phase, st.Err
	}
	startErrors := func() int {
		n := 0
		for _, p := range phaseHistory(name) {
			if p.To == "start error" {
				n++
			}
		}
		return n
	}

	// (1) the local start fails: start error at the client, nothing kept at the server
	if !h.Eventually(15*time.Second, func() bool { ph, _ := status(); return ph == "start error" }) {
		ph, e := status()
		fail("local-start-failure-not-reported", "%s (%s plugin, certificate files missing): status %q err %q, want start error", name, plugin, ph, e)
		return
	}
	if _, e := status(); !strings.Contains(e, "srv.crt") && !strings.Contains(e, "no such file") {
		run.Count("localfail_unexpected_error_text", 1)
	}
	// variant (every third case, real frps): the server side is not looked at while the start fails; what is
	// judged is only that the proxy recovers once the cause is gone
	recoveryOnly := k%3 == 1
	c.Data["recovery_only"] = recoveryOnly
	for cycle := 1; cycle <= cyclesBefore && !recoveryOnly; cycle++ {
		// wait for start error number `cycle` (each retry is one more failed local start), then look at the server side
		if !h.Eventually(3*tStartErr+10*time.Second, func() bool { return startErrors() >= cycle }) {
			ph, e := status()
			fail("start-error-after-local-failure-abandoned", "%s: %v after its local start failed the client has not tried again (status %q err %q, %d start errors so far)", name, 3*tStartErr+10*time.Second, ph, e, startErrors())
			return
		}
		if scripted {
			// exact stream: N C N C ... — an accepted registration is withdrawn before anything else is sent for the name
			okStream := h.Eventually(10*time.Second, func() bool {
				s := f.streamOf(name)
				return len(s) >= 2*cycle && strings.HasPrefix(s, strings.Repeat("NC", cycle))
			})
			if s := f.streamOf(name); !okStream || strings.Contains(s, "NN") {
				ph, e := status()
				fail("registration-kept-at-server-after-local-start-error", "%s (%s plugin, certificate files missing): the server accepted the registration, the local start failed (status %q err %q), but the message stream for the name is %q (N = NewProxy, C = CloseProxy): the accepted registration was not withdrawn", name, plugin, ph, e, s)
				return
			}
		} else {
			gone := h.Eventually(10*time.Second, func() bool { return !liveNames(name)[name] && !portAccepts(remotePort) })
			if !gone {
				ph, e := status()
				fail("registration-kept-at-server-after-local-start-error", "%s (%s plugin, certificate files missing): client status %q err %q, but 10 s later the server still holds the proxy (in its table: %v, remote port %d accepts: %v)", name, plugin, ph, e, liveNames(name)[name], remotePort, portAccepts(remotePort))
				return
			}
		}
		run.Count("local_start_failures_withdrawn", 1)
	}
	if _, _, resent, _ := sendBreakdown(name); resent > 0 {
		run.Inconclusive("localfail: reply later than the reply timeout")
		return
	}

	// (2) the cause disappears: running on both sides after the next retry, with traffic
	ca, err := h.NewCA(dir, "ca")
	if err != nil {
		run.Inconclusive("localfail: cannot create certificates")
		return
	}
	cf, kf, err := ca.Issue("srv", "127.0.0.1", "localhost")
	if err != nil {
		run.Inconclusive("localfail: cannot issue certificate")
		return
	}
	if os.Rename(kf, key) != nil || os.Rename(cf, crt) != nil {
		run.Inconclusive("localfail: cannot move certificate files")
		return
	}
	c.Ev("certificate-files-created")
	if !h.Eventually(3*tStartErr+10*time.Second, func() bool { ph, _ := status(); return ph == "running" }) {
		ph, e := status()
		fail("start-error-after-local-failure-abandoned", "%s (%s plugin): the certificate files exist now, but %v later (back-off interval %v) the proxy is not running: status %q err %q", name, plugin, 3*tStartErr+10*time.Second, tStartErr, ph, e)
		return
	}
	if scripted {
		time.Sleep(3 * tCheck)
		if s := f.streamOf(name); s != strings.Repeat("NC", len(s)/2)+"N" {
			fail("local-start-failure-message-stream", "%s: running, message stream %q, want (NC)*N", name, s)
			return
		}
		run.Count("local_start_failure_cases", 1)
		run.Distinct(fmt.Sprintf("localfail|scripted|%s|%d", plugin, cyclesBefore))
		return
	}
	if !h.Eventually(10*time.Second, func() bool { return liveNames(name)[name] }) {
		fail("not-converged-configured-proxy-missing", "%s: client status running, server does not hold the proxy", name)
		return
	}
	tc := &tls.Config{InsecureSkipVerify: true, ServerName: "localhost"}
	addr := fmt.Sprintf("127.0.0.1:%d", remotePort)
	if plugin == "tls2raw" {
		cn, err := tls.DialWithDialer(&net.Dialer{Timeout: 5 * time.Second}, "tcp", addr, tc)
		var id string
		if err == nil {
			id, err = h.AskIdentOn(cn, 10*time.Second)
			cn.Close()
		}
		if err != nil || id != "LF|" {
			fail("registered-proxy-carries-no-traffic-to-configured-backend", "%s (tls2raw) on %s answered %q / %v", name, addr, id, err)
			return
		}
	} else {
		hc := &http.Client{Transport: &http.Transport{TLSClientConfig: tc, DisableKeepAlives: true}, Timeout: 15 * time.Second}
		req, _ := http.NewRequest("GET", "https://"+addr+"/lf", nil)
		req.Host = "localhost" // the plugin answers 421 when the TLS server name and the Host header differ
		resp, err := hc.Do(req)
		who := ""
		if err == nil {
			_, _ = io.Copy(io.Discard, resp.Body)
			resp.Body.Close()
			who = resp.Header.Get("X-Verif-Backend")
		}
		if err != nil || who != "LF" {
			fail("registered-proxy-carries-no-traffic-to-configured-backend", "%s (https2http) on %s answered backend %q / %v (status %v)", name, addr, who, err, func() any {
				if resp != nil {
					return resp.StatusCode
				}
				return nil
			}())
			return
		}
	}
	run.Count("local_start_failure_cases", 1)
	run.Distinct(fmt.Sprintf("localfail|real|%s|%d|%v", plugin, cyclesBefore, recoveryOnly))
	if k < 2 {
		run.Sample(map[string]any{"kind": "local start failure", "plugin": plugin, "failed_cycles_observed": cyclesBefore, "server_events": regEvents(name)})
	}
}
