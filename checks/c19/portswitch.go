package main

import (
	"fmt"
	"net"
	"strconv"
	"syscall"
	"time"
)

// portSwitch is a loopback TCP port that can be switched between "listening" and "refusing" without
// giving the port back to the kernel: while refusing, a bound but not listening socket keeps the
// number reserved (connects are answered with RST), so no other socket of this machine can take it.
type portSwitch struct {
	port   int
	ln     net.Listener
	ph     int      // placeholder socket, -1 = none
	filler net.Conn // connection that fills the accept queue of a black-hole placeholder
}

func newPortSwitch() *portSwitch { return &portSwitch{ph: -1} }

// listen switches to "listening" and returns the listener (port 0 on first use = any port).
func (p *portSwitch) listen() (net.Listener, error) {
	if p.ln != nil {
		return p.ln, nil
	}
	p.release()
	var err error
	for i := 0; i < 40; i++ {
		var ln net.Listener
		ln, err = net.Listen("tcp", "127.0.0.1:"+strconv.Itoa(p.port))
		if err == nil {
			p.ln = ln
			p.port = ln.Addr().(*net.TCPAddr).Port
			return ln, nil
		}
		time.Sleep(5 * time.Millisecond)
	}
	return nil, err
}

// refuse switches to "refusing". closeFn closes the listener (and whatever serves it).
func (p *portSwitch) refuse(closeFn func()) error { return p.fail(closeFn, false) }

// blackhole switches to "connects time out": the placeholder listens with an accept queue of one
// entry that is filled by a connection of our own and never accepted; the kernel then drops every
// further SYN, so a connect neither succeeds nor is refused.
func (p *portSwitch) blackhole(closeFn func()) error { return p.fail(closeFn, true) }

func (p *portSwitch) fail(closeFn func(), hole bool) error {
	if p.ln == nil {
		return nil
	}
	closeFn()
	p.ln = nil
	fd, err := syscall.Socket(syscall.AF_INET, syscall.SOCK_STREAM|syscall.SOCK_CLOEXEC, 0)
	if err != nil {
		return err
	}
	_ = syscall.SetsockoptInt(fd, syscall.SOL_SOCKET, syscall.SO_REUSEADDR, 1)
	sa := &syscall.SockaddrInet4{Port: p.port, Addr: [4]byte{127, 0, 0, 1}}
	for i := 0; i < 40; i++ {
		if err = syscall.Bind(fd, sa); err == nil {
			p.ph = fd
			if hole {
				if err := syscall.Listen(fd, 0); err != nil {
					return fmt.Errorf("placeholder listen: %w", err)
				}
				p.filler, _ = net.DialTimeout("tcp", "127.0.0.1:"+strconv.Itoa(p.port), time.Second)
				// the queue must be full now: one more connect has to hang
				if cn, err := net.DialTimeout("tcp", "127.0.0.1:"+strconv.Itoa(p.port), 300*time.Millisecond); err == nil {
					cn.Close()
					return fmt.Errorf("black hole not established (connect still succeeds)")
				}
			}
			return nil
		}
		time.Sleep(5 * time.Millisecond)
	}
	syscall.Close(fd)
	return fmt.Errorf("placeholder bind: %w", err)
}

func (p *portSwitch) release() {
	if p.filler != nil {
		p.filler.Close()
		p.filler = nil
	}
	if p.ph >= 0 {
		syscall.Close(p.ph)
		p.ph = -1
	}
}
