package main

import (
	"fmt"
	"net"
	"strconv"
	"syscall"
	"time"
)

// portSwitch is a loopback TCP port that can be switched between "listening" and "refusing" without
// giving the port back to the kernel: while refusing, a bound but not listening socket keeps the
// number reserved (connects are answered with RST), so no other socket of this machine can take it.
type portSwitch struct {
	port int
	ln   net.Listener
	ph   int // placeholder socket, -1 = none
}

func newPortSwitch() *portSwitch { return &portSwitch{ph: -1} }

// listen switches to "listening" and returns the listener (port 0 on first use = any port).
func (p *portSwitch) listen() (net.Listener, error) {
	if p.ln != nil {
		return p.ln, nil
	}
	if p.ph >= 0 {
		syscall.Close(p.ph)
		p.ph = -1
	}
	var err error
	for i := 0; i < 40; i++ {
		var ln net.Listener
		ln, err = net.Listen("tcp", "127.0.0.1:"+strconv.Itoa(p.port))
		if err == nil {
			p.ln = ln
			p.port = ln.Addr().(*net.TCPAddr).Port
			return ln, nil
		}
		time.Sleep(5 * time.Millisecond)
	}
	return nil, err
}

// refuse switches to "refusing". closeFn closes the listener (and whatever serves it).
func (p *portSwitch) refuse(closeFn func()) error {
	if p.ln == nil {
		return nil
	}
	closeFn()
	p.ln = nil
	fd, err := syscall.Socket(syscall.AF_INET, syscall.SOCK_STREAM|syscall.SOCK_CLOEXEC, 0)
	if err != nil {
		return err
	}
	_ = syscall.SetsockoptInt(fd, syscall.SOL_SOCKET, syscall.SO_REUSEADDR, 1)
	sa := &syscall.SockaddrInet4{Port: p.port, Addr: [4]byte{127, 0, 0, 1}}
	for i := 0; i < 40; i++ {
		if err = syscall.Bind(fd, sa); err == nil {
			p.ph = fd
			return nil
		}
		time.Sleep(5 * time.Millisecond)
	}
	syscall.Close(fd)
	return fmt.Errorf("placeholder bind: %w", err)
}

func (p *portSwitch) release() {
	if p.ph >= 0 {
		syscall.Close(p.ph)
		p.ph = -1
	}
}
