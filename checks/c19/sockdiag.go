package main

import (
	"encoding/binary"
	"fmt"
	"os"
	"strconv"
	"strings"
	"syscall"
)

// Listening sockets from the kernel's sock_diag interface (what `ss -lt` uses): only the listening hash
// is walked, so the cost does not grow with the tens of thousands of TIME_WAIT entries that a run leaves
// in /proc/net/tcp. Falls back to /proc/net/tcp when netlink is not available.

// listenInodes returns port -> inode of the IPv4 TCP sockets in LISTEN state.
func listenInodes() (map[int]string, error) {
	fd, err := syscall.Socket(syscall.AF_NETLINK, syscall.SOCK_RAW|syscall.SOCK_CLOEXEC, 4 /* NETLINK_SOCK_DIAG */)
	if err != nil {
		return nil, err
	}
	defer syscall.Close(fd)
	_ = syscall.SetsockoptTimeval(fd, syscall.SOL_SOCKET, syscall.SO_RCVTIMEO, &syscall.Timeval{Sec: 5})
	req := make([]byte, 16+56)
	binary.LittleEndian.PutUint32(req[0:], uint32(len(req)))
	binary.LittleEndian.PutUint16(req[4:], 20) // SOCK_DIAG_BY_FAMILY
	binary.LittleEndian.PutUint16(req[6:], syscall.NLM_F_REQUEST|syscall.NLM_F_DUMP)
	binary.LittleEndian.PutUint32(req[8:], 1)
	req[16] = syscall.AF_INET
	req[17] = syscall.IPPROTO_TCP
	binary.LittleEndian.PutUint32(req[20:], 1<<10) // states: TCP_LISTEN
	if err := syscall.Sendto(fd, req, 0, &syscall.SockaddrNetlink{Family: syscall.AF_NETLINK}); err != nil {
		return nil, err
	}
	out := map[int]string{}
	buf := make([]byte, 1<<16)
	for {
		n, _, err := syscall.Recvfrom(fd, buf, 0)
		if err != nil {
			return nil, err
		}
		msgs, err := syscall.ParseNetlinkMessage(buf[:n])
		if err != nil {
			return nil, err
		}
		for _, m := range msgs {
			switch m.Header.Type {
			case syscall.NLMSG_DONE:
				return out, nil
			case syscall.NLMSG_ERROR:
				return nil, fmt.Errorf("sock_diag: netlink error")
			}
			d := m.Data
			if len(d) < 72 {
				continue
			}
			port := int(binary.BigEndian.Uint16(d[4:6]))
			ino := binary.LittleEndian.Uint32(d[68:72])
			out[port] = strconv.FormatUint(uint64(ino), 10)
		}
	}
}

// listenInode returns the inode of the socket listening on the tcp port ("" = none).
func listenInode(port int) string {
	if m, err := listenInodes(); err == nil {
		return m[port]
	}
	b, err := os.ReadFile("/proc/net/tcp")
	if err != nil {
		return ""
	}
	want := fmt.Sprintf("0100007F:%04X", port)
	for _, ln := range strings.Split(string(b), "\n") {
		f := strings.Fields(ln)
		if len(f) >= 10 && f[1] == want && f[3] == "0A" {
			return f[9]
		}
	}
	return ""
}

// ownsInode reports whether a socket with this inode is among the process's own descriptors.
func ownsInode(inode string) bool {
	if inode == "" {
		return false
	}
	ents, err := os.ReadDir("/proc/self/fd")
	if err != nil {
		return false
	}
	want := "socket:[" + inode + "]"
	for _, e := range ents {
		if l, err := os.Readlink("/proc/self/fd/" + e.Name()); err == nil && l == want {
			return true
		}
	}
	return false
}
