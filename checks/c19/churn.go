package main

import (
	"fmt"
	"math/rand"
	"os"
	"reflect"
	"runtime"
	"sort"
	"strconv"
	"sync/atomic"
	"time"

	v1 "github.com/fatedier/frp/pkg/config/v1"

	"verif/h"
)

// Churn: "a stopped proxy sends no further registration" under removals and changes that hit entries at
// the very moment they register. Every round loads ~40 entries with names that are used in this round
// only and, a few microseconds later, a second set in which a PRNG subset of them is removed and another
// subset changed (metadatas). Because a name belongs to one round, every name has at most two wrapper
// instances ever (original, changed), so the per-name message stream decides without any waiting:
//
//	after the first CloseProxy of a name no NewProxy with the ORIGINAL content may follow
//	(and none at all for a removed name)                               -> registration-sent-after-stop
//	at quiescence the server-side ledger equals the final configuration -> stray-registration-after-churn
//
// Scripted server: exact stream, one byte per message. Real frps: the table of proxy names at the end
// (a registration that overtook its stop stays registered for the rest of the session).
//
// The interleaving needs the registering goroutine to lose the processor between two adjacent
// statements. To give the operating system a reason to take it away, the phase runs with GOMAXPROCS
// raised to four times the cores and the surplus filled with spinning goroutines (schedule perturbation
// from outside, nothing in frp is touched); it runs after the other phases so that it disturbs nobody.

var churnSlots = newSlotPool(2, 29860, 2)

func churnCase(c *h.Case) {
	begin(c)
	rng := c.Rng
	slot, blk, ok := churnSlots.get()
	defer churnSlots.put(slot)
	if !ok {
		run.Inconclusive("churn: port still busy")
		return
	}
	k := c.Idx - baseChurn
	real := k%2 == 1
	pfx := fmt.Sprintf("c%d.", c.Idx)
	defer forgetRegs(pfx)
	defer forgetPhases(pfx)
	nFresh := 30 + rng.Intn(25)
	budget := time.Duration(run.N(4, 20)) * time.Second
	if real {
		budget = time.Duration(run.N(2, 12)) * time.Second
	}
	c.Data["kind"], c.Data["server"], c.Data["entries_per_round"], c.Data["budget"] = "churn", map[bool]string{false: "scripted", true: "real frps"}[real], nFresh, budget.String()

	mk := func(name, meta string) v1.ProxyConfigurer {
		pc := &v1.STCPProxyConfig{}
		pc.Name, pc.Type = name, "stcp"
		pc.Secretkey = "k"
		pc.LocalIP, pc.LocalPort = "127.0.0.1", 9
		pc.Metadatas = map[string]string{"m": meta}
		pc.Complete("")
		return pc
	}
	deadline := time.Now().Add(budget)
	session, totalRounds, totalPairs := 0, 0, 0
	for time.Now().Before(deadline) {
		session++
		rounds, pairs, ok := churnSession(c, rng, real, fmt.Sprintf("%ss%d.", pfx, session), session, nFresh, blk[0], mk, deadline)
		totalRounds += rounds
		totalPairs += pairs
		if !ok {
			return
		}
	}
	run.Count("churn_sessions", int64(session))
	run.Count("churn_rounds", int64(totalRounds))
	run.Count("churn_entries_registered_and_stopped", int64(totalPairs))
	c.Data["rounds"], c.Data["sessions"] = totalRounds, session
	run.Count("churn_cases", 1)
	run.Distinct(fmt.Sprintf("churn|%v|%d|%d", real, nFresh, totalRounds/100))
	if k == 0 {
		run.Sample(map[string]any{"kind": "churn", "sessions": session, "rounds": totalRounds, "entries_per_round": nFresh})
	}
}

// churnSession runs one client session of at most maxRounds rounds (the scripted server's inbox is scanned
// linearly, so a session is kept to a few thousand messages) and judges it. ok = false: stop the case.
func churnSession(c *h.Case, rng *rand.Rand, real bool, pfx string, session, nFresh, fakePort int,
	mk func(name, meta string) v1.ProxyConfigurer, deadline time.Time) (rounds, pairs int, ok bool) {
	const maxRounds = 60
	base := []v1.ProxyConfigurer{mk(pfx+"base0", "m0"), mk(pfx+"base1", "m0")} // pfx is the session's own prefix
	serverPort := srv.Cfg.BindPort
	var f *fakeCtl
	if !real {
		f = &fakeCtl{policy: map[string][]string{}, errSent: map[string][]int64{}, okSent: map[string][]int64{}, compact: map[string][]byte{}, compactMeta: "m0"}
		var fs *h.FakeServer
		var err error
		for try := 0; try < 50; try++ { // the port of the previous session is released asynchronously
			fs, err = h.StartFakeServer(h.FakeServerOpts{Port: fakePort, Token: token, TCPMux: true, OnSession: f.session, OnWorkConn: f.onWorkConn})
			if err == nil {
				break
			}
			time.Sleep(20 * time.Millisecond)
		}
		if err != nil {
			run.Inconclusive("churn: fake server did not start")
			return 0, 0, false
		}
		f.fs = fs
		defer fs.Close()
		serverPort = fakePort
	}
	common, _, _, err := h.LoadClientConfig(prop, fmt.Sprintf("serverAddr = \"127.0.0.1\"\nserverPort = %d\nauth.token = %q\nloginFailExit = false\ntransport.tls.enable = false\ntransport.poolCount = 0\n", serverPort, token))
	if err != nil {
		run.Inconclusive("churn: configuration does not load")
		return 0, 0, false
	}
	cli, err := h.StartClient(common, base, nil)
	if err != nil {
		run.Inconclusive("churn: client did not start: " + err.Error())
		return 0, 0, false
	}
	defer cli.Close()
	if err := cli.WaitRunning(15*time.Second, pfx+"base0", pfx+"base1"); err != nil {
		run.Inconclusive("churn: client did not come up")
		return 0, 0, false
	}

	// removed / changed / kept per name, for the judgement afterwards
	fate := map[string]byte{} // 'r' removed, 'c' changed, 'k' kept in the second set of its round
	spin := func(d time.Duration) {
		for t := time.Now(); time.Since(t) < d; {
		}
	}
	for rounds < maxRounds && time.Now().Before(deadline) {
		rounds++
		setA := append([]v1.ProxyConfigurer(nil), base...)
		setB := append([]v1.ProxyConfigurer(nil), base...)
		for i := 0; i < nFresh; i++ {
			name := fmt.Sprintf("%sr%d.p%d", pfx, rounds, i)
			setA = append(setA, mk(name, "m0"))
			switch x := rng.Intn(10); {
			case x < 4:
				fate[name] = 'r'
			case x < 7:
				fate[name] = 'c'
				setB = append(setB, mk(name, "m1"))
			default:
				fate[name] = 'k'
				setB = append(setB, setA[len(setA)-1])
			}
		}
		if rng.Intn(2) == 0 {
			rng.Shuffle(len(setB), func(i, j int) { setB[i], setB[j] = setB[j], setB[i] })
		}
		if err := cli.Svc.UpdateAllConfigurer(setA, nil); err != nil {
			viol(c, "reload-refused", "UpdateAllConfigurer returned %v", err)
			return rounds, pairs, false
		}
		// the fresh wrappers' goroutines are registering right now
		switch rng.Intn(4) {
		case 0:
		case 1:
			runtime.Gosched()
		case 2:
			spin(time.Duration(rng.Intn(20)) * time.Microsecond)
		default:
			spin(time.Duration(rng.Intn(200)) * time.Microsecond)
		}
		if err := cli.Svc.UpdateAllConfigurer(setB, nil); err != nil {
			viol(c, "reload-refused", "UpdateAllConfigurer returned %v", err)
			return rounds, pairs, false
		}
		pairs += nFresh
		if rng.Intn(3) == 0 {
			spin(time.Duration(rng.Intn(300)) * time.Microsecond)
		}
	}
	// final configuration: the base entries and an end marker. The marker's registration is handed to the
	// control connection after every CloseProxy of the reload (Stop sends synchronously), so once the server
	// has seen it, everything a correct client sent before has been seen too.
	marker := pfx + "end"
	final := append(append([]v1.ProxyConfigurer(nil), base...), mk(marker, "m0"))
	if err := cli.Svc.UpdateAllConfigurer(final, nil); err != nil {
		viol(c, "reload-refused", "UpdateAllConfigurer returned %v", err)
		return rounds, pairs, false
	}
	want := []string{pfx + "base0", pfx + "base1", marker}
	sort.Strings(want)

	if real {
		var live []string
		okc := h.Eventually(convergeGrace, func() bool {
			live = setKeys(liveNames(pfx))
			return reflect.DeepEqual(live, want)
		})
		if !okc {
			var stray []string
			for _, n := range live {
				if _, round := fate[n]; round {
					stray = append(stray, fmt.Sprintf("%s(%c)", n, fate[n]))
				}
			}
			if len(stray) > 0 {
				if len(stray) > 8 {
					stray = append(stray[:8], "...")
				}
				viol(c, "registration-sent-after-stop", "real frps, %d rounds of %d entries loaded and removed/changed within microseconds: %v after the final configuration was loaded the server still holds %v (r = removed, c = changed, k = kept in its round; all removed by later rounds): their registration reached the server after their CloseProxy and nobody closes them", rounds, nFresh, convergeGrace, stray)
			} else {
				viol(c, "not-converged-configured-proxy-missing", "real frps after churn: server holds %v, configured %v", live, want)
			}
			return rounds, pairs, false
		}
		return rounds, pairs, true
	}

	// scripted server: the marker has arrived and the stream stands still, then every name is judged
	seen := func() (int64, bool) {
		f.mu.Lock()
		defer f.mu.Unlock()
		return f.compactN, len(f.compact[marker]) > 0
	}
	if !h.Eventually(convergeGrace+30*time.Second, func() bool { _, m := seen(); return m }) {
		run.Inconclusive("churn: end marker not seen by the scripted server")
		return rounds, pairs, false
	}
	last, still := int64(-1), 0
	h.Eventually(convergeGrace, func() bool {
		n, _ := seen()
		if n == last {
			still++
		} else {
			still, last = 0, n
		}
		time.Sleep(20 * time.Millisecond)
		return still >= 15
	})
	f.mu.Lock()
	streams := make(map[string]string, len(f.compact))
	for n, b := range f.compact {
		streams[n] = string(b)
	}
	f.mu.Unlock()
	run.Count("churn_messages_seen", last)
	names := make([]string, 0, len(streams))
	for n := range streams {
		names = append(names, n)
	}
	sort.Strings(names)
	for _, n := range names {
		s := streams[n]
		if n == pfx+"base0" || n == pfx+"base1" || n == marker {
			if s != "N" {
				viol(c, "unchanged-entry-registered-again", "churn: message stream of the untouched entry %s is %q, want a single registration", n, s)
				return rounds, pairs, false
			}
			continue
		}
		closed := false
		for i := 0; i < len(s); i++ {
			switch s[i] {
			case 'C':
				closed = true
			case 'N':
				if closed {
					viol(c, "registration-sent-after-stop", "scripted server, round entry %s (%s in the second set of its round): message stream %q (N = NewProxy with the original content, n = NewProxy with the changed content, C = CloseProxy): the original registration was sent after the entry had been stopped", n, map[byte]string{'r': "removed", 'c': "changed", 'k': "kept"}[fate[n]], s)
					return rounds, pairs, false
				}
			case 'n':
				if fate[n] != 'c' {
					viol(c, "registered-with-stale-configuration", "churn: %s was never configured with other metadatas, stream %q", n, s)
					return rounds, pairs, false
				}
			}
		}
		// ledger at quiescence: the final configuration contains no round entry
		if s != "" && s[len(s)-1] != 'C' {
			viol(c, "registration-sent-after-stop", "scripted server, round entry %s: at quiescence the last message for the name is a NewProxy (stream %q) although the final configuration does not contain it: the server keeps a proxy the client no longer tracks", n, s)
			return rounds, pairs, false
		}
	}
	run.Count("churn_names_judged", int64(len(names)))
	return rounds, pairs, true
}

// withOversubscription runs fn with GOMAXPROCS raised and the surplus processors kept busy, so that the
// kernel has to time-slice the threads of this process at arbitrary instructions.
func withOversubscription(fn func()) {
	if os.Getenv("C19_NO_OVERSUBSCRIBE") != "" {
		fn()
		return
	}
	cores := runtime.NumCPU()
	old := runtime.GOMAXPROCS(4 * cores)
	var stop atomic.Bool
	for i := 0; i < 3*cores; i++ {
		go func() {
			x := 0
			for !stop.Load() {
				x++
			}
			_ = strconv.Itoa(x)
		}()
	}
	fn()
	stop.Store(true)
	runtime.GOMAXPROCS(old)
}
