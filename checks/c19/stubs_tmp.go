package main

import "verif/h"

func gatingCase(c *h.Case)   {}
func scriptedCase(c *h.Case) {}
