package main

import (
	"context"
	"fmt"
	"io"
	"math/rand"
	"net"
	"net/http"
	"reflect"
	"strconv"
	"strings"
	"sync"
	"sync/atomic"
	"time"

	"github.com/fatedier/frp/client/health"
	v1 "github.com/fatedier/frp/pkg/config/v1"

	"verif/h"
)

// ---------------------------------------------------------------------------------------------
// scripted http backend of one health monitor / one health-checked proxy, and the probe recorder

// probeObs is one probe as seen at the boundary between client/health and net/http.
type probeObs struct {
	K       int    `json:"k"`
	Planned string `json:"planned"` // S 2xx | N non-2xx | T answer later than the timeout | R refused
	Start   int64  `json:"start"`
	End     int64  `json:"end"`
	Err     string `json:"err,omitempty"`
	Status  int    `json:"status,omitempty"`
	HasDL   bool   `json:"has_deadline"`
	DLms    int64  `json:"deadline_ms"` // deadline of the request context, relative to Start
	OK      bool   `json:"ok"`          // observed outcome: no error and a 2xx status
}

type trans struct {
	After int   `json:"after_probe"` // index of the last probe completed when the callback ran (-1: none)
	Up    bool  `json:"up"`
	T     int64 `json:"t"`
}

type hback struct {
	id      string
	path    string
	timeout time.Duration

	mu       sync.Mutex
	plan     []byte // outcome per probe; beyond the plan: steady
	codes    []int
	steady   byte
	probes   []probeObs
	trans    []trans
	cur      int // index of the probe in flight (or the next one)
	inflight bool
	port     int
	sw       *portSwitch
	srv      *http.Server
	open     bool
	broken   string // harness trouble (listener could not be reopened ...): the case is inconclusive

	onStart func(k int) // called (outside mu) when probe k is about to be sent
	served  atomic.Int64
	other   atomic.Int64 // requests that are not probes (user traffic through the tunnel)
}

var backs sync.Map // path -> *hback

var hbSeq atomic.Int64

func newHback(id string, timeout time.Duration) (*hback, error) {
	hb := &hback{id: id, path: "/hc/" + id, timeout: timeout, steady: 'S', sw: newPortSwitch()}
	if err := hb.listen(); err != nil {
		return nil, err
	}
	backs.Store(hb.path, hb)
	return hb, nil
}

func (hb *hback) listen() error {
	ln, err := hb.sw.listen()
	if err != nil {
		return err
	}
	hb.port = hb.sw.port
	hb.srv = &http.Server{Handler: http.HandlerFunc(hb.serve), ReadHeaderTimeout: 30 * time.Second}
	hb.open = true
	go hb.srv.Serve(ln)
	return nil
}

func (hb *hback) closeListener() {
	if hb.open {
		if err := hb.sw.refuse(func() { hb.srv.Close() }); err != nil {
			hb.broken = err.Error()
		}
		hb.open = false
	}
}

func (hb *hback) Close() {
	backs.Delete(hb.path)
	hb.mu.Lock()
	hb.closeListener()
	hb.sw.release()
	hb.mu.Unlock()
}

func (hb *hback) plannedAt(k int) (byte, int) {
	o := hb.steady
	code := 0
	if k < len(hb.plan) {
		o = hb.plan[k]
		if k < len(hb.codes) {
			code = hb.codes[k]
		}
	}
	if code == 0 {
		if o == 'S' {
			code = 200
		} else {
			code = 500
		}
	}
	return o, code
}

// extend appends outcomes to the plan and sets the outcome repeated afterwards.
func (hb *hback) extend(outcomes string, steady byte, rng *rand.Rand) {
	hb.mu.Lock()
	defer hb.mu.Unlock()
	// the plan continues after the probes already begun (completed ones and the one in flight)
	begun := len(hb.probes)
	if hb.inflight {
		begun++
	}
	for len(hb.plan) < begun {
		hb.plan = append(hb.plan, hb.steady)
		hb.codes = append(hb.codes, 0)
	}
	for i := 0; i < len(outcomes); i++ {
		hb.plan = append(hb.plan, outcomes[i])
		hb.codes = append(hb.codes, pickCode(rng, outcomes[i]))
	}
	hb.steady = steady
}

func pickCode(rng *rand.Rand, o byte) int {
	switch o {
	case 'S':
		return []int{200, 200, 204, 201, 299, 206}[rng.Intn(6)]
	case 'N':
		return []int{500, 404, 301, 503, 400, 302, 300, 403}[rng.Intn(8)]
	}
	return 0
}

func (hb *hback) serve(w http.ResponseWriter, r *http.Request) {
	if r.URL.Path != hb.path {
		hb.other.Add(1)
		w.Header().Set("X-Verif-Backend", hb.id)
		_, _ = w.Write([]byte("backend " + hb.id))
		return
	}
	hb.served.Add(1)
	hb.mu.Lock()
	o, code := hb.plannedAt(hb.cur)
	hb.mu.Unlock()
	switch o {
	case 'S', 'N':
		w.WriteHeader(code)
	case 'T':
		select {
		case <-r.Context().Done():
		case <-time.After(hb.timeout + 1500*time.Millisecond):
			w.WriteHeader(200) // an answer far beyond the timeout: must not count as a success
		}
	default:
		w.WriteHeader(503)
	}
}

// begin is called by the recorder right before probe k goes to the real transport.
func (hb *hback) begin() (int, byte) {
	hb.mu.Lock()
	k := len(hb.probes)
	hb.cur = k
	hb.inflight = true
	o, _ := hb.plannedAt(k)
	if o == 'R' {
		hb.closeListener()
	} else if !hb.open {
		if err := hb.listen(); err != nil {
			hb.broken = "cannot reopen backend listener: " + err.Error()
		}
	}
	fn := hb.onStart
	hb.mu.Unlock()
	if fn != nil {
		fn(k)
	}
	return k, o
}

func (hb *hback) end(p probeObs) {
	hb.mu.Lock()
	hb.probes = append(hb.probes, p)
	hb.inflight = false
	hb.mu.Unlock()
}

func (hb *hback) callback(up bool) {
	hb.mu.Lock()
	hb.trans = append(hb.trans, trans{After: len(hb.probes) - 1, Up: up, T: h.Now()})
	hb.mu.Unlock()
}

func (hb *hback) snapshot() ([]probeObs, []trans, string) {
	hb.mu.Lock()
	defer hb.mu.Unlock()
	return append([]probeObs(nil), hb.probes...), append([]trans(nil), hb.trans...), hb.broken
}

func (hb *hback) nProbes() int { hb.mu.Lock(); defer hb.mu.Unlock(); return len(hb.probes) }

// recTransport observes every health probe; everything else passes through untouched.
type recTransport struct{ base http.RoundTripper }

func installProbeRecorder() {
	http.DefaultTransport = &recTransport{base: http.DefaultTransport}
}

func (t *recTransport) RoundTrip(req *http.Request) (*http.Response, error) {
	v, ok := backs.Load(req.URL.Path)
	if !ok {
		return t.base.RoundTrip(req)
	}
	hb := v.(*hback)
	k, planned := hb.begin()
	p := probeObs{K: k, Planned: string(planned), Start: h.Now()}
	if dl, has := req.Context().Deadline(); has {
		p.HasDL = true
		p.DLms = time.Until(dl).Milliseconds()
	}
	resp, err := t.base.RoundTrip(req)
	p.End = h.Now()
	if err != nil {
		p.Err = err.Error()
	} else {
		p.Status = resp.StatusCode
		p.OK = resp.StatusCode/100 == 2
	}
	hb.end(p)
	run.Count("http_probes_observed", 1)
	return resp, err
}

// ---------------------------------------------------------------------------------------------
// reference model: a counter of consecutive failures, reset by a success

type modelTrans struct {
	After int
	Up    bool
}

func healthModel(maxFailed int, outcomes []bool) []modelTrans {
	if maxFailed <= 0 {
		maxFailed = 1
	}
	var out []modelTrans
	ok := false
	fails := 0
	for k, s := range outcomes {
		if s {
			fails = 0
			if !ok {
				ok = true
				out = append(out, modelTrans{k, true})
			}
		} else {
			fails++
			if ok && fails >= maxFailed {
				ok = false
				out = append(out, modelTrans{k, false})
			}
		}
	}
	return out
}

// judgeHealth compares the callbacks with the model over the first n observed probes.
// It returns true when a violation was reported.
func judgeHealth(c *h.Case, who string, maxFailed int, timeout time.Duration, probes []probeObs, tr []trans, n int) bool {
	if n > len(probes) {
		n = len(probes)
	}
	outcomes := make([]bool, n)
	var sb strings.Builder
	bad := false
	for k := 0; k < n; k++ {
		p := probes[k]
		outcomes[k] = p.OK
		if p.OK {
			sb.WriteByte('S')
		} else {
			sb.WriteByte('F')
		}
		if !p.HasDL {
			viol(c, "health-probe-without-deadline", "%s: probe %d was sent without a deadline (configured timeout %v)", who, k, timeout)
			bad = true
		} else if time.Duration(p.DLms)*time.Millisecond > timeout+50*time.Millisecond {
			viol(c, "health-probe-deadline-beyond-configured-timeout", "%s: probe %d carries a deadline of %d ms, configured timeout is %v", who, k, p.DLms, timeout)
			bad = true
		}
		if p.OK && time.Duration(p.End-p.Start) > timeout+time.Second {
			viol(c, "health-probe-exceeding-timeout-counted-as-success", "%s: probe %d was answered after %v (timeout %v) and returned as a success", who, k, time.Duration(p.End-p.Start), timeout)
			bad = true
		}
		if p.Planned == "S" && !p.OK {
			run.Count("probe_outcome_drift", 1) // a planned success failed (loaded machine): the model follows the observation
		}
		if (p.Planned == "N" || p.Planned == "R") && p.OK {
			viol(c, "health-harness-outcome-mismatch", "%s: probe %d planned %s but observed as success (harness problem?)", who, k, p.Planned)
			bad = true
		}
	}
	if bad {
		return true
	}
	want := healthModel(maxFailed, outcomes)
	var got []trans
	for _, t := range tr {
		if t.After < n {
			got = append(got, t)
		}
	}
	consecBefore := func(k int) int { // failures in a row ending at probe k
		f := 0
		for i := k; i >= 0 && !outcomes[i]; i-- {
			f++
		}
		return f
	}
	mf := maxFailed
	if mf <= 0 {
		mf = 1
	}
	i, j := 0, 0
	for i < len(want) || j < len(got) {
		switch {
		case j < len(got) && (i >= len(want) || got[j].After < want[i].After):
			g := got[j]
			if g.After < 0 {
				viol(c, "health-verdict-before-first-probe", "%s: callback up=%v before any probe had completed", who, g.Up)
			} else if g.Up {
				viol(c, "health-up-without-successful-probe", "%s (maxFailed %d): outcomes %s: reported healthy after probe %d (%s, status %d, err %q), model has no such transition",
					who, maxFailed, sb.String(), g.After, obsWord(probes[g.After]), probes[g.After].Status, probes[g.After].Err)
			} else {
				viol(c, "health-down-without-max-consecutive-failures", "%s (maxFailed %d): outcomes %s: reported unhealthy after probe %d, where only %d failure(s) in a row had been seen",
					who, maxFailed, sb.String(), g.After, consecBefore(g.After))
			}
			return true
		case i < len(want) && (j >= len(got) || want[i].After < got[j].After):
			w := want[i]
			if w.Up {
				viol(c, "health-not-up-after-successful-probe", "%s (maxFailed %d): outcomes %s: probe %d succeeded while unhealthy but no success callback followed it", who, maxFailed, sb.String(), w.After)
			} else {
				viol(c, "health-not-down-after-max-consecutive-failures", "%s (maxFailed %d): outcomes %s: probe %d was failure number %d in a row but no failure callback followed it", who, maxFailed, sb.String(), w.After, consecBefore(w.After))
			}
			return true
		default:
			if want[i].Up != got[j].Up {
				viol(c, "health-verdict-direction-mismatch", "%s: outcomes %s: after probe %d model says up=%v, callback says up=%v", who, sb.String(), want[i].After, want[i].Up, got[j].Up)
				return true
			}
			i++
			j++
		}
	}
	_ = mf
	return false
}

func obsWord(p probeObs) string {
	if p.OK {
		return "success"
	}
	return "failure"
}

// ---------------------------------------------------------------------------------------------
// plan generation

func genPlan(rng *rand.Rand, maxFailed, n int) string {
	mf := maxFailed
	if mf <= 0 {
		mf = 1
	}
	fk := func() byte {
		x := rng.Intn(100)
		switch {
		case x < 45:
			return 'N'
		case x < 80:
			return 'R'
		default:
			return 'T'
		}
	}
	var b []byte
	switch rng.Intn(6) {
	case 0: // flapping below the threshold
		if rng.Intn(2) == 0 {
			b = append(b, 'S')
		}
		for len(b) < n {
			b = append(b, fk(), 'S')
		}
	case 1: // runs around the threshold
		b = append(b, 'S')
		for len(b) < n {
			k := mf - 1 + rng.Intn(3)
			if k < 1 {
				k = 1
			}
			for i := 0; i < k; i++ {
				b = append(b, fk())
			}
			for i := 0; i < 1+rng.Intn(2); i++ {
				b = append(b, 'S')
			}
		}
	case 2: // coin flips
		for len(b) < n {
			if rng.Intn(2) == 0 {
				b = append(b, 'S')
			} else {
				b = append(b, fk())
			}
		}
	case 3: // failures first
		for i := 0; i < 1+rng.Intn(3); i++ {
			b = append(b, fk())
		}
		for len(b) < n {
			if rng.Intn(3) > 0 {
				b = append(b, 'S')
			} else {
				b = append(b, fk())
			}
		}
	case 4: // mostly failing
		for len(b) < n {
			if rng.Intn(4) == 0 {
				b = append(b, 'S')
			} else {
				b = append(b, fk())
			}
		}
	default: // exactly max-1 failures between successes, then exactly max
		b = append(b, 'S')
		for r := 0; r < 2 && len(b) < n; r++ {
			for i := 0; i < mf-1; i++ {
				b = append(b, fk())
			}
			b = append(b, 'S')
		}
		for i := 0; i < mf; i++ {
			b = append(b, fk())
		}
		for len(b) < n {
			b = append(b, 'S')
		}
	}
	return string(b[:n])
}

// ---------------------------------------------------------------------------------------------
// cases

func healthCase(c *h.Case) {
	begin(c)
	if c.Rng.Intn(4) == 0 {
		healthTCPCase(c)
	} else {
		healthHTTPCase(c)
	}
}

func healthHTTPCase(c *h.Case) {
	rng := c.Rng
	maxFailed := rng.Intn(5)
	interval := 1
	timeout := 1
	if rng.Intn(6) == 0 {
		interval = 2
	}
	if rng.Intn(6) == 0 {
		timeout = 2
	}
	n := 9 + rng.Intn(4)
	if run.Thorough() {
		n = 10 + rng.Intn(9)
	}
	plan := genPlan(rng, maxFailed, n)
	c.Data["kind"], c.Data["type"] = "health-direct", "http"
	c.Data["maxFailed"], c.Data["interval"], c.Data["timeout"], c.Data["plan"] = maxFailed, interval, timeout, plan

	id := fmt.Sprintf("d%d-%d", c.Idx, hbSeq.Add(1))
	hb, err := newHback(id, time.Duration(timeout)*time.Second)
	if err != nil {
		run.Inconclusive("health backend did not start")
		return
	}
	defer hb.Close()
	hb.extend(plan, 'S', rng)
	done := make(chan struct{})
	var once sync.Once
	hb.onStart = func(k int) {
		if k >= n { // every callback caused by probes 0..n-1 has been delivered by now
			once.Do(func() { close(done) })
		}
	}
	cfg := v1.HealthCheckConfig{Type: "http", TimeoutSeconds: timeout, MaxFailed: maxFailed, IntervalSeconds: interval, Path: hb.path}
	if rng.Intn(2) == 0 {
		cfg.Path = strings.TrimPrefix(hb.path, "/") // the monitor adds the leading slash
	}
	if rng.Intn(3) == 0 {
		cfg.HTTPHeaders = []v1.HTTPHeader{{Name: "X-Probe", Value: id}}
	}
	ctx, cancel := context.WithCancel(context.Background())
	defer cancel()
	m := newMonitor(ctx, cfg, "127.0.0.1:"+strconv.Itoa(hb.port), func() { hb.callback(true) }, func() { hb.callback(false) })
	m.Start()
	watchdog := time.Duration(n+1)*time.Duration(interval+timeout+3)*time.Second + 30*time.Second
	select {
	case <-done:
	case <-time.After(watchdog):
		m.Stop()
		run.Inconclusive("health sequence watchdog")
		return
	}
	m.Stop()
	probes, tr, broken := hb.snapshot()
	c.Data["probes"], c.Data["callbacks"] = probes, tr
	if broken != "" {
		run.Inconclusive("health backend: " + broken)
		return
	}
	judgeHealth(c, "monitor "+id, maxFailed, time.Duration(timeout)*time.Second, probes, tr, n)
	var obs strings.Builder
	for k := 0; k < n && k < len(probes); k++ {
		if probes[k].OK {
			obs.WriteByte('S')
		} else {
			obs.WriteString(strings.ToLower(probes[k].Planned))
		}
	}
	run.Count("health_sequences", 1)
	run.Count("health_probes_judged", int64(n))
	run.Count("health_callbacks", int64(len(tr)))
	run.Distinct(fmt.Sprintf("health|http|%d|%d|%d|%s", maxFailed, interval, timeout, obs.String()))
	if c.Idx%97 == 0 {
		run.Sample(map[string]any{"kind": "health-direct http", "maxFailed": maxFailed, "interval": interval, "timeout": timeout, "plan": plan, "observed": obs.String(), "callbacks": tr})
	}
}

// tcp: a refused connect is invisible to the backend, so the script is made of closed-listener
// windows and the verdicts are lower bounds on elapsed time (probes are at least `interval` apart).
type tcpTarget struct {
	mu      sync.Mutex
	port    int
	sw      *portSwitch
	isOpen  bool
	accepts atomic.Int64
	// accept instant of the newest connection that the peer closed in an orderly way
	lastClean atomic.Int64
	handler   func(net.Conn) // nil: wait for the peer's close
}

// successSince reports whether a probe that connected at or after instant t (harness clock) succeeded.
func (t *tcpTarget) successSince(ts int64) bool { return t.lastClean.Load() >= ts }

func (t *tcpTarget) open() error {
	t.mu.Lock()
	defer t.mu.Unlock()
	if t.sw == nil {
		t.sw = newPortSwitch()
	}
	if t.isOpen {
		return nil
	}
	ln, err := t.sw.listen()
	if err != nil {
		return err
	}
	t.port = t.sw.port
	t.isOpen = true
	go func() {
		for {
			cn, err := ln.Accept()
			if err != nil {
				return
			}
			t.accepts.Add(1)
			if t.handler != nil {
				go t.handler(cn)
				continue
			}
			at := h.Now()
			go func() {
				// a probe that connected in time closes its connection at once: end of stream. A connect
				// that was given up (timeout) while its SYN was still being retransmitted ends in a reset.
				_ = cn.SetReadDeadline(time.Now().Add(5 * time.Second))
				_, err := cn.Read(make([]byte, 1))
				cn.Close()
				if err == io.EOF {
					for {
						old := t.lastClean.Load()
						if at <= old || t.lastClean.CompareAndSwap(old, at) {
							break
						}
					}
				}
			}()
		}
	}()
	return nil
}

func (t *tcpTarget) close() { _ = t.fail(false) }

// fail makes the target refuse connections (hole = false) or let them time out (hole = true).
func (t *tcpTarget) fail(hole bool) error {
	t.mu.Lock()
	defer t.mu.Unlock()
	if !t.isOpen {
		return nil
	}
	ln := t.sw.ln
	t.isOpen = false
	return t.sw.fail(func() { ln.Close() }, hole)
}

func (t *tcpTarget) release() {
	t.close()
	t.mu.Lock()
	if t.sw != nil {
		t.sw.release()
	}
	t.mu.Unlock()
}

func healthTCPCase(c *h.Case) {
	rng := c.Rng
	maxFailed := 1 + rng.Intn(4)
	interval := 1
	iv := time.Duration(interval) * time.Second
	nShort := 2 + rng.Intn(3)
	if maxFailed == 1 {
		nShort = 0
	}
	startClosed := rng.Intn(2) == 0
	hole := rng.Intn(3) == 0 // failed probes are connects that time out instead of refused ones
	c.Data["kind"], c.Data["type"] = "health-direct", "tcp"
	c.Data["maxFailed"], c.Data["short_windows"], c.Data["start_closed"], c.Data["failure"] = maxFailed, nShort, startClosed, map[bool]string{false: "refused", true: "timeout"}[hole]

	tg := &tcpTarget{}
	if err := tg.open(); err != nil { // learn a port
		run.Inconclusive("tcp target did not start")
		return
	}
	defer tg.release()
	shut := func() bool {
		if err := tg.fail(hole); err != nil {
			run.Inconclusive("tcp target: " + err.Error())
			return false
		}
		return true
	}
	if startClosed && !shut() {
		return
	}
	var mu sync.Mutex
	var tr []trans
	cb := func(up bool) func() {
		return func() {
			mu.Lock()
			tr = append(tr, trans{Up: up, T: h.Now()})
			mu.Unlock()
		}
	}
	get := func() []trans { mu.Lock(); defer mu.Unlock(); return append([]trans(nil), tr...) }
	waitTrans := func(n int, d time.Duration) bool {
		return h.Eventually(d, func() bool { return len(get()) >= n })
	}
	ctx, cancel := context.WithCancel(context.Background())
	defer cancel()
	cfg := v1.HealthCheckConfig{Type: "tcp", TimeoutSeconds: 1, MaxFailed: maxFailed, IntervalSeconds: interval}
	m := newMonitor(ctx, cfg, "127.0.0.1:"+strconv.Itoa(tg.port), cb(true), cb(false))
	m.Start()
	defer m.Stop()
	reopen := func() bool {
		if err := tg.open(); err != nil {
			run.Inconclusive("tcp target could not be reopened")
			return false
		}
		return true
	}
	grace := 3*time.Duration(maxFailed+1)*iv + 10*time.Second

	var tOpen0 int64
	if startClosed {
		time.Sleep(1500*time.Millisecond + time.Duration(rng.Intn(1000))*time.Millisecond)
		if len(get()) != 0 {
			c.Data["callbacks"] = get()
			viol(c, "health-up-without-successful-probe", "tcp monitor reported a verdict while its target had never accepted a connection: %+v", get())
			return
		}
		tOpen0 = h.Now()
		if !reopen() {
			return
		}
	}
	if !waitTrans(1, grace) {
		viol(c, "health-not-up-after-successful-probe", "tcp monitor: target accepting for %v, no success callback", grace)
		return
	}
	if t0 := get()[0]; !t0.Up || t0.T < tOpen0 {
		c.Data["callbacks"] = get()
		viol(c, "health-up-without-successful-probe", "tcp monitor: first callback %+v precedes the first moment the target accepted connections (%d)", t0, tOpen0)
		return
	}
	// short windows: fewer than maxFailed probes fit into each, a success separates them
	stretched := false
	// In timeout mode a connect that started inside a window is retried by the kernel after 1 s and may be
	// accepted after the reopening although the probe has given up: only connections accepted 1.5 s or more
	// after the reopening, and closed in an orderly way, prove a successful probe.
	margin := int64(0)
	if hole {
		margin = int64(1500 * time.Millisecond)
	}
	ref := h.Now()
	for w := 0; w < nShort; w++ {
		if !h.Eventually(grace, func() bool { return tg.successSince(ref) }) { // a success since the last window
			run.Inconclusive("tcp target saw no probe")
			return
		}
		W := time.Duration(maxFailed-1)*iv - 500*time.Millisecond
		t0 := h.Now()
		if !shut() {
			return
		}
		time.Sleep(W)
		if !reopen() {
			return
		}
		ref = h.Now() + margin
		measured := time.Duration(h.Now() - t0)
		if int(measured/iv)+1 >= maxFailed {
			stretched = true // the window got long enough to hold maxFailed probes: a withdrawal would be legal
			run.Count("tcp_window_stretched", 1)
		}
		c.Ev("short-window", "closed_for", measured.String())
		run.Count("tcp_short_windows", 1)
	}
	if nShort > 0 {
		seen := h.Eventually(grace, func() bool { return tg.successSince(ref) || len(get()) != 1 })
		if !seen {
			run.Inconclusive("tcp target saw no probe")
			return
		}
		if n := len(get()); n != 1 && !stretched {
			c.Data["callbacks"] = get()
			viol(c, "health-down-without-max-consecutive-failures", "tcp monitor (maxFailed %d): %d closed windows, each too short for %d probes and separated by successful probes, yet callbacks %+v", maxFailed, nShort, maxFailed, get()[1:])
			return
		}
		if stretched {
			run.Inconclusive("tcp window stretched by load")
			return
		}
	}
	// long window: closed until the failure callback
	t0 := h.Now()
	if !shut() {
		return
	}
	if !waitTrans(2, grace) {
		viol(c, "health-not-down-after-max-consecutive-failures", "tcp monitor (maxFailed %d): target refusing for %v, no failure callback", maxFailed, grace)
		return
	}
	d := get()[1]
	if d.Up {
		viol(c, "health-verdict-direction-mismatch", "tcp monitor: second callback is a success while the target refuses")
		return
	}
	if min := time.Duration(maxFailed-1) * iv; time.Duration(d.T-t0) < min {
		viol(c, "health-down-without-max-consecutive-failures", "tcp monitor (maxFailed %d, interval %v): failure callback %v after the target started refusing; %d failed probes need at least %v", maxFailed, iv, time.Duration(d.T-t0), maxFailed, min)
		return
	}
	time.Sleep(time.Duration(rng.Intn(1500)) * time.Millisecond)
	if len(get()) != 2 {
		viol(c, "health-verdict-direction-mismatch", "tcp monitor: extra callbacks while the target keeps refusing: %+v", get()[2:])
		return
	}
	t1 := h.Now()
	if !reopen() {
		return
	}
	if !waitTrans(3, grace) {
		viol(c, "health-not-up-after-successful-probe", "tcp monitor: target accepting again for %v, no success callback", grace)
		return
	}
	if u := get()[2]; !u.Up || u.T < t1 {
		viol(c, "health-up-without-successful-probe", "tcp monitor: callback %+v after the failure verdict precedes the reopening of the target (%d)", u, t1)
		return
	}
	run.Count("health_sequences", 1)
	run.Count("health_callbacks", 3)
	run.Distinct(fmt.Sprintf("health|tcp|%d|%d|%v|%v", maxFailed, nShort, startClosed, hole))
	if hole {
		run.Count("tcp_timeout_scripts", 1)
	}
}

// newMonitor calls health.NewMonitor whether it takes the health check configuration by value or by
// pointer, so that the check builds against either signature (the monitor gets its own copy anyway).
func newMonitor(ctx context.Context, cfg v1.HealthCheckConfig, addr string, up, down func()) *health.Monitor {
	fn := reflect.ValueOf(health.NewMonitor)
	arg := reflect.ValueOf(cfg)
	if fn.Type().In(1).Kind() == reflect.Ptr {
		cp := cfg
		arg = reflect.ValueOf(&cp)
	}
	out := fn.Call([]reflect.Value{reflect.ValueOf(ctx), arg, reflect.ValueOf(addr), reflect.ValueOf(up), reflect.ValueOf(down)})
	return out[0].Interface().(*health.Monitor)
}
