package main

import (
	"fmt"
	"reflect"
	"sort"
	"strings"
	"time"

	v1 "github.com/fatedier/frp/pkg/config/v1"

	"verif/h"
)

// A reload before the first login: frpc is started with loginFailExit = false while its server cannot be
// reached (nothing listens on the server port yet), a reload with a different proxy set (entries removed,
// added and changed) is applied and answered with success, then the server becomes reachable. The set
// that gets registered must be the RELOADED one.
//
//	scripted server: the message stream after the login contains a NewProxy for exactly the reloaded names,
//	                 with the reloaded metadatas, and none for the removed names;
//	real frps (reached through a relay that is started late): the server's name table equals the reloaded
//	                 set and the stub plugin saw the reloaded metadatas.

var preloginSlots = newSlotPool(4, 29870, 2)

func preLoginReloadCase(c *h.Case) {
	begin(c)
	rng := c.Rng
	slot, blk, ok := preloginSlots.get()
	defer preloginSlots.put(slot)
	if !ok {
		run.Inconclusive("prelogin: port still busy")
		return
	}
	k := c.Idx - basePreLogin
	real := k%2 == 1
	pfx := fmt.Sprintf("c%d.", c.Idx)
	defer forgetRegs(pfx)
	defer forgetPhases(pfx)
	port := blk[0]

	mk := func(name, meta string) v1.ProxyConfigurer {
		pc := &v1.STCPProxyConfig{}
		pc.Name, pc.Type = pfx+name, "stcp"
		pc.Secretkey = "k"
		pc.LocalIP, pc.LocalPort = "127.0.0.1", 9
		pc.Metadatas = map[string]string{"m": meta}
		pc.Complete("")
		return pc
	}
	// initial set: a b c d; reloaded set: b (changed) c (unchanged) e f (added), a and d removed
	initial := []v1.ProxyConfigurer{mk("a", "a0"), mk("b", "b0"), mk("c", "c0"), mk("d", "d0")}
	reloaded := []v1.ProxyConfigurer{mk("f", "f0"), mk("b", "b1"), mk("c", "c0"), mk("e", "e0")}
	wantMeta := map[string]string{pfx + "b": "b1", pfx + "c": "c0", pfx + "e": "e0", pfx + "f": "f0"}
	nReloads := 1 + rng.Intn(2) // the reload may be repeated (fresh slices) before the login
	waitBefore := time.Duration(100+rng.Intn(900)) * time.Millisecond
	c.Data["kind"], c.Data["server"], c.Data["reloads_before_login"], c.Data["wait_before_reload"] = "reload-before-first-login", map[bool]string{false: "scripted", true: "real frps through a late relay"}[real], nReloads, waitBefore.String()

	common, _, _, err := h.LoadClientConfig(prop, fmt.Sprintf("serverAddr = \"127.0.0.1\"\nserverPort = %d\nauth.token = %q\nloginFailExit = false\ntransport.tls.enable = false\ntransport.poolCount = 0\n", port, token))
	if err != nil {
		run.Inconclusive("prelogin: configuration does not load")
		return
	}
	cli, err := h.StartClient(common, initial, nil) // nothing listens on the server port: the login loop retries
	if err != nil {
		run.Inconclusive("prelogin: client did not start: " + err.Error())
		return
	}
	defer cli.Close()
	time.Sleep(waitBefore)
	for i := 0; i < nReloads; i++ {
		set := append([]v1.ProxyConfigurer(nil), reloaded...)
		if err := cli.Svc.UpdateAllConfigurer(set, nil); err != nil {
			viol(c, "reload-refused", "UpdateAllConfigurer before the first login returned %v", err)
			return
		}
		c.Ev("reload", "before_first_login", true)
		run.Count("reloads", 1)
	}

	describe := func(got map[string]string) string {
		var l []string
		for n, m := range got {
			l = append(l, strings.TrimPrefix(n, pfx)+"="+m)
		}
		sort.Strings(l)
		return strings.Join(l, " ")
	}
	grace := 3*10*time.Second + 10*time.Second // the login loop backs off up to 10 s between attempts

	if !real {
		f := &fakeCtl{policy: map[string][]string{}, errSent: map[string][]int64{}, okSent: map[string][]int64{}}
		fs, err := h.StartFakeServer(h.FakeServerOpts{Port: port, Token: token, TCPMux: true, OnSession: f.session, OnWorkConn: f.onWorkConn})
		if err != nil {
			run.Inconclusive("prelogin: fake server did not start")
			return
		}
		f.fs = fs
		defer fs.Close()
		registered := func() map[string]string { // name -> metadatas of the last NewProxy, for names whose last message is a NewProxy
			got := map[string]string{}
			for _, ev := range f.snapshot() {
				if ev.Kind == "new" {
					got[ev.Name] = ev.Meta
				} else {
					delete(got, ev.Name)
				}
			}
			return got
		}
		if !h.Eventually(grace, func() bool { return fs.Logins.Load() > 0 && len(registered()) >= 4 }) {
			run.Inconclusive("prelogin: client did not log in")
			return
		}
		okc := h.Eventually(convergeGrace, func() bool { return reflect.DeepEqual(registered(), wantMeta) })
		if !okc {
			c.Data["stream"] = f.snapshot()
			viol(c, "reload-before-first-login-lost", "scripted server: a reload (a, d removed; e, f added; b changed) was applied %v after frpc started, before its first login, and returned success; after the login the server holds {%s}, the reloaded configuration is {%s}: the reload was forgotten", waitBefore, describe(registered()), describe(wantMeta))
			return
		}
		for _, n := range []string{"a", "d"} {
			if s := f.streamOf(pfx + n); s != "" {
				viol(c, "reload-before-first-login-lost", "scripted server: %s was removed by the reload before the first login, yet the message stream for it is %q", pfx+n, s)
				return
			}
		}
	} else {
		relay, err := h.StartTCPRelay(port, srv.Addr(), 0)
		if err != nil {
			run.Inconclusive("prelogin: relay did not start")
			return
		}
		defer relay.Close()
		registered := func() map[string]string {
			got := map[string]string{}
			for n := range liveNames(pfx) {
				m := ""
				for _, e := range regEvents(n) {
					if e.Op == "NewProxy" {
						m = e.Metas["m"]
					}
				}
				got[n] = m
			}
			return got
		}
		if !h.Eventually(grace, func() bool { return len(registered()) >= 4 }) {
			run.Inconclusive("prelogin: client did not log in")
			return
		}
		okc := h.Eventually(convergeGrace, func() bool { return reflect.DeepEqual(registered(), wantMeta) })
		if !okc {
			viol(c, "reload-before-first-login-lost", "real frps: a reload (a, d removed; e, f added; b changed) was applied %v after frpc started, before its first login (server not reachable yet), and returned success; after the login the server holds {%s}, the reloaded configuration is {%s}: the reload was forgotten", waitBefore, describe(registered()), describe(wantMeta))
			return
		}
	}
	for n := range wantMeta {
		if ph := cli.ProxyPhase(n); ph != "running" {
			if !h.Eventually(convergeGrace, func() bool { return cli.ProxyPhase(n) == "running" }) {
				viol(c, "status-not-running-for-registered-proxy", "%s is registered, status %q", n, cli.ProxyPhase(n))
				return
			}
		}
	}
	run.Count("reloads_before_first_login", 1)
	run.Distinct(fmt.Sprintf("prelogin|%v|%d|%d", real, nReloads, waitBefore/(250*time.Millisecond)))
	if k < 2 {
		run.Sample(map[string]any{"kind": "reload before first login", "server": c.Data["server"], "wait_before_reload": waitBefore.String()})
	}
}
