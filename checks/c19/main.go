// C19 — The client keeps exactly the configured-and-healthy proxies registered.
//
// Monitors (DESIGN.md §5/C19):
//  1. health counter model (health.go): client/health.Monitor driven directly through hundreds of probe
//     outcome sequences. http probes are observed one by one at the boundary to net/http (a recording
//     http.RoundTripper around http.DefaultTransport, which also prepares the scripted backend for the
//     next probe), so the reference counter ("N failures in a row, a success restarts the count") is
//     compared probe-exactly with the UP/DOWN callbacks. tcp probes are judged with closed-listener
//     windows and lower bounds on elapsed time.
//  2. reload convergence (reload.go): a real frpc against a real frps; configuration histories (add,
//     remove, change a field, reorder, duplicate names, no-op) through UpdateAllConfigurer and through
//     GET /api/reload, in bursts and at settle points; three-way ledger (configuration model, the
//     server's session table, the operating system's listeners and real traffic), registration events
//     counted by a stub server plugin, persistent tunnel connections across reloads, visitors.
//  3. health gating end to end (gating.go): health-checked proxies of a real frpc against a real frps;
//     registrations / closes at the server against the model driven by the observed probe outcomes.
//  4. wrapper state machine against a scripted server (scripted.go): start errors, missing and late
//     replies, reload while a reply is outstanding, work connections for stopped / unhealthy proxies.
//  5. visitors that cannot start (visitors.go): the harness holds their bindPort; a reload removes one,
//     moves one to a free port and keeps one; after the ports are freed the removed one must stay absent
//     for longer than the visitor manager's 10 s retry interval, the moved one must listen on the new
//     port only, the kept one must come up (socket inode and ownership decide whose listener it is).
//  6. local start failures (localfail.go): the server accepts the registration but the proxy's own start
//     fails (tls2raw / https2http plugin whose certificate files do not exist yet): the registration must be
//     withdrawn at the server (real frps table and port; exact N C stream at the scripted server), the start
//     is retried after the back-off, and once the files exist the proxy runs on both sides with TLS traffic.
//  7. churn (churn.go): rounds of ~40 one-round names loaded and, microseconds later, partly removed / changed
//     while they register, under processor oversubscription; per-name streams at the scripted server and
//     the name table of the real frps decide "a stopped proxy sends no further registration".
//  8. legal-transition automaton over the client.wrapper.phase hook (phase.go), active in all cases.
package main

import (
	"fmt"
	"net/http"
	"os"
	"sync"
	"time"

	clientproxy "github.com/fatedier/frp/client/proxy"

	"verif/h"
)

const prop = "C19"
const token = "c19-token"

// wrapper timings for the whole process (set once, before any client starts)
const (
	tCheck    = 100 * time.Millisecond
	tWaitResp = 3000 * time.Millisecond
	tStartErr = 5000 * time.Millisecond
)

var run *h.Run
var ports *h.PortAlloc

// index ranges of the phases (a replayed case index selects exactly one phase)
const (
	baseHealth    = 0
	baseReload    = 1000000
	baseGating    = 2000000
	baseScripted  = 3000000
	baseVisitors  = 4000000
	baseLocalFail = 5000000
	baseChurn     = 6000000
	basePreLogin  = 7000000
)

func main() {
	run = h.NewRun(prop, "exploration")
	run.Rule = "health: PRNG-generated probe outcome sequences over {2xx, non-2xx, timeout, refusal} x maxFailed 0-4 x interval/timeout 1-2 s (http, probe-exact) and closed-listener window scripts (tcp); distinct = (type, settings, outcome sequence). reload: PRNG-generated histories of 3-6 configuration sets over 5 proxy and 2 visitor names (add/remove/change/reorder/duplicate/no-op, api or http reload, burst or settled); distinct = (operation list, application modes). gating: segment scripts per health-checked proxy; distinct = (settings, observed outcome string). visitors: 3 visitors whose bindPort is held by the harness, then removed / moved / kept by a reload after 0-2 unchanged reloads (or ports freed first as control); distinct = (variant, unchanged reloads, order). churn: rounds of 30-54 one-round names, 40% removed / 30% changed after 0-200 us; distinct = (server kind, entries, rounds/50). prelogin: reload (remove/add/change) before the first login, server reachable afterwards, scripted and real frps; distinct = (server, reloads, delay). localfail: {tls2raw, https2http} x {real frps, scripted server} x 1-2 failed cycles before the certificate files appear; distinct = these. scripted: 7 templates (start error xk, missing reply + late reply, removed / changed while the reply is outstanding, health-gated work connections with and without a held reply, unchanged reloads, reload at 0-2 ms after a re-login is accepted); distinct = (template, parameters)"
	run.Assumptions = []string{
		"http probes are observed at a recording RoundTripper wrapped around http.DefaultTransport; it delegates to the real transport and only opens/closes the harness's own backend listener between two probes",
		"a refused tcp probe is invisible to the backend: tcp health scripts are judged with lower bounds on elapsed time (at most floor(W/interval)+1 probes fit into a closed window of measured length W)",
		"'eventually' clauses (converged, withdrawn, retried) are bounded-progress watchdogs of at least 3x the configured timer + 10 s",
		"wrapper timers are shortened with clientproxy.VerifSetTimings(100ms, 3s, 5s); health intervals and timeouts are whole seconds as in the configuration schema",
		"a case during which the whole process was not scheduled for more than 3 s at a stretch (6 s in total; measured by a ticker goroutine) is inconclusive: watchdog verdicts assume the process was running during the grace period",
		"legal repetitions of NewProxy (reply later than the reply timeout, retry after a start error) are taken from the phase log and discounted when registrations are counted",
		"the stub server plugin sees every NewProxy message frps receives and every CloseProxy that closed an existing proxy (frps notifies closes asynchronously, so only counts and lower time bounds are used)",
	}
	ports = h.Ports(prop)
	clientproxy.VerifSetTimings(tCheck, tWaitResp, tStartErr)
	installProbeRecorder()
	installPhaseMonitor()
	startStallDetector()

	if err := startSharedServer(); err != nil {
		fmt.Fprintln(os.Stderr, "server:", err)
		os.Exit(h.ExitHarnessError)
	}

	nHealth := run.N(300, 4000)
	nReload := run.N(120, 2400)
	nGating := run.N(20, 300)
	nScripted := run.N(64, 960)

	var wg sync.WaitGroup
	var wallMu sync.Mutex
	walls := map[string]float64{}
	only := os.Getenv("C19_ONLY") // debugging aid: run one phase only
	phase := func(name string, f func()) {
		if only != "" && only != name {
			return
		}
		wg.Add(1)
		go func() {
			defer wg.Done()
			t0 := time.Now()
			f()
			wallMu.Lock()
			walls[name] = time.Since(t0).Seconds()
			wallMu.Unlock()
		}()
	}
	phase("health", func() { run.ParallelRange(baseHealth, nHealth, run.N(300, 600), healthCase) })
	phase("reload", func() { run.ParallelRange(baseReload, nReload, run.N(14, 16), reloadCase) })
	phase("gating", func() { run.ParallelRange(baseGating, nGating, 20, gatingCase) })
	phase("scripted", func() { run.ParallelRange(baseScripted, nScripted, 32, scriptedCase) })
	phase("visitors", func() { run.ParallelRange(baseVisitors, run.N(6, 48), 8, unstartableVisitorCase) })
	phase("prelogin", func() { run.ParallelRange(basePreLogin, run.N(4, 24), 4, preLoginReloadCase) })
	phase("localfail", func() { run.ParallelRange(baseLocalFail, run.N(6, 48), 8, localFailCase) })
	wg.Wait()
	// the churn phase runs alone: it oversubscribes the processors on purpose
	if only == "" || only == "churn" {
		t0 := time.Now()
		withOversubscription(func() { run.ParallelRange(baseChurn, run.N(2, 6), 1, churnCase) })
		walls["churn"] = time.Since(t0).Seconds()
	}
	run.Set("phase_wall_s", walls)

	finishPhaseMonitor()
	stopSharedServer()
	run.Finish(60)
}

// client used by the harness for its own HTTP requests (admin API): never the default transport,
// which carries the probe recorder.
var ownHTTP = &http.Client{Transport: &http.Transport{DisableKeepAlives: true}, Timeout: 20 * time.Second}
