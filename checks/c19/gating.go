package main

import (
	"fmt"
	"strings"
	"sync"
	"time"

	"verif/h"
)

// Health gating end to end: a real frpc with http-health-checked tcp proxies against the real frps.
// Each proxy's backend is a scripted hback; the probe recorder yields the observed outcome sequence,
// the reference counter turns it into UP/DOWN instants, and the stub plugin yields the instants at
// which registrations and closes reached the server.

var gatingSlots = newSlotPool(20, 29500, 4)

func gatingCase(c *h.Case) {
	begin(c)
	rng := c.Rng
	slot, blk, ok := gatingSlots.get()
	defer gatingSlots.put(slot)
	if !ok {
		run.Inconclusive("gating: port block still busy")
		return
	}
	pfx := fmt.Sprintf("c%d.", c.Idx)
	defer forgetRegs(pfx)
	defer forgetPhases(pfx)
	nProx := 2 + rng.Intn(2)
	type gp struct {
		name      string
		hb        *hback
		maxFailed int
		startDown bool
		flap      bool
		failKind  byte
	}
	var gps []*gp
	for i := 0; i < nProx; i++ {
		id := fmt.Sprintf("g%d-%d", c.Idx, i)
		hb, err := newHback(id, time.Second)
		if err != nil {
			run.Inconclusive("gating: backend did not start")
			return
		}
		defer hb.Close()
		p := &gp{name: fmt.Sprintf("%sh%d", pfx, i), hb: hb, maxFailed: 1 + rng.Intn(4), startDown: rng.Intn(3) > 0, flap: rng.Intn(4) > 0, failKind: "NNRT"[rng.Intn(4)]}
		if p.startDown {
			hb.extend("", p.failKind, rng) // failing from the very first probe
		}
		gps = append(gps, p)
	}
	cfgText := func(skip int) string {
		var cfg strings.Builder
		fmt.Fprintf(&cfg, `serverAddr = "127.0.0.1"
serverPort = %d
auth.token = "%s"
loginFailExit = false
transport.tls.enable = false
transport.poolCount = 0
`, srv.Cfg.BindPort, token)
		for i, p := range gps {
			if i == skip {
				continue
			}
			fmt.Fprintf(&cfg, `
[[proxies]]
name = %q
type = "tcp"
localIP = "127.0.0.1"
localPort = %d
remotePort = %d
healthCheck.type = "http"
healthCheck.path = %q
healthCheck.intervalSeconds = 1
healthCheck.timeoutSeconds = 1
healthCheck.maxFailed = %d
`, p.name, p.hb.port, blk[i], p.hb.path, p.maxFailed)
		}
		return cfg.String()
	}
	var desc []map[string]any
	for _, p := range gps {
		desc = append(desc, map[string]any{"name": p.name, "maxFailed": p.maxFailed, "start_down": p.startDown, "flap": p.flap, "fail_kind": string(p.failKind)})
	}
	c.Data["kind"], c.Data["proxies"] = "gating", desc

	cli, err := h.StartClientText(prop, cfgText(-1))
	if err != nil {
		run.Inconclusive("gating: client did not start: " + err.Error())
		return
	}
	defer cli.Close()

	var wg sync.WaitGroup
	for _, p := range gps {
		wg.Add(1)
		go func(p *gp) {
			defer wg.Done()
			gatingProxy(c, cli, p.name, p.hb, p.maxFailed, p.startDown, p.flap, p.failKind)
		}(p)
	}
	wg.Wait()
	if c.Violations() > 0 {
		return
	}
	// stopped means stopped: an entry removed by a reload is closed at the server and its health monitor
	// stops probing the backend, while the others go on
	gone := gps[rng.Intn(len(gps))]
	skip := 0
	for i, p := range gps {
		if p == gone {
			skip = i
		}
	}
	_, pcs, vcs, err := h.LoadClientConfig(prop, cfgText(skip))
	if err != nil {
		run.Inconclusive("gating: configuration does not load")
		return
	}
	if err := cli.Svc.UpdateAllConfigurer(pcs, vcs); err != nil {
		viol(c, "reload-refused", "UpdateAllConfigurer returned %v", err)
		return
	}
	if !h.Eventually(convergeGrace, func() bool { return !liveNames(gone.name)[gone.name] }) {
		viol(c, "not-converged-stale-proxy-registered", "%s was removed from the configuration, %v later the server still holds it", gone.name, convergeGrace)
		return
	}
	time.Sleep(300 * time.Millisecond) // a probe in flight may still complete
	var before []int
	for _, p := range gps {
		before = append(before, p.hb.nProbes())
	}
	time.Sleep(2500 * time.Millisecond) // 2.5 probe intervals
	for i, p := range gps {
		n := p.hb.nProbes()
		if p == gone && n > before[i]+1 {
			viol(c, "health-probes-continue-after-stop", "%s was removed by a reload: %d further health probes reached its backend within 2.5 s", p.name, n-before[i])
			return
		}
		if p != gone && n == before[i] && !h.Eventually(15*time.Second, func() bool { return p.hb.nProbes() > before[i] }) {
			viol(c, "health-probes-of-unchanged-entry-stopped", "%s was not touched by the reload but its backend saw no health probe for 17 s (interval 1 s)", p.name)
			return
		}
	}
	run.Count("gating_checked_probes_stop", 1)
}

const gateGrace = 31 * time.Second // 3x (interval + timeout + back-off) + 10 s

func gatingProxy(c *h.Case, cli *h.Client, name string, hb *hback, maxFailed int, startDown, flap bool, fk byte) {
	rng := c.R.RandFor("gating-"+name, c.Idx)
	isLive := func() bool { return liveNames(name)[name] }
	waitProbes := func(n int) bool {
		return h.Eventually(time.Duration(n+2)*6*time.Second+20*time.Second, func() bool { return hb.nProbes() >= n })
	}
	fails := func(n int) string {
		var b []byte
		for i := 0; i < n; i++ {
			b = append(b, "NRT"[rng.Intn(3)])
		}
		return string(b)
	}
	fail := func(key, format string, args ...any) {
		probes, _, _ := hb.snapshot()
		c.Data["probes:"+name] = probes
		c.Data["server_events:"+name] = regEvents(name)
		c.Data["phases:"+name] = phaseHistory(name)
		viol(c, key, format, args...)
	}

	// A: unhealthy from the start: nothing may reach the server
	if startDown {
		if !waitProbes(2 + rng.Intn(2)) {
			run.Inconclusive("gating: no probes seen")
			return
		}
		if at, _ := regCounts(name); at != 0 || isLive() {
			fail("registered-before-first-successful-probe", "%s: every probe so far failed, yet %d NewProxy message(s) reached the server (registered: %v)", name, at, isLive())
			return
		}
		if ph := cli.ProxyPhase(name); ph != "new" {
			fail("status-of-unhealthy-proxy", "%s: status %q before the first successful probe", name, ph)
			return
		}
		run.Count("gating_checked_unregistered_while_failing", 1)
	}
	// B: first success
	hb.extend("S", 'S', rng)
	if !h.Eventually(gateGrace, isLive) {
		fail("not-registered-after-successful-probe", "%s: health check succeeds for %v, proxy not registered at the server; status %q", name, gateGrace, cli.ProxyPhase(name))
		return
	}
	if err := cli.WaitRunning(gateGrace, name); err != nil {
		fail("status-not-running-for-registered-proxy", "%s: registered at the server, status %q", name, cli.ProxyPhase(name))
		return
	}
	// C: failures below the threshold, separated by successes
	if flap && maxFailed >= 2 {
		var s string
		for r := 0; r < 2+rng.Intn(2); r++ {
			s += fails(maxFailed-1) + "S"
		}
		before := hb.nProbes()
		hb.extend(s, 'S', rng)
		if !waitProbes(before + len(s) + 1) {
			run.Inconclusive("gating: probes stalled")
			return
		}
		run.Count("gating_flap_segments", 1)
	}
	// D: exactly maxFailed failures in a row, then keep failing
	hb.extend(fails(maxFailed), fk, rng)
	if !h.Eventually(gateGrace+time.Duration(maxFailed)*3*time.Second, func() bool { return !isLive() }) {
		fail("not-withdrawn-after-max-consecutive-failures", "%s (maxFailed %d): health check failing for %v, proxy still registered; status %q", name, maxFailed, gateGrace, cli.ProxyPhase(name))
		return
	}
	if !h.Eventually(5*time.Second, func() bool { return cli.ProxyPhase(name) == "check failed" }) {
		fail("status-of-unhealthy-proxy", "%s: withdrawn at the server, status %q", name, cli.ProxyPhase(name))
		return
	}
	time.Sleep(time.Duration(500+rng.Intn(1500)) * time.Millisecond)
	if isLive() {
		fail("registered-while-health-check-failing", "%s: registered again while every probe since the withdrawal failed", name)
		return
	}
	// E: next success
	hb.extend("S", 'S', rng)
	if !h.Eventually(gateGrace, isLive) {
		fail("not-registered-after-successful-probe", "%s: health check succeeds again for %v, proxy not registered again; status %q", name, gateGrace, cli.ProxyPhase(name))
		return
	}
	_ = cli.WaitRunning(gateGrace, name)
	nJudge := hb.nProbes()
	time.Sleep(300 * time.Millisecond)

	// judgement over the whole observed sequence
	probes, _, broken := hb.snapshot()
	if broken != "" {
		run.Inconclusive("gating backend: " + broken)
		return
	}
	if nJudge > len(probes) {
		nJudge = len(probes)
	}
	outcomes := make([]bool, nJudge)
	drift := false
	var sb strings.Builder
	for k := 0; k < nJudge; k++ {
		outcomes[k] = probes[k].OK
		if probes[k].OK {
			sb.WriteByte('S')
		} else {
			sb.WriteString(strings.ToLower(probes[k].Planned))
			if probes[k].Planned == "S" {
				drift = true
			}
		}
		if !probes[k].HasDL || time.Duration(probes[k].DLms)*time.Millisecond > time.Second+50*time.Millisecond {
			fail("health-probe-deadline-beyond-configured-timeout", "%s: probe %d deadline %d ms (has %v), configured 1 s", name, k, probes[k].DLms, probes[k].HasDL)
			return
		}
	}
	model := healthModel(maxFailed, outcomes)
	var ups, downs []int64
	for _, m := range model {
		if m.Up {
			ups = append(ups, probes[m.After].End)
		} else {
			downs = append(downs, probes[m.After].End)
		}
	}
	// registrations: the instants at which the client started a registration (first one of the wrapper, or
	// after a health recovery) come from the phase log; repetitions after a reply timeout and retries after
	// a start error are legal extra NewProxy messages and are only counted. Closes are taken at the server.
	var starts, ats, cls []int64
	extra := 0
	collect := func() {
		starts, ats, cls, extra = nil, nil, nil, 0
		for _, p := range phaseHistory(name) {
			if p.To == "wait start" {
				if p.From == "new" || p.From == "check failed" {
					starts = append(starts, p.T)
				} else {
					extra++
				}
			}
		}
		for _, e := range regEvents(name) {
			if e.Op == "NewProxy" {
				ats = append(ats, e.T)
			} else {
				cls = append(cls, e.T)
			}
		}
	}
	h.Eventually(5*time.Second, func() bool { // frps sends close notifications asynchronously
		collect()
		return len(cls) >= len(downs) && len(ats) >= len(starts)+extra
	})
	c.Ev("gating", "name", name, "maxFailed", maxFailed, "outcomes", sb.String(), "model_ups", len(ups), "model_downs", len(downs), "registrations_started", len(starts), "repeated", extra, "newproxy_at_server", len(ats), "closes", len(cls))
	if len(ats) != len(starts)+extra {
		fail("registration-messages-differ-from-client-transitions", "%s: the client recorded %d registration starts and %d repetitions, %d NewProxy messages reached the server", name, len(starts), extra, len(ats))
		return
	}
	if len(ats) > 0 && len(ups) > 0 && ats[0] < ups[0] {
		fail("registered-before-first-successful-probe", "%s: the first NewProxy reached the server %v before the first successful probe had returned (outcomes %s)", name, time.Duration(ups[0]-ats[0]), sb.String())
		return
	}
	// walk starts and closes in time order: the first one that has no cause in the probe history is reported
	ia, ic := 0, 0
	for ia < len(starts) || ic < len(cls) {
		if ic >= len(cls) || (ia < len(starts) && starts[ia] <= cls[ic]) {
			j, t := ia, starts[ia]
			ia++
			if j >= len(ups) {
				fail("registered-without-health-transition", "%s (maxFailed %d): outcomes %s give %d healthy transition(s), the client started %d registrations", name, maxFailed, sb.String(), len(ups), len(starts))
				return
			}
			if t < ups[j] {
				key := "registered-again-without-health-transition"
				if j == 0 {
					key = "registered-before-first-successful-probe"
				}
				fail(key, "%s: registration number %d was started %v before the probe that made the proxy healthy (for the %d. time) had returned (outcomes %s)", name, j+1, time.Duration(ups[j]-t), j+1, sb.String())
				return
			}
			continue
		}
		j, t := ic, cls[ic]
		ic++
		if j >= len(downs) {
			fail("withdrawn-without-max-consecutive-failures", "%s (maxFailed %d): outcomes %s contain %d failures in a row only %d time(s), yet the server closed the proxy %d time(s)", name, maxFailed, sb.String(), maxFailed, len(downs), len(cls))
			return
		}
		if t < downs[j] {
			fail("withdrawn-without-max-consecutive-failures", "%s (maxFailed %d): close number %d reached the server %v before failure number %d in a row had been observed (outcomes %s)", name, maxFailed, j+1, time.Duration(downs[j]-t), maxFailed, sb.String())
			return
		}
	}
	if !drift {
		if len(starts) != len(ups) || len(cls) != len(downs) {
			fail("registrations-differ-from-health-transitions", "%s (maxFailed %d): outcomes %s give %d healthy / %d unhealthy transitions, the client started %d registrations, the server saw %d closes", name, maxFailed, sb.String(), len(ups), len(downs), len(starts), len(cls))
			return
		}
	} else {
		run.Count("gating_outcome_drift", 1)
	}
	run.Count("gating_proxies", 1)
	run.Count("gating_probes", int64(nJudge))
	run.Distinct(fmt.Sprintf("gating|%d|%s", maxFailed, sb.String()))
	if c.Idx%7 == 0 {
		run.Sample(map[string]any{"kind": "gating", "maxFailed": maxFailed, "outcomes": sb.String(), "registrations": len(ats), "closes": len(cls)})
	}
}
