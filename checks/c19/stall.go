package main

import (
	"sync"
	"time"

	"verif/h"
)

// Stall detector. Every "did not happen within the grace period" verdict assumes that the process was
// running during the grace period. On a machine shared with other heavy jobs the whole process is
// sometimes not scheduled for many seconds (all watchdogs of all cases then fire at once). A ticker
// goroutine records such gaps; a case during which the process lost more than a few seconds is
// inconclusive, not a violation.

type stallRec struct {
	at  int64
	gap time.Duration
}

var (
	stallMu   sync.Mutex
	stalls    []stallRec
	caseStart sync.Map // *h.Case -> int64
)

func startStallDetector() {
	go func() {
		const tick = 50 * time.Millisecond
		for {
			t := h.Now()
			time.Sleep(tick)
			if gap := time.Duration(h.Now()-t) - tick; gap > 400*time.Millisecond {
				stallMu.Lock()
				stalls = append(stalls, stallRec{at: h.Now(), gap: gap})
				stallMu.Unlock()
				run.Count("process_stalls_over_400ms", 1)
			}
		}
	}()
}

// stalledSince returns the longest and the total time the process was not scheduled since t0.
func stalledSince(t0 int64) (max, total time.Duration) {
	stallMu.Lock()
	defer stallMu.Unlock()
	for _, s := range stalls {
		if s.at >= t0 {
			total += s.gap
			if s.gap > max {
				max = s.gap
			}
		}
	}
	return
}

func begin(c *h.Case) { caseStart.Store(c, h.Now()) }

// viol reports a violation of case c unless the process was stalled during the case for long enough to
// explain a watchdog (or, for the one verdict that is an upper bound of about a second, at all).
func viol(c *h.Case, key, format string, args ...any) {
	t0 := int64(0)
	if v, ok := caseStart.Load(c); ok {
		t0 = v.(int64)
	}
	max, total := stalledSince(t0)
	if max > 3*time.Second || total > 6*time.Second || (key == "health-probe-exceeding-timeout-counted-as-success" && max > 0) {
		c.Ev("violation-suppressed-by-stall", "key", key, "longest_stall", max.String(), "total_stall", total.String())
		run.Inconclusive("process stalled during the case (" + key + ")")
		return
	}
	c.Violation(key, format, args...)
}
