package main

import (
	"fmt"
	"os"
	"time"

	"github.com/fatedier/frp/pkg/msg"

	"verif/h"
)

func main() {
	r := h.NewRun("C00", "exploration")
	pa := h.Ports("C00")
	ps := pa.Block(4)
	srv, err := h.StartServerText("C00", fmt.Sprintf(`
bindAddr = "127.0.0.1"
bindPort = %d
auth.token = "tok"
allowPorts = [{start=%d,end=%d}]
`, ps[0], ps[1], ps[3]))
	if err != nil {
		fmt.Println("server:", err)
		os.Exit(3)
	}
	defer srv.Close()
	be, _ := h.StartTCPBackend(0, h.IdentEcho("B1"))
	cli, err := h.StartClientText("C00", fmt.Sprintf(`
serverAddr = "127.0.0.1"
serverPort = %d
auth.token = "tok"
loginFailExit = false
[[proxies]]
name = "t1"
type = "tcp"
localIP = "127.0.0.1"
localPort = %d
remotePort = %d
`, ps[0], be.Port, ps[1]))
	if err != nil {
		fmt.Println("client:", err)
		os.Exit(3)
	}
	if err := cli.WaitRunning(5*time.Second, "t1"); err != nil {
		fmt.Println(err)
		os.Exit(3)
	}
	id, err := h.AskIdent(fmt.Sprintf("127.0.0.1:%d", ps[1]), 3*time.Second)
	fmt.Println("real client ident:", id, err)

	p, err := h.DialPeer(h.PeerOpts{ServerPort: ps[0], TCPMux: true, Token: "tok", AutoWork: true,
		WorkHandler: h.IdentBackend("P1", "tok", false, false, nil)})
	if err != nil || !p.LoggedIn() {
		fmt.Println("peer:", err, p.LoginResp)
		os.Exit(3)
	}
	resp, err := p.NewProxy(&msg.NewProxy{ProxyName: "pp", ProxyType: "tcp", RemotePort: ps[2]}, 3*time.Second)
	fmt.Println("newproxy:", resp, err)
	id, err = h.AskIdent(fmt.Sprintf("127.0.0.1:%d", ps[2]), 3*time.Second)
	fmt.Println("peer ident:", id, err)
	snap := srv.Snapshot()
	fmt.Printf("snapshot: sessions=%d proxies=%v tcpused=%v\n", len(snap.Sessions), snap.ProxyNames, snap.TCPPorts.Used)
	fmt.Println("listen ports:", h.OwnTCPListenPorts())
	p.Close()
	cli.Close()
	time.Sleep(200 * time.Millisecond)
	snap = srv.Snapshot()
	fmt.Printf("after: sessions=%d proxies=%v tcpused=%v hooks=%v\n", len(snap.Sessions), snap.ProxyNames, snap.TCPPorts.Used, h.HookHits())
	r.Distinct("a")
	r.Distinct("b")
	r.Eval(2)
	r.Rule = "smoke"
	r.Sample("smoke")
	r.Finish(2)
}
