package main

// Minimal fake OpenID Connect issuer (discovery, JWKS, client-credentials token endpoint) for the
// lattice points where neither side has an auth.token: with auth.method = "oidc" the token that keys
// the control cipher and the per-proxy encryption is empty.

import (
	"crypto"
	"crypto/rand"
	"crypto/rsa"
	"crypto/sha256"
	"encoding/base64"
	"encoding/json"
	"fmt"
	"math/big"
	"net"
	"net/http"
	"sync"
	"time"
)

const (
	oidcAudience     = "frps-c05"
	oidcClientID     = "c05-client"
	oidcClientSecret = "c05-client-secret"
)

type issuer struct {
	URL string
	key *rsa.PrivateKey
	srv *http.Server
}

var (
	oidc     *issuer
	oidcOnce sync.Once
	oidcErr  error
)

func b64u(b []byte) string { return base64.RawURLEncoding.EncodeToString(b) }

// ensureIssuer starts the shared issuer once.
func ensureIssuer() error {
	oidcOnce.Do(func() {
		for try := 0; try < 5; try++ {
			oidc, oidcErr = startIssuer(pa.Get())
			if oidcErr == nil {
				return
			}
		}
	})
	return oidcErr
}

func startIssuer(port int) (*issuer, error) {
	k, err := rsa.GenerateKey(rand.Reader, 2048)
	if err != nil {
		return nil, err
	}
	is := &issuer{URL: fmt.Sprintf("http://127.0.0.1:%d", port), key: k}
	mux := http.NewServeMux()
	mux.HandleFunc("/.well-known/openid-configuration", func(w http.ResponseWriter, r *http.Request) {
		w.Header().Set("Content-Type", "application/json")
		_ = json.NewEncoder(w).Encode(map[string]any{
			"issuer": is.URL, "authorization_endpoint": is.URL + "/auth", "token_endpoint": is.URL + "/token", "jwks_uri": is.URL + "/keys",
			"id_token_signing_alg_values_supported": []string{"RS256"}, "response_types_supported": []string{"id_token"}, "subject_types_supported": []string{"public"},
		})
	})
	mux.HandleFunc("/keys", func(w http.ResponseWriter, r *http.Request) {
		w.Header().Set("Content-Type", "application/json")
		_ = json.NewEncoder(w).Encode(map[string]any{"keys": []any{map[string]any{
			"kty": "RSA", "kid": "k1", "alg": "RS256", "use": "sig", "n": b64u(k.N.Bytes()), "e": b64u(big.NewInt(int64(k.E)).Bytes()),
		}}})
	})
	mux.HandleFunc("/token", func(w http.ResponseWriter, r *http.Request) {
		_ = r.ParseForm()
		id, sec, ok := r.BasicAuth()
		if !ok {
			id, sec = r.Form.Get("client_id"), r.Form.Get("client_secret")
		}
		if id != oidcClientID || sec != oidcClientSecret {
			w.WriteHeader(401)
			_, _ = w.Write([]byte(`{"error":"invalid_client"}`))
			return
		}
		now := time.Now().Unix()
		hb, _ := json.Marshal(map[string]any{"alg": "RS256", "kid": "k1", "typ": "JWT"})
		cb, _ := json.Marshal(map[string]any{"iss": is.URL, "sub": id, "aud": oidcAudience, "exp": now + 3600, "iat": now - 5})
		in := b64u(hb) + "." + b64u(cb)
		d := sha256.Sum256([]byte(in))
		sig, _ := rsa.SignPKCS1v15(rand.Reader, k, crypto.SHA256, d[:])
		w.Header().Set("Content-Type", "application/json")
		_ = json.NewEncoder(w).Encode(map[string]any{"access_token": in + "." + b64u(sig), "token_type": "Bearer", "expires_in": 3600})
	})
	ln, err := net.Listen("tcp", fmt.Sprintf("127.0.0.1:%d", port))
	if err != nil {
		return nil, err
	}
	is.srv = &http.Server{Handler: mux}
	go func() { _ = is.srv.Serve(ln) }()
	return is, nil
}
