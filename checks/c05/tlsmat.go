package main

import (
	"fmt"
	"math/rand"
	"os"
	"path/filepath"
	"strings"
	"time"

	"verif/h"
)

// tlsMatCfg: a real frpc with TLS on and TLS files (trusted CA, optionally certificate and key) that
// become unreadable while it runs. frpc reads these files again on every dial; after the relay cuts
// its connections, whatever it does next — reconnect or give up — nothing may cross the path in clear.
type tlsMatCfg struct {
	Protocol   string // tcp | websocket
	Mux        bool
	SrvMode    string // none | force   (force: a clear login is refused, but would already be on the wire)
	ClientCert bool   // certFile / keyFile configured as well
	ServerName string
	CustomByte bool
	Break      string // ca-removed | ca-garbage | cert-removed | key-garbage | all-removed
	PoolCount  int
}

func (t tlsMatCfg) sig() string { return fmt.Sprintf("%+v", t) }

func genTLSMat(i int, rng *rand.Rand) tlsMatCfg {
	t := tlsMatCfg{
		Protocol:   []string{"tcp", "websocket"}[i%2],
		Mux:        (i/2)%2 == 0,
		SrvMode:    []string{"none", "none", "force"}[(i/4)%3],
		ClientCert: rng.Intn(2) == 0,
		CustomByte: rng.Intn(2) == 0,
		PoolCount:  []int{0, 1, 2}[rng.Intn(3)],
	}
	if rng.Intn(2) == 0 {
		t.ServerName = goodName
	}
	breaks := []string{"ca-removed", "ca-removed", "ca-garbage", "all-removed"}
	if t.ClientCert {
		breaks = append(breaks, "cert-removed", "key-garbage", "cert-removed")
	}
	t.Break = breaks[rng.Intn(len(breaks))]
	return t
}

func copyFile(dst, src string) error {
	b, err := os.ReadFile(src)
	if err != nil {
		return err
	}
	return os.WriteFile(dst, b, 0o600)
}

func tlsMatCase(c *h.Case, i int) {
	rng := c.Rng
	t := genTLSMat(i, rng)
	c.Data["kind"], c.Data["cfg"] = "tls-material", t
	ps, err := serverFor(srvKey{Mode: t.SrvMode, Cert: "good", Mux: t.Mux})
	if err != nil {
		run.Inconclusive("tls-material: server did not start: " + err.Error())
		return
	}
	dir := filepath.Join(h.RunDir(prop), fmt.Sprintf("tlsmat-%d-%d", os.Getpid(), c.Idx))
	if err := os.MkdirAll(dir, 0o755); err != nil {
		run.Inconclusive("tls-material: scratch directory")
		return
	}
	defer os.RemoveAll(dir)
	caF, crtF, keyF := filepath.Join(dir, "ca.crt"), filepath.Join(dir, "client.crt"), filepath.Join(dir, "client.key")
	if copyFile(caF, pki.GoodCA) != nil || copyFile(crtF, pki.CliGoodCrt) != nil || copyFile(keyF, pki.CliGoodKey) != nil {
		run.Inconclusive("tls-material: cannot copy the TLS files")
		return
	}

	mk := func() string { return newMarker(rng) }
	user, meta, nTCP, nSTCP, nWeb, sk, pw, httpUser := mk(), mk(), mk(), mk(), mk(), mk(), mk(), mk()
	dom := mk() + ".verif.test"
	mb := &markerBackend{replies: map[string][]byte{}, seen: map[string]bool{}}
	var payloads []string // every payload marker ever handed to the tunnel (both directions)
	newExchange := func() (up []byte, down string) {
		u, d := mk(), mk()
		payloads = append(payloads, u, d)
		mb.mu.Lock()
		mb.replies[u] = buildPayload(rng, d, 2048)
		mb.mu.Unlock()
		return buildPayload(rng, u, 2048), d
	}

	var (
		pRelay, pTCP, pBeTCP int
		beTCP                *h.TCPBackend
		w                    *wire
	)
	opened := false
	for try := 0; try < 4 && !opened; try++ {
		ports := pa.Block(3)
		pRelay, pTCP, pBeTCP = ports[0], ports[1], ports[2]
		if beTCP, err = h.StartTCPBackend(pBeTCP, mb.serveTCP); err != nil {
			continue
		}
		if w, err = newWire(t.Protocol, pRelay, ps); err != nil {
			beTCP.Close()
			continue
		}
		opened = true
	}
	if !opened {
		run.Inconclusive("tls-material: endpoint ports busy")
		return
	}
	defer beTCP.Close()
	defer w.close()

	var sb strings.Builder
	sb.WriteString(clientCommonTOML(pRelay, ps.clientAuth(), user, t.Protocol, t.Mux, false, t.PoolCount, cliTLS{Enable: false}, false))
	cfg := strings.Replace(sb.String(), "transport.tls.enable = false\n", "", 1) // TLS on is the default; written out below
	sb.Reset()
	sb.WriteString(cfg)
	fmt.Fprintf(&sb, "transport.tls.enable = true\ntransport.tls.disableCustomTLSFirstByte = %v\ntransport.tls.trustedCaFile = \"%s\"\n", !t.CustomByte, caF)
	if t.ClientCert {
		fmt.Fprintf(&sb, "transport.tls.certFile = \"%s\"\ntransport.tls.keyFile = \"%s\"\n", crtF, keyF)
	}
	if t.ServerName != "" {
		fmt.Fprintf(&sb, "transport.tls.serverName = \"%s\"\n", t.ServerName)
	}
	fmt.Fprintf(&sb, "metadatas = { mk = \"%s\" }\n", meta)
	fmt.Fprintf(&sb, "\n[[proxies]]\nname = \"%s\"\ntype = \"tcp\"\nlocalIP = \"127.0.0.1\"\nlocalPort = %d\nremotePort = %d\n", nTCP, pBeTCP, pTCP)
	fmt.Fprintf(&sb, "\n[[proxies]]\nname = \"%s\"\ntype = \"stcp\"\nlocalIP = \"127.0.0.1\"\nlocalPort = %d\nsecretKey = \"%s\"\nallowUsers = [\"*\"]\n", nSTCP, pBeTCP, sk)
	fmt.Fprintf(&sb, "\n[[proxies]]\nname = \"%s\"\ntype = \"http\"\nlocalIP = \"127.0.0.1\"\nlocalPort = %d\ncustomDomains = [\"%s\"]\nhttpUser = \"%s\"\nhttpPassword = \"%s\"\n", nWeb, pBeTCP, dom, httpUser, pw)
	c.Data["frpc"] = sb.String()
	cli, err := startFrpc(sb.String())
	if err != nil {
		run.Inconclusive("tls-material: frpc did not start")
		return
	}
	defer cli.stop(c)
	names := []string{user + "." + nTCP, user + "." + nSTCP, user + "." + nWeb}
	if !h.Eventually(40*time.Second, func() bool {
		have := map[string]bool{}
		for _, n := range ps.Srv.Snapshot().ProxyNames {
			have[n] = true
		}
		return have[names[0]] && have[names[1]] && have[names[2]]
	}) {
		run.Inconclusive("tls-material: proxies were not registered over verified TLS")
		return
	}
	runIDs, _ := ps.sessionsOfUser(user)
	tcpAddr := fmt.Sprintf("127.0.0.1:%d", pTCP)
	up, down := newExchange()
	if err := retry(func() error { return exchange(tcpAddr, up, down, 20*time.Second) }); err != nil {
		run.Inconclusive("tls-material: tunnel did not carry traffic over TLS")
		return
	}

	ctl := map[string]string{"login user": user, "login metadata": meta, "proxy name (tcp)": nTCP, "proxy name (stcp)": nSTCP, "proxy name (http)": nWeb,
		"custom domain": dom, "http user": httpUser, "stcp secret key": sk, "http password": pw, "authentication token": ps.Token}
	for k, id := range runIDs {
		ctl[fmt.Sprintf("run id %d", k)] = id
	}
	scan := func(capture []byte) (what, m, form string, at int) {
		for wh, mm := range ctl {
			if f, a := findMarker(capture, mm); f != "" {
				return wh, mm, f, a
			}
		}
		for _, mm := range payloads {
			if f, a := findMarker(capture, mm); f != "" {
				return "tunnelled payload", mm, f, a
			}
		}
		return "", "", "", -1
	}
	// ---- phase 1: everything is inside verified TLS
	cap1 := w.captured()
	if len(cap1) == 0 {
		run.Inconclusive("observer blind: nothing captured while the tunnel worked")
		return
	}
	if what, m, form, at := scan(cap1); what != "" {
		c.Violation("tls-control-content-in-clear", "TLS on with a trusted CA: %s (%s) is visible as %s at offset %d: …%s… [%s]", what, m, form, at, excerpt(cap1, at, 60), t.sig())
		return
	}

	// ---- the TLS material becomes unreadable, then the network drops every connection
	garbage := []byte("-----BEGIN NOTHING-----\nthis is not PEM data\n")
	switch t.Break {
	case "ca-removed":
		_ = os.Remove(caF)
	case "ca-garbage":
		_ = os.WriteFile(caF, garbage, 0o600)
	case "cert-removed":
		_ = os.Remove(crtF)
	case "key-garbage":
		_ = os.WriteFile(keyF, garbage, 0o600)
	case "all-removed":
		_ = os.Remove(caF)
		_ = os.Remove(crtF)
		_ = os.Remove(keyF)
	}
	w.tcp.CutAll()
	c.Ev("material-broken-and-cut", "break", t.Break, "captured_before", len(cap1))
	run.Count("tls_material_breaks", 1)

	// ---- phase 2: bounded watch. frpc's first re-login attempts come within a second (fast retries),
	// later ones back off; users keep trying the tunnel meanwhile.
	deadline := time.Now().Add(6 * time.Second)
	var cap2 []byte
	for time.Now().Before(deadline) {
		up, down := newExchange()
		_ = exchange(tcpAddr, up, down, 1500*time.Millisecond)
		cap2 = w.captured()
		if what, _, _, _ := scan(cap2); what != "" {
			break
		}
		time.Sleep(250 * time.Millisecond)
	}
	cli.stop(c)
	cap2 = w.captured()
	run.Count("capture_bytes", int64(len(cap2)))
	run.Count("absence_checks", int64(len(ctl)+len(payloads)))
	c.Ev("after-cut", "captured_total", len(cap2), "after_cut", len(cap2)-len(cap1))
	if what, m, form, at := scan(cap2); what != "" {
		c.Violation("clear-text-after-tls-material-became-unreadable",
			"frpc runs with transport.tls.enable=true and a trusted CA%s; after %s and a connection drop, %s (%s) is readable on the path frpc <-> frps as %s at offset %d (%d bytes captured after the cut): …%s… [%s]",
			map[bool]string{true: " and a client certificate", false: ""}[t.ClientCert], t.Break, what, m, form, at, len(cap2)-len(cap1), excerpt(cap2, at, 60), t.sig())
		return
	}
	run.Count("tls_material_cases_judged", 1)
	run.Distinct("tlsmat|" + t.sig())
	if i < 1 {
		run.Sample(map[string]any{"kind": "tls material", "cfg": t, "bytes_after_cut": len(cap2) - len(cap1)})
	}
}
