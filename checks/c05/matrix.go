package main

import (
	"fmt"
	"math/rand"
	"strings"
	"time"

	"verif/h"
)

// matrixCfg is one (server TLS policy, client TLS identity) combination.
type matrixCfg struct {
	Protocol string
	Mux      bool
	SrvMode  string // none | force | ca
	SrvCert  string // random | good | othername | otherca
	Cli      cliTLS
	Real     bool // a complete real frpc (loginFailExit) instead of a scripted login over frp's real connector
}

func (m matrixCfg) sig() string { return fmt.Sprintf("%+v", m) }

// expectation is the independent statement of the identity rules (written from the property,
// not from the code): who must be refused, and by which clause.
func (m matrixCfg) expectation() (accept bool, key, why string) {
	wireTLS := m.Cli.Enable || m.Protocol == "quic"
	if !wireTLS {
		if m.SrvMode != "none" {
			return false, "forced-tls-peer-without-tls-accepted", "the server forces TLS (mode " + m.SrvMode + ") and the peer does not use TLS"
		}
		return true, "", ""
	}
	cert := ""
	if m.Cli.Enable {
		cert = m.Cli.Cert
	}
	if m.SrvMode == "ca" && cert != "good" {
		return false, "trusted-ca-peer-without-acceptable-cert-accepted", "the server trusts only the good CA and the peer presents " + map[string]string{"": "no certificate", "other": "a certificate of another CA"}[cert]
	}
	if m.Cli.Enable && m.Cli.TrustCA {
		sn := m.Cli.ServerName
		if sn == "" {
			sn = "127.0.0.1"
		}
		ok := (m.SrvCert == "good" && (sn == "127.0.0.1" || sn == goodName)) || (m.SrvCert == "othername" && sn == otherName)
		if !ok {
			return false, "client-accepted-server-with-other-identity", fmt.Sprintf("the client trusts the good CA and expects %q, the server presents the %s certificate", sn, m.SrvCert)
		}
	}
	return true, "", ""
}

// matrixTemplates are the combinations named in the design; every tier runs each of them on
// every transport. Remaining dimensions come from the PRNG.
func matrixTemplates() []matrixCfg {
	var t []matrixCfg
	for _, mode := range []string{"force", "ca"} {
		for _, cl := range []cliTLS{{Enable: false}, {Enable: true}, {Enable: true, Cert: "other"}, {Enable: true, Cert: "good"}} {
			t = append(t, matrixCfg{SrvMode: mode, SrvCert: "random", Cli: cl})
		}
	}
	for _, cert := range []string{"good", "othername", "otherca", "random"} {
		for _, sn := range []string{"", goodName} {
			t = append(t, matrixCfg{SrvMode: "none", SrvCert: cert, Cli: cliTLS{Enable: true, TrustCA: true, ServerName: sn}})
		}
	}
	t = append(t,
		matrixCfg{SrvMode: "none", SrvCert: "othername", Cli: cliTLS{Enable: true, TrustCA: true, ServerName: otherName}}, // control: that certificate is valid for its own name
		matrixCfg{SrvMode: "none", SrvCert: "random", Cli: cliTLS{Enable: false}},                                         // control: plaintext is fine when nothing forces TLS
		matrixCfg{SrvMode: "ca", SrvCert: "good", Cli: cliTLS{Enable: true, Cert: "good", TrustCA: true, ServerName: goodName}},
		matrixCfg{SrvMode: "ca", SrvCert: "otherca", Cli: cliTLS{Enable: true, Cert: "good", TrustCA: true}},
	)
	return t
}

func genMatrix(i int, rng *rand.Rand) matrixCfg {
	tpl := matrixTemplates()
	protos := []string{"tcp", "websocket", "quic", "kcp"}
	var m matrixCfg
	round := i / (len(tpl) * len(protos))
	if round >= 1 && rng.Intn(2) == 0 {
		// free combination
		m.SrvMode = []string{"none", "force", "ca"}[rng.Intn(3)]
		m.SrvCert = []string{"random", "good", "othername", "otherca"}[rng.Intn(4)]
		m.Cli.Enable = rng.Intn(4) != 0
		if m.Cli.Enable {
			m.Cli.Cert = []string{"", "other", "good"}[rng.Intn(3)]
			m.Cli.TrustCA = rng.Intn(2) == 0
			m.Cli.ServerName = []string{"", goodName, otherName}[rng.Intn(3)]
		}
		m.Protocol = protos[rng.Intn(4)]
	} else {
		m = tpl[i%len(tpl)]
		m.Protocol = protos[(i/len(tpl))%len(protos)]
	}
	m.Mux = rng.Intn(2) == 0
	if m.Cli.Enable {
		m.Cli.CustomByte = rng.Intn(2) == 0
	}
	m.Real = m.Protocol != "kcp" && rng.Intn(3) == 0
	return m
}

func matrixCase(c *h.Case, i int) {
	rng := c.Rng
	m := genMatrix(i, rng)
	c.Data["kind"], c.Data["cfg"] = "matrix", m
	accept, key, why := m.expectation()
	ps, err := serverFor(srvKey{Mode: m.SrvMode, Cert: m.SrvCert, Mux: m.Mux})
	if err != nil {
		run.Inconclusive("matrix: server did not start: " + err.Error())
		return
	}
	port := ps.Bind
	if m.Protocol == "quic" {
		port = ps.Quic
	}
	user := "mx" + newMarker(rng)
	common := clientCommonTOML(port, ps.clientAuth(), user, m.Protocol, m.Mux, false, 0, m.Cli, true)
	c.Data["frpc"] = common

	replied, accepted := false, false
	detail := ""
	if m.Real {
		cfg := common + fmt.Sprintf("\n[[proxies]]\nname = \"p\"\ntype = \"stcp\"\nlocalIP = \"127.0.0.1\"\nlocalPort = 9\nsecretKey = \"%s\"\n", newMarker(rng))
		cli, err := startFrpc(cfg)
		if err != nil {
			// with loginFailExit the process may already be gone when the harness looks for its
			// ready line: that is a refusal, decided below from the session table
			c.Ev("frpc-start", "err", err.Error())
			if !strings.Contains(err.Error(), "run:") {
				run.Inconclusive("matrix: frpc process did not start")
				return
			}
		}
		deadline := time.Now().Add(40 * time.Second)
		for cli != nil && time.Now().Before(deadline) {
			if ids, _ := ps.sessionsOfUser(user); len(ids) > 0 {
				break
			}
			if cli.ch.Exited() {
				break
			}
			time.Sleep(10 * time.Millisecond)
		}
		if ids, _ := ps.sessionsOfUser(user); len(ids) > 0 {
			accepted = true
		}
		replied = accepted
		detail = "real frpc process"
		if cli != nil {
			cli.stop(c)
		}
		run.Count("matrix_real_frpc", 1)
	} else {
		cc, _, _, err := h.LoadClientConfig(prop, common)
		if err != nil {
			run.Inconclusive("matrix: client config rejected: " + err.Error())
			return
		}
		p, err := h.DialPeer(h.PeerOpts{Common: cc, Token: ps.Token, User: user})
		detail = fmt.Sprintf("scripted login over frp's connector: err=%v", err)
		if p != nil {
			accepted = p.LoggedIn()
			replied = p.LoginResp.Version != "" || p.LoginResp.Error != "" || p.LoginResp.RunID != ""
			detail += fmt.Sprintf(" resp=%+v", p.LoginResp)
		}
		if ids, _ := ps.sessionsOfUser(user); len(ids) > 0 {
			accepted, replied = true, true
		}
		if p != nil {
			p.Close()
		}
		run.Count("matrix_scripted", 1)
	}
	c.Ev("outcome", "accepted", accepted, "replied", replied, "expect_accept", accept, "detail", detail)
	run.Count("matrix_attempts", 1)
	if !accept {
		if replied || accepted {
			c.Violation(key, "%s, yet its login was interpreted (accepted=%v, reply seen=%v; %s) [%s]", why, accepted, replied, detail, m.sig())
			return
		}
		run.Count("matrix_refused_as_required", 1)
	} else {
		if !accepted {
			run.Inconclusive("matrix: positive control did not log in (" + m.Protocol + ")")
			c.Ev("positive-control-failed", "detail", detail)
			return
		}
		run.Count("matrix_accepted_controls", 1)
	}
	run.Distinct("matrix|" + m.sig())
	if i < 2 {
		run.Sample(map[string]any{"kind": "tls matrix", "cfg": m, "expect_accept": accept, "accepted": accepted})
	}
}
