package main

import (
	"bytes"
	"encoding/base64"
	"encoding/binary"
	"fmt"
	"io"
	"math/rand"
	"net"
	"net/http"
	"os"
	"path/filepath"
	"strconv"
	"strings"
	"sync"
	"time"

	"verif/h"
)

// latticeCfg is one point of the configuration lattice.
type latticeCfg struct {
	Protocol   string // tcp | websocket | kcp | quic
	Mux        bool
	Scopes     bool
	Auth       string // "" = shared token | empty = token method without a token on either side | oidc = OIDC, no token either
	PoolCount  int
	TLS        bool
	CustomByte bool
	SrvMode    string // none | force | ca
	SrvCert    string // random | good
	TrustCA    bool   // clients verify the server (needs SrvCert good)
	ServerName string
	// per-proxy transport settings
	TCPEnc, TCPComp     bool
	WebEnc, WebComp     bool
	WebPwEnc, WebPwComp bool
	STCPEnc, STCPComp   bool // stcp proxy side (frps -> owner frpc), keyed by the token
	VisEnc, VisComp     bool // visitor side (visitor frpc -> frps), keyed by the secret key
	UDPEnc, UDPComp     bool
	PayloadKiB          int
	// transport.bandwidthLimit = 10MB (never throttles here) in client or server mode, "" = none
	TCPBW, WebBW, WebPwBW, STCPBW, UDPBW string
}

func (l latticeCfg) sig() string { return fmt.Sprintf("%+v", l) }

// wireTLS: does the frpc<->frps transport run inside TLS in this configuration?
// quic always does (the protocol embeds TLS 1.3), whatever transport.tls.enable says.
func (l latticeCfg) wireTLS() bool { return l.TLS || l.Protocol == "quic" }

func genLattice(idx int, rng *rand.Rand) latticeCfg {
	var l latticeCfg
	// the first three dimensions are enumerated from the index so that every tier covers the
	// (tls, transport, mux) grid; everything else is drawn from the PRNG
	l.TLS = idx%2 == 0
	l.Protocol = []string{"tcp", "websocket", "tcp", "kcp", "tcp", "quic", "websocket", "tcp"}[(idx/2)%8]
	l.Mux = (idx/16)%2 == 0
	if p := os.Getenv("C05_PROTO"); p != "" {
		l.Protocol = p
	}
	if rng.Intn(4) == 0 {
		l.Mux = !l.Mux
	}
	l.Scopes = rng.Intn(3) == 0
	l.PoolCount = []int{0, 0, 1, 2}[rng.Intn(4)]
	l.SrvMode, l.SrvCert = "none", "random"
	if l.TLS {
		l.CustomByte = rng.Intn(2) == 0
		l.SrvMode = []string{"none", "force", "ca"}[rng.Intn(3)]
		if l.SrvMode == "ca" || rng.Intn(2) == 0 {
			l.SrvCert = "good"
		}
		if l.SrvCert == "good" && rng.Intn(2) == 0 {
			l.TrustCA = true
			if rng.Intn(2) == 0 {
				l.ServerName = goodName
			}
		}
	}
	b := func() bool { return rng.Intn(2) == 0 }
	c := func() bool { return rng.Intn(4) == 0 }
	l.TCPEnc, l.TCPComp = b(), c()
	l.WebEnc, l.WebComp = b(), c()
	l.WebPwEnc, l.WebPwComp = b(), c()
	l.STCPEnc, l.STCPComp = b(), c()
	l.VisEnc, l.VisComp = b(), c()
	l.UDPEnc, l.UDPComp = b(), c()
	l.PayloadKiB = []int{4, 8, 16, 48}[rng.Intn(4)]
	if run.Thorough() && rng.Intn(6) == 0 {
		l.PayloadKiB = 256
	}
	// configurations without any shared token: the control cipher and the per-proxy encryption are
	// then keyed from the empty string, and must still be there
	l.Auth = []string{"", "", "empty", "oidc"}[rng.Intn(4)]
	bw := func() string { return []string{"", "client", "client", "server"}[rng.Intn(4)] }
	l.TCPBW, l.WebBW, l.WebPwBW, l.STCPBW, l.UDPBW = bw(), bw(), bw(), bw(), bw()
	return l
}

// leg is one tunnelled data path whose payload markers are judged on one capture.
type leg struct {
	Name     string
	Path     string // "P" = capture between the proxy-owning frpc and frps, "V" = visitor frpc and frps
	Enc      bool
	Comp     bool
	BW       string // bandwidthLimit mode of the proxy: "" (none) | client | server
	Up, Down string // payload markers user->backend and backend->user
	Flowed   bool   // both markers were delivered end to end (otherwise absence proves nothing)
}

// wire is the observer on one frpc<->frps path.
type wire struct {
	tcp *h.TCPRelay
	udp *h.UDPRelay
	ws  bool
}

// wsPayload undoes the websocket framing of one direction of a connection: it skips the HTTP
// upgrade head and concatenates the frame payloads, removing the client-to-server masking (the
// masking key travels in the frame header, so masked data is as readable to an eavesdropper as
// unmasked data). Parsing stops silently at the first malformed frame.
func wsPayload(stream []byte) []byte {
	i := bytes.Index(stream, []byte("\r\n\r\n"))
	if i < 0 {
		return nil
	}
	p := stream[i+4:]
	var out []byte
	for len(p) >= 2 {
		masked := p[1]&0x80 != 0
		n := uint64(p[1] & 0x7f)
		off := 2
		switch n {
		case 126:
			if len(p) < 4 {
				return out
			}
			n = uint64(binary.BigEndian.Uint16(p[2:4]))
			off = 4
		case 127:
			if len(p) < 10 {
				return out
			}
			n = binary.BigEndian.Uint64(p[2:10])
			off = 10
		}
		var key []byte
		if masked {
			if len(p) < off+4 {
				return out
			}
			key = p[off : off+4]
			off += 4
		}
		if n > uint64(len(p)-off) {
			n = uint64(len(p) - off) // capture ended inside the frame
		}
		body := p[off : off+int(n)]
		if masked {
			for j, b := range body {
				out = append(out, b^key[j%4])
			}
		} else {
			out = append(out, body...)
		}
		p = p[off+int(n):]
	}
	return out
}

func newWire(protocol string, port int, ps *pooledServer) (*wire, error) {
	w := &wire{}
	var err error
	switch protocol {
	case "kcp":
		w.udp, err = h.StartUDPRelay(port, fmt.Sprintf("127.0.0.1:%d", ps.Bind), 0)
	case "quic":
		w.udp, err = h.StartUDPRelay(port, fmt.Sprintf("127.0.0.1:%d", ps.Quic), 0)
	default:
		w.ws = protocol == "websocket"
		w.tcp, err = h.StartTCPRelay(port, fmt.Sprintf("127.0.0.1:%d", ps.Bind), 0)
	}
	return w, err
}

func (w *wire) captured() []byte {
	if w.tcp != nil {
		// one buffer per direction per connection, separated so that nothing is glued together
		var out []byte
		for _, p := range w.tcp.Pairs() {
			u, d := p.Captured()
			out = append(out, u...)
			out = append(out, 0)
			out = append(out, d...)
			out = append(out, 0)
			if w.ws {
				out = append(out, wsPayload(u)...)
				out = append(out, 0)
				out = append(out, wsPayload(d)...)
				out = append(out, 0)
			}
		}
		return out
	}
	return w.udp.Captured()
}

func (w *wire) close() {
	if w.tcp != nil {
		w.tcp.Close()
	}
	if w.udp != nil {
		w.udp.Close()
	}
}

// exchange: length-prefixed request/response over a TCP user connection.
func exchange(addr string, up []byte, wantDown string, timeout time.Duration) error {
	conn, err := net.DialTimeout("tcp", addr, timeout)
	if err != nil {
		return err
	}
	defer conn.Close()
	_ = conn.SetDeadline(time.Now().Add(timeout))
	hdr := make([]byte, 4)
	binary.BigEndian.PutUint32(hdr, uint32(len(up)))
	if _, err := conn.Write(append(hdr, up...)); err != nil {
		return err
	}
	if _, err := io.ReadFull(conn, hdr); err != nil {
		return fmt.Errorf("read reply header: %w", err)
	}
	n := binary.BigEndian.Uint32(hdr)
	if n > 8<<20 {
		return fmt.Errorf("bad reply length %d", n)
	}
	down := make([]byte, n)
	if _, err := io.ReadFull(conn, down); err != nil {
		return fmt.Errorf("read reply: %w", err)
	}
	if !bytes.Contains(down, []byte(wantDown)) {
		return fmt.Errorf("reply does not carry the backend's marker")
	}
	return nil
}

// markerBackend answers a request that carries up-marker X with the payload registered for X.
type markerBackend struct {
	mu      sync.Mutex
	replies map[string][]byte // up marker -> reply payload
	seen    map[string]bool
}

func (mb *markerBackend) lookup(req []byte) []byte {
	mb.mu.Lock()
	defer mb.mu.Unlock()
	for up, rep := range mb.replies {
		if bytes.Contains(req, []byte(up)) {
			mb.seen[up] = true
			return rep
		}
	}
	return nil
}

func (mb *markerBackend) sawUp(up string) bool {
	mb.mu.Lock()
	defer mb.mu.Unlock()
	return mb.seen[up]
}

func (mb *markerBackend) serveTCP(_ *h.TCPBackend, c net.Conn) {
	_ = c.SetDeadline(time.Now().Add(60 * time.Second))
	hdr := make([]byte, 4)
	if _, err := io.ReadFull(c, hdr); err != nil {
		return
	}
	n := binary.BigEndian.Uint32(hdr)
	if n > 8<<20 {
		return
	}
	req := make([]byte, n)
	if _, err := io.ReadFull(c, req); err != nil {
		return
	}
	rep := mb.lookup(req)
	binary.BigEndian.PutUint32(hdr, uint32(len(rep)))
	_, _ = c.Write(append(hdr, rep...))
	// wait for the user to close: keeps the half-close behaviour of the tunnel out of the picture
	_, _ = io.Copy(io.Discard, c)
}

func (mb *markerBackend) serveHTTP(w http.ResponseWriter, r *http.Request) {
	body, _ := io.ReadAll(r.Body)
	rep := mb.lookup(body)
	w.Header().Set("Content-Type", "application/octet-stream")
	w.Header().Set("Content-Length", strconv.Itoa(len(rep)))
	_, _ = w.Write(rep)
}

func latticeCase(c *h.Case) {
	rng := c.Rng
	l := genLattice(c.Idx, rng)
	c.Data["kind"], c.Data["cfg"] = "lattice", l
	ps, err := serverFor(srvKey{Mode: l.SrvMode, Cert: l.SrvCert, Mux: l.Mux, Scopes: l.Scopes, Auth: l.Auth})
	if err != nil {
		run.Inconclusive("lattice: server did not start: " + err.Error())
		return
	}

	// ---- markers
	mk := func() string { return newMarker(rng) }
	userP, userV := mk(), mk()
	metaP, metaV, pmeta := mk(), mk(), mk()
	nTCP, nWeb, nWebPw, nSTCP, nUDP, nSUDP, nXTCP, nTMux, nVis := mk(), mk(), mk(), mk(), mk(), mk(), mk(), mk(), mk()
	domWeb, domWebPw, domTMux := mk()+".verif.test", mk()+".verif.test", mk()+".verif.test"
	httpUser := mk()
	skSTCP, skSUDP, skXTCP := mk(), mk(), mk()
	pwWeb, pwTMux := mk(), mk()
	secrets := []struct{ Key, What, M string }{
		{"token-in-clear", "the authentication token", ps.Token},
		{"secret-key-in-clear", "the stcp secret key", skSTCP},
		{"secret-key-in-clear", "the sudp secret key", skSUDP},
		{"secret-key-in-clear", "the xtcp secret key", skXTCP},
		{"http-password-in-clear", "the http proxy password", pwWeb},
		{"http-password-in-clear", "the tcpmux proxy password", pwTMux},
	}
	legs := []*leg{
		{Name: "tcp", Path: "P", Enc: l.TCPEnc, Comp: l.TCPComp, BW: l.TCPBW, Up: mk(), Down: mk()},
		{Name: "http", Path: "P", Enc: l.WebEnc, Comp: l.WebComp, BW: l.WebBW, Up: mk(), Down: mk()},
		{Name: "http-auth", Path: "P", Enc: l.WebPwEnc, Comp: l.WebPwComp, BW: l.WebPwBW, Up: mk(), Down: mk()},
		{Name: "stcp", Path: "P", Enc: l.STCPEnc, Comp: l.STCPComp, BW: l.STCPBW, Up: mk(), Down: mk()},
		{Name: "udp", Path: "P", Enc: l.UDPEnc, Comp: l.UDPComp, BW: l.UDPBW, Up: mk(), Down: mk()},
	}
	legTCP, legWeb, legWebPw, legSTCP, legUDP := legs[0], legs[1], legs[2], legs[3], legs[4]
	legVis := &leg{Name: "stcp-visitor", Path: "V", Enc: l.VisEnc, Comp: l.VisComp, Up: legSTCP.Up, Down: legSTCP.Down}
	legs = append(legs, legVis)

	// ---- endpoints
	size := l.PayloadKiB * 1024
	mb := &markerBackend{replies: map[string][]byte{}, seen: map[string]bool{}}
	for _, lg := range legs[:4] {
		mb.replies[lg.Up] = buildPayload(rng, lg.Down, size)
	}
	udpDown := append([]byte("D:"), buildPayload(rng, legUDP.Down, 900)[:900]...)
	udpDown = append(udpDown, legUDP.Down...)
	var (
		pRelayP, pRelayV, pTCP, pUDP, pVis, pBeTCP, pBeHTTP, pBeUDP int
		beTCP                                                       *h.TCPBackend
		beHTTP                                                      *http.Server
		beUDP                                                       *h.UDPBackend
		wireP, wireV                                                *wire
	)
	opened := false
	for try := 0; try < 4 && !opened; try++ { // another process may grab a port between allocation and bind
		ports := pa.Block(8)
		pRelayP, pRelayV, pTCP, pUDP, pVis, pBeTCP, pBeHTTP, pBeUDP = ports[0], ports[1], ports[2], ports[3], ports[4], ports[5], ports[6], ports[7]
		var closers []func()
		fail := func() {
			for _, f := range closers {
				f()
			}
		}
		var err error
		if beTCP, err = h.StartTCPBackend(pBeTCP, mb.serveTCP); err != nil {
			continue
		}
		closers = append(closers, beTCP.Close)
		ln, err := net.Listen("tcp", fmt.Sprintf("127.0.0.1:%d", pBeHTTP))
		if err != nil {
			fail()
			continue
		}
		beHTTP = &http.Server{Handler: http.HandlerFunc(mb.serveHTTP), ReadHeaderTimeout: 30 * time.Second}
		go beHTTP.Serve(ln)
		closers = append(closers, func() { beHTTP.Close() })
		if beUDP, err = h.StartUDPBackend(pBeUDP, 4096, func(p []byte) [][]byte {
			if bytes.Contains(p, []byte(legUDP.Up)) {
				return [][]byte{udpDown}
			}
			return nil
		}); err != nil {
			fail()
			continue
		}
		closers = append(closers, beUDP.Close)
		if wireP, err = newWire(l.Protocol, pRelayP, ps); err != nil {
			fail()
			continue
		}
		closers = append(closers, wireP.close)
		if wireV, err = newWire(l.Protocol, pRelayV, ps); err != nil {
			fail()
			continue
		}
		opened = true
	}
	if !opened {
		run.Inconclusive("lattice: endpoint ports busy")
		return
	}
	defer beTCP.Close()
	defer beHTTP.Close()
	defer beUDP.Close()
	defer wireP.close()
	defer wireV.close()

	// ---- the two real clients
	ct := cliTLS{Enable: l.TLS, CustomByte: l.CustomByte, TrustCA: l.TrustCA, ServerName: l.ServerName}
	if l.SrvMode == "ca" {
		ct.Cert = "good"
	}
	tr := func(enc, comp bool, bw ...string) string {
		t := fmt.Sprintf("transport.useEncryption = %v\ntransport.useCompression = %v\n", enc, comp)
		if len(bw) > 0 && bw[0] != "" {
			t += fmt.Sprintf("transport.bandwidthLimit = \"10MB\"\ntransport.bandwidthLimitMode = \"%s\"\n", bw[0])
		}
		return t
	}
	var sb strings.Builder
	sb.WriteString(clientCommonTOML(pRelayP, ps.clientAuth(), userP, l.Protocol, l.Mux, l.Scopes, l.PoolCount, ct, false))
	fmt.Fprintf(&sb, "metadatas = { mk = \"%s\" }\n", metaP)
	fmt.Fprintf(&sb, "\n[[proxies]]\nname = \"%s\"\ntype = \"tcp\"\nlocalIP = \"127.0.0.1\"\nlocalPort = %d\nremotePort = %d\nmetadatas = { pm = \"%s\" }\n%s", nTCP, pBeTCP, pTCP, pmeta, tr(l.TCPEnc, l.TCPComp, l.TCPBW))
	fmt.Fprintf(&sb, "\n[[proxies]]\nname = \"%s\"\ntype = \"http\"\nlocalIP = \"127.0.0.1\"\nlocalPort = %d\ncustomDomains = [\"%s\"]\n%s", nWeb, pBeHTTP, domWeb, tr(l.WebEnc, l.WebComp, l.WebBW))
	fmt.Fprintf(&sb, "\n[[proxies]]\nname = \"%s\"\ntype = \"http\"\nlocalIP = \"127.0.0.1\"\nlocalPort = %d\ncustomDomains = [\"%s\"]\nhttpUser = \"%s\"\nhttpPassword = \"%s\"\n%s", nWebPw, pBeHTTP, domWebPw, httpUser, pwWeb, tr(l.WebPwEnc, l.WebPwComp, l.WebPwBW))
	fmt.Fprintf(&sb, "\n[[proxies]]\nname = \"%s\"\ntype = \"stcp\"\nlocalIP = \"127.0.0.1\"\nlocalPort = %d\nsecretKey = \"%s\"\nallowUsers = [\"*\"]\n%s", nSTCP, pBeTCP, skSTCP, tr(l.STCPEnc, l.STCPComp, l.STCPBW))
	fmt.Fprintf(&sb, "\n[[proxies]]\nname = \"%s\"\ntype = \"udp\"\nlocalIP = \"127.0.0.1\"\nlocalPort = %d\nremotePort = %d\n%s", nUDP, pBeUDP, pUDP, tr(l.UDPEnc, l.UDPComp, l.UDPBW))
	fmt.Fprintf(&sb, "\n[[proxies]]\nname = \"%s\"\ntype = \"sudp\"\nlocalIP = \"127.0.0.1\"\nlocalPort = %d\nsecretKey = \"%s\"\nallowUsers = [\"*\"]\n", nSUDP, pBeUDP, skSUDP)
	fmt.Fprintf(&sb, "\n[[proxies]]\nname = \"%s\"\ntype = \"xtcp\"\nlocalIP = \"127.0.0.1\"\nlocalPort = %d\nsecretKey = \"%s\"\nallowUsers = [\"*\"]\n", nXTCP, pBeTCP, skXTCP)
	fmt.Fprintf(&sb, "\n[[proxies]]\nname = \"%s\"\ntype = \"tcpmux\"\nmultiplexer = \"httpconnect\"\nlocalIP = \"127.0.0.1\"\nlocalPort = %d\ncustomDomains = [\"%s\"]\nhttpUser = \"%s\"\nhttpPassword = \"%s\"\n", nTMux, pBeTCP, domTMux, httpUser, pwTMux)
	cfgP := sb.String()
	sb.Reset()
	sb.WriteString(clientCommonTOML(pRelayV, ps.clientAuth(), userV, l.Protocol, l.Mux, l.Scopes, 0, ct, false))
	fmt.Fprintf(&sb, "metadatas = { mk = \"%s\" }\n", metaV)
	fmt.Fprintf(&sb, "\n[[visitors]]\nname = \"%s\"\ntype = \"stcp\"\nserverUser = \"%s\"\nserverName = \"%s\"\nsecretKey = \"%s\"\nbindAddr = \"127.0.0.1\"\nbindPort = %d\n%s", nVis, userP, nSTCP, skSTCP, pVis, tr(l.VisEnc, l.VisComp))
	cfgV := sb.String()
	c.Data["frpc_owner"], c.Data["frpc_visitor"] = cfgP, cfgV

	cliP, err := startFrpc(cfgP)
	if err != nil {
		run.Inconclusive("lattice: owner frpc did not start")
		c.Ev("frpc-start", "err", err.Error())
		return
	}
	defer cliP.stop(c)
	cliV, err := startFrpc(cfgV)
	if err != nil {
		run.Inconclusive("lattice: visitor frpc did not start")
		c.Ev("frpc-start", "err", err.Error())
		return
	}
	defer cliV.stop(c)
	names := []string{nTCP, nWeb, nWebPw, nSTCP, nUDP, nSUDP, nXTCP, nTMux}
	for i := range names {
		names[i] = userP + "." + names[i]
	}
	registered := h.Eventually(40*time.Second, func() bool {
		have := map[string]bool{}
		for _, n := range ps.Srv.Snapshot().ProxyNames {
			have[n] = true
		}
		for _, n := range names {
			if !have[n] {
				return false
			}
		}
		return true
	})
	if !registered {
		run.Inconclusive("lattice: proxies were not registered within 40 s (" + l.Protocol + ")")
		return
	}
	if err := h.WaitTCP(fmt.Sprintf("127.0.0.1:%d", pVis), 20*time.Second); err != nil {
		run.Inconclusive("lattice: visitor listener did not come up")
		return
	}
	if !h.Eventually(20*time.Second, func() bool { ids, _ := ps.sessionsOfUser(userV); return len(ids) > 0 }) {
		run.Inconclusive("lattice: visitor frpc did not log in")
		return
	}
	runIDs, _ := ps.sessionsOfUser(userP)
	rv, _ := ps.sessionsOfUser(userV)
	runIDs = append(runIDs, rv...)

	// ---- traffic
	const tmo = 30 * time.Second
	flow := func(lg *leg, err error, also ...*leg) {
		if err == nil && mb.sawUp(lg.Up) {
			lg.Flowed = true
			for _, a := range also {
				a.Flowed = true
			}
			run.Count("legs_flowed", int64(1+len(also)))
		} else {
			c.Ev("leg-failed", "leg", lg.Name, "err", fmt.Sprint(err))
			run.Count("legs_failed", 1)
			run.Count("legs_failed_"+lg.Name+"_"+l.Protocol, 1)
			if os.Getenv("C05_TIMING") != "" {
				fmt.Fprintf(os.Stderr, "case %d leg %s failed: %v\n", c.Idx, lg.Name, err)
			}
		}
	}
	var wg sync.WaitGroup
	wg.Add(5)
	go func() {
		defer wg.Done()
		up := buildPayload(rng2(c, 1), legTCP.Up, size)
		flow(legTCP, retry(func() error { return exchange(fmt.Sprintf("127.0.0.1:%d", pTCP), up, legTCP.Down, tmo) }))
	}()
	go func() {
		defer wg.Done()
		up := buildPayload(rng2(c, 2), legSTCP.Up, size)
		flow(legSTCP, retry(func() error { return exchange(fmt.Sprintf("127.0.0.1:%d", pVis), up, legSTCP.Down, tmo) }), legVis)
	}()
	httpDo := func(lg *leg, host, auth string, r *rand.Rand) error {
		body := buildPayload(r, lg.Up, size)
		req := fmt.Sprintf("POST /%s HTTP/1.1\r\nHost: %s\r\nContent-Length: %d\r\nConnection: close\r\n%s\r\n", "p", host, len(body), auth)
		resp, rb, err := h.RawHTTP(fmt.Sprintf("127.0.0.1:%d", ps.Vhost), append([]byte(req), body...), tmo)
		if err != nil {
			return err
		}
		if resp.StatusCode != 200 {
			return fmt.Errorf("status %d", resp.StatusCode)
		}
		if !bytes.Contains(rb, []byte(lg.Down)) {
			return fmt.Errorf("reply does not carry the backend's marker")
		}
		return nil
	}
	go func() {
		defer wg.Done()
		r := rng2(c, 3)
		flow(legWeb, retry(func() error { return httpDo(legWeb, domWeb, "", r) }))
	}()
	go func() {
		defer wg.Done()
		// the user's own Authorization header is tunnelled payload: it is sent only where the
		// configuration protects payload, so that the "password never in clear" rule below judges
		// what frp itself puts on the wire (the registration), not what the user chose to send
		if l.wireTLS() || l.WebPwEnc {
			auth := "Authorization: Basic " + base64.StdEncoding.EncodeToString([]byte(httpUser+":"+pwWeb)) + "\r\n"
			r := rng2(c, 4)
			flow(legWebPw, retry(func() error { return httpDo(legWebPw, domWebPw, auth, r) }))
		} else {
			resp, _, err := h.RawHTTP(fmt.Sprintf("127.0.0.1:%d", ps.Vhost), []byte("GET / HTTP/1.1\r\nHost: "+domWebPw+"\r\nConnection: close\r\n\r\n"), tmo)
			if err == nil {
				c.Ev("unauthenticated", "status", resp.StatusCode)
			}
		}
	}()
	go func() {
		defer wg.Done()
		ua, _ := net.ResolveUDPAddr("udp", fmt.Sprintf("127.0.0.1:%d", pUDP))
		uc, err := net.DialUDP("udp", nil, ua)
		if err != nil {
			return
		}
		defer uc.Close()
		up := append([]byte("U:"), buildPayload(rng2(c, 5), legUDP.Up, 900)[:900]...)
		up = append(up, legUDP.Up...)
		buf := make([]byte, 4096)
		for try := 0; try < 20; try++ {
			_, _ = uc.Write(up)
			_ = uc.SetReadDeadline(time.Now().Add(500 * time.Millisecond))
			n, err := uc.Read(buf)
			if err == nil && bytes.Contains(buf[:n], []byte(legUDP.Down)) {
				legUDP.Flowed = true
				run.Count("legs_flowed", 1)
				return
			}
		}
		run.Count("legs_failed", 1)
		run.Count("legs_failed_udp_"+l.Protocol, 1)
		c.Ev("leg-failed", "leg", "udp")
	}()
	wg.Wait()

	// orderly shutdown of both clients so that CloseProxy / teardown traffic is on the wire too
	cliV.stop(c)
	cliP.stop(c)
	capP, capV := wireP.captured(), wireV.captured()
	run.Count("capture_bytes", int64(len(capP)+len(capV)))
	c.Ev("captured", "owner_path_bytes", len(capP), "visitor_path_bytes", len(capV))
	caps := map[string][]byte{"P": capP, "V": capV}
	pathName := map[string]string{"P": "owner frpc <-> frps", "V": "visitor frpc <-> frps"}

	absent := func(key, what, m string, paths ...string) {
		for _, p := range paths {
			run.Count("absence_checks", 1)
			if form, at := findMarker(caps[p], m); form != "" {
				c.Violation(key, "%s (%s) is visible on the path %s as %s at offset %d: …%s… [%s]", what, m, pathName[p], form, at, excerpt(caps[p], at, 60), l.sig())
			}
		}
	}
	present := func(m string, path string) bool {
		run.Count("presence_controls", 1)
		form, _ := findMarker(caps[path], m)
		return form != ""
	}

	// rule 1: secrets never, in any configuration, on either path
	for _, s := range secrets {
		if s.M == "" {
			continue // no shared token in this configuration
		}
		absent(s.Key, s.What, s.M, "P", "V")
	}

	blind := false
	if l.wireTLS() {
		// rule 2: under TLS neither payload nor control-message content
		// (a marker that is readable is a violation whether or not the exchange completed: a broken
		// layering can leak one direction and garble the other)
		for _, lg := range legs[:5] {
			absent("tls-payload-in-clear", "payload of the "+lg.Name+" proxy (user->backend)", lg.Up, "P", "V")
			absent("tls-payload-in-clear", "payload of the "+lg.Name+" proxy (backend->user)", lg.Down, "P", "V")
		}
		ctl := map[string]string{
			"login user": userP, "visitor login user": userV, "login metadata": metaP, "visitor login metadata": metaV, "proxy metadata": pmeta,
			"proxy name (tcp)": nTCP, "proxy name (http)": nWeb, "proxy name (http+auth)": nWebPw, "proxy name (stcp)": nSTCP, "proxy name (udp)": nUDP,
			"proxy name (sudp)": nSUDP, "proxy name (xtcp)": nXTCP, "proxy name (tcpmux)": nTMux, "visitor name": nVis,
			"custom domain": domWeb, "custom domain (auth)": domWebPw, "custom domain (tcpmux)": domTMux, "http user": httpUser,
		}
		for what, m := range ctl {
			absent("tls-control-content-in-clear", what, m, "P", "V")
		}
		for _, id := range runIDs {
			absent("tls-control-content-in-clear", "run id", id, "P", "V")
		}
	} else {
		// sensitivity control of the observer: the plaintext login must be readable on both paths
		if !present(userP, "P") || !present(userV, "V") {
			blind = true
			run.Inconclusive("observer blind: plaintext login not found in the capture")
		}
		// rule 3: proxy encryption hides payload without TLS; with neither, the payload must be visible
		for _, lg := range legs {
			switch {
			case lg.Enc:
				// judged whether or not the exchange completed (see above)
				absent("proxy-encryption-payload-in-clear-"+lg.Name, "payload of the encrypted "+lg.Name+" leg (user->backend, bandwidthLimit mode \""+lg.BW+"\")", lg.Up, lg.Path)
				absent("proxy-encryption-payload-in-clear-"+lg.Name, "payload of the encrypted "+lg.Name+" leg (backend->user, bandwidthLimit mode \""+lg.BW+"\")", lg.Down, lg.Path)
			case !lg.Flowed:
			case !lg.Comp:
				if !present(lg.Up, lg.Path) || !present(lg.Down, lg.Path) {
					blind = true
					run.Inconclusive("observer blind: unprotected payload not found in the capture (" + lg.Name + ", " + l.Protocol + ")")
				} else {
					run.Count("sensitivity_controls_ok", 1)
				}
			}
		}
	}
	if blind {
		return
	}
	nflow := 0
	for _, lg := range legs {
		if lg.Flowed {
			nflow++
		}
	}
	if nflow == 0 {
		run.Inconclusive("lattice: no leg carried traffic")
		return
	}
	run.Count("lattice_cases_judged", 1)
	run.Distinct("lattice|" + l.sig())
	if c.Idx < 2 {
		run.Sample(map[string]any{"kind": "lattice", "cfg": l, "legs_flowed": nflow, "capture_bytes": len(capP) + len(capV)})
	}
}

// retry: the owner frpc may still be processing the registration replies when the server already
// lists the proxies; a first user connection can then be dropped by the client.
func retry(f func() error) error {
	var err error
	for i := 0; i < 4; i++ {
		if err = f(); err == nil {
			return nil
		}
		time.Sleep(time.Duration(150*(i+1)) * time.Millisecond)
	}
	return err
}

// frpc is a real frpc in a sacrificial child process (uses vnode): frpc can crash when it is
// stopped in the instant after a login (nil control in keepControllerWorking), which is outside
// this property and must not end the monitors.
type frpc struct {
	ch      *h.Child
	stopped bool
}

func startFrpc(cfg string, env ...string) (*frpc, error) {
	ch, err := h.StartChild(prop, "frpc", cfg, env...)
	if err != nil {
		if ch != nil {
			cleanupChild(ch)
		}
		return nil, err
	}
	run.Count("frpc_processes", 1)
	return &frpc{ch: ch}, nil
}

// stop ends the client gracefully (SIGTERM, so that the teardown messages cross the wire too).
func (f *frpc) stop(c *h.Case) {
	if f.stopped {
		return
	}
	f.stopped = true
	f.ch.Term(8 * time.Second)
	if line, frame, ok := f.ch.Crash(); ok {
		run.Count("frpc_child_crashes_ignored", 1)
		run.Count("frpc_child_crash:"+frame, 1)
		if c != nil {
			c.Ev("frpc-crash", "line", line, "frame", frame)
		}
	}
	cleanupChild(f.ch)
}

func cleanupChild(ch *h.Child) {
	if !ch.Exited() {
		ch.Kill()
	}
	_ = os.Remove(ch.CfgPath)
	_ = os.Remove(ch.ErrPath)
	_ = os.Remove(ch.OutPath)
	if m, _ := filepath.Glob(ch.RaceLog + "*"); len(m) > 0 {
		for _, f := range m {
			_ = os.Remove(f)
		}
	}
}

// rng2 derives an independent PRNG for a goroutine of the case (the case PRNG is not thread-safe).
func rng2(c *h.Case, k int) *rand.Rand { return c.R.RandFor(fmt.Sprintf("case%d", k), c.Idx) }
