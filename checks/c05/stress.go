package main

import (
	"fmt"
	"os"
	"time"

	"verif/h"
)

// cancelStress (only with C05_STRESS_CANCEL=<n>, not part of any tier) reproduces the frpc
// defect this check has to work around: a real in-process frpc is cancelled in the instant its
// first login succeeds; client.(*Service).keepControllerWorking then dereferences the control
// that stop() has just set to nil and the process dies. See fixes/C05-frpc-nil-control-on-cancel.diff.
func cancelStress(n int) {
	ps, err := serverFor(srvKey{Mode: "none", Cert: "random", Mux: true})
	if err != nil {
		fmt.Fprintln(os.Stderr, err)
		os.Exit(h.ExitHarnessError)
	}
	for i := 0; i < n; i++ {
		user := fmt.Sprintf("st%06d", i)
		cfg := clientCommonTOML(ps.Bind, ps.clientAuth(), user, "tcp", true, false, 0, cliTLS{Enable: i%2 == 0}, false)
		cli, err := h.StartClientText(prop, cfg)
		if err != nil {
			fmt.Fprintln(os.Stderr, err)
			os.Exit(h.ExitHarnessError)
		}
		h.Eventually(10*time.Second, func() bool { ids, _ := ps.sessionsOfUser(user); return len(ids) > 0 })
		cli.Close()
	}
	fmt.Printf("cancel stress: %d start/cancel rounds survived\n", n)
	closeServers()
	os.Exit(0)
}
