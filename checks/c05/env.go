package main

import (
	"fmt"
	"os"
	"path/filepath"
	"strings"
	"sync"

	"verif/h"
)

// pki holds the certificate material shared by all cases of a run.
//
//	good CA:  server cert for 127.0.0.1 + frps.verif.test, server cert for other.verif.test only, client cert
//	other CA: server cert for 127.0.0.1 + frps.verif.test, client cert
type pkiSet struct {
	GoodCA, OtherCA                  string
	SrvGoodCrt, SrvGoodKey           string
	SrvOtherNameCrt, SrvOtherNameKey string
	SrvOtherCACrt, SrvOtherCAKey     string
	CliGoodCrt, CliGoodKey           string
	CliOtherCrt, CliOtherKey         string
}

const (
	goodName  = "frps.verif.test"
	otherName = "other.verif.test"
)

var pki pkiSet
var pkiDir string

func setupPKI() error {
	dir := filepath.Join(h.RunDir(prop), fmt.Sprintf("pki-%d", os.Getpid()))
	pkiDir = dir
	good, err := h.NewCA(dir, "good")
	if err != nil {
		return err
	}
	other, err := h.NewCA(dir, "other")
	if err != nil {
		return err
	}
	pki.GoodCA, pki.OtherCA = good.CertFile, other.CertFile
	if pki.SrvGoodCrt, pki.SrvGoodKey, err = good.Issue("server", "127.0.0.1", goodName); err != nil {
		return err
	}
	if pki.SrvOtherNameCrt, pki.SrvOtherNameKey, err = good.Issue("server-othername", otherName); err != nil {
		return err
	}
	if pki.SrvOtherCACrt, pki.SrvOtherCAKey, err = other.Issue("server", "127.0.0.1", goodName); err != nil {
		return err
	}
	if pki.CliGoodCrt, pki.CliGoodKey, err = good.Issue("client", "client.verif.test"); err != nil {
		return err
	}
	if pki.CliOtherCrt, pki.CliOtherKey, err = other.Issue("client", "client.verif.test"); err != nil {
		return err
	}
	return nil
}

// srvKey selects one shared frps instance.
type srvKey struct {
	Mode   string // none | force | ca   (ca = trustedCaFile only: the force flag must be implied)
	Cert   string // random | good | othername | otherca
	Mux    bool
	Scopes bool   // auth.additionalScopes = HeartBeats, NewWorkConns
	Auth   string // "" = token | empty (token method, no token on either side) | oidc (no token either)
	Legacy bool   // the server is configured through a legacy INI document (tls_only), only with Mode force / Auth "" / Cert random
}

func (k srvKey) String() string {
	if k.Legacy {
		return fmt.Sprintf("mode=%s,cert=%s,mux=%v,scopes=%v,auth=%s,legacy-ini", k.Mode, k.Cert, k.Mux, k.Scopes, k.Auth)
	}
	return fmt.Sprintf("mode=%s,cert=%s,mux=%v,scopes=%v,auth=%s", k.Mode, k.Cert, k.Mux, k.Scopes, k.Auth)
}

type pooledServer struct {
	once  sync.Once
	Key   srvKey
	Srv   *h.Server
	Token string
	Bind  int // tcp control port (also websocket); kcp listens on the same number (udp)
	Quic  int
	Vhost int
	TMux  int // tcpmux httpconnect port
	Err   error
}

var (
	poolMu  sync.Mutex
	startMu sync.Mutex
	pool    = map[srvKey]*pooledServer{}
	pa      *h.PortAlloc
)

// serverFor starts (once) and returns the shared server with the given TLS policy.
func serverFor(k srvKey) (*pooledServer, error) {
	poolMu.Lock()
	ps, ok := pool[k]
	if !ok {
		ps = &pooledServer{Key: k}
		pool[k] = ps
	}
	poolMu.Unlock()
	ps.once.Do(func() {
		rng := run.RandFor("server|"+k.String(), 0)
		if k.Auth == "" {
			ps.Token = newMarker(rng)
		}
		if k.Auth == "oidc" {
			if ps.Err = ensureIssuer(); ps.Err != nil {
				return
			}
		}
		for try := 0; try < 5; try++ { // another process may grab a port between allocation and bind
			ports := pa.Block(4)
			ps.Bind, ps.Quic, ps.Vhost, ps.TMux = ports[0], ports[1], ports[2], ports[3]
			var sb strings.Builder
			fmt.Fprintf(&sb, "bindAddr = \"127.0.0.1\"\nproxyBindAddr = \"127.0.0.1\"\nbindPort = %d\nkcpBindPort = %d\nquicBindPort = %d\n", ps.Bind, ps.Bind, ps.Quic)
			fmt.Fprintf(&sb, "vhostHTTPPort = %d\ntcpmuxHTTPConnectPort = %d\n", ps.Vhost, ps.TMux)
			switch k.Auth {
			case "":
				fmt.Fprintf(&sb, "auth.token = \"%s\"\n", ps.Token)
			case "oidc":
				fmt.Fprintf(&sb, "auth.method = \"oidc\"\nauth.oidc.issuer = \"%s\"\nauth.oidc.audience = \"%s\"\n", oidc.URL, oidcAudience)
			}
			sb.WriteString("allowPorts = [{start=15000,end=15999}]\nuserConnTimeout = 10\n")
			if k.Scopes {
				sb.WriteString("auth.additionalScopes = [\"HeartBeats\", \"NewWorkConns\"]\n")
			}
			fmt.Fprintf(&sb, "transport.tcpMux = %v\ntransport.maxPoolCount = 3\n", k.Mux)
			switch k.Mode {
			case "force":
				sb.WriteString("transport.tls.force = true\n")
			case "ca":
				fmt.Fprintf(&sb, "transport.tls.trustedCaFile = \"%s\"\n", pki.GoodCA)
			}
			switch k.Cert {
			case "good":
				fmt.Fprintf(&sb, "transport.tls.certFile = \"%s\"\ntransport.tls.keyFile = \"%s\"\n", pki.SrvGoodCrt, pki.SrvGoodKey)
			case "othername":
				fmt.Fprintf(&sb, "transport.tls.certFile = \"%s\"\ntransport.tls.keyFile = \"%s\"\n", pki.SrvOtherNameCrt, pki.SrvOtherNameKey)
			case "otherca":
				fmt.Fprintf(&sb, "transport.tls.certFile = \"%s\"\ntransport.tls.keyFile = \"%s\"\n", pki.SrvOtherCACrt, pki.SrvOtherCAKey)
			}
			if k.Legacy {
				// the same policy written as a legacy INI document: tls_only must mean transport.tls.force
				sb.Reset()
				fmt.Fprintf(&sb, "[common]\nbind_addr = 127.0.0.1\nproxy_bind_addr = 127.0.0.1\nbind_port = %d\nkcp_bind_port = %d\nquic_bind_port = %d\n", ps.Bind, ps.Bind, ps.Quic)
				fmt.Fprintf(&sb, "vhost_http_port = %d\ntcpmux_httpconnect_port = %d\ntoken = %s\n", ps.Vhost, ps.TMux, ps.Token)
				fmt.Fprintf(&sb, "allow_ports = 15000-15999\nuser_conn_timeout = 10\ntcp_mux = %v\nmax_pool_count = 3\ntls_only = true\n", k.Mux)
			}
			startMu.Lock() // NewService writes package-level state: one at a time
			ps.Srv, ps.Err = h.StartServerText(prop, sb.String())
			startMu.Unlock()
			if ps.Err == nil || !strings.Contains(ps.Err.Error(), "address already in use") {
				break
			}
		}
		if ps.Err == nil {
			run.Count("servers_started", 1)
		}
	})
	return ps, ps.Err
}

func closeServers() {
	poolMu.Lock()
	defer poolMu.Unlock()
	var wg sync.WaitGroup
	for _, ps := range pool {
		if ps.Srv != nil {
			wg.Add(1)
			go func(s *h.Server) { defer wg.Done(); s.Close() }(ps.Srv)
		}
	}
	wg.Wait()
	if pkiDir != "" {
		_ = os.RemoveAll(pkiDir)
	}
}

// sessionsOfUser returns the run ids of the sessions whose login carried the given user.
func (ps *pooledServer) sessionsOfUser(prefix string) (runIDs []string, users []string) {
	for _, s := range ps.Srv.Snapshot().Sessions {
		if strings.HasPrefix(s.User, prefix) {
			runIDs = append(runIDs, s.RunID)
			users = append(users, s.User)
		}
	}
	return
}

// clientTransportTOML renders the transport / auth part of a frpc configuration.
type cliTLS struct {
	Enable     bool
	CustomByte bool   // send frp's 0x17 first byte before the TLS handshake
	Cert       string // "" | good | other
	TrustCA    bool   // trustedCaFile = good CA
	ServerName string // "" = default (server address)
}

// clientAuth renders the auth part of a frpc configuration that matches this server.
func (ps *pooledServer) clientAuth() string {
	switch ps.Key.Auth {
	case "empty":
		return ""
	case "oidc":
		return fmt.Sprintf("auth.method = \"oidc\"\nauth.oidc.clientID = \"%s\"\nauth.oidc.clientSecret = \"%s\"\nauth.oidc.audience = \"%s\"\nauth.oidc.tokenEndpointURL = \"%s/token\"\n",
			oidcClientID, oidcClientSecret, oidcAudience, oidc.URL)
	}
	return fmt.Sprintf("auth.token = \"%s\"\n", ps.Token)
}

func clientCommonTOML(port int, auth, user, protocol string, mux bool, scopes bool, poolCount int, t cliTLS, failExit bool) string {
	var sb strings.Builder
	fmt.Fprintf(&sb, "serverAddr = \"127.0.0.1\"\nserverPort = %d\nloginFailExit = %v\n", port, failExit)
	if user != "" {
		fmt.Fprintf(&sb, "user = \"%s\"\n", user)
	}
	sb.WriteString(auth)
	if scopes {
		sb.WriteString("auth.additionalScopes = [\"HeartBeats\", \"NewWorkConns\"]\n")
	}
	fmt.Fprintf(&sb, "transport.protocol = \"%s\"\ntransport.tcpMux = %v\ntransport.poolCount = %d\n", protocol, mux, poolCount)
	sb.WriteString("transport.heartbeatInterval = 1\ntransport.heartbeatTimeout = 90\ntransport.dialServerTimeout = 10\n")
	fmt.Fprintf(&sb, "transport.tls.enable = %v\n", t.Enable)
	if t.Enable {
		fmt.Fprintf(&sb, "transport.tls.disableCustomTLSFirstByte = %v\n", !t.CustomByte)
		switch t.Cert {
		case "good":
			fmt.Fprintf(&sb, "transport.tls.certFile = \"%s\"\ntransport.tls.keyFile = \"%s\"\n", pki.CliGoodCrt, pki.CliGoodKey)
		case "other":
			fmt.Fprintf(&sb, "transport.tls.certFile = \"%s\"\ntransport.tls.keyFile = \"%s\"\n", pki.CliOtherCrt, pki.CliOtherKey)
		}
		if t.TrustCA {
			fmt.Fprintf(&sb, "transport.tls.trustedCaFile = \"%s\"\n", pki.GoodCA)
		}
		if t.ServerName != "" {
			fmt.Fprintf(&sb, "transport.tls.serverName = \"%s\"\n", t.ServerName)
		}
	}
	return sb.String()
}
