package main

import (
	"bytes"
	"encoding/binary"
	"encoding/json"
	"fmt"
	"io"
	"math/rand"
	"net"
	"net/http"
	"os"
	"strings"
	"sync"
	"sync/atomic"
	"time"

	"verif/h"
)

// reloadCfg: a proxy that turns encryption on by a real configuration reload (frpc admin API
// /api/reload of the owner process) while requests / connections of the old registration are still
// in flight. After the reload is in effect, nothing sent through the proxy may be readable.
type reloadCfg struct {
	Protocol     string // tcp | websocket
	Mux          bool
	Auth         string
	Comp0, Comp1 bool // useCompression before / after the reload
	Slow         int  // http requests in flight across the reload
	KeepAlive    bool // the user's http client reuses its connection for the requests after the reload
	PoolCount    int
	BW           string // bandwidthLimit mode of both proxies after the reload ("" | client | server)
}

func (r reloadCfg) sig() string { return fmt.Sprintf("%+v", r) }

func genReload(i int, rng *rand.Rand) reloadCfg {
	r := reloadCfg{
		Protocol:  []string{"tcp", "tcp", "websocket"}[i%3],
		Mux:       (i/3)%2 == 0,
		Auth:      []string{"", "", "", "empty"}[rng.Intn(4)],
		Comp0:     rng.Intn(4) == 0,
		Comp1:     rng.Intn(4) == 0,
		Slow:      1 + rng.Intn(3),
		KeepAlive: rng.Intn(2) == 0,
		PoolCount: []int{0, 0, 1, 2}[rng.Intn(4)],
	}
	r.BW = []string{"", "", "client", "server"}[rng.Intn(4)]
	return r
}

func reloadCase(c *h.Case, i int) {
	rng := c.Rng
	rc := genReload(i, rng)
	c.Data["kind"], c.Data["cfg"] = "reload", rc
	ps, err := serverFor(srvKey{Mode: "none", Cert: "random", Mux: rc.Mux, Auth: rc.Auth})
	if err != nil {
		run.Inconclusive("reload: server did not start: " + err.Error())
		return
	}
	user, nWeb, nTCP := newMarker(rng), newMarker(rng), newMarker(rng)
	dom := newMarker(rng) + ".verif.test"

	// ---- backends: /slow parks until released, everything else echoes; tcp backend echoes a length-prefixed record
	var entered atomic.Int32
	release := make(chan struct{})
	var relOnce sync.Once
	doRelease := func() { relOnce.Do(func() { close(release) }) }
	defer doRelease()
	mux := http.NewServeMux()
	mux.HandleFunc("/slow", func(w http.ResponseWriter, r *http.Request) {
		_, _ = io.ReadAll(r.Body)
		entered.Add(1)
		select {
		case <-release:
		case <-time.After(90 * time.Second):
		}
		_, _ = w.Write([]byte("slow-done"))
	})
	mux.HandleFunc("/", func(w http.ResponseWriter, r *http.Request) {
		b, _ := io.ReadAll(r.Body)
		_, _ = w.Write(append([]byte("re:"), b...))
	})
	echoTCP := func(_ *h.TCPBackend, conn net.Conn) {
		_ = conn.SetDeadline(time.Now().Add(120 * time.Second))
		hdr := make([]byte, 4)
		for {
			if _, err := io.ReadFull(conn, hdr); err != nil {
				return
			}
			n := binary.BigEndian.Uint32(hdr)
			if n > 1<<20 {
				return
			}
			b := make([]byte, n)
			if _, err := io.ReadFull(conn, b); err != nil {
				return
			}
			if _, err := conn.Write(append(append([]byte{}, hdr...), b...)); err != nil {
				return
			}
		}
	}
	var (
		pRelay, pAdmin, pTCP, pBeHTTP, pBeTCP int
		beHTTP                                *http.Server
		beTCP                                 *h.TCPBackend
		w                                     *wire
	)
	opened := false
	for try := 0; try < 4 && !opened; try++ {
		ports := pa.Block(5)
		pRelay, pAdmin, pTCP, pBeHTTP, pBeTCP = ports[0], ports[1], ports[2], ports[3], ports[4]
		ln, err := net.Listen("tcp", fmt.Sprintf("127.0.0.1:%d", pBeHTTP))
		if err != nil {
			continue
		}
		beHTTP = &http.Server{Handler: mux, ReadHeaderTimeout: 30 * time.Second}
		go beHTTP.Serve(ln)
		if beTCP, err = h.StartTCPBackend(pBeTCP, echoTCP); err != nil {
			beHTTP.Close()
			continue
		}
		if w, err = newWire(rc.Protocol, pRelay, ps); err != nil {
			beHTTP.Close()
			beTCP.Close()
			continue
		}
		opened = true
	}
	if !opened {
		run.Inconclusive("reload: endpoint ports busy")
		return
	}
	defer beHTTP.Close()
	defer beTCP.Close()
	defer w.close()

	cfg := func(enc, comp bool) string {
		var sb strings.Builder
		sb.WriteString(clientCommonTOML(pRelay, ps.clientAuth(), user, rc.Protocol, rc.Mux, false, rc.PoolCount, cliTLS{Enable: false}, false))
		fmt.Fprintf(&sb, "webServer.addr = \"127.0.0.1\"\nwebServer.port = %d\n", pAdmin)
		tr := fmt.Sprintf("transport.useEncryption = %v\ntransport.useCompression = %v\n", enc, comp)
		if enc && rc.BW != "" {
			tr += fmt.Sprintf("transport.bandwidthLimit = \"10MB\"\ntransport.bandwidthLimitMode = \"%s\"\n", rc.BW)
		}
		fmt.Fprintf(&sb, "\n[[proxies]]\nname = \"%s\"\ntype = \"http\"\nlocalIP = \"127.0.0.1\"\nlocalPort = %d\ncustomDomains = [\"%s\"]\n%s", nWeb, pBeHTTP, dom, tr)
		fmt.Fprintf(&sb, "\n[[proxies]]\nname = \"%s\"\ntype = \"tcp\"\nlocalIP = \"127.0.0.1\"\nlocalPort = %d\nremotePort = %d\n%s", nTCP, pBeTCP, pTCP, tr)
		return sb.String()
	}
	cfg0, cfg1 := cfg(false, rc.Comp0), cfg(true, rc.Comp1)
	c.Data["frpc_before"], c.Data["frpc_after"] = cfg0, cfg1
	cli, err := startFrpc(cfg0)
	if err != nil {
		run.Inconclusive("reload: owner frpc did not start")
		return
	}
	defer cli.stop(c)

	vhost := fmt.Sprintf("127.0.0.1:%d", ps.Vhost)
	newClient := func(keepAlive bool) *http.Client {
		return &http.Client{Transport: &http.Transport{DisableKeepAlives: !keepAlive}, Timeout: 60 * time.Second}
	}
	do := func(cl *http.Client, path, body string) (int, string, error) {
		req, _ := http.NewRequest("POST", "http://"+vhost+path, strings.NewReader(body))
		req.Host = dom
		resp, err := cl.Do(req)
		if err != nil {
			return 0, "", err
		}
		defer resp.Body.Close()
		b, _ := io.ReadAll(resp.Body)
		return resp.StatusCode, string(b), nil
	}
	oneShot := newClient(false)
	reachable := func() bool {
		return h.Eventually(30*time.Second, func() bool {
			code, _, err := do(oneShot, "/echo", "ping")
			if err != nil || code != 200 {
				time.Sleep(50 * time.Millisecond)
				return false
			}
			return true
		})
	}
	tcpRecord := func(conn net.Conn, payload []byte) error {
		_ = conn.SetDeadline(time.Now().Add(30 * time.Second))
		hdr := make([]byte, 4)
		binary.BigEndian.PutUint32(hdr, uint32(len(payload)))
		if _, err := conn.Write(append(hdr, payload...)); err != nil {
			return err
		}
		back := make([]byte, 4+len(payload))
		if _, err := io.ReadFull(conn, back); err != nil {
			return err
		}
		if !bytes.Equal(back[4:], payload) {
			return fmt.Errorf("echo mismatch")
		}
		return nil
	}
	tcpAddr := fmt.Sprintf("127.0.0.1:%d", pTCP)
	if !reachable() || h.WaitTCP(tcpAddr, 20*time.Second) != nil {
		run.Inconclusive("reload: proxies not reachable before the reload")
		return
	}

	// ---- sensitivity control: before the reload the payload is readable (unless compressed)
	plain := newMarker(rng)
	if code, body, err := do(oneShot, "/echo", plain); err != nil || code != 200 || !strings.Contains(body, plain) {
		run.Inconclusive("reload: plain request failed")
		return
	}
	held, err := net.DialTimeout("tcp", tcpAddr, 10*time.Second)
	if err != nil {
		run.Inconclusive("reload: tcp proxy not reachable")
		return
	}
	defer held.Close()
	plainTCP := newMarker(rng)
	if err := tcpRecord(held, []byte(plainTCP)); err != nil {
		run.Inconclusive("reload: plain tcp record failed")
		return
	}
	if !rc.Comp0 {
		cap0 := w.captured()
		if f, _ := findMarker(cap0, plain); f == "" {
			run.Inconclusive("observer blind: unencrypted http payload not found before the reload")
			return
		}
		if f, _ := findMarker(cap0, plainTCP); f == "" {
			run.Inconclusive("observer blind: unencrypted tcp payload not found before the reload")
			return
		}
		run.Count("sensitivity_controls_ok", 1)
	}

	// ---- requests in flight across the reload
	var slowWG sync.WaitGroup
	slowErr := make([]error, rc.Slow)
	for k := 0; k < rc.Slow; k++ {
		slowWG.Add(1)
		go func(k int) {
			defer slowWG.Done()
			code, body, err := do(newClient(false), "/slow", "x")
			if err == nil && (code != 200 || body != "slow-done") {
				err = fmt.Errorf("status %d body %q", code, body)
			}
			slowErr[k] = err
		}(k)
	}
	if !h.Eventually(20*time.Second, func() bool { return int(entered.Load()) >= rc.Slow }) {
		run.Inconclusive("reload: slow requests did not reach the backend")
		return
	}

	// ---- the reload: same names, same domain, encryption now on
	if err := os.WriteFile(cli.ch.CfgPath, []byte(cfg1), 0o644); err != nil {
		run.Inconclusive("reload: cannot rewrite the configuration file")
		return
	}
	admin := fmt.Sprintf("http://127.0.0.1:%d", pAdmin)
	resp, err := oneShot.Get(admin + "/api/reload")
	if err != nil {
		run.Inconclusive("reload: admin API not reachable")
		return
	}
	rb, _ := io.ReadAll(resp.Body)
	resp.Body.Close()
	if resp.StatusCode != 200 {
		c.Ev("reload-refused", "status", resp.StatusCode, "body", string(rb))
		run.Inconclusive("reload: admin API refused the reload")
		return
	}
	c.Ev("reloaded")
	running := h.Eventually(30*time.Second, func() bool {
		resp, err := oneShot.Get(admin + "/api/status")
		if err != nil {
			return false
		}
		defer resp.Body.Close()
		var st map[string][]struct {
			Name   string `json:"name"`
			Status string `json:"status"`
		}
		if json.NewDecoder(resp.Body).Decode(&st) != nil {
			return false
		}
		ok := 0
		for _, l := range st {
			for _, p := range l {
				if p.Status == "running" {
					ok++
				}
			}
		}
		if ok < 2 {
			time.Sleep(20 * time.Millisecond)
		}
		return ok >= 2
	})
	if !running || !reachable() || h.WaitTCP(tcpAddr, 20*time.Second) != nil {
		run.Inconclusive("reload: proxies not running after the reload")
		return
	}
	run.Count("reloads", 1)

	// the old tcp connection is still alive and still belongs to the old (clear) registration: not judged
	_ = tcpRecord(held, []byte("old-connection-after-reload"))
	doRelease()
	slowWG.Wait()
	for _, e := range slowErr {
		if e != nil {
			c.Ev("slow-request-failed", "err", e.Error())
			run.Count("reload_inflight_requests_failed", 1)
		} else {
			run.Count("reload_inflight_requests_ok", 1)
		}
	}
	time.Sleep(200 * time.Millisecond) // the busy backend connections are back in frps's pool now

	// ---- everything sent from now on belongs to a registration with useEncryption = true
	type sent struct{ leg, m string }
	var post []sent
	delivered := 0
	cl := newClient(rc.KeepAlive)
	for k := 0; k < 6; k++ {
		m := newMarker(rng)
		code, body, err := do(cl, "/echo", m)
		post = append(post, sent{"http", m}) // judged even if the exchange failed: a readable marker is a violation either way
		if err != nil || code != 200 || !strings.Contains(body, m) {
			c.Ev("post-reload-request-failed", "k", k, "err", fmt.Sprint(err), "status", code)
			continue
		}
		delivered++
		time.Sleep(time.Duration(rng.Intn(60)) * time.Millisecond)
	}
	for k := 0; k < 2; k++ {
		conn, err := net.DialTimeout("tcp", tcpAddr, 10*time.Second)
		if err != nil {
			continue
		}
		m := newMarker(rng)
		post = append(post, sent{"tcp", m})
		if tcpRecord(conn, []byte(m)) == nil {
			delivered++
		}
		conn.Close()
	}
	time.Sleep(100 * time.Millisecond)
	cli.stop(c)
	capture := w.captured()
	run.Count("capture_bytes", int64(len(capture)))
	for _, p := range post {
		run.Count("absence_checks", 1)
		run.Count("reload_markers_judged", 1)
		if form, at := findMarker(capture, p.m); form != "" {
			c.Violation("proxy-encryption-payload-in-clear-after-reload-"+p.leg,
				"TLS off; the %s proxy was reloaded from useEncryption=false to true (same name%s) with %d request(s) in flight; a payload sent after the reload took effect (%s) is visible on the path owner frpc <-> frps as %s at offset %d: …%s… [%s]",
				p.leg, map[string]string{"http": " and domain", "tcp": " and port"}[p.leg], rc.Slow, p.m, form, at, excerpt(capture, at, 60), rc.sig())
		}
	}
	// the secrets rule holds here too
	if ps.Token != "" {
		if form, at := findMarker(capture, ps.Token); form != "" {
			c.Violation("token-in-clear", "the authentication token is visible as %s at offset %d [%s]", form, at, rc.sig())
		}
	}
	if delivered == 0 {
		run.Inconclusive("reload: nothing carried traffic after the reload")
		return
	}
	run.Count("reload_cases_judged", 1)
	run.Distinct("reload|" + rc.sig())
	if i < 1 {
		run.Sample(map[string]any{"kind": "reload", "cfg": rc, "markers_after_reload": len(post), "delivered": delivered})
	}
}
