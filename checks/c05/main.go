// C05 — Configured encryption really protects the wire; TLS identity rules are enforced.
//
// Monitors (DESIGN.md §5/C05):
//  1. network-path observer: real frpc (proxy owner) and real frpc (visitor) talk to a real frps
//     through recording relays (TCP, or UDP for kcp/quic); 24-character high-entropy markers are
//     planted as payload (both directions of tcp / http / http+auth / stcp / udp proxies), as
//     control-message content (users, metadata, proxy names, domains, http user, run ids) and as
//     secrets (token, stcp/sudp/xtcp secret keys, http / tcpmux passwords); both captures are
//     searched for every marker raw, as hex and as base64 at all alignments. Rules: secrets never;
//     TLS ⇒ no payload and no control content; proxy encryption ⇒ no payload of that leg even
//     without TLS. Sensitivity control: without TLS the plaintext login, and without TLS,
//     encryption and compression the payload, must be found — otherwise the case is inconclusive.
//  2. TLS identity matrix: {server force, server trusted CA (force only implied)} × {peer without
//     TLS, TLS without certificate, certificate of another CA, good certificate} and {client with
//     trusted CA and server name} × {right certificate, other name, other CA, self-signed}, on tcp /
//     websocket / kcp / quic, with a scripted login over frp's real connector or a complete real
//     frpc; the outcome is read from the reply and from the server's session table and compared
//     with an independent statement of the rules.
//  4. reload monitor: TLS off; an http and a tcp proxy of a real frpc process are switched from
//     useEncryption=false to true by a real reload (admin API /api/reload) while slow http requests and a
//     tcp connection of the old registration are in flight; every marker sent after the reload took
//     effect must be absent from the capture.
//  5. TLS-material monitor: a real frpc with TLS on and a trusted CA (optionally certificate and key) whose
//     files are removed or overwritten with garbage while it runs; the relay then cuts every connection and
//     for a bounded time nothing — login, registrations, secrets, payload — may appear in clear.
//  6. client-plugin monitor: TLS off; a useEncryption+useCompression proxy served by the asynchronous static_file
//     plugin (a file of several MiB with markers every 256 KiB) next to a compression-only proxy of the same frpc
//     process (GOMAXPROCS 1 / 2 / 4 / all); paced downloads overlap with connections to the other proxy for several
//     rounds; no marker of the file may be readable anywhere in the capture.
//  3. first-byte sweep: every first byte 0x00–0xFF (and none) followed by a correctly signed
//     plaintext login (raw or as a yamux session, on tcp / websocket / kcp) against a server that
//     forces TLS must never produce a LoginResp nor a session.
//
// Debug switches (not part of any tier): C05_TIMING=1 prints per-case durations and failed legs to stderr;
// C05_PROTO=<transport> forces the lattice transport; C05_ONLY_LATTICE / C05_ONLY_SWEEP / C05_ONLY_RELOAD / C05_ONLY_TLSMAT / C05_ONLY_PLUGIN run one monitor only;
// C05_STRESS_CANCEL=<n> runs the frpc cancel-after-login witness (see stress.go).
package main

import (
	"fmt"
	"os"
	"strconv"
	"time"

	"verif/h"
)

const prop = "C05"

var run *h.Run

func main() {
	run = h.NewRun(prop, "exploration")
	run.Rule = "lattice cases: (tls, transport, tcpMux) enumerated from the case index, all other settings (custom first byte, force / trusted CA / certificates, auth method: shared token / no token / oidc, auth scopes, pool count, per-proxy encryption and compression, payload size) from the PRNG; a case is distinct by its full configuration and counts only if at least one leg carried marked payload end to end and the observer's sensitivity controls succeeded. TLS-matrix cases: design templates × 4 transports, remaining dimensions from the PRNG, distinct by configuration. Sweep: distinct by (server mode, mux, transport, first byte). Reload cases: (transport, mux) from the index, rest PRNG; distinct by configuration, counted only if payload flowed after the reload. TLS-material cases: (transport, mux, server force) from the index, broken file and client settings from the PRNG. Client-plugin cases: GOMAXPROCS and mux from the index, rest PRNG. Lattice proxies additionally draw transport.bandwidthLimit {none, client mode, server mode}."
	run.Assumptions = []string{
		"the observer sees exactly the bytes between frpc and frps (loopback relay); timing and lengths are not examined",
		"markers are searched raw, as hex and as base64 (std/url alphabet, three alignments); any other reversible encoding of a secret would be missed",
		"compression alone is not claimed to hide anything: legs with compression and without encryption/TLS are neither required to show nor to hide their payload",
		"quic is treated as a TLS transport regardless of transport.tls.enable (the protocol embeds TLS 1.3)",
		"the user's own Authorization header of an http request is tunnelled payload; it is only sent where the configuration protects payload, so the password rule judges the registration path",
		"refusal is decided from the reply on the connection and from the server's session table (verif snapshot) while the connection is still held open",
		"wss is not driven: frps does not terminate it itself",
	}
	pa = h.Ports(prop)
	if err := setupPKI(); err != nil {
		fmt.Fprintln(os.Stderr, "pki:", err)
		os.Exit(h.ExitHarnessError)
	}

	nLattice := run.N(96, 1800)
	if v := os.Getenv("C05_STRESS_CANCEL"); v != "" {
		n, _ := strconv.Atoi(v)
		cancelStress(n)
	}
	if os.Getenv("C05_ONLY_SWEEP") != "" {
		sw := append(sweepConfigs(true), legacySweepConfigs(true)...)
		run.Parallel(len(sw), 8, func(c *h.Case) { sweepCase(c, sw[c.Idx]) })
		closeServers()
		run.Finish(1)
	}
	if os.Getenv("C05_ONLY_LATTICE") != "" {
		run.Parallel(nLattice, 8, latticeCase)
		closeServers()
		run.Finish(1)
	}
	nReload := run.N(18, 240)
	if os.Getenv("C05_ONLY_RELOAD") != "" {
		run.Parallel(nReload, 8, func(c *h.Case) { reloadCase(c, c.Idx) })
		closeServers()
		run.Finish(1)
	}
	nTLSMat := run.N(12, 144)
	if os.Getenv("C05_ONLY_TLSMAT") != "" {
		run.Parallel(nTLSMat, 8, func(c *h.Case) { tlsMatCase(c, c.Idx) })
		closeServers()
		run.Finish(1)
	}
	nPlugin := run.N(6, 64)
	if os.Getenv("C05_ONLY_PLUGIN") != "" {
		run.Parallel(nPlugin, 8, func(c *h.Case) { pluginCase(c, c.Idx) })
		closeServers()
		run.Finish(1)
	}
	nMatrix := run.N(len(matrixTemplates())*4*2, len(matrixTemplates())*4*10)
	sweeps := sweepConfigs(run.Thorough())

	legacySweeps := legacySweepConfigs(run.Thorough())
	nOld := nLattice + nMatrix + len(sweeps) + nReload + nTLSMat + nPlugin
	total := nOld + len(legacySweeps)
	run.Parallel(total, 8, func(c *h.Case) {
		if os.Getenv("C05_TIMING") != "" {
			t0 := time.Now()
			defer func() {
				fmt.Fprintf(os.Stderr, "case %d %v %.2fs %v\n", c.Idx, c.Data["kind"], time.Since(t0).Seconds(), c.Data["cfg"])
			}()
		}
		switch {
		case c.Idx < nLattice:
			latticeCase(c)
		case c.Idx < nLattice+nMatrix:
			matrixCase(c, c.Idx-nLattice)
		case c.Idx < nLattice+nMatrix+len(sweeps):
			sweepCase(c, sweeps[c.Idx-nLattice-nMatrix])
		case c.Idx < nLattice+nMatrix+len(sweeps)+nReload:
			reloadCase(c, c.Idx-nLattice-nMatrix-len(sweeps))
		case c.Idx < nLattice+nMatrix+len(sweeps)+nReload+nTLSMat:
			tlsMatCase(c, c.Idx-nLattice-nMatrix-len(sweeps)-nReload)
		case c.Idx < nOld:
			pluginCase(c, c.Idx-nLattice-nMatrix-len(sweeps)-nReload-nTLSMat)
		default:
			sweepCase(c, legacySweeps[c.Idx-nOld])
		}
	})
	closeServers()
	run.Finish(run.N(300, 3000))
}
