package main

import (
	"bytes"
	"encoding/base64"
	"encoding/hex"
	"math/rand"
	"strings"
)

// A marker is a 24-character high-entropy string (36^24 values) that is valid as a
// proxy name, user name, domain label, secret or payload filler. The observer looks for
// it in the captured bytes raw, as hex (both cases) and as base64 at all three byte
// alignments (frp carries UDP payloads as base64 inside JSON; a secret concatenated with
// something else before being encoded ends up at an arbitrary alignment).
const markerLen = 24

const markerAlphabet = "abcdefghijklmnopqrstuvwxyz0123456789"

func newMarker(rng *rand.Rand) string {
	b := make([]byte, markerLen)
	b[0] = markerAlphabet[rng.Intn(26)] // a letter first: usable as a DNS label and a TOML value
	for i := 1; i < markerLen; i++ {
		b[i] = markerAlphabet[rng.Intn(len(markerAlphabet))]
	}
	return string(b)
}

// needle is one encoded form of a marker.
type needle struct {
	Form string
	B    []byte
}

// encodings returns every form of m the observer searches for.
func encodings(m string) []needle {
	raw := []byte(m)
	out := []needle{{"raw", raw}}
	hx := hex.EncodeToString(raw)
	out = append(out, needle{"hex", []byte(hx)}, needle{"HEX", []byte(strings.ToUpper(hx))})
	for _, enc := range []struct {
		n string
		e *base64.Encoding
	}{{"base64", base64.StdEncoding}, {"base64url", base64.URLEncoding}} {
		for shift := 0; shift < 3; shift++ {
			// characters of the encoding that depend only on the marker's bytes when the marker
			// starts `shift` bytes after a 3-byte group boundary and is followed by unknown data
			buf := append(make([]byte, shift), raw...)
			s := enc.e.WithPadding(base64.NoPadding).EncodeToString(buf)
			lead := []int{0, 2, 3}[shift] // characters that also carry bits of the preceding bytes
			trail := 0
			if len(buf)%3 != 0 {
				trail = 1 // the last character also carries bits of the following byte
			}
			core := s[lead : len(s)-trail]
			if enc.n == "base64url" && !strings.ContainsAny(core, "-_") {
				continue // identical to the standard alphabet form
			}
			out = append(out, needle{enc.n + "@" + string(rune('0'+shift)), []byte(core)})
		}
	}
	return out
}

// findMarker reports the first encoded form of m that occurs in capture ("" = absent).
func findMarker(capture []byte, m string) (form string, at int) {
	for _, n := range encodings(m) {
		if i := bytes.Index(capture, n.B); i >= 0 {
			return n.Form, i
		}
	}
	return "", -1
}

// excerpt returns printable context around an offset for the explanation of a violation.
func excerpt(capture []byte, at, n int) string {
	lo := at - 24
	if lo < 0 {
		lo = 0
	}
	hi := at + n
	if hi > len(capture) {
		hi = len(capture)
	}
	var sb strings.Builder
	for _, c := range capture[lo:hi] {
		if c >= 0x20 && c < 0x7f {
			sb.WriteByte(c)
		} else {
			sb.WriteByte('.')
		}
	}
	return sb.String()
}

// buildPayload makes size bytes of PRNG filler with the marker embedded every few hundred
// bytes (at least 6 times), so that transports which segment the stream (kcp, quic) still
// carry whole copies.
func buildPayload(rng *rand.Rand, marker string, size int) []byte {
	if size < 8*(markerLen+64) {
		size = 8 * (markerLen + 64)
	}
	out := make([]byte, 0, size+markerLen)
	for len(out) < size {
		gap := 40 + rng.Intn(600)
		fill := make([]byte, gap)
		rng.Read(fill)
		out = append(out, fill...)
		out = append(out, marker...)
	}
	return out
}
