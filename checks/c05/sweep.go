package main

import (
	"bytes"
	"context"
	"fmt"
	"io"
	"net"
	"os"
	"sync"
	"time"

	libnet "github.com/fatedier/golib/net"
	fmux "github.com/hashicorp/yamux"

	"github.com/fatedier/frp/pkg/msg"
	netpkg "github.com/fatedier/frp/pkg/util/net"

	"verif/h"
)

// sweepCfg: every first byte 0x00..0xFF followed by a plaintext (correctly signed) login
// against a server that must only talk TLS.
type sweepCfg struct {
	SrvMode  string // force | ca | force-ini (force written as tls_only in a legacy INI document)
	Mux      bool
	Protocol string // tcp | websocket | kcp
}

func sweepConfigs(thorough bool) []sweepCfg {
	s := []sweepCfg{
		{"force", false, "tcp"}, {"force", true, "tcp"}, {"ca", false, "tcp"}, {"force", false, "websocket"},
	}
	if thorough {
		s = append(s, sweepCfg{"ca", true, "tcp"}, sweepCfg{"ca", true, "websocket"}, sweepCfg{"force", true, "websocket"},
			sweepCfg{"force", false, "kcp"}, sweepCfg{"ca", true, "kcp"})
	}
	return s
}

// legacySweepConfigs: the forced-TLS server written as a legacy INI document (tls_only). These cases run
// after all others so that the case indices (and with them the PRNG draws) of the older families stay put.
func legacySweepConfigs(thorough bool) []sweepCfg {
	s := []sweepCfg{{"force-ini", false, "tcp"}}
	if thorough {
		s = append(s, sweepCfg{"force-ini", true, "websocket"})
	}
	return s
}

type sweepAttempt struct {
	first   int // -1 = the natural plaintext client (no extra byte)
	user    string
	conn    net.Conn
	sess    *fmux.Session
	reply   []byte
	gotResp *msg.LoginResp
	err     string
}

func sweepCase(c *h.Case, sc sweepCfg) {
	c.Data["kind"], c.Data["cfg"] = "first-byte-sweep", sc
	cert := "random"
	if sc.SrvMode == "ca" {
		cert = "good"
	}
	key := srvKey{Mode: sc.SrvMode, Cert: cert, Mux: sc.Mux}
	if sc.SrvMode == "force-ini" {
		key.Mode, key.Legacy = "force", true
	}
	ps, err := serverFor(key)
	if err != nil {
		run.Inconclusive("sweep: server did not start: " + err.Error())
		return
	}
	tag := "sw" + newMarker(c.Rng)[:10]
	addr := fmt.Sprintf("127.0.0.1:%d", ps.Bind)

	// positive control: the same login through TLS must be interpreted, otherwise the silence of the sweep means nothing
	// (done first: frps reads the first byte of every new connection inside its accept loop, so the half-dead
	// kcp sessions a sweep leaves behind can stall later logins for a while)
	t := cliTLS{Enable: true}
	if sc.SrvMode == "ca" {
		t.Cert = "good"
	}
	cc, _, _, err := h.LoadClientConfig(prop, clientCommonTOML(ps.Bind, ps.clientAuth(), tag+"-ctl", sc.Protocol, sc.Mux, false, 0, t, true))
	if err == nil {
		p, derr := h.DialPeer(h.PeerOpts{Common: cc, Token: ps.Token, User: tag + "-ctl"})
		ok := p != nil && p.LoggedIn()
		c.Ev("positive-control", "ok", ok, "err", fmt.Sprint(derr))
		if !ok && os.Getenv("C05_TIMING") != "" {
			fmt.Fprintf(os.Stderr, "sweep %+v positive control failed: %v\n", sc, derr)
		}
		if p != nil {
			p.Close()
		}
		if !ok {
			run.Inconclusive("sweep: positive control (TLS login) failed")
			return
		}
		run.Count("sweep_positive_controls", 1)
	}
	attempts := make([]*sweepAttempt, 0, 257)
	for b := -1; b < 256; b++ {
		attempts = append(attempts, &sweepAttempt{first: b, user: fmt.Sprintf("%s-%03d", tag, b+1)})
	}
	var wg sync.WaitGroup
	sem := make(chan struct{}, 24)
	for _, a := range attempts {
		wg.Add(1)
		sem <- struct{}{}
		go func(a *sweepAttempt) {
			defer wg.Done()
			defer func() { <-sem }()
			sweepOne(a, sc, addr, ps.Token)
		}(a)
	}
	wg.Wait()
	// every connection the server did not close is still open: a login that was interpreted (now or
	// late) owns a session in the server's table. Give a late reply a moment, then read the table.
	time.Sleep(300 * time.Millisecond)
	_, users := ps.sessionsOfUser(tag)
	live := map[string]bool{}
	for _, u := range users {
		live[u] = true
	}
	for _, a := range attempts {
		run.Count("sweep_attempts", 1)
		interpreted := ""
		switch {
		case a.gotResp != nil:
			interpreted = fmt.Sprintf("a LoginResp came back: %+v", *a.gotResp)
		case bytes.Contains(a.reply, []byte(`"version"`)) || bytes.Contains(a.reply, []byte(`"run_id"`)):
			interpreted = fmt.Sprintf("the reply carries a protocol message: %q", a.reply)
		case live[a.user]:
			interpreted = "the server's session table holds a session for this login"
		}
		if interpreted != "" {
			fb := "none (natural plaintext login)"
			if a.first >= 0 {
				fb = fmt.Sprintf("0x%02x", a.first)
			}
			c.Ev("interpreted", "first_byte", a.first, "how", interpreted)
			c.Violation("forced-tls-plaintext-login-interpreted", "server mode %s (tcpMux=%v, %s): plaintext login preceded by first byte %s was interpreted: %s", sc.SrvMode, sc.Mux, sc.Protocol, fb, interpreted)
		}
		run.Distinct(fmt.Sprintf("sweep|%+v|%d", sc, a.first))
	}
	for _, a := range attempts {
		if a.sess != nil {
			a.sess.Close()
		}
		if a.conn != nil {
			a.conn.Close()
		}
	}
	run.Sample(map[string]any{"kind": "first-byte sweep", "cfg": sc, "attempts": len(attempts)})
}

func sweepOne(a *sweepAttempt, sc sweepCfg, addr, token string) {
	var conn net.Conn
	var err error
	switch sc.Protocol {
	case "kcp":
		conn, err = libnet.DialContext(context.Background(), addr, libnet.WithProtocol("kcp"), libnet.WithTimeout(5*time.Second))
	case "websocket":
		conn, err = net.DialTimeout("tcp", addr, 5*time.Second)
		if err == nil {
			_ = conn.SetDeadline(time.Now().Add(10 * time.Second))
			var ws net.Conn
			_, ws, err = netpkg.DialHookWebsocket("ws", "")(context.Background(), conn, addr)
			if err != nil {
				conn.Close()
			} else {
				conn = ws
				_ = conn.SetDeadline(time.Time{})
			}
		}
	default:
		conn, err = net.DialTimeout("tcp", addr, 5*time.Second)
	}
	if err != nil {
		a.err = "dial: " + err.Error()
		return
	}
	a.conn = conn
	ts := time.Now().Unix()
	login := &msg.Login{Version: "0.62.1", Hostname: "verif", Os: "linux", Arch: "amd64", User: a.user, Timestamp: ts, PrivilegeKey: h.AuthKey(token, ts)}
	var frame bytes.Buffer
	_ = msg.WriteMsg(&frame, login)
	wait := 1500 * time.Millisecond
	if sc.Protocol == "kcp" {
		wait = 2500 * time.Millisecond
	}
	if !sc.Mux {
		out := frame.Bytes()
		if a.first >= 0 {
			out = append([]byte{byte(a.first)}, out...)
		}
		if _, err := conn.Write(out); err != nil {
			a.err = "write: " + err.Error()
			return
		}
		_ = conn.SetReadDeadline(time.Now().Add(wait))
		buf := make([]byte, 4096)
		for len(a.reply) < 16384 {
			n, err := conn.Read(buf)
			a.reply = append(a.reply, buf[:n]...)
			if err != nil {
				if err != io.EOF {
					a.err = err.Error()
				}
				break
			}
		}
		_ = conn.SetReadDeadline(time.Time{})
		return
	}
	// tcpMux server: the plaintext client is a yamux session, optionally preceded by the extra byte
	if a.first >= 0 {
		if _, err := conn.Write([]byte{byte(a.first)}); err != nil {
			a.err = "write: " + err.Error()
			return
		}
	}
	cfg := fmux.DefaultConfig()
	cfg.LogOutput = io.Discard
	cfg.EnableKeepAlive = false
	sess, err := fmux.Client(conn, cfg)
	if err != nil {
		a.err = "yamux: " + err.Error()
		return
	}
	a.sess = sess
	st, err := sess.OpenStream()
	if err != nil {
		a.err = "open stream: " + err.Error()
		return
	}
	if _, err := st.Write(frame.Bytes()); err != nil {
		a.err = "write: " + err.Error()
		return
	}
	_ = st.SetReadDeadline(time.Now().Add(wait))
	var resp msg.LoginResp
	if err := msg.ReadMsgInto(st, &resp); err == nil {
		a.gotResp = &resp
	} else {
		a.err = err.Error()
	}
}
