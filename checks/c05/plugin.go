package main

import (
	"bytes"
	"fmt"
	"io"
	"math/rand"
	"net"
	"os"
	"path/filepath"
	"strings"
	"sync"
	"time"

	"verif/h"
)

// pluginCfg: an encrypted + compressed proxy served by an asynchronous client plugin (static_file)
// next to a proxy of the same frpc that is only compressed. Downloads through the first overlap with
// connections to the second, several rounds; the encrypted proxy's payload must not show up anywhere
// in the capture — in particular not on the other proxy's work connections (frpc's compression
// state comes from a process-wide pool).
type pluginCfg struct {
	Protocol   string // tcp | websocket
	Mux        bool
	GoMaxProcs string // GOMAXPROCS of the frpc process ("" = all cores): small values are the container case
	FileMiB    int
	Rounds     int
	P2Conns    int    // connections to the compressed-only proxy per round
	P2Kind     string // tcp (local echo service) | static_file (a second plugin proxy, compression only)
	PoolCount  int
}

func (p pluginCfg) sig() string { return fmt.Sprintf("%+v", p) }

func genPlugin(i int, rng *rand.Rand) pluginCfg {
	return pluginCfg{
		Protocol:   []string{"tcp", "tcp", "websocket"}[rng.Intn(3)],
		Mux:        (i/4)%2 == 1,
		GoMaxProcs: []string{"1", "2", "4", ""}[i%4],
		FileMiB:    []int{2, 2, 3}[rng.Intn(3)],
		Rounds:     4,
		P2Conns:    4 + rng.Intn(5),
		P2Kind:     []string{"tcp", "tcp", "static_file"}[rng.Intn(3)],
		PoolCount:  []int{0, 0, 2}[rng.Intn(3)],
	}
}

func pluginCase(c *h.Case, i int) {
	rng := c.Rng
	pc := genPlugin(i, rng)
	c.Data["kind"], c.Data["cfg"] = "client-plugin", pc
	ps, err := serverFor(srvKey{Mode: "none", Cert: "random", Mux: pc.Mux})
	if err != nil {
		run.Inconclusive("plugin: server did not start: " + err.Error())
		return
	}
	dir := filepath.Join(h.RunDir(prop), fmt.Sprintf("plugin-%d-%d", os.Getpid(), c.Idx))
	if err := os.MkdirAll(filepath.Join(dir, "p2"), 0o755); err != nil {
		run.Inconclusive("plugin: scratch directory")
		return
	}
	defer os.RemoveAll(dir)

	// the served file: PRNG bytes with a distinct marker every 256 KiB
	size := pc.FileMiB << 20
	file := make([]byte, size)
	rng.Read(file)
	var markers []string
	for off := 100_000; off+markerLen < size; off += 256 << 10 {
		m := newMarker(rng)
		copy(file[off:], m)
		markers = append(markers, m)
	}
	if err := os.WriteFile(filepath.Join(dir, "big.bin"), file, 0o644); err != nil {
		run.Inconclusive("plugin: cannot write the served file")
		return
	}
	p2Marker := newMarker(rng)
	p2File := append(append(make([]byte, 0, 70000), file[:30000]...), p2Marker...)
	p2File = append(p2File, file[30000:60000]...)
	copy(p2File[100:], p2Marker) // never contains a P1 marker: those start at offset 100000
	_ = os.WriteFile(filepath.Join(dir, "p2", "small.bin"), p2File, 0o644)

	user, n1, n2 := newMarker(rng), newMarker(rng), newMarker(rng)
	var (
		pRelay, p1, p2, pBe int
		be                  *h.TCPBackend
		w                   *wire
	)
	echo := func(_ *h.TCPBackend, conn net.Conn) {
		_ = conn.SetDeadline(time.Now().Add(60 * time.Second))
		_, _ = io.Copy(conn, conn)
	}
	opened := false
	for try := 0; try < 4 && !opened; try++ {
		ports := pa.Block(4)
		pRelay, p1, p2, pBe = ports[0], ports[1], ports[2], ports[3]
		if be, err = h.StartTCPBackend(pBe, echo); err != nil {
			continue
		}
		if w, err = newWire(pc.Protocol, pRelay, ps); err != nil {
			be.Close()
			continue
		}
		opened = true
	}
	if !opened {
		run.Inconclusive("plugin: endpoint ports busy")
		return
	}
	defer be.Close()
	defer w.close()

	var sb strings.Builder
	sb.WriteString(clientCommonTOML(pRelay, ps.clientAuth(), user, pc.Protocol, pc.Mux, false, pc.PoolCount, cliTLS{Enable: false}, false))
	fmt.Fprintf(&sb, "\n[[proxies]]\nname = \"%s\"\ntype = \"tcp\"\nremotePort = %d\ntransport.useEncryption = true\ntransport.useCompression = true\n[proxies.plugin]\ntype = \"static_file\"\nlocalPath = \"%s\"\nstripPrefix = \"static\"\n", n1, p1, dir)
	if pc.P2Kind == "static_file" {
		fmt.Fprintf(&sb, "\n[[proxies]]\nname = \"%s\"\ntype = \"tcp\"\nremotePort = %d\ntransport.useEncryption = false\ntransport.useCompression = true\n[proxies.plugin]\ntype = \"static_file\"\nlocalPath = \"%s\"\nstripPrefix = \"static\"\n", n2, p2, filepath.Join(dir, "p2"))
	} else {
		fmt.Fprintf(&sb, "\n[[proxies]]\nname = \"%s\"\ntype = \"tcp\"\nlocalIP = \"127.0.0.1\"\nlocalPort = %d\nremotePort = %d\ntransport.useEncryption = false\ntransport.useCompression = true\n", n2, pBe, p2)
	}
	c.Data["frpc"] = sb.String()
	var env []string
	if pc.GoMaxProcs != "" {
		env = append(env, "GOMAXPROCS="+pc.GoMaxProcs)
	}
	cli, err := startFrpc(sb.String(), env...)
	if err != nil {
		run.Inconclusive("plugin: frpc did not start")
		return
	}
	defer cli.stop(c)
	if !h.Eventually(40*time.Second, func() bool {
		have := map[string]bool{}
		for _, n := range ps.Srv.Snapshot().ProxyNames {
			have[n] = true
		}
		return have[user+"."+n1] && have[user+"."+n2]
	}) {
		run.Inconclusive("plugin: proxies were not registered")
		return
	}
	a1, a2 := fmt.Sprintf("127.0.0.1:%d", p1), fmt.Sprintf("127.0.0.1:%d", p2)
	if h.WaitTCP(a1, 20*time.Second) != nil || h.WaitTCP(a2, 20*time.Second) != nil {
		run.Inconclusive("plugin: proxy ports not reachable")
		return
	}
	time.Sleep(200 * time.Millisecond) // let frpc finish processing the registration replies

	// download reads the file through the encrypted proxy, paced so that the transfer is still running
	// while the other proxy's connections start; started is closed after the first 64 KiB.
	download := func(started chan struct{}) (complete bool) {
		var once sync.Once
		sig := func() { once.Do(func() { close(started) }) }
		defer sig()
		conn, err := net.DialTimeout("tcp", a1, 5*time.Second)
		if err != nil {
			return false
		}
		defer conn.Close()
		if tc, ok := conn.(*net.TCPConn); ok {
			_ = tc.SetReadBuffer(64 << 10)
		}
		if _, err := conn.Write([]byte("GET /static/big.bin HTTP/1.1\r\nHost: files\r\nConnection: close\r\n\r\n")); err != nil {
			return false
		}
		got := make([]byte, 0, size+1024)
		buf := make([]byte, 64<<10)
		paced := 0
		for {
			_ = conn.SetReadDeadline(time.Now().Add(4 * time.Second))
			n, err := conn.Read(buf)
			got = append(got, buf[:n]...)
			if len(got) >= 64<<10 {
				sig()
			}
			if err != nil {
				break
			}
			if len(got) < size/2 && len(got)-paced >= 128<<10 { // pace the first half by volume
				paced = len(got)
				time.Sleep(2 * time.Millisecond)
			}
		}
		return bytes.Contains(got, []byte(markers[0])) && bytes.Contains(got, []byte(markers[len(markers)-1]))
	}
	p2Seen := false
	var p2mu sync.Mutex
	p2Conn := func(hold time.Duration) {
		conn, err := net.DialTimeout("tcp", a2, 3*time.Second)
		if err != nil {
			return
		}
		defer conn.Close()
		_ = conn.SetDeadline(time.Now().Add(3 * time.Second))
		if pc.P2Kind == "static_file" {
			_, _ = conn.Write([]byte("GET /static/small.bin HTTP/1.1\r\nHost: files\r\nConnection: close\r\n\r\n"))
			b, _ := io.ReadAll(conn)
			if bytes.Contains(b, []byte(p2Marker)) {
				p2mu.Lock()
				p2Seen = true
				p2mu.Unlock()
			}
			return
		}
		msg := append(append([]byte{}, file[:300]...), p2Marker...)
		_, _ = conn.Write(msg)
		back := make([]byte, len(msg))
		if _, err := io.ReadFull(conn, back); err == nil && bytes.Equal(back, msg) {
			p2mu.Lock()
			p2Seen = true
			p2mu.Unlock()
		}
		time.Sleep(hold)
	}
	completed := 0
	t0 := time.Now()
	for r := 0; r < pc.Rounds; r++ {
		started := make(chan struct{})
		done := make(chan bool, 1)
		go func() { done <- download(started) }()
		select {
		case <-started:
		case <-time.After(10 * time.Second):
		}
		var wg sync.WaitGroup
		for k := 0; k < pc.P2Conns; k++ {
			wg.Add(1)
			go func() { defer wg.Done(); p2Conn(150 * time.Millisecond) }()
			time.Sleep(3 * time.Millisecond)
		}
		wg.Wait()
		select {
		case ok := <-done:
			if ok {
				completed++
			}
		case <-time.After(30 * time.Second):
			c.Ev("download-stuck", "round", r)
		}
		run.Count("plugin_rounds", 1)
		if os.Getenv("C05_TIMING") != "" {
			fmt.Fprintf(os.Stderr, "plugin case %d round %d done at %.2fs (gomaxprocs %q, %d MiB, %s)\n", c.Idx, r, time.Since(t0).Seconds(), pc.GoMaxProcs, pc.FileMiB, pc.Protocol)
		}
	}
	cli.stop(c)
	if os.Getenv("C05_TIMING") != "" {
		fmt.Fprintf(os.Stderr, "plugin case %d stopped at %.2fs\n", c.Idx, time.Since(t0).Seconds())
	}
	capture := w.captured()
	run.Count("capture_bytes", int64(len(capture)))
	c.Ev("plugin-done", "downloads_completed", completed, "captured", len(capture), "markers", len(markers))

	// sensitivity control: the compressed-only proxy's marker is readable (snappy stores high-entropy data verbatim)
	if p2Seen {
		if !bytes.Contains(capture, []byte(p2Marker)) {
			run.Inconclusive("observer blind: payload of the compression-only proxy not found in the capture")
			return
		}
		run.Count("sensitivity_controls_ok", 1)
	}
	for k, m := range markers {
		run.Count("absence_checks", 1)
		if at := bytes.Index(capture, []byte(m)); at >= 0 {
			c.Violation("proxy-encryption-payload-in-clear-via-client-plugin",
				"TLS off; proxy with useEncryption+useCompression served by the static_file client plugin, next to a compression-only proxy (%s) of the same frpc (GOMAXPROCS=%q): marker #%d of the served file (%s, file offset %d) is readable on the path frpc <-> frps at capture offset %d after %d overlapping rounds: …%s… [%s]",
				pc.P2Kind, pc.GoMaxProcs, k, m, 100_000+k*(256<<10), at, pc.Rounds, excerpt(capture, at, 50), pc.sig())
			return
		}
	}
	if completed == 0 {
		run.Inconclusive("plugin: no download through the encrypted plugin proxy completed")
		return
	}
	run.Count("plugin_downloads_completed", int64(completed))
	run.Count("plugin_cases_judged", 1)
	run.Distinct("plugin|" + pc.sig())
	if i < 1 {
		run.Sample(map[string]any{"kind": "client plugin", "cfg": pc, "downloads_completed": completed, "capture_bytes": len(capture)})
	}
}
