// Monitor 5: a setting given through a command-line flag yields the structure the same setting yields in
// a file. The commands are built exactly like cmd/frps/root.go and cmd/frpc/sub/proxy.go build theirs
// (same Register*Flags calls, same normalisation, same Complete calls in the run function). The table
// flag -> documented setting (+ the flag's documented default) is written down here independently.
package main

import (
	"fmt"
	"io"
	"os"
	"path/filepath"
	"strconv"
	"strings"

	"github.com/spf13/cobra"

	"github.com/fatedier/frp/pkg/config"
	v1 "github.com/fatedier/frp/pkg/config/v1"

	"verif/h"
)

type flagSpec struct {
	Flag  string // as documented (underscore form)
	Short string
	J     string // setting in the file
	Kind  string // str | int | bool | port | ranges | bw | list | map | enum:<a,b>
	Def   any    // documented flag default (nil: the setting is absent from the file when the flag is not given)
}

var serverFlags = []flagSpec{
	{"bind_addr", "", "bindAddr", "addr", "0.0.0.0"},
	{"bind_port", "p", "bindPort", "port", int64(7000)},
	{"kcp_bind_port", "", "kcpBindPort", "port", nil},
	{"quic_bind_port", "", "quicBindPort", "port", nil},
	{"proxy_bind_addr", "", "proxyBindAddr", "addr", "0.0.0.0"},
	{"vhost_http_port", "", "vhostHTTPPort", "port", nil},
	{"vhost_https_port", "", "vhostHTTPSPort", "port", nil},
	{"vhost_http_timeout", "", "vhostHTTPTimeout", "int", int64(60)},
	{"dashboard_addr", "", "webServer.addr", "addr", "0.0.0.0"},
	{"dashboard_port", "", "webServer.port", "port", nil},
	{"dashboard_user", "", "webServer.user", "str", "admin"},
	{"dashboard_pwd", "", "webServer.password", "str", "admin"},
	{"enable_prometheus", "", "enablePrometheus", "bool", nil},
	{"log_file", "", "log.to", "str", "console"},
	{"log_level", "", "log.level", "enum:trace,debug,info,warn,error", "info"},
	{"log_max_days", "", "log.maxDays", "int", int64(3)},
	{"disable_log_color", "", "log.disablePrintColor", "bool", nil},
	{"token", "t", "auth.token", "str", nil},
	{"subdomain_host", "", "subDomainHost", "str", nil},
	{"allow_ports", "", "allowPorts", "ranges", nil},
	{"max_ports_per_client", "", "maxPortsPerClient", "int", nil},
	{"tls_only", "", "transport.tls.force", "bool", nil},
}

var clientCommonFlags = []flagSpec{
	{"server_addr", "s", "serverAddr", "addr", "127.0.0.1"},
	{"server_port", "P", "serverPort", "port", int64(7000)},
	{"protocol", "p", "transport.protocol", "enum:tcp,kcp,quic,websocket,wss", "tcp"},
	{"log_level", "", "log.level", "enum:trace,debug,info,warn,error", "info"},
	{"log_file", "", "log.to", "str", "console"},
	{"log_max_days", "", "log.maxDays", "int", int64(3)},
	{"disable_log_color", "", "log.disablePrintColor", "bool", nil},
	{"tls_server_name", "", "transport.tls.serverName", "str", nil},
	{"dns_server", "", "dnsServer", "str", nil},
	{"tls_enable", "", "transport.tls.enable", "bool", true},
	{"user", "u", "user", "word", nil},
	{"token", "t", "auth.token", "str", nil},
}

var proxyBaseFlags = []flagSpec{
	{"proxy_name", "n", "name", "word", nil},
	{"metadatas", "", "metadatas", "map", nil},
	{"annotations", "", "annotations", "map", nil},
	{"local_ip", "i", "localIP", "addr", "127.0.0.1"},
	{"local_port", "l", "localPort", "port", nil},
	{"ue", "", "transport.useEncryption", "bool", nil},
	{"uc", "", "transport.useCompression", "bool", nil},
	{"bandwidth_limit_mode", "", "transport.bandwidthLimitMode", "enum:client,server", "client"},
	{"bandwidth_limit", "", "transport.bandwidthLimit", "bw", nil},
}

var domainFlags = []flagSpec{
	{"custom_domain", "d", "customDomains", "list", nil},
	{"sd", "", "subdomain", "word", nil},
}

var proxyTypeFlags = map[string][]flagSpec{
	"tcp": {{"remote_port", "r", "remotePort", "port", nil}},
	"udp": {{"remote_port", "r", "remotePort", "port", nil}},
	"http": append(append([]flagSpec{}, domainFlags...),
		flagSpec{"locations", "", "locations", "list", nil}, flagSpec{"http_user", "", "httpUser", "word", nil}, flagSpec{"http_pwd", "", "httpPassword", "str", nil},
		flagSpec{"host_header_rewrite", "", "hostHeaderRewrite", "str", nil}),
	"https": domainFlags,
	"tcpmux": append(append([]flagSpec{}, domainFlags...),
		flagSpec{"mux", "", "multiplexer", "enum:httpconnect", nil}, flagSpec{"http_user", "", "httpUser", "word", nil}, flagSpec{"http_pwd", "", "httpPassword", "str", nil}),
	"stcp": {{"sk", "", "secretKey", "str", nil}, {"allow_users", "", "allowUsers", "list", nil}},
	"sudp": {{"sk", "", "secretKey", "str", nil}, {"allow_users", "", "allowUsers", "list", nil}},
	"xtcp": {{"sk", "", "secretKey", "str", nil}, {"allow_users", "", "allowUsers", "list", nil}},
}

var visitorFlags = []flagSpec{
	{"visitor_name", "n", "name", "word", nil},
	{"ue", "", "transport.useEncryption", "bool", nil},
	{"uc", "", "transport.useCompression", "bool", nil},
	{"sk", "", "secretKey", "str", nil},
	{"server_name", "", "serverName", "word", nil},
	{"server_user", "", "serverUser", "word", nil},
	{"bind_addr", "", "bindAddr", "addr", nil},
	{"bind_port", "", "bindPort", "port", nil},
}

var flagText = []string{"a", "value", "ünïcödé", "名前", "with space", "q\"uote", "back\\slash", "it's", "#hash", "k=v", "a:b", "true", "123", "🙂", "x,y", "$HOME", "-dash", "--double"}

// genFlagValue returns the file value and the flag argument text for a kind.
func genFlagValue(g *gen, kind string) (tv any, arg string) {
	switch {
	case kind == "str":
		s := flagText[g.r.Intn(len(flagText))]
		return s, s
	case kind == "word":
		s := []string{"alpha", "beta", "g-1", "Delta_2", "x", "名前", "üser", "a.b"}[g.r.Intn(8)]
		return s, s
	case kind == "addr":
		s := []string{"127.0.0.1", "0.0.0.0", "10.1.2.3", "::1", "host.example.com"}[g.r.Intn(5)]
		return s, s
	case kind == "int":
		v := []int64{1, 2, 5, 30, 120, 100000, -1, 9007199254740993}[g.r.Intn(8)]
		return v, strconv.FormatInt(v, 10)
	case kind == "port":
		v := int64(1 + g.r.Intn(65535))
		return v, strconv.FormatInt(v, 10)
	case kind == "bool":
		b := g.r.Intn(2) == 0
		return b, strconv.FormatBool(b)
	case kind == "bw":
		s := bwPool[g.r.Intn(len(bwPool))]
		return s, s
	case strings.HasPrefix(kind, "enum:"):
		vs := strings.Split(kind[5:], ",")
		s := vs[g.r.Intn(len(vs))]
		return s, s
	case kind == "list":
		n := 1 + g.r.Intn(3)
		var tvs []any
		var parts []string
		seen := map[string]bool{}
		for i := 0; i < n; i++ {
			s := []string{"a.example.org", "B.Example.ORG", "/api", "alice", "*", "x-y", "名前", "with space"}[g.r.Intn(8)]
			if seen[s] {
				continue
			}
			seen[s] = true
			tvs = append(tvs, s)
			parts = append(parts, s)
		}
		return tvs, strings.Join(parts, ",")
	case kind == "map":
		n := 1 + g.r.Intn(3)
		o := &obj{user: true}
		var parts []string
		for i := 0; i < n; i++ {
			k := []string{"app", "example.com/owner", "k2", "x"}[g.r.Intn(4)]
			if _, dup := o.get(k); dup {
				continue
			}
			v := []string{"v", "a b", "1", "x=y", "名", "a:b"}[g.r.Intn(6)]
			o.set(k, v)
			parts = append(parts, k+"="+v)
		}
		return o, strings.Join(parts, ",")
	case kind == "ranges":
		n := 1 + g.r.Intn(3)
		var tvs []any
		var parts []string
		for i := 0; i < n; i++ {
			if g.r.Intn(2) == 0 {
				p := int64(1 + g.r.Intn(65535))
				tvs = append(tvs, &obj{kvs: []kv{{"single", p}}})
				parts = append(parts, strconv.FormatInt(p, 10))
			} else {
				a := int64(1 + g.r.Intn(65000))
				b := a + int64(g.r.Intn(500))
				tvs = append(tvs, &obj{kvs: []kv{{"start", a}, {"end", b}}})
				sep := []string{"-", " - ", "- "}[g.r.Intn(3)]
				parts = append(parts, strconv.FormatInt(a, 10)+sep+strconv.FormatInt(b, 10))
			}
		}
		sep := []string{",", ", "}[g.r.Intn(2)]
		return tvs, strings.Join(parts, sep)
	}
	panic("flag kind " + kind)
}

// flagArgs renders one flag in one of the accepted syntaxes.
func flagArgs(g *gen, fs flagSpec, arg string, isBool bool) []string {
	name := fs.Flag
	if g.r.Intn(3) == 0 {
		name = strings.ReplaceAll(name, "_", "-")
	}
	if isBool {
		if arg == "true" && g.r.Intn(2) == 0 {
			return []string{"--" + name}
		}
		return []string{"--" + name + "=" + arg}
	}
	if fs.Short != "" && g.r.Intn(3) == 0 && !strings.HasPrefix(arg, "-") {
		return []string{"-" + fs.Short, arg}
	}
	if g.r.Intn(2) == 0 && !strings.HasPrefix(arg, "-") {
		return []string{"--" + name, arg}
	}
	return []string{"--" + name + "=" + arg}
}

// chooseFlagGroups gives a PRNG subset of the flags, one group of arguments per flag (a flag and its
// value stay together when the command line is permuted); the file tree gets the given values and, for
// flags not given, the flag's documented default.
func chooseFlagGroups(g *gen, specs []flagSpec, tree *obj, pGiven int, sig *[]string) [][]string {
	var groups [][]string
	for _, fs := range specs {
		if g.r.Intn(100) < pGiven {
			tv, arg := genFlagValue(g, fs.Kind)
			tree.setPath(fs.J, tv)
			groups = append(groups, flagArgs(g, fs, arg, fs.Kind == "bool"))
			*sig = append(*sig, fs.Flag)
		} else if fs.Def != nil {
			tree.setPath(fs.J, fs.Def)
		}
	}
	return groups
}

func chooseFlags(g *gen, specs []flagSpec, tree *obj, pGiven int, sig *[]string) []string {
	return flatten(chooseFlagGroups(g, specs, tree, pGiven, sig))
}

func flatten(groups [][]string) []string {
	var out []string
	for _, gr := range groups {
		out = append(out, gr...)
	}
	return out
}

// flagOrders returns PRNG permutations of the flag groups (the first one is the order as generated).
func flagOrders(g *gen, groups [][]string, n int) [][][]string {
	orders := [][][]string{groups}
	for k := 1; k < n && len(groups) > 1; k++ {
		p := append([][]string{}, groups...)
		g.r.Shuffle(len(p), func(i, j int) { p[i], p[j] = p[j], p[i] })
		orders = append(orders, p)
	}
	return orders
}

// withGroupAt returns the groups with the group that starts with `flagPrefix` moved to the front or the end.
func withGroupAt(groups [][]string, flagPrefix string, front bool) [][]string {
	var rest [][]string
	var hit []string
	for _, gr := range groups {
		if hit == nil && strings.HasPrefix(strings.ReplaceAll(gr[0], "-", "_"), strings.ReplaceAll(flagPrefix, "-", "_")) {
			hit = gr
			continue
		}
		rest = append(rest, gr)
	}
	if hit == nil {
		return groups
	}
	if front {
		return append([][]string{hit}, rest...)
	}
	return append(rest, hit)
}

// judgeOrders: every order of the same flag set must give the structure of the file form.
// eval returns the differences against the file form (or an error when the command line is refused).
func judgeOrders(c *h.Case, who string, lead []string, orders [][][]string, eval func(args []string) ([]string, error), fileText, f string) {
	type res struct {
		args []string
		d    []string
	}
	var good, bad []res
	for _, o := range orders {
		args := append(append([]string{}, lead...), flatten(o)...)
		d, err := eval(args)
		run.Count("flag_orders_parsed", 1)
		if err != nil {
			c.Violation(who+"-flags-rejected", "%s command line %q rejected: %v", who, args, err)
			return
		}
		if len(d) == 0 {
			good = append(good, res{args, d})
		} else {
			bad = append(bad, res{args, d})
		}
	}
	if len(bad) == 0 {
		return
	}
	c.Ev("doc", "text", fileText)
	if len(good) > 0 {
		c.Violation(who+"-flag-order-changes-result-"+pathKey(bad[0].d[0]), "the same %s flags in another order yield another structure: %q agrees with the file form, %q does not (file != flags): %s\nfile (%s):\n%s",
			who, good[0].args, bad[0].args, strings.Join(bad[0].d, "; "), f, short(fileText))
		return
	}
	c.Violation(who+"-flag-differs-from-file-"+pathKey(bad[0].d[0]), "%s %q yields a different structure than the same settings in a file (file != flags): %s\nfile (%s):\n%s", who, bad[0].args, strings.Join(bad[0].d, "; "), f, short(fileText))
}

func quietCmd(cmd *cobra.Command) {
	cmd.SilenceErrors = true
	cmd.SilenceUsage = true
	cmd.SetOut(io.Discard)
	cmd.SetErr(io.Discard)
}

// frpsCommand mirrors cmd/frps/root.go.
func frpsCommand(args []string) (*v1.ServerConfig, bool, error) {
	var (
		cfgFile          string
		showVersion      bool
		strictConfigMode bool
		serverCfg        v1.ServerConfig
		ran              bool
	)
	rootCmd := &cobra.Command{
		Use: "frps",
		RunE: func(cmd *cobra.Command, args []string) error {
			serverCfg.Complete()
			ran = true
			return nil
		},
	}
	rootCmd.PersistentFlags().StringVarP(&cfgFile, "config", "c", "", "config file of frps")
	rootCmd.PersistentFlags().BoolVarP(&showVersion, "version", "v", false, "version of frps")
	rootCmd.PersistentFlags().BoolVarP(&strictConfigMode, "strict_config", "", true, "strict config parsing mode, unknown fields will cause errors")
	config.RegisterServerConfigFlags(rootCmd, &serverCfg)
	rootCmd.SetGlobalNormalizationFunc(config.WordSepNormalizeFunc)
	quietCmd(rootCmd)
	rootCmd.SetArgs(args)
	err := rootCmd.Execute()
	return &serverCfg, ran, err
}

// frpcCommand mirrors cmd/frpc/sub/root.go + proxy.go for one proxy type (and its visitor sub-command).
func frpcCommand(typ string, args []string) (common *v1.ClientCommonConfig, pc v1.ProxyConfigurer, vc v1.VisitorConfigurer, ran string, err error) {
	var (
		cfgFile, cfgDir  string
		showVersion      bool
		strictConfigMode bool
	)
	rootCmd := &cobra.Command{Use: "frpc", RunE: func(cmd *cobra.Command, args []string) error { ran = "root"; return nil }}
	rootCmd.PersistentFlags().StringVarP(&cfgFile, "config", "c", "./frpc.ini", "config file of frpc")
	rootCmd.PersistentFlags().StringVarP(&cfgDir, "config_dir", "", "", "config directory")
	rootCmd.PersistentFlags().BoolVarP(&showVersion, "version", "v", false, "version of frpc")
	rootCmd.PersistentFlags().BoolVarP(&strictConfigMode, "strict_config", "", true, "strict config parsing mode")

	c := v1.NewProxyConfigurerByType(v1.ProxyType(typ))
	clientCfg := v1.ClientCommonConfig{}
	cmd := &cobra.Command{
		Use: typ,
		Run: func(cmd *cobra.Command, args []string) {
			clientCfg.Complete()
			c.Complete(clientCfg.User)
			c.GetBaseConfig().Type = typ
			ran = "proxy"
		},
	}
	config.RegisterClientCommonConfigFlags(cmd, &clientCfg)
	config.RegisterProxyFlags(cmd, c)
	var v v1.VisitorConfigurer
	if typ == "stcp" || typ == "sudp" || typ == "xtcp" {
		v = v1.NewVisitorConfigurerByType(v1.VisitorType(typ))
		visitorCmd := &cobra.Command{
			Use: "visitor",
			Run: func(cmd *cobra.Command, args []string) {
				clientCfg.Complete()
				v.Complete(&clientCfg)
				v.GetBaseConfig().Type = typ
				ran = "visitor"
			},
		}
		config.RegisterVisitorFlags(visitorCmd, v)
		cmd.AddCommand(visitorCmd)
	}
	rootCmd.AddCommand(cmd)
	rootCmd.SetGlobalNormalizationFunc(config.WordSepNormalizeFunc)
	quietCmd(rootCmd)
	rootCmd.SetArgs(args)
	err = rootCmd.Execute()
	return &clientCfg, c, v, ran, err
}

func writeCfg(c *h.Case, text, ext string) (string, error) {
	dir := filepath.Join(h.RunDir(prop), "cfg")
	_ = os.MkdirAll(dir, 0o755)
	p := filepath.Join(dir, fmt.Sprintf("flag%d-%d.%s", c.Idx, os.Getpid(), ext))
	return p, os.WriteFile(p, []byte(text), 0o644)
}

func flagCase(c *h.Case) {
	g := &gen{r: c.Rng, pfx: fmt.Sprintf("c%d-", c.Idx)}
	pGiven := []int{15, 40, 70, 100}[g.r.Intn(4)]
	var sig []string
	switch c.Idx % 3 {
	case 0: // frps
		tree := &obj{}
		groups := chooseFlagGroups(g, serverFlags, tree, pGiven, &sig)
		// dashboard tls: three flags, one setting
		tlsMode := g.r.Intn(3)
		if tlsMode > 0 {
			groups = append(groups, []string{"--dashboard_tls_cert_file=./web.crt"}, []string{"--dashboard_tls_key_file", "./web.key"})
			sig = append(sig, "dashboard_tls_cert_file", "dashboard_tls_key_file")
			if tlsMode == 2 {
				groups = append(groups, []string{"--dashboard_tls_mode=true"})
				sig = append(sig, "dashboard_tls_mode")
				tree.setPath("webServer.tls.certFile", "./web.crt")
				tree.setPath("webServer.tls.keyFile", "./web.key")
			} else if g.r.Intn(2) == 0 {
				groups = append(groups, []string{"--dashboard_tls_mode=false"})
				sig = append(sig, "dashboard_tls_mode=false")
			}
		}
		g.r.Shuffle(len(groups), func(i, j int) { groups[i], groups[j] = groups[j], groups[i] })
		orders := flagOrders(g, groups, 3)
		if tlsMode > 0 { // the multi-flag setting: the mode flag before and after the flags it cooperates with
			orders = append(orders, withGroupAt(groups, "--dashboard_tls_mode", true), withGroupAt(groups, "--dashboard_tls_mode", false))
		}
		c.Data["args"] = flatten(groups)
		c.Data["file"] = plain(tree)
		f := formats[g.r.Intn(3)]
		text := render(f, tree, g.r)
		p, werr := writeCfg(c, text, f)
		if werr != nil {
			run.Inconclusive("cannot write configuration file")
			return
		}
		want, _, err := config.LoadServerConfig(p, true)
		os.Remove(p)
		if err != nil {
			c.Violation("clean-document-rejected-"+f, "file equivalent of a frps command line rejected: %v\n%s", err, short(text))
			return
		}
		run.Count("flag_sets_frps", 1)
		judgeOrders(c, "frps", nil, orders, func(args []string) ([]string, error) {
			got, ran, err := frpsCommand(args)
			if err != nil || !ran {
				return nil, fmt.Errorf("ran=%v: %v", ran, err)
			}
			return diffValues(want, got), nil
		}, text, f)
	default: // frpc <type> [visitor]
		typ := proxyTypes[g.r.Intn(len(proxyTypes))]
		visitor := c.Idx%3 == 2 && (typ == "stcp" || typ == "sudp" || typ == "xtcp") && g.r.Intn(2) == 0
		tree := &obj{}
		groups := chooseFlagGroups(g, clientCommonFlags, tree, pGiven, &sig)
		item := &obj{}
		var igroups [][]string
		if visitor {
			igroups = chooseFlagGroups(g, visitorFlags, item, pGiven, &sig)
		} else {
			igroups = chooseFlagGroups(g, concat2(proxyBaseFlags, proxyTypeFlags[typ]), item, pGiven, &sig)
		}
		item.set("type", typ)
		if _, ok := item.get("name"); !ok {
			item.set("name", "")
		}
		if visitor {
			tree.set("visitors", []any{item})
		} else {
			tree.set("proxies", []any{item})
		}
		// the command names come first; flags of the sub-command and the common ones in any order
		lead := []string{typ}
		if visitor {
			lead = append(lead, "visitor")
		}
		if g.r.Intn(2) == 0 {
			groups = append(groups, igroups...)
		} else {
			groups = append(igroups, groups...)
		}
		c.Data["args"] = append(append([]string{}, lead...), flatten(groups)...)
		c.Data["file"] = plain(tree)
		f := formats[g.r.Intn(3)]
		text := render(f, tree, g.r)
		p, werr := writeCfg(c, text, f)
		if werr != nil {
			run.Inconclusive("cannot write configuration file")
			return
		}
		wc, wp, wv, _, err := config.LoadClientConfig(p, true)
		os.Remove(p)
		if err != nil {
			c.Violation("clean-document-rejected-"+f, "file equivalent of a frpc command line rejected: %v\n%s", err, short(text))
			return
		}
		if (visitor && len(wv) != 1) || (!visitor && len(wp) != 1) {
			run.Inconclusive("file side lost the proxy or visitor")
			return
		}
		run.Count("flag_sets_frpc", 1)
		judgeOrders(c, "frpc", lead, flagOrders(g, groups, 3), func(args []string) ([]string, error) {
			common, pc, vc, ran, err := frpcCommand(typ, args)
			if err != nil || (visitor && ran != "visitor") || (!visitor && ran != "proxy") {
				return nil, fmt.Errorf("ran=%q: %v", ran, err)
			}
			d := diffValues(wc, common)
			if visitor {
				d = append(d, diffValues(wv[0], vc)...)
			} else {
				d = append(d, diffValues(wp[0], pc)...)
			}
			return d, nil
		}, text, f)
	}
	run.Distinct("flags|" + fmt.Sprint(c.Idx%3) + "|" + strings.Join(sig, ","))
	if c.Idx == 300001 {
		run.Sample(map[string]any{"kind": "command line vs file", "args": c.Data["args"], "file": c.Data["file"]})
	}
}

func concat2(a, b []flagSpec) []flagSpec { return append(append([]flagSpec{}, a...), b...) }
