// Monitor 6: port-range and bandwidth literals round-trip through their textual forms; a templated
// document renders to exactly the document with environment values and enumerated numbers written out.
package main

import (
	"encoding/json"
	"fmt"
	"strconv"
	"strings"

	"github.com/fatedier/frp/pkg/config"
	"github.com/fatedier/frp/pkg/config/types"
	v1 "github.com/fatedier/frp/pkg/config/v1"
	"github.com/fatedier/frp/pkg/util/util"

	"verif/h"
)

func literalCase(c *h.Case) {
	g := &gen{r: c.Rng, pfx: fmt.Sprintf("c%d-", c.Idx)}
	switch c.Idx % 3 {
	case 0:
		portRangeCase(c, g)
	case 1:
		bandwidthCase(c, g)
	default:
		templateCase(c, g)
	}
}

// ---- port ranges

type rangeItem struct{ a, b int64 } // a == b written as a single number when single is set
type rangeSpec struct {
	items  []rangeItem
	single []bool
}

func genRangeSpec(g *gen, maxItems int, maxSpan int64, lo, hi int64) rangeSpec {
	n := 1 + g.r.Intn(maxItems)
	var s rangeSpec
	for i := 0; i < n; i++ {
		a := lo + g.r.Int63n(hi-lo+1)
		if g.r.Intn(2) == 0 {
			s.items = append(s.items, rangeItem{a, a})
			s.single = append(s.single, true)
		} else {
			b := a + g.r.Int63n(maxSpan+1)
			s.items = append(s.items, rangeItem{a, b})
			s.single = append(s.single, false)
		}
	}
	return s
}

func (s rangeSpec) text(g *gen, spaces bool) string {
	var parts []string
	for i, it := range s.items {
		sp := func() string {
			if spaces && g.r.Intn(3) == 0 {
				return " "
			}
			return ""
		}
		if s.single[i] {
			parts = append(parts, sp()+strconv.FormatInt(it.a, 10)+sp())
		} else {
			parts = append(parts, sp()+strconv.FormatInt(it.a, 10)+sp()+"-"+sp()+strconv.FormatInt(it.b, 10)+sp())
		}
	}
	return strings.Join(parts, ",")
}

func (s rangeSpec) numbers() []int64 {
	var out []int64
	for _, it := range s.items {
		for v := it.a; v <= it.b; v++ {
			out = append(out, v)
		}
	}
	return out
}

func (s rangeSpec) ranges() []types.PortsRange {
	var out []types.PortsRange
	for i, it := range s.items {
		if s.single[i] {
			out = append(out, types.PortsRange{Single: int(it.a)})
		} else {
			out = append(out, types.PortsRange{Start: int(it.a), End: int(it.b)})
		}
	}
	return out
}

var badRanges = []string{"5-3", "abc", "1-2-3", "1,,2", "10-x", "1;2", "7000-6999", "1-", "-"}

func portRangeCase(c *h.Case, g *gen) {
	s := genRangeSpec(g, 6, 300, 1, 65535-300)
	canon := s.text(g, false)
	spaced := s.text(g, true)
	want := s.ranges()
	c.Data["literal"] = spaced
	for _, text := range []string{canon, spaced} {
		got, err := types.NewPortsRangeSliceFromString(text)
		if err != nil {
			c.Violation("port-range-literal-rejected", "valid port-range literal %q rejected: %v", text, err)
			return
		}
		if d := diffValues(want, got); len(d) > 0 {
			c.Violation("port-range-literal-parsed-wrong", "port-range literal %q parsed to %v, want %v: %s", text, got, want, strings.Join(d, "; "))
			return
		}
		back := types.PortsRangeSlice(got).String()
		if back != canon {
			c.Violation("port-range-literal-not-round-tripping", "port-range literal %q -> %v -> %q, want %q", text, got, back, canon)
			return
		}
		nums, err := util.ParseRangeNumbers(text)
		if err != nil {
			c.Violation("number-range-literal-rejected", "valid number-range literal %q rejected: %v", text, err)
			return
		}
		if fmt.Sprint(nums) != fmt.Sprint(s.numbers()) {
			c.Violation("number-range-enumerated-wrong", "number-range literal %q enumerates %d numbers %v..., want %d numbers", text, len(nums), head(nums), len(s.numbers()))
			return
		}
	}
	// value -> text -> value, and through the command-line flag type
	var fv []types.PortsRange
	ff := &config.PortsRangeSliceFlag{V: &fv}
	if err := ff.Set(spaced); err != nil {
		c.Violation("port-range-literal-rejected", "--allow_ports %q rejected: %v", spaced, err)
		return
	}
	if ff.String() != canon || len(diffValues(want, fv)) > 0 {
		c.Violation("port-range-flag-not-round-tripping", "--allow_ports %q -> %v -> %q, want %v / %q", spaced, fv, ff.String(), want, canon)
	}
	// the same ranges in a document: structured form loads to the value the literal denotes
	tree := &obj{}
	var tl []any
	for _, r := range want {
		if r.Single > 0 {
			tl = append(tl, &obj{kvs: []kv{{"single", int64(r.Single)}}})
		} else {
			tl = append(tl, &obj{kvs: []kv{{"start", int64(r.Start)}, {"end", int64(r.End)}}})
		}
	}
	tree.set("allowPorts", tl)
	f := formats[g.r.Intn(3)]
	if cfg, err := loadServerText(render(f, tree, g.r), true); err != nil || len(diffValues(want, cfg.AllowPorts)) > 0 {
		c.Violation("port-range-document-form-differs", "allowPorts %v written in %s loads as %v (err %v)", want, f, cfg.AllowPorts, err)
	}
	// literals that denote nothing must not be accepted
	bad := badRanges[g.r.Intn(len(badRanges))]
	if got, err := types.NewPortsRangeSliceFromString(bad); err == nil {
		c.Violation("invalid-port-range-literal-accepted", "port-range literal %q accepted as %v", bad, got)
	}
	if got, err := util.ParseRangeNumbers(bad); err == nil {
		c.Violation("invalid-number-range-literal-accepted", "number-range literal %q accepted as %v", bad, head(got))
	}
	run.Count("port_range_literals", 1)
	run.Distinct("ranges|" + spaced)
}

func head(n []int64) []int64 {
	if len(n) > 8 {
		return n[:8]
	}
	return n
}

// ---- bandwidth

var badBandwidth = []string{"10", "10GB", "MB", "abcKB", "10 kb", "1,5MB", "KB10", "10B"}

func bandwidthCase(c *h.Case, g *gen) {
	var num string
	switch g.r.Intn(4) {
	case 0:
		num = strconv.Itoa(g.r.Intn(100000))
	case 1:
		num = strconv.Itoa(g.r.Intn(1000)) + "." + strconv.Itoa(g.r.Intn(1000))
	case 2:
		num = []string{"0", "1", "0.5", "1.5", "1024", "0.001", "99999", "2.25", "10.0", "007"}[g.r.Intn(10)]
	default:
		num = strconv.Itoa(1 + g.r.Intn(64))
	}
	lit := num + []string{"MB", "KB"}[g.r.Intn(2)]
	text := lit
	if g.r.Intn(4) == 0 {
		text = " " + lit + "  "
	}
	c.Data["literal"] = text
	wantBytes, ok := bandwidthBytes(lit)
	if !ok {
		run.Inconclusive("bandwidth generator produced an unreadable literal")
		return
	}
	check := func(how string, q *types.BandwidthQuantity) bool {
		if q.String() != lit {
			c.Violation("bandwidth-literal-not-round-tripping", "bandwidth literal %q %s prints as %q", text, how, q.String())
			return false
		}
		if q.Bytes() != wantBytes {
			c.Violation("bandwidth-literal-wrong-value", "bandwidth literal %q %s means %d bytes/s, want %d", text, how, q.Bytes(), wantBytes)
			return false
		}
		return true
	}
	q, err := types.NewBandwidthQuantity(text)
	if err != nil {
		c.Violation("bandwidth-literal-rejected", "valid bandwidth literal %q rejected: %v", text, err)
		return
	}
	if !check("parsed", &q) {
		return
	}
	// JSON form and back
	b, err := json.Marshal(&q)
	if err != nil || string(b) != jsonString(lit) {
		c.Violation("bandwidth-literal-not-round-tripping", "bandwidth %q marshals to %s (err %v), want %s", lit, b, err, jsonString(lit))
		return
	}
	var q2 types.BandwidthQuantity
	if err := json.Unmarshal(b, &q2); err != nil || !check("after a JSON round trip", &q2) || !q.Equal(&q2) {
		if err != nil || !q.Equal(&q2) {
			c.Violation("bandwidth-literal-not-round-tripping", "bandwidth %s does not unmarshal to an equal quantity: %v", b, err)
		}
		return
	}
	// the command-line flag type
	var q3 types.BandwidthQuantity
	ff := &config.BandwidthQuantityFlag{V: &q3}
	if err := ff.Set(text); err != nil || ff.String() != lit || !check("through --bandwidth_limit", &q3) {
		if err != nil || ff.String() != lit {
			c.Violation("bandwidth-literal-not-round-tripping", "--bandwidth_limit %q -> %q (err %v)", text, ff.String(), err)
		}
		return
	}
	// inside a proxy document in any format, and on to the server side
	p := &obj{kvs: []kv{{"name", "bw"}, {"type", "tcp"}}}
	p.setPath("transport.bandwidthLimit", text)
	f := formats[g.r.Intn(3)]
	doc := &obj{kvs: []kv{{"proxies", []any{p}}}}
	loaded, err := loadClientText(render(f, doc, g.r), true)
	if err != nil || len(loaded.Proxies) != 1 {
		c.Violation("bandwidth-literal-rejected", "proxy with bandwidthLimit %q in %s rejected: %v", text, f, err)
		return
	}
	pc := loaded.Proxies[0].ProxyConfigurer
	if !check("loaded from "+f, &pc.GetBaseConfig().Transport.BandwidthLimit) {
		return
	}
	pc.Complete("")
	srv, err := roundTripToServer(pc, fullServerCfg(""))
	if err != nil {
		c.Violation("bandwidth-literal-rejected", "registration with bandwidthLimit %q refused by the server side: %v", text, err)
		return
	}
	check("reconstructed on the server side", &srv.GetBaseConfig().Transport.BandwidthLimit)
	bad := badBandwidth[g.r.Intn(len(badBandwidth))]
	if bq, err := types.NewBandwidthQuantity(bad); err == nil {
		c.Violation("invalid-bandwidth-literal-accepted", "bandwidth literal %q accepted as %d bytes/s", bad, bq.Bytes())
	}
	run.Count("bandwidth_literals", 1)
	run.Distinct("bw|" + text)
}

// ---- templates

type tseg struct {
	kind   string // lit | env | first | second | idx | val
	text   string // literal text or variable name
	tl, tr bool   // trim markers of the action
}

type tnode struct {
	seg *tseg
	// range block
	pair                 bool
	spec1, spec2         rangeSpec
	text1, text2         string
	tl, tr, endTl, endTr bool
	body                 []tseg
}

func action(inner string, tl, tr bool) string {
	l, r := "{{", "}}"
	if tl {
		l = "{{- "
	} else {
		l = "{{ "
	}
	if tr {
		r = " -}}"
	} else {
		r = " }}"
	}
	return l + inner + r
}

func trimLit(s string, l, r bool) string {
	const ws = " \t\r\n"
	if l {
		s = strings.TrimLeft(s, ws)
	}
	if r {
		s = strings.TrimRight(s, ws)
	}
	return s
}

func templateCase(c *h.Case, g *gen) {
	envs := map[string]string{}
	envVal := func() string {
		return []string{"127.0.0.1", "frps.example.com", "s3cr3t", "名前", "with space", "a-b_c", "tok:en/1", "x", "  padded  ", "7000", "#x"}[g.r.Intn(11)]
	}
	for _, n := range []string{"C18_ADDR", "C18_USER", "C18_TOKEN", "FRP_X"} {
		envs[n] = envVal()
	}
	envs["C18_PORT"] = strconv.Itoa(1 + g.r.Intn(65535))
	yamlDoc := g.r.Intn(3) == 0
	plainTrims := g.r.Intn(2) == 0 // half of the templates trim only around range / end (the documented style)
	tb := func() bool { return !plainTrims && g.r.Intn(4) == 0 }
	var nodes []tnode
	lit := func(s string) { nodes = append(nodes, tnode{seg: &tseg{kind: "lit", text: s}}) }
	env := func(n string) { nodes = append(nodes, tnode{seg: &tseg{kind: "env", text: n, tl: tb(), tr: tb()}}) }
	if yamlDoc {
		lit("serverAddr: \"")
		env("C18_ADDR")
		lit("\"\nserverPort: ")
		env("C18_PORT")
		lit("\nuser: \"")
		env("C18_USER")
		lit("\"\nauth:\n  token: \"pre-")
		env("C18_TOKEN")
		lit("-post\"\nproxies:\n")
	} else {
		lit("serverAddr = \"")
		env("C18_ADDR")
		lit("\"\nserverPort = ")
		env("C18_PORT")
		lit("\nuser = \"")
		env("C18_USER")
		lit("\"\nauth.token = \"pre-")
		env("C18_TOKEN")
		lit("-post\"\n\n")
	}
	nBlocks := 1 + g.r.Intn(2)
	type want struct{ local, remote int64 }
	var wants []want
	mismatch := g.r.Intn(12) == 0
	for b := 0; b < nBlocks; b++ {
		n := tnode{pair: g.r.Intn(3) != 0, tl: g.r.Intn(2) == 0, tr: tb(), endTl: g.r.Intn(2) == 0, endTr: tb()}
		n.spec1 = genRangeSpec(g, 3, 6, int64(1000+b*10000), int64(9000+b*10000))
		n.text1 = n.spec1.text(g, true)
		if n.pair {
			n.spec2 = rangeSpec{single: append([]bool{}, n.spec1.single...)}
			off := int64(20000 + g.r.Intn(1000))
			for _, it := range n.spec1.items {
				n.spec2.items = append(n.spec2.items, rangeItem{it.a + off, it.b + off})
			}
			if mismatch && b == 0 {
				last := &n.spec2.items[len(n.spec2.items)-1]
				last.b++
				n.spec2.single[len(n.spec2.single)-1] = false
			}
			n.text2 = n.spec2.text(g, true)
		}
		second := "second"
		if !n.pair {
			second = "idx"
		}
		if yamlDoc {
			n.body = []tseg{{kind: "lit", text: "\n- name: \"tcp-"}, {kind: "first", tl: false, tr: false}, {kind: "lit", text: fmt.Sprintf("-%d\"\n  type: tcp\n  localPort: ", b)}, {kind: "first", tl: tb(), tr: false},
				{kind: "lit", text: "\n  remotePort: "}, {kind: second, tl: false, tr: tb()}, {kind: "lit", text: "\n"}}
		} else {
			n.body = []tseg{{kind: "lit", text: "\n[[proxies]]\nname = \"tcp-"}, {kind: "first"}, {kind: "lit", text: fmt.Sprintf("-%d\"\ntype = \"tcp\"\nlocalPort = ", b)}, {kind: "first", tl: tb()},
				{kind: "lit", text: "\nremotePort = "}, {kind: second, tr: tb()}, {kind: "lit", text: "\n"}}
		}
		nodes = append(nodes, n)
		lit("\n")
		n1, n2 := n.spec1.numbers(), n.spec2.numbers()
		for i := range n1 {
			w := want{n1[i], int64(i)}
			if n.pair && i < len(n2) {
				w.remote = n2[i]
			}
			wants = append(wants, w)
		}
	}
	// template text and the independently expanded document
	var tmpl, exp strings.Builder
	actTrim := func(i int, left bool) bool { // trim marker of the action next to position i
		if i < 0 || i >= len(nodes) {
			return false
		}
		n := nodes[i]
		if n.seg != nil {
			if left {
				return n.seg.tr
			}
			return n.seg.tl
		}
		if left {
			return n.endTr
		}
		return n.tl
	}
	for i, n := range nodes {
		if n.seg != nil {
			switch n.seg.kind {
			case "lit":
				tmpl.WriteString(n.seg.text)
				exp.WriteString(trimLit(n.seg.text, actTrim(i-1, true), actTrim(i+1, false)))
			case "env":
				tmpl.WriteString(action(".Envs."+n.seg.text, n.seg.tl, n.seg.tr))
				exp.WriteString(envs[n.seg.text])
			}
			continue
		}
		if n.pair {
			tmpl.WriteString(action(fmt.Sprintf("range $_, $v := parseNumberRangePair %q %q", n.text1, n.text2), n.tl, n.tr))
		} else {
			tmpl.WriteString(action(fmt.Sprintf("range $i, $v := parseNumberRange %q", n.text1), n.tl, n.tr))
		}
		for _, s := range n.body {
			switch s.kind {
			case "lit":
				tmpl.WriteString(s.text)
			case "first":
				if n.pair {
					tmpl.WriteString(action("$v.First", s.tl, s.tr))
				} else {
					tmpl.WriteString(action("$v", s.tl, s.tr))
				}
			case "second":
				tmpl.WriteString(action("$v.Second", s.tl, s.tr))
			case "idx":
				tmpl.WriteString(action("$i", s.tl, s.tr))
			}
		}
		tmpl.WriteString(action("end", n.endTl, n.endTr))
		n1, n2 := n.spec1.numbers(), n.spec2.numbers()
		for it := range n1 {
			for j, s := range n.body {
				switch s.kind {
				case "lit":
					l := n.tr
					if j > 0 {
						l = n.body[j-1].tr
					}
					r := n.endTl
					if j < len(n.body)-1 {
						r = n.body[j+1].tl
					}
					exp.WriteString(trimLit(s.text, l, r))
				case "first":
					exp.WriteString(strconv.FormatInt(n1[it], 10))
				case "second":
					if it < len(n2) {
						exp.WriteString(strconv.FormatInt(n2[it], 10))
					}
				case "idx":
					exp.WriteString(strconv.Itoa(it))
				}
			}
		}
	}
	c.Data["template"] = tmpl.String()
	c.Data["envs"] = envs
	out, err := config.RenderWithTemplate([]byte(tmpl.String()), &config.Values{Envs: envs})
	run.Count("templates_rendered", 1)
	if c.Idx == 400002 {
		run.Sample(map[string]any{"kind": "template", "template": short(tmpl.String()), "envs": envs})
	}
	run.Distinct("tmpl|" + tmpl.String())
	if mismatch && nodes[len(nodes)-2*nBlocks].pair {
		if err == nil {
			c.Violation("template-unpaired-ranges-accepted", "parseNumberRangePair with ranges of different length rendered without error:\n%s", short(tmpl.String()))
		}
		return
	}
	if err != nil {
		c.Violation("template-rejected", "valid template rejected: %v\n%s", err, short(tmpl.String()))
		return
	}
	if string(out) != exp.String() {
		c.Ev("rendered", "text", string(out))
		c.Ev("expected", "text", exp.String())
		c.Violation("template-render-differs", "rendered template differs from the document with values written out\n--- template\n%s\n--- rendered\n%s\n--- expected\n%s", short(tmpl.String()), short(string(out)), short(exp.String()))
		return
	}
	// the written-out document means what the template says: one tcp proxy per enumerated number (pair)
	trimmedActionsOnly := true
	for _, n := range nodes {
		if n.seg != nil && (n.seg.tl || n.seg.tr) {
			trimmedActionsOnly = false
		}
		for _, s := range n.body {
			if s.tl || s.tr {
				trimmedActionsOnly = false
			}
		}
		if n.seg == nil && (n.tr || n.endTr) {
			trimmedActionsOnly = false
		}
	}
	if !trimmedActionsOnly {
		return // whitespace trimming inside tokens may glue lines together; byte equality above is the verdict
	}
	loaded, err := loadClientText(string(out), true)
	if err != nil {
		run.Count("templates_rendered_not_loadable", 1)
		return
	}
	run.Count("templates_loaded", 1)
	if loaded.ServerAddr != envs["C18_ADDR"] || strconv.Itoa(loaded.ServerPort) != envs["C18_PORT"] || loaded.User != envs["C18_USER"] || loaded.Auth.Token != "pre-"+envs["C18_TOKEN"]+"-post" {
		c.Violation("template-environment-value-lost", "environment values %v arrive as serverAddr=%q serverPort=%d user=%q token=%q", envs, loaded.ServerAddr, loaded.ServerPort, loaded.User, loaded.Auth.Token)
	}
	if len(loaded.Proxies) != len(wants) {
		c.Violation("template-enumeration-wrong", "template enumerates %d proxies, want %d", len(loaded.Proxies), len(wants))
		return
	}
	for i, p := range loaded.Proxies {
		t, ok := p.ProxyConfigurer.(*v1.TCPProxyConfig)
		if !ok || int64(t.LocalPort) != wants[i].local || int64(t.RemotePort) != wants[i].remote {
			c.Violation("template-enumeration-wrong", "proxy %d of the rendered document has ports %d/%d, want %d/%d", i, t.LocalPort, t.RemotePort, wants[i].local, wants[i].remote)
			return
		}
	}
}
