// Monitors 1 and 2: the three formats agree with each other and with the generated logical
// configuration (both strict modes); unknown fields at every nesting level; defaults.
package main

import (
	"crypto/sha1"
	"fmt"
	"os"
	"path/filepath"
	"reflect"
	"regexp"
	"strings"
	"unicode/utf8"

	"github.com/fatedier/frp/pkg/config"
	v1 "github.com/fatedier/frp/pkg/config/v1"

	"verif/h"
)

var idxRe = regexp.MustCompile(`\[[^\]]*\]`)

func pathKey(d string) string {
	p := d
	if i := strings.Index(p, ":"); i >= 0 {
		p = p[:i]
	}
	p = idxRe.ReplaceAllString(p, "")
	p = strings.TrimPrefix(p, ".")
	p = strings.ReplaceAll(p, ".ProxyConfigurer", "")
	p = strings.ReplaceAll(p, ".VisitorConfigurer", "")
	if p == "" {
		p = "root"
	}
	return p
}

var parenRe = regexp.MustCompile(`\([^)]*\)`)

// coarse drops the proxy / plugin type from a level signature (stable violation keys).
func coarse(sig string) string { return parenRe.ReplaceAllString(sig, "") }

func short(s string) string {
	if len(s) > 1500 {
		n := 1500
		for n > 0 && !utf8.RuneStart(s[n]) {
			n--
		}
		return s[:n] + "…"
	}
	return s
}

func treeHash(t *obj) string {
	// canonical text of the tree (order as generated)
	s := renderJSON(t, newFixedRand())
	return fmt.Sprintf("%x", sha1.Sum([]byte(s)))[:16]
}

// loadDoc runs the repository loader on a document text.
func loadClientText(text string, strict bool) (*v1.ClientConfig, error) {
	got := &v1.ClientConfig{}
	err := config.LoadConfigure([]byte(text), got, strict)
	return got, err
}

func loadServerText(text string, strict bool) (*v1.ServerConfig, error) {
	got := &v1.ServerConfig{}
	err := config.LoadConfigure([]byte(text), got, strict)
	return got, err
}

// formatCase: one logical configuration through every format and both strict modes.
func formatCase(c *h.Case) {
	g := &gen{r: c.Rng, pfx: fmt.Sprintf("c%d-", c.Idx)}
	isServer := c.Idx%3 == 2
	var tree *obj
	var expected any
	var cdoc *clientDoc
	var sdoc *serverDoc
	if isServer {
		sdoc = genServerDoc(g)
		tree, expected = sdoc.Tree, &sdoc.Cfg
	} else {
		cdoc = genClientDoc(g, g.r.Intn(5), g.r.Intn(3))
		tree, expected = cdoc.Tree, cdoc.expected()
	}
	c.Data["kind"] = map[bool]string{true: "server", false: "client"}[isServer]
	c.Data["tree"] = plain(tree)
	load := func(text string, strict bool) (any, error) {
		if isServer {
			return loadServerText(text, strict)
		}
		return loadClientText(text, strict)
	}
	texts := map[string]string{}
	results := map[string]any{}
	for _, f := range formats {
		text := render(f, tree, g.r)
		texts[f] = text
		for _, strict := range []bool{true, false} {
			got, err := load(text, strict)
			run.Count("loads", 1)
			if err != nil {
				c.Ev("doc", "format", f, "text", text)
				c.Violation("clean-document-rejected-"+f, "the %s rendering of a configuration that uses only documented settings is rejected (strict=%v): %v\n%s", f, strict, err, short(text))
				continue
			}
			if d := diffValues(expected, got); len(d) > 0 {
				c.Ev("doc", "format", f, "text", text)
				c.Violation("load-mismatch-"+f+"-"+pathKey(d[0]), "structure loaded from the %s rendering (strict=%v) differs from the logical configuration (expected != loaded): %s\n%s", f, strict, strings.Join(d, "; "), short(text))
				continue
			}
			if strict {
				results[f] = got
			}
		}
	}
	// pairwise agreement between formats (redundant with the comparison against the expectation when all
	// three matched it; decisive when the expectation itself could not be built for a field)
	for i := 0; i < len(formats); i++ {
		for j := i + 1; j < len(formats); j++ {
			a, b := results[formats[i]], results[formats[j]]
			if a == nil || b == nil {
				continue
			}
			if d := diffValues(a, b); len(d) > 0 {
				c.Violation("formats-disagree-"+formats[i]+"-"+formats[j]+"-"+pathKey(d[0]), "the same configuration loads differently from %s and %s: %s", formats[i], formats[j], strings.Join(d, "; "))
			}
			run.Count("format_pairs_compared", 1)
		}
	}
	run.Count("configs", 1)
	if isServer {
		run.Count("server_configs", 1)
	} else {
		run.Count("client_configs", 1)
		run.Count("proxies", int64(len(cdoc.Proxies)))
		run.Count("visitors", int64(len(cdoc.Visitors)))
	}
	run.Distinct("cfg|" + treeHash(tree))

	// unknown fields at every nesting level
	sites := collectSites(tree, isServer)
	nInj := 4
	for k := 0; k < nInj && len(sites) > 0; k++ {
		s := sites[g.r.Intn(len(sites))]
		name := pickUnknown(g, s.valid)
		if name == "" {
			continue
		}
		val := []any{"x", int64(1), true, &obj{kvs: []kv{{"a", int64(1)}}}, []any{"a"}}[g.r.Intn(5)]
		s.o.set(name, val)
		f := formats[g.r.Intn(3)]
		text := render(f, tree, g.r)
		s.o.del(name)
		_, err := load(text, true)
		run.Count("unknown_field_injections", 1)
		run.Distinct("inj|" + s.sig + "|" + f + "|" + name)
		levelSeen(s.sig, f)
		if err == nil {
			c.Ev("doc", "format", f, "text", text)
			c.Violation("strict-accepts-unknown-field-at-"+coarse(s.sig), "strict mode accepts the unknown field %q at level %s in %s:\n%s", name, s.sig, f, short(text))
		}
		got, err := load(text, false)
		if err != nil {
			c.Ev("doc", "format", f, "text", text)
			c.Violation("nonstrict-rejects-unknown-field-at-"+coarse(s.sig), "non-strict mode rejects the unknown field %q at level %s in %s: %v", name, s.sig, f, err)
		} else if d := diffValues(expected, got); len(d) > 0 {
			c.Ev("doc", "format", f, "text", text)
			c.Violation("nonstrict-unknown-field-changes-result-at-"+coarse(s.sig), "an unknown field %q at level %s (%s, non-strict) changes the loaded structure: %s", name, s.sig, f, strings.Join(d, "; "))
		}
	}

	// defaults: the file loaders (template layer + Complete) against the documented defaults
	if g.r.Intn(2) == 0 {
		defaultsViaFiles(c, g, cdoc, sdoc, texts)
	}
	if cdoc != nil && g.r.Intn(3) == 0 {
		includesViaFiles(c, g, cdoc)
	}
	if c.Idx == 0 {
		run.Sample(map[string]any{"kind": "configuration (" + c.Data["kind"].(string) + ")", "toml": short(texts["toml"])})
	}
}

func defaultsViaFiles(c *h.Case, g *gen, cdoc *clientDoc, sdoc *serverDoc, texts map[string]string) {
	dir := filepath.Join(h.RunDir(prop), "cfg")
	_ = os.MkdirAll(dir, 0o755)
	for _, f := range formats {
		p := filepath.Join(dir, fmt.Sprintf("case%d-%d.%s", c.Idx, os.Getpid(), f))
		if err := os.WriteFile(p, []byte(texts[f]), 0o644); err != nil {
			run.Inconclusive("cannot write configuration file")
			return
		}
		strict := g.r.Intn(2) == 0
		if sdoc != nil {
			got, legacy, err := config.LoadServerConfig(p, strict)
			os.Remove(p)
			if err != nil || legacy {
				c.Violation("file-loader-rejects-clean-document-"+f, "LoadServerConfig(%s) on a clean document: legacy=%v err=%v\n%s", f, legacy, err, short(texts[f]))
				continue
			}
			want := sdoc.Cfg
			want = *deepCopy(&want).(*v1.ServerConfig)
			modelCompleteServer(&want)
			if d := diffValues(&want, got); len(d) > 0 {
				c.Ev("doc", "format", f, "text", texts[f])
				c.Violation("server-defaults-"+pathKey(d[0]), "completed server configuration loaded from %s differs from document + documented defaults (expected != loaded): %s", f, strings.Join(d, "; "))
			}
			run.Count("file_loads_with_defaults", 1)
			continue
		}
		common, proxies, visitors, legacy, err := config.LoadClientConfig(p, strict)
		os.Remove(p)
		if err != nil || legacy {
			c.Violation("file-loader-rejects-clean-document-"+f, "LoadClientConfig(%s) on a clean document: legacy=%v err=%v\n%s", f, legacy, err, short(texts[f]))
			continue
		}
		wc, wp, wv := modelCompleteClient(cdoc)
		if d := diffValues(wc, common); len(d) > 0 {
			c.Ev("doc", "format", f, "text", texts[f])
			c.Violation("client-defaults-"+pathKey(d[0]), "completed client configuration loaded from %s differs from document + documented defaults (expected != loaded): %s", f, strings.Join(d, "; "))
		}
		if d := diffValues(wp, proxies); len(d) > 0 {
			c.Ev("doc", "format", f, "text", texts[f])
			c.Violation("proxy-defaults-"+pathKey(d[0]), "completed proxies loaded from %s differ from document + documented defaults (expected != loaded): %s", f, strings.Join(d, "; "))
		}
		if d := diffValues(wv, visitors); len(d) > 0 {
			c.Ev("doc", "format", f, "text", texts[f])
			c.Violation("visitor-defaults-"+pathKey(d[0]), "completed visitors loaded from %s differ from document + documented defaults (expected != loaded): %s", f, strings.Join(d, "; "))
		}
		run.Count("file_loads_with_defaults", 1)
	}
}

// deepCopy copies a structure through reflection (pointers, slices and maps are duplicated).
func deepCopy(v any) any {
	return copyRec(reflect.ValueOf(v)).Interface()
}

func copyRec(v reflect.Value) reflect.Value {
	switch v.Kind() {
	case reflect.Ptr:
		if v.IsNil() {
			return v
		}
		n := reflect.New(v.Type().Elem())
		n.Elem().Set(copyRec(v.Elem()))
		return n
	case reflect.Interface:
		if v.IsNil() {
			return v
		}
		n := reflect.New(v.Type()).Elem()
		n.Set(copyRec(v.Elem()))
		return n
	case reflect.Struct:
		n := reflect.New(v.Type()).Elem()
		n.Set(v) // copies unexported fields too
		for i := 0; i < v.NumField(); i++ {
			if v.Type().Field(i).PkgPath != "" {
				continue
			}
			n.Field(i).Set(copyRec(v.Field(i)))
		}
		return n
	case reflect.Slice:
		if v.IsNil() {
			return v
		}
		n := reflect.MakeSlice(v.Type(), v.Len(), v.Len())
		for i := 0; i < v.Len(); i++ {
			n.Index(i).Set(copyRec(v.Index(i)))
		}
		return n
	case reflect.Map:
		if v.IsNil() {
			return v
		}
		n := reflect.MakeMapWithSize(v.Type(), v.Len())
		for _, k := range v.MapKeys() {
			n.SetMapIndex(k, copyRec(v.MapIndex(k)))
		}
		return n
	}
	return v
}

// ---------------------------------------------------------------------------------------------
// injection sites

type site struct {
	o     *obj
	sig   string
	valid map[string]bool
}

var (
	chClient  = children(clientCommonFields, "proxies", "visitors", "start", "includes")
	chServer  = children(serverFields)
	chProxy   = map[string]map[string]map[string]bool{}
	chVisitor = map[string]map[string]map[string]bool{}
	chPlugin  = map[string]map[string]map[string]bool{}
	listElems = map[string][]string{
		"httpHeaders": {"name", "value"},
		"allowPorts":  {"start", "end", "single"},
		"httpPlugins": {"name", "addr", "path", "ops", "tlsverify"},
	}
)

func init() {
	for _, t := range proxyTypes {
		chProxy[t] = children(concat(proxyBaseFields, proxyTypeFields[t]), "name", "type")
	}
	for _, t := range visitorTypes {
		chVisitor[t] = children(concat(visitorBaseFields, visitorTypeFields[t]), "name", "type")
	}
	for n, ps := range pluginSchemas {
		chPlugin[n] = children(ps.Fields, "type")
	}
	chPlugin["virtual_net"] = map[string]map[string]bool{"": {"type": true, "destinationip": true}}
}

func walkSites(o *obj, sig, lvl string, ch map[string]map[string]bool, out *[]site) {
	if o.user {
		return
	}
	valid := ch[lvl]
	if valid == nil {
		return
	}
	*out = append(*out, site{o, sig, valid})
	for _, e := range o.kvs {
		sub := e.K
		if lvl != "" {
			sub = lvl + "." + e.K
		}
		switch t := e.V.(type) {
		case *obj:
			if e.K == "plugin" {
				if ty, ok := t.get("type"); ok {
					if pc := chPlugin[ty.(string)]; pc != nil {
						walkSites(t, coarse(sig)+".plugin("+ty.(string)+")", "", pc, out)
					}
				}
				continue
			}
			walkSites(t, sig+"."+e.K, sub, ch, out)
		case []any:
			for _, el := range t {
				eo, ok := el.(*obj)
				if !ok {
					continue
				}
				switch e.K {
				case "proxies":
					ty, _ := eo.get("type")
					walkSites(eo, "proxies("+ty.(string)+")", "", chProxy[ty.(string)], out)
				case "visitors":
					ty, _ := eo.get("type")
					walkSites(eo, "visitors("+ty.(string)+")", "", chVisitor[ty.(string)], out)
				default:
					if names, ok := listElems[e.K]; ok {
						v := map[string]bool{}
						for _, n := range names {
							v[n] = true
						}
						*out = append(*out, site{eo, sig + "." + e.K + "[]", v})
					}
				}
			}
		}
	}
}

func collectSites(tree *obj, isServer bool) []site {
	var out []site
	if isServer {
		walkSites(tree, "server", "", chServer, &out)
	} else {
		walkSites(tree, "client", "", chClient, &out)
	}
	return out
}

var unknownPool = []string{"zzUnknown", "x-extra", "remotePort", "useEncryption", "token", "subdomain", "bindPort", "enable", "serverAdd", "names", "locations", "value2", "set", "level"}

func pickUnknown(g *gen, valid map[string]bool) string {
	for tries := 0; tries < 10; tries++ {
		n := unknownPool[g.r.Intn(len(unknownPool))]
		if !valid[strings.ToLower(n)] {
			return n
		}
	}
	return "zzUnknown"
}

// includesViaFiles: the proxies and visitors of one logical configuration split over a main file and
// included files written in other formats load like the single document; an unknown field placed in an
// included file is refused in strict mode and ignored in non-strict mode, like in the main file.
func includesViaFiles(c *h.Case, g *gen, cdoc *clientDoc) {
	if len(cdoc.Proxies)+len(cdoc.Visitors) == 0 {
		return
	}
	dir := filepath.Join(h.RunDir(prop), "cfg", fmt.Sprintf("inc-%d-%d", c.Idx, os.Getpid()))
	if err := os.MkdirAll(dir, 0o755); err != nil {
		run.Inconclusive("cannot write configuration file")
		return
	}
	defer os.RemoveAll(dir)
	// the tail of the proxy list and the tail of the visitor list move to included files (the loader
	// appends included definitions after the main file's, so the order of the single document is kept)
	nMainP, nMainV := g.r.Intn(len(cdoc.Proxies)+1), g.r.Intn(len(cdoc.Visitors)+1)
	if nMainP == len(cdoc.Proxies) && nMainV == len(cdoc.Visitors) {
		if nMainP > 0 {
			nMainP--
		} else {
			nMainV--
		}
	}
	mainTree := cloneTree(cdoc.Tree).(*obj)
	var mainP, incP, mainV, incV []any
	for i, p := range cdoc.Proxies {
		if i < nMainP {
			mainP = append(mainP, p.Tree)
		} else {
			incP = append(incP, p.Tree)
		}
	}
	for i, v := range cdoc.Visitors {
		if i < nMainV {
			mainV = append(mainV, v.Tree)
		} else {
			incV = append(incV, v.Tree)
		}
	}
	setList := func(o *obj, k string, l []any) {
		if len(l) > 0 {
			o.set(k, l)
		} else {
			o.del(k)
		}
	}
	setList(mainTree, "proxies", mainP)
	setList(mainTree, "visitors", mainV)
	glob := filepath.Join(dir, "inc-*")
	mainTree.set("includes", []any{glob})
	// one or two included files (directory order = name order), each in its own format
	type incFile struct {
		path, format string
		tree         *obj
	}
	var files []*incFile
	parts := [][]any{incP}
	if len(incP) > 1 && g.r.Intn(2) == 0 {
		m := 1 + g.r.Intn(len(incP)-1)
		parts = [][]any{incP[:m], incP[m:]}
	}
	var used []string
	for i, part := range parts {
		f := formats[g.r.Intn(3)]
		used = append(used, f)
		o := &obj{}
		setList(o, "proxies", part)
		if i == len(parts)-1 {
			setList(o, "visitors", incV)
		}
		if g.r.Intn(3) == 0 {
			o.set("serverAddr", "ignored.example") // common settings of an included file are not used
		}
		fl := &incFile{filepath.Join(dir, fmt.Sprintf("inc-%d.%s", i+1, f)), f, o}
		files = append(files, fl)
		if err := os.WriteFile(fl.path, []byte(render(f, o, g.r)), 0o644); err != nil {
			run.Inconclusive("cannot write configuration file")
			return
		}
	}
	mf := formats[g.r.Intn(3)]
	text := render(mf, mainTree, g.r)
	mp := filepath.Join(dir, "main."+mf)
	if err := os.WriteFile(mp, []byte(text), 0o644); err != nil {
		run.Inconclusive("cannot write configuration file")
		return
	}
	withInc := *cdoc
	withInc.Common.IncludeConfigFiles = []string{glob}
	compare := func(strict bool) (err error, d []string) {
		common, proxies, visitors, _, err := config.LoadClientConfig(mp, strict)
		if err != nil {
			return err, nil
		}
		wc, wp, wv := modelCompleteClient(&withInc)
		d = append(d, diffValues(wc, common)...)
		d = append(d, diffValues(wp, proxies)...)
		d = append(d, diffValues(wv, visitors)...)
		return nil, d
	}
	err, d := compare(g.r.Intn(2) == 0)
	if err != nil {
		c.Ev("doc", "format", mf, "text", text)
		c.Violation("file-loader-rejects-clean-document-"+mf, "LoadClientConfig on a clean %s document with includes (%v): %v\n%s", mf, used, err, short(text))
		return
	}
	run.Count("include_loads", 1)
	run.Distinct("inc|" + mf + "|" + strings.Join(used, ",") + "|" + treeHash(cdoc.Tree)[:8])
	if len(d) > 0 {
		c.Ev("doc", "format", mf, "text", text)
		c.Violation("includes-"+pathKey(d[0]), "configuration split over a %s file and included %v files loads differently from the single document (expected != loaded): %s", mf, used, strings.Join(d, "; "))
		return
	}
	// unknown fields inside an included file: every nesting level, every format, both strict modes
	for k := 0; k < 3; k++ {
		fl := files[g.r.Intn(len(files))]
		var sites []site
		walkSites(fl.tree, "included", "", chClient, &sites)
		if len(sites) == 0 {
			continue
		}
		st := sites[g.r.Intn(len(sites))]
		name := pickUnknown(g, st.valid)
		val := []any{"x", int64(1), true, &obj{kvs: []kv{{"a", int64(1)}}}, []any{"a"}}[g.r.Intn(5)]
		st.o.set(name, val)
		itext := render(fl.format, fl.tree, g.r)
		st.o.del(name)
		if err := os.WriteFile(fl.path, []byte(itext), 0o644); err != nil {
			run.Inconclusive("cannot write configuration file")
			return
		}
		sig := coarse(st.sig)
		run.Count("unknown_field_injections_in_included_files", 1)
		run.Distinct("incinj|" + st.sig + "|" + fl.format + "|" + name)
		levelSeen(st.sig, fl.format)
		if err, _ := compare(true); err == nil {
			c.Ev("doc", "format", fl.format, "included", itext, "main", text)
			c.Violation("strict-accepts-unknown-field-in-included-file-at-"+sig, "strict mode accepts the unknown field %q at level %s of an included %s file (main file: %s):\n%s", name, st.sig, fl.format, mf, short(itext))
		}
		if err, d := compare(false); err != nil {
			c.Ev("doc", "format", fl.format, "included", itext, "main", text)
			c.Violation("nonstrict-rejects-unknown-field-in-included-file-at-"+sig, "non-strict mode rejects the unknown field %q at level %s of an included %s file: %v", name, st.sig, fl.format, err)
		} else if len(d) > 0 {
			c.Ev("doc", "format", fl.format, "included", itext, "main", text)
			c.Violation("nonstrict-unknown-field-in-included-file-changes-result-at-"+sig, "an unknown field %q at level %s of an included %s file (non-strict) changes the loaded result: %s", name, st.sig, fl.format, strings.Join(d, "; "))
		}
		// restore the clean included file
		if err := os.WriteFile(fl.path, []byte(render(fl.format, fl.tree, g.r)), 0o644); err != nil {
			run.Inconclusive("cannot write configuration file")
			return
		}
	}
}
