// Monitor 4: configurations accepted by the real validators respect the documented constraints, judged by
// independent predicates; configurations using only documented values are accepted.
package main

import (
	"fmt"
	"strings"
	"unicode"

	"github.com/fatedier/frp/pkg/config"
	v1 "github.com/fatedier/frp/pkg/config/v1"
	"github.com/fatedier/frp/pkg/config/v1/validation"
	"github.com/fatedier/frp/pkg/msg"

	"verif/h"
)

var portProbes = []any{int64(-1), int64(0), int64(1), int64(65535), int64(65536), int64(70000), int64(-65536), int64(2147483647), int64(65537), int64(-2)}

type mutation struct {
	Path string
	Vals []any
}

func strs(v ...string) []any {
	out := make([]any, len(v))
	for i := range v {
		out[i] = v[i]
	}
	return out
}

func list(v ...string) any { return strs(v...) }

var serverMutations = []mutation{
	{"bindPort", portProbes}, {"kcpBindPort", portProbes}, {"quicBindPort", portProbes}, {"vhostHTTPPort", portProbes}, {"vhostHTTPSPort", portProbes},
	{"tcpmuxHTTPConnectPort", portProbes}, {"webServer.port", portProbes}, {"sshTunnelGateway.bindPort", portProbes},
	{"auth.method", strs("token", "oidc", "Token", "OIDC", "jwt", " token")},
	{"auth.additionalScopes", []any{list("HeartBeats"), list("heartbeats"), list("NewWorkConns", "X"), list("HeartBeats", "NewWorkConns"), list("NEWWORKCONNS")}},
	{"log.level", strs("trace", "debug", "info", "warn", "error", "INFO", "fatal", "Debug", "warning", "info ")},
}

var commonMutations = []mutation{
	{"webServer.port", portProbes}, {"serverPort", portProbes},
	{"auth.method", strs("token", "oidc", "Token", "OIDC", "jwt", " token")},
	{"auth.additionalScopes", []any{list("HeartBeats"), list("heartbeats"), list("NewWorkConns", "X"), list("HeartBeats", "NewWorkConns")}},
	{"log.level", strs("trace", "debug", "info", "warn", "error", "INFO", "fatal", "Debug", "warning")},
	{"transport.protocol", strs("tcp", "kcp", "quic", "websocket", "wss", "TCP", "ws", "udp", "Quic", "http")},
}

var proxyMutations = []mutation{
	{"localPort", portProbes},
	{"transport.proxyProtocolVersion", strs("v1", "v2", "V2", "v3", "1", "v1 ")},
	{"transport.bandwidthLimitMode", strs("client", "server", "Server", "both", "CLIENT")},
	{"healthCheck.type", strs("tcp", "http", "HTTP", "udp", "Tcp", "https")},
}

var visitorMutations = []mutation{
	{"bindPort", append([]any{int64(9000)}, portProbes...)},
	{"serverName", strs("srv", "")},
	{"name", strs("")},
}

func inSet(s string, set ...string) bool {
	for _, x := range set {
		if s == x {
			return true
		}
	}
	return false
}

func portOK(p int) bool { return p >= 0 && p <= 65535 }

// ---- predicates (independent of the validators)

func serverPredicates(s *v1.ServerConfig) (bad []string) {
	for name, p := range map[string]int{"bindPort": s.BindPort, "kcpBindPort": s.KCPBindPort, "quicBindPort": s.QUICBindPort, "vhostHTTPPort": s.VhostHTTPPort,
		"vhostHTTPSPort": s.VhostHTTPSPort, "tcpmuxHTTPConnectPort": s.TCPMuxHTTPConnectPort, "webServer.port": s.WebServer.Port, "sshTunnelGateway.bindPort": s.SSHTunnelGateway.BindPort} {
		if !portOK(p) {
			bad = append(bad, fmt.Sprintf("port-out-of-range-%s|%s = %d is outside 0..65535", name, name, p))
		}
	}
	if !inSet(string(s.Auth.Method), "token", "oidc") {
		bad = append(bad, fmt.Sprintf("enum-auth.method|auth.method = %q is not one of token, oidc", s.Auth.Method))
	}
	for _, sc := range s.Auth.AdditionalScopes {
		if !inSet(string(sc), "HeartBeats", "NewWorkConns") {
			bad = append(bad, fmt.Sprintf("enum-auth.additionalScopes|auth.additionalScopes contains %q", sc))
		}
	}
	if !inSet(s.Log.Level, "trace", "debug", "info", "warn", "error") {
		bad = append(bad, fmt.Sprintf("enum-log.level|log.level = %q", s.Log.Level))
	}
	for _, p := range s.HTTPPlugins {
		for _, op := range p.Ops {
			if !inSet(op, pluginOps...) {
				bad = append(bad, fmt.Sprintf("enum-httpPlugins.ops|httpPlugins ops contains %q", op))
			}
		}
	}
	if t := s.WebServer.TLS; t != nil && (t.CertFile == "" || t.KeyFile == "") {
		bad = append(bad, "webserver-tls-without-keypair|webServer.tls is enabled without certFile and keyFile")
	}
	return
}

func commonPredicates(c *v1.ClientCommonConfig) (bad []string) {
	if !portOK(c.WebServer.Port) {
		bad = append(bad, fmt.Sprintf("port-out-of-range-webServer.port|webServer.port = %d is outside 0..65535", c.WebServer.Port))
	}
	if !portOK(c.ServerPort) {
		bad = append(bad, fmt.Sprintf("port-out-of-range-serverPort|serverPort = %d is outside 0..65535", c.ServerPort))
	}
	if !inSet(string(c.Auth.Method), "token", "oidc") {
		bad = append(bad, fmt.Sprintf("enum-auth.method|auth.method = %q is not one of token, oidc", c.Auth.Method))
	}
	for _, sc := range c.Auth.AdditionalScopes {
		if !inSet(string(sc), "HeartBeats", "NewWorkConns") {
			bad = append(bad, fmt.Sprintf("enum-auth.additionalScopes|auth.additionalScopes contains %q", sc))
		}
	}
	if !inSet(c.Log.Level, "trace", "debug", "info", "warn", "error") {
		bad = append(bad, fmt.Sprintf("enum-log.level|log.level = %q", c.Log.Level))
	}
	if !inSet(c.Transport.Protocol, "tcp", "kcp", "quic", "websocket", "wss") {
		bad = append(bad, fmt.Sprintf("enum-transport.protocol|transport.protocol = %q", c.Transport.Protocol))
	}
	if t, i := c.Transport.HeartbeatTimeout, c.Transport.HeartbeatInterval; t > 0 && i > 0 && t < i {
		bad = append(bad, fmt.Sprintf("heartbeat-timeout-below-interval|heartbeatTimeout %d < heartbeatInterval %d", t, i))
	}
	if t := c.WebServer.TLS; t != nil && (t.CertFile == "" || t.KeyFile == "") {
		bad = append(bad, "webserver-tls-without-keypair|webServer.tls is enabled without certFile and keyFile")
	}
	return
}

func proxyClientPredicates(p v1.ProxyConfigurer) (bad []string) {
	b := p.GetBaseConfig()
	if b.Name == "" {
		bad = append(bad, "proxy-without-name|proxy name is empty")
	}
	if !inSet(b.Transport.ProxyProtocolVersion, "", "v1", "v2") {
		bad = append(bad, fmt.Sprintf("enum-proxyProtocolVersion|transport.proxyProtocolVersion = %q", b.Transport.ProxyProtocolVersion))
	}
	if !inSet(b.Transport.BandwidthLimitMode, "client", "server") {
		bad = append(bad, fmt.Sprintf("enum-bandwidthLimitMode|transport.bandwidthLimitMode = %q", b.Transport.BandwidthLimitMode))
	}
	if b.Plugin.Type == "" && !portOK(b.LocalPort) {
		bad = append(bad, fmt.Sprintf("port-out-of-range-localPort|localPort = %d is outside 0..65535", b.LocalPort))
	}
	if !inSet(b.HealthCheck.Type, "", "tcp", "http") {
		bad = append(bad, fmt.Sprintf("enum-healthCheck.type|healthCheck.type = %q", b.HealthCheck.Type))
	}
	if b.HealthCheck.Type == "http" && b.HealthCheck.Path == "" {
		bad = append(bad, "http-healthcheck-without-path|healthCheck.type = http without a path")
	}
	var dc *v1.DomainConfig
	switch t := p.(type) {
	case *v1.TCPProxyConfig:
		if !portOK(t.RemotePort) {
			bad = append(bad, fmt.Sprintf("port-out-of-range-remotePort|tcp remotePort = %d is outside 0..65535", t.RemotePort))
		}
	case *v1.UDPProxyConfig:
		if !portOK(t.RemotePort) {
			bad = append(bad, fmt.Sprintf("port-out-of-range-remotePort|udp remotePort = %d is outside 0..65535", t.RemotePort))
		}
	case *v1.HTTPProxyConfig:
		dc = &t.DomainConfig
	case *v1.HTTPSProxyConfig:
		dc = &t.DomainConfig
	case *v1.TCPMuxProxyConfig:
		dc = &t.DomainConfig
		if !inSet(t.Multiplexer, "httpconnect") {
			bad = append(bad, fmt.Sprintf("enum-multiplexer|multiplexer = %q", t.Multiplexer))
		}
	}
	if dc != nil && dc.SubDomain == "" && len(dc.CustomDomains) == 0 {
		bad = append(bad, "domain-proxy-without-domain|neither subdomain nor customDomains given")
	}
	return
}

func visitorPredicates(v v1.VisitorConfigurer) (bad []string) {
	b := v.GetBaseConfig()
	if b.Name == "" {
		bad = append(bad, "visitor-without-name|visitor name is empty")
	}
	if b.ServerName == "" {
		bad = append(bad, "visitor-without-server-name|visitor serverName is empty")
	}
	if b.BindPort == 0 {
		bad = append(bad, "visitor-without-bind-port|visitor bindPort is 0")
	}
	if b.BindPort > 65535 {
		bad = append(bad, fmt.Sprintf("port-out-of-range-visitor.bindPort|visitor bindPort = %d is above 65535", b.BindPort))
	}
	if x, ok := v.(*v1.XTCPVisitorConfig); ok && !inSet(x.Protocol, "kcp", "quic") {
		bad = append(bad, fmt.Sprintf("enum-xtcp.protocol|xtcp visitor protocol = %q", x.Protocol))
	}
	return
}

// domainInside: the custom domain is a proper subdomain of the server's subdomain host, compared the
// way DNS and the server's own router compare names (case-insensitively).
func domainInside(domain, host string) bool {
	return host != "" && strings.HasSuffix(strings.ToLower(domain), "."+strings.ToLower(host))
}

func proxyServerPredicates(p v1.ProxyConfigurer, s *v1.ServerConfig) (bad []string) {
	var dc *v1.DomainConfig
	switch t := p.(type) {
	case *v1.TCPProxyConfig:
		if !portOK(t.RemotePort) {
			bad = append(bad, fmt.Sprintf("port-out-of-range-remotePort|tcp remotePort = %d is outside 0..65535", t.RemotePort))
		}
	case *v1.UDPProxyConfig:
		if !portOK(t.RemotePort) {
			bad = append(bad, fmt.Sprintf("port-out-of-range-remotePort|udp remotePort = %d is outside 0..65535", t.RemotePort))
		}
	case *v1.HTTPProxyConfig:
		dc = &t.DomainConfig
		if s.VhostHTTPPort == 0 {
			bad = append(bad, "http-proxy-without-vhost-port|http proxy accepted although vhostHTTPPort is 0")
		}
	case *v1.HTTPSProxyConfig:
		dc = &t.DomainConfig
		if s.VhostHTTPSPort == 0 {
			bad = append(bad, "https-proxy-without-vhost-port|https proxy accepted although vhostHTTPSPort is 0")
		}
	case *v1.TCPMuxProxyConfig:
		dc = &t.DomainConfig
		if t.Multiplexer == "httpconnect" && s.TCPMuxHTTPConnectPort == 0 {
			bad = append(bad, "tcpmux-proxy-without-port|tcpmux httpconnect proxy accepted although tcpmuxHTTPConnectPort is 0")
		}
	}
	if dc != nil {
		for _, d := range dc.CustomDomains {
			if domainInside(d, s.SubDomainHost) {
				bad = append(bad, fmt.Sprintf("custom-domain-inside-subdomain-host|custom domain %q accepted although it belongs to the subdomain host %q", d, s.SubDomainHost))
			}
		}
		if dc.SubDomain != "" {
			if s.SubDomainHost == "" {
				bad = append(bad, "subdomain-without-subdomain-host|subdomain accepted although the server has no subDomainHost")
			}
			if strings.ContainsAny(dc.SubDomain, ".*") {
				bad = append(bad, fmt.Sprintf("subdomain-with-dot-or-star|subdomain %q accepted", dc.SubDomain))
			}
		}
	}
	return
}

func report(c *h.Case, where string, bad []string, text string) {
	for _, b := range bad {
		i := strings.Index(b, "|")
		c.Ev("doc", "text", text)
		c.Violation("validation-accepts-"+b[:i], "%s validation accepts a configuration that breaks a documented constraint: %s\n%s", where, b[i+1:], short(text))
	}
}

// ---- cases

func applyMutations(g *gen, tree *obj, pool []mutation, n int) []string {
	var applied []string
	for k := 0; k < n; k++ {
		m := pool[g.r.Intn(len(pool))]
		v := m.Vals[g.r.Intn(len(m.Vals))]
		tree.setPath(m.Path, cloneTree(v))
		applied = append(applied, fmt.Sprintf("%s=%v", m.Path, v))
	}
	return applied
}

func repairWebTLS(tree *obj) {
	if t, ok := tree.getPath("webServer.tls"); ok {
		to := t.(*obj)
		_, c := to.get("certFile")
		_, k := to.get("keyFile")
		if !c || !k {
			to.set("certFile", "./web.crt")
			to.set("keyFile", "./web.key")
		}
	}
}

func validationCase(c *h.Case) {
	g := &gen{r: c.Rng, pfx: fmt.Sprintf("c%d-", c.Idx)}
	switch c.Idx % 3 {
	case 0:
		validateServerCase(c, g)
	case 1:
		validateClientCase(c, g)
	default:
		validateRegistrationCase(c, g)
	}
}

func validateServerCase(c *h.Case, g *gen) {
	sd := genServerDoc(g)
	tree := sd.Tree
	repairWebTLS(tree)
	var applied []string
	if g.r.Intn(4) != 0 {
		applied = applyMutations(g, tree, serverMutations, 1+g.r.Intn(2))
		switch g.r.Intn(8) {
		case 0:
			tree.setPath("webServer.tls", &obj{kvs: []kv{{"certFile", "./only.crt"}}})
			applied = append(applied, "webServer.tls=cert only")
		case 1:
			tree.setPath("webServer.tls", &obj{})
			applied = append(applied, "webServer.tls={}")
		case 2:
			tree.setPath("httpPlugins", []any{&obj{kvs: []kv{{"name", "p"}, {"addr", "127.0.0.1:9000"}, {"path", "/h"}, {"ops", list("Login", []string{"login", "NewProxy", "Exit", "NewUserConn"}[g.r.Intn(4)])}}}})
			applied = append(applied, "httpPlugins ops")
		}
	}
	c.Data["mutations"] = applied
	f := formats[g.r.Intn(3)]
	text := render(f, tree, g.r)
	cfg, err := loadServerText(text, true)
	if err != nil {
		// a value of the wrong shape is a loader matter, not a validation verdict
		run.Count("validation_inputs_not_loadable", 1)
		return
	}
	cfg.Complete()
	_, verr := validation.ValidateServerConfig(cfg)
	run.Count("server_validations", 1)
	run.Distinct("val|server|" + strings.Join(applied, ",") + "|" + treeHash(tree)[:6])
	if verr == nil {
		run.Count("server_validations_accepted", 1)
		report(c, "server", serverPredicates(cfg), text)
	} else {
		run.Count("server_validations_rejected", 1)
		if len(applied) == 0 {
			c.Ev("doc", "text", text)
			c.Violation("documented-valid-server-config-rejected", "a server configuration that uses only documented values is rejected: %v\n%s", verr, short(text))
		}
	}
}

func validateClientCase(c *h.Case, g *gen) {
	cd := genClientDoc(g, 1+g.r.Intn(4), g.r.Intn(3))
	tree := cd.Tree
	repairWebTLS(tree)
	tree.del("virtualNet") // needs a feature gate
	tree.del("start")
	// the heartbeat pair is only valid together with the defaults it meets; it is exercised as a mutation below
	tree.delPath("transport.heartbeatInterval")
	tree.delPath("transport.heartbeatTimeout")
	// plugins: required option present
	pl, _ := tree.get("proxies")
	for _, e := range pl.([]any) {
		po := e.(*obj)
		if p, ok := po.get("plugin"); ok {
			pp := p.(*obj)
			ty, _ := pp.get("type")
			for _, req := range map[string][]string{"http2https": {"localAddr"}, "https2http": {"localAddr"}, "https2https": {"localAddr"}, "tls2raw": {"localAddr"},
				"static_file": {"localPath"}, "unix_domain_socket": {"unixPath"}}[ty.(string)] {
				if _, ok := pp.get(req); !ok {
					pp.set(req, "x")
				}
			}
		}
	}
	var applied []string
	if g.r.Intn(4) != 0 {
		switch g.r.Intn(4) {
		case 0:
			applied = applyMutations(g, tree, commonMutations, 1+g.r.Intn(2))
			if g.r.Intn(6) == 0 {
				tree.setPath("transport.tcpMux", false)
				tree.setPath("transport.heartbeatInterval", int64(30))
				tree.setPath("transport.heartbeatTimeout", int64(10+g.r.Intn(40)))
				applied = append(applied, "heartbeat pair")
			}
		case 1, 2:
			ps := pl.([]any)
			po := ps[g.r.Intn(len(ps))].(*obj)
			ty, _ := po.get("type")
			pool := append([]mutation{}, proxyMutations...)
			switch ty.(string) {
			case "tcp", "udp":
				pool = append(pool, mutation{"remotePort", portProbes}, mutation{"remotePort", portProbes})
			case "tcpmux":
				pool = append(pool, mutation{"multiplexer", strs("httpconnect", "HTTPCONNECT", "sni", "httpConnect")})
			}
			if g.r.Intn(3) == 0 {
				po.del("plugin")
			}
			applied = applyMutations(g, po, pool, 1+g.r.Intn(2))
			switch g.r.Intn(10) {
			case 0:
				if ty == "http" || ty == "https" || ty == "tcpmux" {
					po.del("customDomains")
					po.del("subdomain")
					applied = append(applied, "no domains")
				}
			case 1:
				po.set("name", "")
				applied = append(applied, "name=''")
			case 2:
				po.setPath("healthCheck.type", "http")
				po.delPath("healthCheck.path")
				applied = append(applied, "http health check without path")
			}
		default:
			vl, _ := tree.get("visitors")
			vs, _ := vl.([]any)
			if len(vs) == 0 {
				v := genVisitor(g, visitorTypes[g.r.Intn(3)])
				vs = []any{v.Tree}
				tree.set("visitors", vs)
			}
			vo := vs[g.r.Intn(len(vs))].(*obj)
			pool := append([]mutation{}, visitorMutations...)
			if ty, _ := vo.get("type"); ty == "xtcp" {
				pool = append(pool, mutation{"protocol", strs("kcp", "quic", "tcp", "QUIC", "Kcp")}, mutation{"protocol", strs("kcp", "quic", "tcp", "QUIC", "Kcp")})
			}
			applied = applyMutations(g, vo, pool, 1)
		}
	}
	c.Data["mutations"] = applied
	f := formats[g.r.Intn(3)]
	text := render(f, tree, g.r)
	loaded, err := loadClientText(text, true)
	if err != nil {
		run.Count("validation_inputs_not_loadable", 1)
		return
	}
	// what frpc does between loading and validating
	common := &loaded.ClientCommonConfig
	common.Complete()
	var proxies []v1.ProxyConfigurer
	var visitors []v1.VisitorConfigurer
	for _, p := range loaded.Proxies {
		p.ProxyConfigurer.Complete(common.User)
		proxies = append(proxies, p.ProxyConfigurer)
	}
	for _, v := range loaded.Visitors {
		v.VisitorConfigurer.Complete(common)
		visitors = append(visitors, v.VisitorConfigurer)
	}
	_, verr := validation.ValidateAllClientConfig(common, proxies, visitors)
	run.Count("client_validations", 1)
	run.Distinct("val|client|" + strings.Join(applied, ",") + "|" + treeHash(tree)[:6])
	if verr == nil {
		run.Count("client_validations_accepted", 1)
		bad := commonPredicates(common)
		for _, p := range proxies {
			bad = append(bad, proxyClientPredicates(p)...)
		}
		for _, v := range visitors {
			bad = append(bad, visitorPredicates(v)...)
		}
		report(c, "client", bad, text)
	} else {
		run.Count("client_validations_rejected", 1)
		if len(applied) == 0 {
			c.Ev("doc", "text", text)
			c.Violation("documented-valid-client-config-rejected", "a client configuration that uses only documented values is rejected: %v\n%s", verr, short(text))
		}
	}
}

func randomCase(g *gen, s string) string {
	rs := []rune(s)
	for i, r := range rs {
		if g.r.Intn(2) == 0 {
			rs[i] = unicode.ToUpper(r)
		} else {
			rs[i] = unicode.ToLower(r)
		}
	}
	return string(rs)
}

// validateRegistrationCase: server-side validation of a registration (domains vs. subdomain host etc.).
func validateRegistrationCase(c *h.Case, g *gen) {
	host := []string{"frps.com", "FRPS.com", "Tunnel.Example.ORG", "a.b.c.test", "frps.com", ""}[g.r.Intn(6)]
	s := &v1.ServerConfig{SubDomainHost: host}
	for _, p := range []*int{&s.VhostHTTPPort, &s.VhostHTTPSPort, &s.TCPMuxHTTPConnectPort} {
		if g.r.Intn(6) != 0 {
			*p = 8000 + g.r.Intn(100)
		}
	}
	s.Complete()
	typ := []string{"http", "https", "tcpmux", "http", "tcp", "udp"}[g.r.Intn(6)]
	m := &msg.NewProxy{ProxyName: g.uniqueName(), ProxyType: typ}
	what := ""
	switch typ {
	case "tcp", "udp":
		m.RemotePort = int(portProbes[g.r.Intn(len(portProbes))].(int64))
		what = fmt.Sprintf("remotePort=%d", m.RemotePort)
	default:
		if typ == "tcpmux" {
			m.Multiplexer = "httpconnect"
		}
		h0 := host
		if h0 == "" {
			h0 = "frps.com"
		}
		n := 1 + g.r.Intn(2)
		for i := 0; i < n; i++ {
			var d string
			switch g.r.Intn(9) {
			case 0:
				d = "a.example.org"
			case 1:
				d = "x." + h0
			case 2:
				d = "x." + strings.ToUpper(h0)
			case 3:
				d = "X." + strings.ToLower(h0)
			case 4:
				d = randomCase(g, "deep.x."+h0)
			case 5:
				d = h0
			case 6:
				d = "*." + randomCase(g, h0)
			case 7:
				d = "x" + h0
			default:
				d = randomCase(g, "y."+h0)
			}
			m.CustomDomains = append(m.CustomDomains, d)
		}
		if g.r.Intn(3) == 0 {
			m.SubDomain = []string{"web", "a.b", "*", "w*", "ok-1"}[g.r.Intn(5)]
		}
		what = fmt.Sprintf("host=%q domains=%q subdomain=%q", host, m.CustomDomains, m.SubDomain)
	}
	c.Data["registration"] = what
	cfg, err := config.NewProxyConfigurerFromMsg(m, s)
	run.Count("registration_validations", 1)
	run.Distinct("val|reg|" + typ + "|" + what)
	if err != nil {
		run.Count("registration_validations_rejected", 1)
		return
	}
	run.Count("registration_validations_accepted", 1)
	report(c, "server-side registration", proxyServerPredicates(cfg, s), what)
}
