// Reference model of the documented defaults (what Complete() must do to a loaded configuration).
package main

import (
	"os"
	"reflect"

	v1 "github.com/fatedier/frp/pkg/config/v1"
)

func orS(p *string, d string) {
	if *p == "" {
		*p = d
	}
}
func orI(p *int, d int) {
	if *p == 0 {
		*p = d
	}
}
func orI64(p *int64, d int64) {
	if *p == 0 {
		*p = d
	}
}
func orB(p **bool, d bool) {
	if *p == nil {
		*p = &d
	}
}

func modelLog(l *v1.LogConfig) {
	orS(&l.To, "console")
	orS(&l.Level, "info")
	orI64(&l.MaxDays, 3)
}

func modelQUIC(q *v1.QUICOptions) {
	orI(&q.KeepalivePeriod, 10)
	orI(&q.MaxIdleTimeout, 30)
	orI(&q.MaxIncomingStreams, 100000)
}

func modelCompleteServer(c *v1.ServerConfig) {
	orS((*string)(&c.Auth.Method), "token")
	modelLog(&c.Log)
	orB(&c.Transport.TCPMux, true)
	orI64(&c.Transport.TCPMuxKeepaliveInterval, 30)
	orI64(&c.Transport.TCPKeepAlive, 7200)
	orI64(&c.Transport.MaxPoolCount, 5)
	if *c.Transport.TCPMux {
		orI64(&c.Transport.HeartbeatTimeout, -1)
	} else {
		orI64(&c.Transport.HeartbeatTimeout, 90)
	}
	modelQUIC(&c.Transport.QUIC)
	if c.Transport.TLS.TrustedCaFile != "" {
		c.Transport.TLS.Force = true
	}
	orS(&c.WebServer.Addr, "127.0.0.1")
	orS(&c.SSHTunnelGateway.AutoGenPrivateKeyPath, "./.autogen_ssh_key")
	orS(&c.BindAddr, "0.0.0.0")
	orI(&c.BindPort, 7000)
	orS(&c.ProxyBindAddr, c.BindAddr)
	orI64(&c.VhostHTTPTimeout, 60)
	orB(&c.DetailedErrorsToClient, true)
	orI64(&c.UserConnTimeout, 10)
	orI64(&c.UDPPacketSize, 1500)
	orI64(&c.NatHoleAnalysisDataReserveHours, 168)
}

func modelCompleteCommon(c *v1.ClientCommonConfig) {
	orS(&c.ServerAddr, "0.0.0.0")
	orI(&c.ServerPort, 7000)
	orB(&c.LoginFailExit, true)
	orS(&c.NatHoleSTUNServer, "stun.easyvoip.com:3478")
	orS((*string)(&c.Auth.Method), "token")
	modelLog(&c.Log)
	t := &c.Transport
	orS(&t.Protocol, "tcp")
	orI64(&t.DialServerTimeout, 10)
	orI64(&t.DialServerKeepAlive, 7200)
	orS(&t.ProxyURL, os.Getenv("http_proxy"))
	orI(&t.PoolCount, 1)
	orB(&t.TCPMux, true)
	orI64(&t.TCPMuxKeepaliveInterval, 30)
	if *t.TCPMux {
		orI64(&t.HeartbeatInterval, -1)
		orI64(&t.HeartbeatTimeout, -1)
	} else {
		orI64(&t.HeartbeatInterval, 30)
		orI64(&t.HeartbeatTimeout, 90)
	}
	modelQUIC(&t.QUIC)
	orB(&t.TLS.Enable, true)
	orB(&t.TLS.DisableCustomTLSFirstByte, true)
	orS(&c.WebServer.Addr, "127.0.0.1")
	orI64(&c.UDPPacketSize, 1500)
}

func modelCompleteProxy(p v1.ProxyConfigurer, user string) {
	b := p.GetBaseConfig()
	if user != "" {
		b.Name = user + "." + b.Name
	}
	orS(&b.LocalIP, "127.0.0.1")
	orS(&b.Transport.BandwidthLimitMode, "client")
	switch o := b.Plugin.ClientPluginOptions.(type) {
	case *v1.HTTPS2HTTPPluginOptions:
		orB(&o.EnableHTTP2, true)
	case *v1.HTTPS2HTTPSPluginOptions:
		orB(&o.EnableHTTP2, true)
	}
}

func modelCompleteVisitor(v v1.VisitorConfigurer, user string) {
	b := v.GetBaseConfig()
	orS(&b.BindAddr, "127.0.0.1")
	pfx := ""
	if user != "" {
		pfx = user + "."
	}
	b.Name = pfx + b.Name
	if b.ServerUser != "" {
		b.ServerName = b.ServerUser + "." + b.ServerName
	} else {
		b.ServerName = pfx + b.ServerName
	}
	if x, ok := v.(*v1.XTCPVisitorConfig); ok {
		orS(&x.Protocol, "quic")
		orI(&x.MaxRetriesAnHour, 8)
		orI(&x.MinRetryInterval, 90)
		orI(&x.FallbackTimeoutMs, 1000)
		if x.FallbackTo != "" {
			x.FallbackTo = pfx + x.FallbackTo
		}
	}
}

// modelCompleteClient returns what LoadClientConfig must return for the document.
func modelCompleteClient(d *clientDoc) (*v1.ClientCommonConfig, []v1.ProxyConfigurer, []v1.VisitorConfigurer) {
	common := deepCopy(&d.Common).(*v1.ClientCommonConfig)
	start := map[string]bool{}
	for _, s := range common.Start {
		start[s] = true
	}
	proxies := []v1.ProxyConfigurer{}
	visitors := []v1.VisitorConfigurer{}
	for _, p := range d.Proxies {
		if len(start) > 0 && !start[p.Cfg.GetBaseConfig().Name] {
			continue
		}
		proxies = append(proxies, copyRec(reflect.ValueOf(p.Cfg)).Interface().(v1.ProxyConfigurer))
	}
	for _, v := range d.Visitors {
		if len(start) > 0 && !start[v.Cfg.GetBaseConfig().Name] {
			continue
		}
		visitors = append(visitors, copyRec(reflect.ValueOf(v.Cfg)).Interface().(v1.VisitorConfigurer))
	}
	modelCompleteCommon(common)
	for _, p := range proxies {
		modelCompleteProxy(p, common.User)
	}
	for _, v := range visitors {
		modelCompleteVisitor(v, common.User)
	}
	return common, proxies, visitors
}
