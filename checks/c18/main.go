// C18 — A proxy definition means the same in every format and on both ends.
//
// Monitors (DESIGN.md §5/C18):
//  1. formats: a generated logical configuration (documented names, written down here independently of
//     pkg/config/v1) is rendered by the harness's own TOML / YAML / JSON writers; the repository loader's
//     structures must equal the expectation and each other, in both strict modes; the file loaders plus
//     Complete() are compared with a reference model of the documented defaults.
//  2. unknown fields injected at every nesting level: strict rejects, non-strict loads the clean result;
//     the same for documents split over a main file and files pulled in through `includes` (other
//     formats): main + included files load like the single document, and an unknown field inside an
//     included file is refused / ignored exactly like in the main file.
//  3. both ends: client structure -> MarshalToMsg -> wire codec -> NewProxyConfigurerFromMsg must agree in
//     every field the server acts on (independent table per proxy type); plus a live sample: real frpc
//     started from a generated file against a real frps, observed through the dashboard API and the
//     route table.
//  4. validation: configurations accepted by the real validators are judged by independent predicates
//     (ports, enumerations, custom domains vs. subdomain host in any letter case).
//  5. flags: cobra commands built exactly like cmd/frps and cmd/frpc/sub; a setting given by flag must
//     produce the structure the same setting produces in a file, in every order of the flags (PRNG
//     permutations of each flag set; for the three dashboard tls flags the mode flag first and last).
//  6. literals and templates: port ranges, bandwidth quantities, environment values, number-range pairs.
package main

import (
	"fmt"
	"math/rand"
	"os"
	"sort"
	"sync"
	"time"

	"verif/h"
)

const prop = "C18"

var run *h.Run

func newFixedRand() *rand.Rand { return rand.New(rand.NewSource(42)) }

var (
	levelMu sync.Mutex
	levels  = map[string]map[string]bool{}
)

func levelSeen(sig, format string) {
	levelMu.Lock()
	if levels[sig] == nil {
		levels[sig] = map[string]bool{}
	}
	levels[sig][format] = true
	levelMu.Unlock()
}

func main() {
	if os.Getenv("C18_CHILD") != "" {
		childMain()
		return
	}
	run = h.NewRun(prop, "exploration")
	run.Rule = "logical configurations generated from an independent table of documented settings (8 proxy types, 3 visitor types, client and server sections; unicode / quoting-hostile strings, present-but-empty vs absent lists, maps and sub-tables, boundary integers, mixed-case domains), each rendered to TOML, YAML and JSON with PRNG-chosen syntax styles; distinct = distinct logical configuration (hash of its tree), distinct (nesting level, format, unknown name) injection (main file and included files), distinct registration message, distinct validation input, distinct flag set, distinct literal / template"
	run.Assumptions = []string{
		"strings are valid UTF-8 without NUL; explicit nulls are not generated (TOML has none)",
		"nil and empty lists / maps are the same value",
		"field names differing only in letter case are not 'unknown' (encoding/json matches case-insensitively)",
		"the table of documented settings in schema.go and the defaults model in defaults.go are the reference (written from the documentation comments, not derived from the loader)",
		"flags: a flag that is not given means its documented flag default (the file side writes that default out explicitly)",
	}
	schemaCoverage()
	flagCoverage()

	phase := func(name string, f func()) {
		t0 := time.Now()
		f()
		run.Set("phase_seconds_"+name, time.Since(t0).Seconds())
	}
	phase("formats", func() { run.ParallelRange(0, run.N(900, 12000), 14, formatCase) })
	phase("both_ends", func() { run.ParallelRange(100000, run.N(600, 8000), 14, crossEndCase) })
	phase("validation", func() { run.ParallelRange(200000, run.N(4500, 60000), 14, validationCase) })
	phase("flags", func() { run.ParallelRange(300000, run.N(1500, 20000), 14, flagCase) })
	phase("literals", func() { run.ParallelRange(400000, run.N(3000, 45000), 14, literalCase) })
	if err := liveSetup(); err != nil {
		fmt.Fprintln(os.Stderr, "live server:", err)
		os.Exit(h.ExitHarnessError)
	}
	phase("live", func() { run.ParallelRange(500000, run.N(32, 400), 6, liveCase) })
	phase("child_flags", func() { run.ParallelRange(600000, run.N(24, 240), 4, childFlagCase) })
	phase("child_env", func() { run.ParallelRange(700000, run.N(8, 80), 3, childEnvCase) })
	live.srv.Close()

	levelMu.Lock()
	var lv []string
	for k, f := range levels {
		if len(f) == 3 {
			lv = append(lv, k)
		}
	}
	sort.Strings(lv)
	levelMu.Unlock()
	run.Set("nesting_levels_injected_in_all_formats", lv)
	run.Finish(500)
}
