// The documented configuration surface, written down independently of pkg/config/v1: for every
// setting its documented name (path in the document) and the structure field it means. A generated
// logical configuration is built twice from this table: as a document tree (rendered to the three
// formats by tree.go) and as the expected structure (fields set directly by reflection).
package main

import (
	"fmt"
	"math"
	"math/rand"
	"reflect"
	"strings"

	"github.com/fatedier/frp/pkg/config/types"
	v1 "github.com/fatedier/frp/pkg/config/v1"
)

type gen struct {
	r   *rand.Rand
	pfx string // case prefix for names
	seq int
}

// fld is one documented setting. Gen returns the document value, the structure value and whether the
// setting is present at all.
type fld struct {
	J   string
	G   string
	Gen func(g *gen) (tv any, gv any)
	P   int // presence in percent (0 = default 55)
}

// ---- value generators

var textPool = []string{"a", "value", "ünïcödé", "名前", "with space", " lead", "trail ", "q\"uote", "back\\slash", "new\nline", "tab\there",
	"it's", "#hash", "k=v", "a:b", "[x]", "{y}", "true", "123", "null", "~", "on", "1e3", "🙂", "a,b", "%41", "$HOME", "<&>", "semi;colon"}

func (g *gen) text() string {
	if g.r.Intn(4) == 0 {
		n := 1 + g.r.Intn(12)
		rs := make([]rune, n)
		for i := range rs {
			pool := []rune("abcXYZ019-_. /:@é名")
			rs[i] = pool[g.r.Intn(len(pool))]
		}
		return string(rs)
	}
	return textPool[g.r.Intn(len(textPool))]
}

var wordPool = []string{"alpha", "beta", "g-1", "Delta_2", "x", "名前", "üser", "a.b", "with space", "UPPER", "n0"}

func (g *gen) word() string { return wordPool[g.r.Intn(len(wordPool))] }

func gStr(pool ...string) func(*gen) (any, any) {
	return func(g *gen) (any, any) {
		var s string
		if len(pool) == 0 {
			s = g.text()
		} else {
			s = pool[g.r.Intn(len(pool))]
		}
		return s, s
	}
}

func gWord() func(*gen) (any, any) {
	return func(g *gen) (any, any) { s := g.word(); return s, s }
}

func gBool() func(*gen) (any, any) {
	return func(g *gen) (any, any) { b := g.r.Intn(2) == 0; return b, b }
}

var intBoundary = []int64{0, 1, -1, 2, 7, 10, 60, 90, 1500, 65535, 65536, math.MaxInt32, math.MinInt32, math.MaxInt64, math.MinInt64, 9007199254740993}

func gInt() func(*gen) (any, any) {
	return func(g *gen) (any, any) {
		v := intBoundary[g.r.Intn(len(intBoundary))]
		if g.r.Intn(3) == 0 {
			v = int64(g.r.Intn(100000))
		}
		return v, v
	}
}

// positive small numbers (timeouts, counts): valid for a running configuration
func gPos() func(*gen) (any, any) {
	return func(g *gen) (any, any) {
		v := []int64{1, 2, 3, 5, 10, 30, 60, 90, 100, 1500, 7200, 100000}[g.r.Intn(12)]
		return v, v
	}
}

var portBoundary = []int64{0, 1, 22, 80, 443, 1024, 7000, 8080, 65534, 65535}

func gPort() func(*gen) (any, any) {
	return func(g *gen) (any, any) {
		v := portBoundary[g.r.Intn(len(portBoundary))]
		if g.r.Intn(2) == 0 {
			v = int64(1 + g.r.Intn(65535))
		}
		return v, v
	}
}

func gList(item func(g *gen) string, max int) func(*gen) (any, any) {
	return func(g *gen) (any, any) {
		n := g.r.Intn(max + 1) // 0 = present but empty
		tv := make([]any, n)
		gv := make([]string, n)
		for i := 0; i < n; i++ {
			s := item(g)
			tv[i], gv[i] = s, s
		}
		return tv, gv
	}
}

func gMap(key func(g *gen) string, max int) func(*gen) (any, any) {
	return func(g *gen) (any, any) {
		n := g.r.Intn(max + 1)
		tv := &obj{user: true}
		gv := map[string]string{}
		for i := 0; i < n; i++ {
			k := key(g)
			if _, dup := gv[k]; dup || k == "" {
				continue
			}
			v := g.text()
			tv.set(k, v)
			gv[k] = v
		}
		return tv, gv
	}
}

func gBoolMap() func(*gen) (any, any) {
	return func(g *gen) (any, any) {
		n := g.r.Intn(3)
		tv := &obj{user: true}
		gv := map[string]bool{}
		for i := 0; i < n; i++ {
			k := []string{"VirtualNet", "SomeGate", "x"}[g.r.Intn(3)]
			b := g.r.Intn(2) == 0
			tv.set(k, b)
			gv[k] = b
		}
		return tv, gv
	}
}

func metaKey(g *gen) string {
	return []string{"k", "key-2", "a.b", "with space", "名", "UPPER", "x_y", "on", "1", "q\"k"}[g.r.Intn(10)]
}

func annotationKey(g *gen) string {
	return []string{"app", "example.com/owner", "frp.io/Tier", "a-b_c.d", "x"}[g.r.Intn(5)]
}

func headerKey(g *gen) string {
	return []string{"X-From-Where", "x-lower", "X-Real-IP", "Authorization", "A"}[g.r.Intn(5)]
}

var bwPool = []string{"1MB", "10MB", "100KB", "1KB", "0KB", "1.5MB", "0.5KB", "2048KB", "64MB", "1024MB", "3.25MB", "7KB"}

func gBandwidth() func(*gen) (any, any) {
	return func(g *gen) (any, any) {
		s := bwPool[g.r.Intn(len(bwPool))]
		if g.r.Intn(3) == 0 {
			s = fmt.Sprintf("%d%s", 1+g.r.Intn(5000), []string{"KB", "MB"}[g.r.Intn(2)])
		}
		q, err := types.NewBandwidthQuantity(s)
		if err != nil {
			panic("generator produced an invalid bandwidth literal " + s)
		}
		return s, q
	}
}

// bandwidthBytes is the independent meaning of a bandwidth literal.
func bandwidthBytes(s string) (int64, bool) {
	s = strings.TrimSpace(s)
	var unit float64
	switch {
	case strings.HasSuffix(s, "MB"):
		unit = 1024 * 1024
	case strings.HasSuffix(s, "KB"):
		unit = 1024
	default:
		return 0, false
	}
	var f float64
	if _, err := fmt.Sscanf(s[:len(s)-2], "%g", &f); err != nil {
		return 0, false
	}
	return int64(f * unit), true
}

func gHTTPHeaders() func(*gen) (any, any) {
	return func(g *gen) (any, any) {
		n := g.r.Intn(3)
		tv := make([]any, 0, n)
		gv := make([]v1.HTTPHeader, 0, n)
		for i := 0; i < n; i++ {
			k, v := headerKey(g), g.text()
			o := &obj{}
			o.set("name", k)
			o.set("value", v)
			tv = append(tv, o)
			gv = append(gv, v1.HTTPHeader{Name: k, Value: v})
		}
		return tv, gv
	}
}

func gAllowPorts() func(*gen) (any, any) {
	return func(g *gen) (any, any) {
		n := g.r.Intn(4)
		tv := make([]any, 0, n)
		gv := make([]types.PortsRange, 0, n)
		for i := 0; i < n; i++ {
			o := &obj{}
			if g.r.Intn(2) == 0 {
				p := int64(1 + g.r.Intn(65535))
				o.set("single", p)
				gv = append(gv, types.PortsRange{Single: int(p)})
			} else {
				a := int64(1 + g.r.Intn(65000))
				b := a + int64(g.r.Intn(500))
				o.set("start", a)
				o.set("end", b)
				gv = append(gv, types.PortsRange{Start: int(a), End: int(b)})
			}
			tv = append(tv, o)
		}
		return tv, gv
	}
}

var pluginOps = []string{"Login", "NewProxy", "CloseProxy", "Ping", "NewWorkConn", "NewUserConn"}

func gHTTPPlugins() func(*gen) (any, any) {
	return func(g *gen) (any, any) {
		n := g.r.Intn(3)
		tv := make([]any, 0, n)
		gv := make([]v1.HTTPPluginOptions, 0, n)
		for i := 0; i < n; i++ {
			o := &obj{}
			p := v1.HTTPPluginOptions{Name: g.word(), Addr: "127.0.0.1:9" + fmt.Sprint(g.r.Intn(1000)), Path: "/" + g.word()}
			o.set("name", p.Name)
			o.set("addr", p.Addr)
			o.set("path", p.Path)
			k := 1 + g.r.Intn(3)
			ops := []any{}
			for j := 0; j < k; j++ {
				op := pluginOps[g.r.Intn(len(pluginOps))]
				ops = append(ops, op)
				p.Ops = append(p.Ops, op)
			}
			o.set("ops", ops)
			if g.r.Intn(2) == 0 {
				p.TLSVerify = true
				o.set("tlsVerify", true)
			}
			tv = append(tv, o)
			gv = append(gv, p)
		}
		return tv, gv
	}
}

func gScopes() func(*gen) (any, any) {
	return func(g *gen) (any, any) {
		all := []string{"HeartBeats", "NewWorkConns"}
		n := g.r.Intn(3)
		tv := []any{}
		gv := []v1.AuthScope{}
		for i := 0; i < n; i++ {
			tv = append(tv, all[i])
			gv = append(gv, v1.AuthScope(all[i]))
		}
		return tv, gv
	}
}

// ---- client plugins

type pluginSchema struct {
	New    func() v1.ClientPluginOptions
	Fields []fld
}

var headerOps = fld{J: "requestHeaders.set", G: "RequestHeaders.Set", Gen: gMap(headerKey, 3)}

var pluginSchemas = map[string]pluginSchema{
	"http2https": {func() v1.ClientPluginOptions { return &v1.HTTP2HTTPSPluginOptions{} }, []fld{
		{J: "localAddr", G: "LocalAddr", Gen: gStr("127.0.0.1:443", "localhost:8443"), P: 90}, {J: "hostHeaderRewrite", G: "HostHeaderRewrite", Gen: gStr("example.com", "a.b")}, headerOps}},
	"http2http": {func() v1.ClientPluginOptions { return &v1.HTTP2HTTPPluginOptions{} }, []fld{
		{J: "localAddr", G: "LocalAddr", Gen: gStr("127.0.0.1:80", "localhost:8080"), P: 90}, {J: "hostHeaderRewrite", G: "HostHeaderRewrite", Gen: gStr("example.com", "a.b")}, headerOps}},
	"https2http": {func() v1.ClientPluginOptions { return &v1.HTTPS2HTTPPluginOptions{} }, []fld{
		{J: "localAddr", G: "LocalAddr", Gen: gStr("127.0.0.1:80"), P: 90}, {J: "hostHeaderRewrite", G: "HostHeaderRewrite", Gen: gStr("example.com")}, headerOps,
		{J: "enableHTTP2", G: "EnableHTTP2", Gen: gBool()}, {J: "crtPath", G: "CrtPath", Gen: gStr("./server.crt")}, {J: "keyPath", G: "KeyPath", Gen: gStr("./server.key")}}},
	"https2https": {func() v1.ClientPluginOptions { return &v1.HTTPS2HTTPSPluginOptions{} }, []fld{
		{J: "localAddr", G: "LocalAddr", Gen: gStr("127.0.0.1:443"), P: 90}, {J: "hostHeaderRewrite", G: "HostHeaderRewrite", Gen: gStr("example.com")}, headerOps,
		{J: "enableHTTP2", G: "EnableHTTP2", Gen: gBool()}, {J: "crtPath", G: "CrtPath", Gen: gStr("./server.crt")}, {J: "keyPath", G: "KeyPath", Gen: gStr("./server.key")}}},
	"http_proxy": {func() v1.ClientPluginOptions { return &v1.HTTPProxyPluginOptions{} }, []fld{
		{J: "httpUser", G: "HTTPUser", Gen: gWord()}, {J: "httpPassword", G: "HTTPPassword", Gen: gStr()}}},
	"socks5": {func() v1.ClientPluginOptions { return &v1.Socks5PluginOptions{} }, []fld{
		{J: "username", G: "Username", Gen: gWord()}, {J: "password", G: "Password", Gen: gStr()}}},
	"static_file": {func() v1.ClientPluginOptions { return &v1.StaticFilePluginOptions{} }, []fld{
		{J: "localPath", G: "LocalPath", Gen: gStr("/tmp/files", "./static"), P: 90}, {J: "stripPrefix", G: "StripPrefix", Gen: gStr("static", "a/b")},
		{J: "httpUser", G: "HTTPUser", Gen: gWord()}, {J: "httpPassword", G: "HTTPPassword", Gen: gStr()}}},
	"unix_domain_socket": {func() v1.ClientPluginOptions { return &v1.UnixDomainSocketPluginOptions{} }, []fld{
		{J: "unixPath", G: "UnixPath", Gen: gStr("/var/run/docker.sock"), P: 95}}},
	"tls2raw": {func() v1.ClientPluginOptions { return &v1.TLS2RawPluginOptions{} }, []fld{
		{J: "localAddr", G: "LocalAddr", Gen: gStr("127.0.0.1:80"), P: 90}, {J: "crtPath", G: "CrtPath", Gen: gStr("./server.crt")}, {J: "keyPath", G: "KeyPath", Gen: gStr("./server.key")}}},
}

var pluginNames = []string{"http2https", "http2http", "https2http", "https2https", "http_proxy", "socks5", "static_file", "unix_domain_socket", "tls2raw"}

func gClientPlugin() func(*gen) (any, any) {
	return func(g *gen) (any, any) {
		name := pluginNames[g.r.Intn(len(pluginNames))]
		ps := pluginSchemas[name]
		opts := ps.New()
		o := &obj{}
		o.set("type", name)
		ov := reflect.ValueOf(opts).Elem()
		ov.FieldByName("Type").SetString(name)
		build(g, ps.Fields, ov, o)
		return o, v1.TypedClientPluginOptions{Type: name, ClientPluginOptions: opts}
	}
}

func gVisitorPlugin() func(*gen) (any, any) {
	return func(g *gen) (any, any) {
		ip := []string{"10.0.0.2", "192.168.7.1"}[g.r.Intn(2)]
		o := &obj{}
		o.set("type", "virtual_net")
		o.set("destinationIP", ip)
		return o, v1.TypedVisitorPluginOptions{Type: "virtual_net", VisitorPluginOptions: &v1.VirtualNetVisitorPluginOptions{Type: "virtual_net", DestinationIP: ip}}
	}
}

// ---- sections

var proxyBaseFields = []fld{
	{J: "annotations", G: "Annotations", Gen: gMap(annotationKey, 3), P: 30},
	{J: "transport.useEncryption", G: "Transport.UseEncryption", Gen: gBool()},
	{J: "transport.useCompression", G: "Transport.UseCompression", Gen: gBool()},
	{J: "transport.bandwidthLimit", G: "Transport.BandwidthLimit", Gen: gBandwidth()},
	{J: "transport.bandwidthLimitMode", G: "Transport.BandwidthLimitMode", Gen: gStr("client", "server")},
	{J: "transport.proxyProtocolVersion", G: "Transport.ProxyProtocolVersion", Gen: gStr("v1", "v2"), P: 30},
	{J: "metadatas", G: "Metadatas", Gen: gMap(metaKey, 4), P: 40},
	{J: "loadBalancer.group", G: "LoadBalancer.Group", Gen: gWord(), P: 35},
	{J: "loadBalancer.groupKey", G: "LoadBalancer.GroupKey", Gen: gStr(), P: 35},
	{J: "healthCheck.type", G: "HealthCheck.Type", Gen: gStr("tcp", "http"), P: 30},
	{J: "healthCheck.timeoutSeconds", G: "HealthCheck.TimeoutSeconds", Gen: gPos(), P: 25},
	{J: "healthCheck.maxFailed", G: "HealthCheck.MaxFailed", Gen: gPos(), P: 25},
	{J: "healthCheck.intervalSeconds", G: "HealthCheck.IntervalSeconds", Gen: gPos(), P: 25},
	{J: "healthCheck.path", G: "HealthCheck.Path", Gen: gStr("/health", "/"), P: 25},
	{J: "healthCheck.httpHeaders", G: "HealthCheck.HTTPHeaders", Gen: gHTTPHeaders(), P: 25},
	{J: "localIP", G: "LocalIP", Gen: gStr("127.0.0.1", "192.168.1.5", "backend.local", "::1")},
	{J: "localPort", G: "LocalPort", Gen: gPort(), P: 80},
	{J: "plugin", G: "Plugin", Gen: gClientPlugin(), P: 25},
}

func domainItem(g *gen) string {
	return []string{"a.example.org", "B.Example.ORG", "x.y.z.test", "*.wild.test", "single", "xn--bcher-kva.test", "a-b.c-d.io"}[g.r.Intn(7)]
}

var domainFields = []fld{
	{J: "customDomains", G: "CustomDomains", Gen: gList(domainItem, 3), P: 70},
	{J: "subdomain", G: "SubDomain", Gen: gStr("web", "api-1", "x"), P: 50},
}

var proxyTypeFields = map[string][]fld{
	"tcp": {{J: "remotePort", G: "RemotePort", Gen: gPort(), P: 80}},
	"udp": {{J: "remotePort", G: "RemotePort", Gen: gPort(), P: 80}},
	"http": append(append([]fld{}, domainFields...),
		fld{J: "locations", G: "Locations", Gen: gList(func(g *gen) string { return []string{"/", "/api", "/a/b", "/Üx"}[g.r.Intn(4)] }, 3)},
		fld{J: "httpUser", G: "HTTPUser", Gen: gWord()},
		fld{J: "httpPassword", G: "HTTPPassword", Gen: gStr()},
		fld{J: "hostHeaderRewrite", G: "HostHeaderRewrite", Gen: gStr("inner.local", "example.com")},
		fld{J: "requestHeaders.set", G: "RequestHeaders.Set", Gen: gMap(headerKey, 3)},
		fld{J: "responseHeaders.set", G: "ResponseHeaders.Set", Gen: gMap(headerKey, 3)},
		fld{J: "routeByHTTPUser", G: "RouteByHTTPUser", Gen: gWord()}),
	"https": append([]fld{}, domainFields...),
	"tcpmux": append(append([]fld{}, domainFields...),
		fld{J: "httpUser", G: "HTTPUser", Gen: gWord()},
		fld{J: "httpPassword", G: "HTTPPassword", Gen: gStr()},
		fld{J: "routeByHTTPUser", G: "RouteByHTTPUser", Gen: gWord()},
		fld{J: "multiplexer", G: "Multiplexer", Gen: gStr("httpconnect"), P: 100}),
	"stcp": {{J: "secretKey", G: "Secretkey", Gen: gStr()}, {J: "allowUsers", G: "AllowUsers", Gen: gList(func(g *gen) string { return []string{"*", "alice", "bob", "üser"}[g.r.Intn(4)] }, 3)}},
	"xtcp": {{J: "secretKey", G: "Secretkey", Gen: gStr()}, {J: "allowUsers", G: "AllowUsers", Gen: gList(func(g *gen) string { return []string{"*", "alice", "bob", "üser"}[g.r.Intn(4)] }, 3)}},
	"sudp": {{J: "secretKey", G: "Secretkey", Gen: gStr()}, {J: "allowUsers", G: "AllowUsers", Gen: gList(func(g *gen) string { return []string{"*", "alice", "bob", "üser"}[g.r.Intn(4)] }, 3)}},
}

var proxyTypes = []string{"tcp", "udp", "http", "https", "tcpmux", "stcp", "xtcp", "sudp"}

var visitorBaseFields = []fld{
	{J: "transport.useEncryption", G: "Transport.UseEncryption", Gen: gBool()},
	{J: "transport.useCompression", G: "Transport.UseCompression", Gen: gBool()},
	{J: "secretKey", G: "SecretKey", Gen: gStr()},
	{J: "serverUser", G: "ServerUser", Gen: gWord(), P: 30},
	{J: "serverName", G: "ServerName", Gen: gWord(), P: 100},
	{J: "bindAddr", G: "BindAddr", Gen: gStr("127.0.0.1", "0.0.0.0", "::")},
	{J: "bindPort", G: "BindPort", Gen: func(g *gen) (any, any) {
		v := []int64{-1, 1, 9000, 65535}[g.r.Intn(4)]
		if g.r.Intn(2) == 0 {
			v = int64(1 + g.r.Intn(65535))
		}
		return v, v
	}, P: 100},
	{J: "plugin", G: "Plugin", Gen: gVisitorPlugin(), P: 15},
}

var visitorTypeFields = map[string][]fld{
	"stcp": nil,
	"sudp": nil,
	"xtcp": {
		{J: "protocol", G: "Protocol", Gen: gStr("kcp", "quic")},
		{J: "keepTunnelOpen", G: "KeepTunnelOpen", Gen: gBool()},
		{J: "maxRetriesAnHour", G: "MaxRetriesAnHour", Gen: gPos()},
		{J: "minRetryInterval", G: "MinRetryInterval", Gen: gPos()},
		{J: "fallbackTo", G: "FallbackTo", Gen: gWord()},
		{J: "fallbackTimeoutMs", G: "FallbackTimeoutMs", Gen: gPos()},
	},
}

var visitorTypes = []string{"stcp", "sudp", "xtcp"}

var logFields = []fld{
	{J: "log.to", G: "Log.To", Gen: gStr("console", "./frp.log", "/var/log/frp x.log")},
	{J: "log.level", G: "Log.Level", Gen: gStr("trace", "debug", "info", "warn", "error")},
	{J: "log.maxDays", G: "Log.MaxDays", Gen: gInt()},
	{J: "log.disablePrintColor", G: "Log.DisablePrintColor", Gen: gBool()},
}

var webServerFields = []fld{
	{J: "webServer.addr", G: "WebServer.Addr", Gen: gStr("127.0.0.1", "0.0.0.0", "::1")},
	{J: "webServer.port", G: "WebServer.Port", Gen: gPort()},
	{J: "webServer.user", G: "WebServer.User", Gen: gWord()},
	{J: "webServer.password", G: "WebServer.Password", Gen: gStr()},
	{J: "webServer.assetsDir", G: "WebServer.AssetsDir", Gen: gStr("./static", "/srv/frp assets")},
	{J: "webServer.pprofEnable", G: "WebServer.PprofEnable", Gen: gBool()},
	{J: "webServer.tls.certFile", G: "WebServer.TLS.CertFile", Gen: gStr("./web.crt"), P: 25},
	{J: "webServer.tls.keyFile", G: "WebServer.TLS.KeyFile", Gen: gStr("./web.key"), P: 25},
	{J: "webServer.tls.trustedCaFile", G: "WebServer.TLS.TrustedCaFile", Gen: gStr("./ca.crt"), P: 10},
	{J: "webServer.tls.serverName", G: "WebServer.TLS.ServerName", Gen: gStr("web.example.com"), P: 10},
}

var quicFields = []fld{
	{J: "transport.quic.keepalivePeriod", G: "Transport.QUIC.KeepalivePeriod", Gen: gInt(), P: 25},
	{J: "transport.quic.maxIdleTimeout", G: "Transport.QUIC.MaxIdleTimeout", Gen: gInt(), P: 25},
	{J: "transport.quic.maxIncomingStreams", G: "Transport.QUIC.MaxIncomingStreams", Gen: gInt(), P: 25},
}

var clientCommonFields = concat([]fld{
	{J: "version", G: "Version", Gen: gStr("v1", "1"), P: 10},
	{J: "auth.method", G: "Auth.Method", Gen: gStr("token", "oidc")},
	{J: "auth.additionalScopes", G: "Auth.AdditionalScopes", Gen: gScopes()},
	{J: "auth.token", G: "Auth.Token", Gen: gStr()},
	{J: "auth.oidc.clientID", G: "Auth.OIDC.ClientID", Gen: gWord(), P: 20},
	{J: "auth.oidc.clientSecret", G: "Auth.OIDC.ClientSecret", Gen: gStr(), P: 20},
	{J: "auth.oidc.audience", G: "Auth.OIDC.Audience", Gen: gWord(), P: 20},
	{J: "auth.oidc.scope", G: "Auth.OIDC.Scope", Gen: gStr("openid", "a b"), P: 20},
	{J: "auth.oidc.tokenEndpointURL", G: "Auth.OIDC.TokenEndpointURL", Gen: gStr("https://idp.test/token?x=1&y=2"), P: 20},
	{J: "auth.oidc.additionalEndpointParams", G: "Auth.OIDC.AdditionalEndpointParams", Gen: gMap(metaKey, 3), P: 20},
	{J: "user", G: "User", Gen: gWord(), P: 45},
	{J: "serverAddr", G: "ServerAddr", Gen: gStr("127.0.0.1", "frps.example.com", "::1", "0.0.0.0")},
	{J: "serverPort", G: "ServerPort", Gen: gPort()},
	{J: "natHoleStunServer", G: "NatHoleSTUNServer", Gen: gStr("stun.test:3478")},
	{J: "dnsServer", G: "DNSServer", Gen: gStr("8.8.8.8", "1.1.1.1:53")},
	{J: "loginFailExit", G: "LoginFailExit", Gen: gBool()},
	{J: "transport.protocol", G: "Transport.Protocol", Gen: gStr("tcp", "kcp", "quic", "websocket", "wss")},
	{J: "transport.dialServerTimeout", G: "Transport.DialServerTimeout", Gen: gInt()},
	{J: "transport.dialServerKeepalive", G: "Transport.DialServerKeepAlive", Gen: gInt()},
	{J: "transport.connectServerLocalIP", G: "Transport.ConnectServerLocalIP", Gen: gStr("0.0.0.0", "10.1.2.3")},
	{J: "transport.proxyURL", G: "Transport.ProxyURL", Gen: gStr("http://user:pw@127.0.0.1:8080", "socks5://127.0.0.1:1080")},
	{J: "transport.poolCount", G: "Transport.PoolCount", Gen: gInt()},
	{J: "transport.tcpMux", G: "Transport.TCPMux", Gen: gBool()},
	{J: "transport.tcpMuxKeepaliveInterval", G: "Transport.TCPMuxKeepaliveInterval", Gen: gInt()},
	{J: "transport.heartbeatInterval", G: "Transport.HeartbeatInterval", Gen: gInt(), P: 30},
	{J: "transport.heartbeatTimeout", G: "Transport.HeartbeatTimeout", Gen: gInt(), P: 30},
	{J: "transport.tls.enable", G: "Transport.TLS.Enable", Gen: gBool()},
	{J: "transport.tls.disableCustomTLSFirstByte", G: "Transport.TLS.DisableCustomTLSFirstByte", Gen: gBool()},
	{J: "transport.tls.certFile", G: "Transport.TLS.CertFile", Gen: gStr("./client.crt"), P: 20},
	{J: "transport.tls.keyFile", G: "Transport.TLS.KeyFile", Gen: gStr("./client.key"), P: 20},
	{J: "transport.tls.trustedCaFile", G: "Transport.TLS.TrustedCaFile", Gen: gStr("./ca.crt"), P: 20},
	{J: "transport.tls.serverName", G: "Transport.TLS.ServerName", Gen: gStr("frps.example.com"), P: 20},
	{J: "virtualNet.address", G: "VirtualNet.Address", Gen: gStr("100.86.0.1/24"), P: 8},
	{J: "featureGates", G: "FeatureGates", Gen: gBoolMap(), P: 15},
	{J: "udpPacketSize", G: "UDPPacketSize", Gen: gInt()},
	{J: "metadatas", G: "Metadatas", Gen: gMap(metaKey, 4), P: 35},
}, logFields, webServerFields, quicFields)

var serverFields = concat([]fld{
	{J: "version", G: "Version", Gen: gStr("v1", "1"), P: 10},
	{J: "auth.method", G: "Auth.Method", Gen: gStr("token", "oidc")},
	{J: "auth.additionalScopes", G: "Auth.AdditionalScopes", Gen: gScopes()},
	{J: "auth.token", G: "Auth.Token", Gen: gStr()},
	{J: "auth.oidc.issuer", G: "Auth.OIDC.Issuer", Gen: gStr("https://idp.test/"), P: 20},
	{J: "auth.oidc.audience", G: "Auth.OIDC.Audience", Gen: gWord(), P: 20},
	{J: "auth.oidc.skipExpiryCheck", G: "Auth.OIDC.SkipExpiryCheck", Gen: gBool(), P: 20},
	{J: "auth.oidc.skipIssuerCheck", G: "Auth.OIDC.SkipIssuerCheck", Gen: gBool(), P: 20},
	{J: "bindAddr", G: "BindAddr", Gen: gStr("0.0.0.0", "127.0.0.1", "::")},
	{J: "bindPort", G: "BindPort", Gen: gPort()},
	{J: "kcpBindPort", G: "KCPBindPort", Gen: gPort()},
	{J: "quicBindPort", G: "QUICBindPort", Gen: gPort()},
	{J: "proxyBindAddr", G: "ProxyBindAddr", Gen: gStr("0.0.0.0", "127.0.0.1", "10.0.0.1")},
	{J: "vhostHTTPPort", G: "VhostHTTPPort", Gen: gPort()},
	{J: "vhostHTTPTimeout", G: "VhostHTTPTimeout", Gen: gInt()},
	{J: "vhostHTTPSPort", G: "VhostHTTPSPort", Gen: gPort()},
	{J: "tcpmuxHTTPConnectPort", G: "TCPMuxHTTPConnectPort", Gen: gPort()},
	{J: "tcpmuxPassthrough", G: "TCPMuxPassthrough", Gen: gBool()},
	{J: "subDomainHost", G: "SubDomainHost", Gen: gStr("frps.com", "Tunnel.Example.ORG", "a.b.c.test")},
	{J: "custom404Page", G: "Custom404Page", Gen: gStr("/etc/frp/404.html")},
	{J: "sshTunnelGateway.bindPort", G: "SSHTunnelGateway.BindPort", Gen: gPort(), P: 25},
	{J: "sshTunnelGateway.privateKeyFile", G: "SSHTunnelGateway.PrivateKeyFile", Gen: gStr("/home/u/.ssh/id_rsa"), P: 25},
	{J: "sshTunnelGateway.autoGenPrivateKeyPath", G: "SSHTunnelGateway.AutoGenPrivateKeyPath", Gen: gStr("./k"), P: 25},
	{J: "sshTunnelGateway.authorizedKeysFile", G: "SSHTunnelGateway.AuthorizedKeysFile", Gen: gStr("/home/u/.ssh/authorized_keys"), P: 25},
	{J: "enablePrometheus", G: "EnablePrometheus", Gen: gBool()},
	{J: "transport.tcpMux", G: "Transport.TCPMux", Gen: gBool()},
	{J: "transport.tcpMuxKeepaliveInterval", G: "Transport.TCPMuxKeepaliveInterval", Gen: gInt()},
	{J: "transport.tcpKeepalive", G: "Transport.TCPKeepAlive", Gen: gInt()},
	{J: "transport.maxPoolCount", G: "Transport.MaxPoolCount", Gen: gInt()},
	{J: "transport.heartbeatTimeout", G: "Transport.HeartbeatTimeout", Gen: gInt()},
	{J: "transport.tls.force", G: "Transport.TLS.Force", Gen: gBool(), P: 25},
	{J: "transport.tls.certFile", G: "Transport.TLS.CertFile", Gen: gStr("./server.crt"), P: 20},
	{J: "transport.tls.keyFile", G: "Transport.TLS.KeyFile", Gen: gStr("./server.key"), P: 20},
	{J: "transport.tls.trustedCaFile", G: "Transport.TLS.TrustedCaFile", Gen: gStr("./ca.crt"), P: 20},
	{J: "transport.tls.serverName", G: "Transport.TLS.ServerName", Gen: gStr("x.test"), P: 10},
	{J: "detailedErrorsToClient", G: "DetailedErrorsToClient", Gen: gBool()},
	{J: "maxPortsPerClient", G: "MaxPortsPerClient", Gen: gInt()},
	{J: "userConnTimeout", G: "UserConnTimeout", Gen: gInt()},
	{J: "udpPacketSize", G: "UDPPacketSize", Gen: gInt()},
	{J: "natholeAnalysisDataReserveHours", G: "NatHoleAnalysisDataReserveHours", Gen: gInt()},
	{J: "allowPorts", G: "AllowPorts", Gen: gAllowPorts()},
	{J: "httpPlugins", G: "HTTPPlugins", Gen: gHTTPPlugins(), P: 30},
}, logFields, webServerFields, quicFields)

func concat(ls ...[]fld) []fld {
	var out []fld
	for _, l := range ls {
		out = append(out, l...)
	}
	return out
}

// ---- building

// setGo assigns gv to the field path G below struct value sv (allocating pointers on the way).
func setGo(sv reflect.Value, G string, gv any) {
	parts := strings.Split(G, ".")
	cur := sv
	for _, p := range parts {
		if cur.Kind() == reflect.Ptr {
			if cur.IsNil() {
				cur.Set(reflect.New(cur.Type().Elem()))
			}
			cur = cur.Elem()
		}
		f := cur.FieldByName(p)
		if !f.IsValid() {
			panic(fmt.Sprintf("schema: no field %s in %s (path %s)", p, cur.Type(), G))
		}
		cur = f
	}
	if gv == nil {
		if cur.Kind() == reflect.Ptr && cur.IsNil() {
			cur.Set(reflect.New(cur.Type().Elem()))
		}
		return
	}
	assign(cur, reflect.ValueOf(gv), G)
}

func assign(dst, src reflect.Value, G string) {
	if dst.Kind() == reflect.Ptr && src.Kind() != reflect.Ptr {
		p := reflect.New(dst.Type().Elem())
		assign(p.Elem(), src, G)
		dst.Set(p)
		return
	}
	if src.Type().AssignableTo(dst.Type()) {
		dst.Set(src)
		return
	}
	switch dst.Kind() {
	case reflect.String:
		dst.SetString(src.String())
	case reflect.Int, reflect.Int64, reflect.Int32:
		dst.SetInt(src.Int())
	case reflect.Bool:
		dst.SetBool(src.Bool())
	case reflect.Slice:
		n := reflect.MakeSlice(dst.Type(), src.Len(), src.Len())
		for i := 0; i < src.Len(); i++ {
			assign(n.Index(i), src.Index(i), G)
		}
		dst.Set(n)
	default:
		panic(fmt.Sprintf("schema: cannot assign %s to %s (path %s)", src.Type(), dst.Type(), G))
	}
}

// build generates the settings of one section into the document object o and the structure sv.
func build(g *gen, fields []fld, sv reflect.Value, o *obj) {
	for _, f := range fields {
		p := f.P
		if p == 0 {
			p = 55
		}
		if g.r.Intn(100) >= p {
			continue
		}
		tv, gv := f.Gen(g)
		o.setPath(f.J, tv)
		setGo(sv, f.G, gv)
	}
	// present-but-empty sub-objects ("empty vs absent"): no effect on plain structures, allocates pointer ones
	seen := map[string]bool{}
	for _, f := range fields {
		jp, gp := strings.Split(f.J, "."), strings.Split(f.G, ".")
		for k := 1; k < len(jp); k++ {
			pj, pg := strings.Join(jp[:k], "."), strings.Join(gp[:k], ".")
			if seen[pj] {
				continue
			}
			seen[pj] = true
			if _, ok := o.getPath(pj); ok || g.r.Intn(12) != 0 {
				continue
			}
			o.setPath(pj, &obj{})
			setGo(sv, pg, nil)
		}
	}
}

// children returns, for every object level of a section (dotted path, "" = the section root), the
// documented names at that level.
func children(fields []fld, extra ...string) map[string]map[string]bool {
	out := map[string]map[string]bool{"": {}}
	for _, e := range extra {
		out[""][strings.ToLower(e)] = true
	}
	for _, f := range fields {
		jp := strings.Split(f.J, ".")
		for k := 0; k < len(jp); k++ {
			lvl := strings.Join(jp[:k], ".")
			if out[lvl] == nil {
				out[lvl] = map[string]bool{}
			}
			out[lvl][strings.ToLower(jp[k])] = true
		}
	}
	return out
}

// ---- whole documents

type proxyCase struct {
	Type string
	Tree *obj
	Cfg  v1.ProxyConfigurer // expected structure as loaded (before Complete)
}

type visitorCase struct {
	Type string
	Tree *obj
	Cfg  v1.VisitorConfigurer
}

func newProxyStruct(typ string) v1.ProxyConfigurer {
	switch typ {
	case "tcp":
		return &v1.TCPProxyConfig{}
	case "udp":
		return &v1.UDPProxyConfig{}
	case "http":
		return &v1.HTTPProxyConfig{}
	case "https":
		return &v1.HTTPSProxyConfig{}
	case "tcpmux":
		return &v1.TCPMuxProxyConfig{}
	case "stcp":
		return &v1.STCPProxyConfig{}
	case "xtcp":
		return &v1.XTCPProxyConfig{}
	case "sudp":
		return &v1.SUDPProxyConfig{}
	}
	panic("proxy type " + typ)
}

func newVisitorStruct(typ string) v1.VisitorConfigurer {
	switch typ {
	case "stcp":
		return &v1.STCPVisitorConfig{}
	case "sudp":
		return &v1.SUDPVisitorConfig{}
	case "xtcp":
		return &v1.XTCPVisitorConfig{}
	}
	panic("visitor type " + typ)
}

func (g *gen) uniqueName() string {
	g.seq++
	base := []string{"web", "ssh", "名前", "pröxy", "a.b", "with space", "UP", "n-1", "x_y"}[g.r.Intn(9)]
	return fmt.Sprintf("%s%s%d", g.pfx, base, g.seq)
}

func genProxy(g *gen, typ string) proxyCase {
	cfg := newProxyStruct(typ)
	o := &obj{}
	name := g.uniqueName()
	o.set("name", name)
	o.set("type", typ)
	sv := reflect.ValueOf(cfg).Elem()
	sv.FieldByName("Name").SetString(name)
	sv.FieldByName("Type").SetString(typ)
	build(g, proxyBaseFields, sv, o)
	build(g, proxyTypeFields[typ], sv, o)
	// keep the generated proxy valid for the client: domain types need a domain, http health checks a path
	base := cfg.GetBaseConfig()
	if typ == "http" || typ == "https" || typ == "tcpmux" {
		dc := sv.FieldByName("DomainConfig").Addr().Interface().(*v1.DomainConfig)
		if dc.SubDomain == "" && len(dc.CustomDomains) == 0 {
			d := domainItem(g)
			dc.CustomDomains = []string{d}
			o.set("customDomains", []any{d})
		}
	}
	if base.HealthCheck.Type == "http" && base.HealthCheck.Path == "" {
		base.HealthCheck.Path = "/hc"
		o.setPath("healthCheck.path", "/hc")
	}
	return proxyCase{typ, o, cfg}
}

func genVisitor(g *gen, typ string) visitorCase {
	cfg := newVisitorStruct(typ)
	o := &obj{}
	name := g.uniqueName()
	o.set("name", name)
	o.set("type", typ)
	sv := reflect.ValueOf(cfg).Elem()
	sv.FieldByName("Name").SetString(name)
	sv.FieldByName("Type").SetString(typ)
	build(g, visitorBaseFields, sv, o)
	build(g, visitorTypeFields[typ], sv, o)
	return visitorCase{typ, o, cfg}
}

type clientDoc struct {
	Tree     *obj
	Common   v1.ClientCommonConfig
	Proxies  []proxyCase
	Visitors []visitorCase
}

func genClientDoc(g *gen, nProxies, nVisitors int) *clientDoc {
	d := &clientDoc{Tree: &obj{}}
	build(g, clientCommonFields, reflect.ValueOf(&d.Common).Elem(), d.Tree)
	// a valid configuration: heartbeat timeout not below the interval when both are positive
	if t, i := d.Common.Transport.HeartbeatTimeout, d.Common.Transport.HeartbeatInterval; t > 0 && i > 0 && t <= i {
		if i > math.MaxInt32 {
			i = 30
			d.Common.Transport.HeartbeatInterval = i
			d.Tree.setPath("transport.heartbeatInterval", i)
		}
		d.Common.Transport.HeartbeatTimeout = i + 60
		d.Tree.setPath("transport.heartbeatTimeout", i+60)
	}
	var pl, vl []any
	for i := 0; i < nProxies; i++ {
		p := genProxy(g, proxyTypes[g.r.Intn(len(proxyTypes))])
		d.Proxies = append(d.Proxies, p)
		pl = append(pl, p.Tree)
	}
	for i := 0; i < nVisitors; i++ {
		v := genVisitor(g, visitorTypes[g.r.Intn(len(visitorTypes))])
		d.Visitors = append(d.Visitors, v)
		vl = append(vl, v.Tree)
	}
	if len(pl) > 0 || g.r.Intn(6) == 0 {
		if pl == nil {
			pl = []any{}
		}
		d.Tree.set("proxies", pl)
	}
	if len(vl) > 0 || g.r.Intn(6) == 0 {
		if vl == nil {
			vl = []any{}
		}
		d.Tree.set("visitors", vl)
	}
	// start: only the named proxies / visitors are kept by the file loader
	if g.r.Intn(7) == 0 {
		var tv []any
		for _, p := range d.Proxies {
			if g.r.Intn(2) == 0 {
				n := p.Cfg.GetBaseConfig().Name
				tv = append(tv, n)
				d.Common.Start = append(d.Common.Start, n)
			}
		}
		for _, v := range d.Visitors {
			if g.r.Intn(2) == 0 {
				n := v.Cfg.GetBaseConfig().Name
				tv = append(tv, n)
				d.Common.Start = append(d.Common.Start, n)
			}
		}
		if g.r.Intn(3) == 0 {
			tv = append(tv, "no-such-proxy")
			d.Common.Start = append(d.Common.Start, "no-such-proxy")
		}
		if tv == nil {
			tv = []any{}
		}
		d.Tree.set("start", tv)
	}
	return d
}

// expected returns the structure the loader must produce for the document (before Complete).
func (d *clientDoc) expected() *v1.ClientConfig {
	c := &v1.ClientConfig{ClientCommonConfig: d.Common}
	for _, p := range d.Proxies {
		c.Proxies = append(c.Proxies, v1.TypedProxyConfig{Type: p.Type, ProxyConfigurer: p.Cfg})
	}
	for _, v := range d.Visitors {
		c.Visitors = append(c.Visitors, v1.TypedVisitorConfig{Type: v.Type, VisitorConfigurer: v.Cfg})
	}
	return c
}

type serverDoc struct {
	Tree *obj
	Cfg  v1.ServerConfig
}

func genServerDoc(g *gen) *serverDoc {
	d := &serverDoc{Tree: &obj{}}
	build(g, serverFields, reflect.ValueOf(&d.Cfg).Elem(), d.Tree)
	return d
}
