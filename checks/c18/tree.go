// Generic ordered document tree and the harness's own renderers for JSON, YAML and TOML.
// Nothing here uses an encoder of the repository or of a library: the three renderers share only
// the tree, so agreement of the three loaded structures is agreement of three parsers.
package main

import (
	"fmt"
	"math/rand"
	"regexp"
	"strconv"
	"strings"
)

// Values of a tree: string, int64, bool, *obj, []any.
type kv struct {
	K string
	V any
}

// obj is an ordered object. user = true marks a free-form map (metadatas, headers, ...): any key is
// legal there, so it is not an injection site for unknown fields and its keys are always quoted.
type obj struct {
	kvs  []kv
	user bool
}

func (o *obj) set(k string, v any) {
	for i := range o.kvs {
		if o.kvs[i].K == k {
			o.kvs[i].V = v
			return
		}
	}
	o.kvs = append(o.kvs, kv{k, v})
}

func (o *obj) get(k string) (any, bool) {
	for _, e := range o.kvs {
		if e.K == k {
			return e.V, true
		}
	}
	return nil, false
}

func (o *obj) del(k string) {
	for i := range o.kvs {
		if o.kvs[i].K == k {
			o.kvs = append(o.kvs[:i:i], o.kvs[i+1:]...)
			return
		}
	}
}

// setPath sets a dotted path, creating intermediate objects.
func (o *obj) setPath(path string, v any) {
	parts := strings.Split(path, ".")
	cur := o
	for _, p := range parts[:len(parts)-1] {
		nx, ok := cur.get(p)
		if !ok {
			n := &obj{}
			cur.set(p, n)
			cur = n
			continue
		}
		cur = nx.(*obj)
	}
	cur.set(parts[len(parts)-1], v)
}

func (o *obj) getPath(path string) (any, bool) {
	parts := strings.Split(path, ".")
	var cur any = o
	for _, p := range parts {
		co, ok := cur.(*obj)
		if !ok {
			return nil, false
		}
		cur, ok = co.get(p)
		if !ok {
			return nil, false
		}
	}
	return cur, true
}

func (o *obj) delPath(path string) {
	parts := strings.Split(path, ".")
	cur := o
	for _, p := range parts[:len(parts)-1] {
		nx, ok := cur.get(p)
		if !ok {
			return
		}
		cur, ok = nx.(*obj)
		if !ok {
			return
		}
	}
	cur.del(parts[len(parts)-1])
}

func cloneTree(v any) any {
	switch t := v.(type) {
	case *obj:
		n := &obj{user: t.user}
		for _, e := range t.kvs {
			n.kvs = append(n.kvs, kv{e.K, cloneTree(e.V)})
		}
		return n
	case []any:
		n := make([]any, len(t))
		for i := range t {
			n[i] = cloneTree(t[i])
		}
		return n
	}
	return v
}

// plain converts the tree to map[string]any / []any for replay files.
func plain(v any) any {
	switch t := v.(type) {
	case *obj:
		m := map[string]any{}
		for _, e := range t.kvs {
			m[e.K] = plain(e.V)
		}
		return m
	case []any:
		n := make([]any, len(t))
		for i := range t {
			n[i] = plain(t[i])
		}
		return n
	}
	return v
}

// shuffled returns the entries in a PRNG order (key order is irrelevant in all three formats).
func shuffled(o *obj, r *rand.Rand) []kv {
	out := append([]kv{}, o.kvs...)
	if r != nil && r.Intn(2) == 0 {
		r.Shuffle(len(out), func(i, j int) { out[i], out[j] = out[j], out[i] })
	}
	return out
}

// ---------------------------------------------------------------------------------------------
// JSON

func jsonString(s string) string {
	var b strings.Builder
	b.WriteByte('"')
	for _, c := range s {
		switch {
		case c == '"':
			b.WriteString(`\"`)
		case c == '\\':
			b.WriteString(`\\`)
		case c == '\n':
			b.WriteString(`\n`)
		case c == '\t':
			b.WriteString(`\t`)
		case c == '\r':
			b.WriteString(`\r`)
		case c < 0x20 || c == 0x7f || c == 0x2028 || c == 0x2029:
			fmt.Fprintf(&b, `\u%04x`, c)
		default:
			b.WriteRune(c)
		}
	}
	b.WriteByte('"')
	return b.String()
}

func renderJSON(v any, r *rand.Rand) string {
	var b strings.Builder
	pretty := r.Intn(2) == 0
	var w func(v any, ind int)
	nl := func(ind int) {
		if pretty {
			b.WriteByte('\n')
			b.WriteString(strings.Repeat("  ", ind))
		}
	}
	w = func(v any, ind int) {
		switch t := v.(type) {
		case string:
			b.WriteString(jsonString(t))
		case int64:
			b.WriteString(strconv.FormatInt(t, 10))
		case bool:
			b.WriteString(strconv.FormatBool(t))
		case *obj:
			b.WriteByte('{')
			es := shuffled(t, r)
			for i, e := range es {
				if i > 0 {
					b.WriteByte(',')
				}
				nl(ind + 1)
				b.WriteString(jsonString(e.K))
				b.WriteByte(':')
				if pretty {
					b.WriteByte(' ')
				}
				w(e.V, ind+1)
			}
			if len(es) > 0 {
				nl(ind)
			}
			b.WriteByte('}')
		case []any:
			b.WriteByte('[')
			for i, e := range t {
				if i > 0 {
					b.WriteByte(',')
				}
				nl(ind + 1)
				w(e, ind+1)
			}
			if len(t) > 0 {
				nl(ind)
			}
			b.WriteByte(']')
		default:
			panic(fmt.Sprintf("renderJSON: %T", v))
		}
	}
	if r.Intn(3) == 0 {
		b.WriteString("\n  ")
	}
	w(v, 0)
	b.WriteByte('\n')
	return b.String()
}

// ---------------------------------------------------------------------------------------------
// YAML (block style; scalars in plain, single-quoted or double-quoted style)

var yamlPlainRe = regexp.MustCompile(`^[A-Za-z][A-Za-z0-9_./-]*$`)
var yamlReserved = map[string]bool{"true": true, "false": true, "yes": true, "no": true, "on": true, "off": true, "null": true, "y": true, "n": true, "nan": true, "inf": true}

func printable(c rune) bool {
	return c >= 0x20 && c != 0x7f && !(c >= 0x80 && c < 0xa0) && c != 0xfeff && c < 0xfffe && c != 0x2028 && c != 0x2029 ||
		(c >= 0x10000 && c <= 0x10ffff)
}

func yamlString(s string, r *rand.Rand) string {
	if yamlPlainRe.MatchString(s) && !yamlReserved[strings.ToLower(s)] && r.Intn(3) == 0 {
		return s
	}
	allPrintable := true
	for _, c := range s {
		if !printable(c) {
			allPrintable = false
		}
	}
	if allPrintable && r.Intn(3) == 0 {
		return "'" + strings.ReplaceAll(s, "'", "''") + "'"
	}
	var b strings.Builder
	b.WriteByte('"')
	for _, c := range s {
		switch {
		case c == '"':
			b.WriteString(`\"`)
		case c == '\\':
			b.WriteString(`\\`)
		case c == '\n':
			b.WriteString(`\n`)
		case c == '\t':
			b.WriteString(`\t`)
		case c == '\r':
			b.WriteString(`\r`)
		case c < 0x20 || c == 0x7f:
			fmt.Fprintf(&b, `\x%02x`, c)
		case !printable(c) && c <= 0xffff:
			fmt.Fprintf(&b, `\u%04x`, c)
		default:
			b.WriteRune(c)
		}
	}
	b.WriteByte('"')
	return b.String()
}

func yamlKey(k string, user bool, r *rand.Rand) string {
	if !user && yamlPlainRe.MatchString(k) && !yamlReserved[strings.ToLower(k)] {
		return k
	}
	if user && yamlPlainRe.MatchString(k) && !yamlReserved[strings.ToLower(k)] && r.Intn(2) == 0 {
		return k
	}
	return yamlString(k, rand.New(rand.NewSource(1))) // seed 1: always a quoted form for non-plain keys
}

func yamlScalar(v any, r *rand.Rand) (string, bool) {
	switch t := v.(type) {
	case string:
		return yamlString(t, r), true
	case int64:
		return strconv.FormatInt(t, 10), true
	case bool:
		return strconv.FormatBool(t), true
	}
	return "", false
}

func renderYAML(v any, r *rand.Rand) string {
	var b strings.Builder
	if r.Intn(4) == 0 {
		b.WriteString("---\n")
	}
	if r.Intn(4) == 0 {
		b.WriteString("# generated\n")
	}
	step := 2 + 2*r.Intn(2)
	var wObj func(o *obj, ind int)
	var wVal func(v any, ind int) // writes what follows "key:" (including the newline)
	allScalars := func(l []any) bool {
		for _, e := range l {
			if _, ok := yamlScalar(e, r); !ok {
				return false
			}
		}
		return true
	}
	wVal = func(v any, ind int) {
		if s, ok := yamlScalar(v, r); ok {
			b.WriteString(" " + s + "\n")
			return
		}
		switch t := v.(type) {
		case *obj:
			if len(t.kvs) == 0 {
				b.WriteString(" {}\n")
				return
			}
			b.WriteString("\n")
			wObj(t, ind+step)
		case []any:
			if len(t) == 0 {
				b.WriteString(" []\n")
				return
			}
			if allScalars(t) && r.Intn(2) == 0 { // flow sequence
				parts := make([]string, len(t))
				for i, e := range t {
					s, _ := yamlScalar(e, rand.New(rand.NewSource(int64(i)+7)))
					if es, ok := e.(string); ok {
						s = jsonString(es) // double-quoted style inside flow context (JSON strings are YAML)
					}
					parts[i] = s
				}
				b.WriteString(" [" + strings.Join(parts, ", ") + "]\n")
				return
			}
			b.WriteString("\n")
			// list items may sit at the parent's indentation or deeper
			li := ind
			if r.Intn(2) == 0 {
				li = ind + step
			}
			for _, e := range t {
				if s, ok := yamlScalar(e, r); ok {
					b.WriteString(strings.Repeat(" ", li) + "- " + s + "\n")
					continue
				}
				switch et := e.(type) {
				case *obj:
					if len(et.kvs) == 0 {
						b.WriteString(strings.Repeat(" ", li) + "- {}\n")
						continue
					}
					mark := b.Len()
					wObj(et, li+2)
					// turn the first line's indentation into "- "
					s := b.String()
					head, tail := s[:mark], s[mark:]
					tail = strings.Repeat(" ", li) + "- " + tail[li+2:]
					b.Reset()
					b.WriteString(head + tail)
				default:
					panic("renderYAML: nested list")
				}
			}
		default:
			panic(fmt.Sprintf("renderYAML: %T", v))
		}
	}
	wObj = func(o *obj, ind int) {
		for _, e := range shuffled(o, r) {
			b.WriteString(strings.Repeat(" ", ind) + yamlKey(e.K, o.user, r) + ":")
			wVal(e.V, ind)
		}
	}
	root := v.(*obj)
	if len(root.kvs) == 0 {
		b.WriteString("{}\n")
	} else {
		wObj(root, 0)
	}
	return b.String()
}

// ---------------------------------------------------------------------------------------------
// TOML (tables as headers, dotted keys or inline tables; arrays of tables as [[x]] or inline)

var tomlBareRe = regexp.MustCompile(`^[A-Za-z0-9_-]+$`)

func tomlString(s string, r *rand.Rand) string {
	lit := true
	for _, c := range s {
		if c == '\'' || (c < 0x20 && c != '\t') || c == 0x7f {
			lit = false
		}
	}
	if lit && r.Intn(3) == 0 {
		return "'" + s + "'"
	}
	var b strings.Builder
	b.WriteByte('"')
	for _, c := range s {
		switch {
		case c == '"':
			b.WriteString(`\"`)
		case c == '\\':
			b.WriteString(`\\`)
		case c == '\n':
			b.WriteString(`\n`)
		case c == '\t':
			b.WriteString(`\t`)
		case c == '\r':
			b.WriteString(`\r`)
		case c < 0x20 || c == 0x7f:
			fmt.Fprintf(&b, `\u%04X`, c)
		default:
			b.WriteRune(c)
		}
	}
	b.WriteByte('"')
	return b.String()
}

func tomlKey(k string) string {
	if tomlBareRe.MatchString(k) {
		return k
	}
	return tomlString(k, rand.New(rand.NewSource(1)))
}

func tomlInline(v any, r *rand.Rand) string {
	switch t := v.(type) {
	case string:
		return tomlString(t, r)
	case int64:
		return strconv.FormatInt(t, 10)
	case bool:
		return strconv.FormatBool(t)
	case *obj:
		parts := []string{}
		for _, e := range shuffled(t, r) {
			parts = append(parts, tomlKey(e.K)+" = "+tomlInline(e.V, r))
		}
		if len(parts) == 0 {
			return "{}"
		}
		return "{ " + strings.Join(parts, ", ") + " }"
	case []any:
		parts := []string{}
		for _, e := range t {
			parts = append(parts, tomlInline(e, r))
		}
		return "[" + strings.Join(parts, ", ") + "]"
	}
	panic(fmt.Sprintf("tomlInline: %T", v))
}

func isObjList(v any) bool {
	l, ok := v.([]any)
	if !ok || len(l) == 0 {
		return false
	}
	for _, e := range l {
		if _, ok := e.(*obj); !ok {
			return false
		}
	}
	return true
}

func renderTOML(v any, r *rand.Rand) string {
	var b strings.Builder
	if r.Intn(4) == 0 {
		b.WriteString("# generated\n")
	}
	join := func(path []string) string {
		ks := make([]string, len(path))
		for i, p := range path {
			ks[i] = tomlKey(p)
		}
		return strings.Join(ks, ".")
	}
	var emit func(path []string, o *obj)
	// dotted writes o's content as dotted keys relative to the current table
	var dotted func(prefix []string, o *obj)
	dotted = func(prefix []string, o *obj) {
		for _, e := range shuffled(o, r) {
			p := append(append([]string{}, prefix...), e.K)
			if so, ok := e.V.(*obj); ok && len(so.kvs) > 0 && r.Intn(2) == 0 {
				dotted(p, so)
				continue
			}
			b.WriteString(join(p) + " = " + tomlInline(e.V, r) + "\n")
		}
	}
	emit = func(path []string, o *obj) {
		type deferred struct {
			k string
			v any
		}
		var later []deferred
		for _, e := range shuffled(o, r) {
			switch t := e.V.(type) {
			case *obj:
				switch r.Intn(4) {
				case 0:
					b.WriteString(tomlKey(e.K) + " = " + tomlInline(t, r) + "\n")
				case 1:
					if len(t.kvs) > 0 {
						dotted([]string{e.K}, t)
					} else {
						b.WriteString(tomlKey(e.K) + " = {}\n")
					}
				default:
					later = append(later, deferred{e.K, t})
				}
			case []any:
				if isObjList(t) && r.Intn(3) != 0 {
					later = append(later, deferred{e.K, t})
				} else {
					b.WriteString(tomlKey(e.K) + " = " + tomlInline(t, r) + "\n")
				}
			default:
				b.WriteString(tomlKey(e.K) + " = " + tomlInline(e.V, r) + "\n")
			}
		}
		for _, d := range later {
			p := append(append([]string{}, path...), d.k)
			switch t := d.v.(type) {
			case *obj:
				b.WriteString("\n[" + join(p) + "]\n")
				emit(p, t)
			case []any:
				for _, e := range t {
					b.WriteString("\n[[" + join(p) + "]]\n")
					emit(p, e.(*obj))
				}
			}
		}
	}
	emit(nil, v.(*obj))
	return b.String()
}

func render(format string, v any, r *rand.Rand) string {
	switch format {
	case "json":
		return renderJSON(v, r)
	case "yaml":
		return renderYAML(v, r)
	case "toml":
		return renderTOML(v, r)
	}
	panic("format " + format)
}

var formats = []string{"toml", "yaml", "json"}
