// Monitor 3: what the server reconstructs from a registration message equals what the client loaded,
// in every field the server acts on.
package main

import (
	"bytes"
	"crypto/sha1"
	"fmt"
	"reflect"
	"strings"

	"github.com/fatedier/frp/pkg/config"
	v1 "github.com/fatedier/frp/pkg/config/v1"
	"github.com/fatedier/frp/pkg/msg"

	"verif/h"
)

// Fields the server acts on, per proxy type (written from the feature documentation, not from
// MarshalToMsg): Go field paths in the v1 structures.
var actsOnBase = []string{"Name", "Type", "Transport.UseEncryption", "Transport.UseCompression", "Transport.BandwidthLimit", "Transport.BandwidthLimitMode",
	"LoadBalancer.Group", "LoadBalancer.GroupKey", "Metadatas", "Annotations"}

var actsOn = map[string][]string{
	"tcp":    {"RemotePort"},
	"udp":    {"RemotePort"},
	"http":   {"CustomDomains", "SubDomain", "Locations", "HTTPUser", "HTTPPassword", "HostHeaderRewrite", "RequestHeaders.Set", "ResponseHeaders.Set", "RouteByHTTPUser"},
	"https":  {"CustomDomains", "SubDomain"},
	"tcpmux": {"CustomDomains", "SubDomain", "Multiplexer", "HTTPUser", "HTTPPassword", "RouteByHTTPUser"},
	"stcp":   {"Secretkey", "AllowUsers"},
	"xtcp":   {"Secretkey", "AllowUsers"},
	"sudp":   {"Secretkey", "AllowUsers"},
}

func fullServerCfg(subDomainHost string) *v1.ServerConfig {
	s := &v1.ServerConfig{VhostHTTPPort: 8080, VhostHTTPSPort: 8443, TCPMuxHTTPConnectPort: 8081, SubDomainHost: subDomainHost}
	s.Complete()
	return s
}

func crossEndCase(c *h.Case) {
	g := &gen{r: c.Rng, pfx: fmt.Sprintf("c%d-", c.Idx)}
	user := ""
	if g.r.Intn(2) == 0 {
		user = g.word()
	}
	srvCfg := fullServerCfg("frps.example")
	for _, typ := range proxyTypes {
		p := genProxy(g, typ)
		// the client side: load the proxy from a document in one of the formats, complete it like frpc does
		doc := &obj{}
		if user != "" {
			doc.set("user", user)
		}
		doc.set("proxies", []any{p.Tree})
		f := formats[g.r.Intn(3)]
		text := render(f, doc, g.r)
		loaded, err := loadClientText(text, true)
		if err != nil || len(loaded.Proxies) != 1 {
			c.Ev("doc", "format", f, "text", text)
			c.Violation("clean-document-rejected-"+f, "single-proxy %s document rejected: %v\n%s", f, err, short(text))
			continue
		}
		cli := loaded.Proxies[0].ProxyConfigurer
		cli.Complete(user)
		var m msg.NewProxy
		cli.MarshalToMsg(&m)
		var buf bytes.Buffer
		if err := msg.WriteMsg(&buf, &m); err != nil {
			c.Violation("registration-message-not-encodable", "NewProxy for %s proxy cannot be written: %v", typ, err)
			continue
		}
		frame := append([]byte{}, buf.Bytes()...)
		raw, err := msg.ReadMsg(&buf)
		if err != nil {
			c.Violation("registration-message-not-decodable", "NewProxy for %s proxy cannot be read back: %v", typ, err)
			continue
		}
		m2, ok := raw.(*msg.NewProxy)
		if !ok {
			c.Violation("registration-message-not-decodable", "NewProxy decoded as %T", raw)
			continue
		}
		srv, err := config.NewProxyConfigurerFromMsg(m2, srvCfg)
		run.Count("registrations_reconstructed", 1)
		run.Count("registrations_"+typ, 1)
		run.Distinct(fmt.Sprintf("reg|%x", sha1.Sum(frame))[:24])
		if err != nil {
			c.Ev("doc", "format", f, "text", text)
			c.Violation("server-rejects-valid-registration-"+typ, "server-side reconstruction refuses a %s proxy that client validation accepts and whose domains are outside the subdomain host: %v\n%s", typ, err, short(text))
			continue
		}
		if reflect.TypeOf(srv) != reflect.TypeOf(cli) {
			c.Violation("server-reconstructs-other-type", "client %T, server %T", cli, srv)
			continue
		}
		var diffs []string
		first := ""
		for _, path := range append(append([]string{}, actsOnBase...), actsOn[typ]...) {
			a, b := fieldAt(reflect.ValueOf(cli), path), fieldAt(reflect.ValueOf(srv), path)
			var d []string
			diffRec(path, a, b, &d)
			if len(d) > 0 && first == "" {
				first = path
			}
			diffs = append(diffs, d...)
			run.Count("cross_end_fields_compared", 1)
		}
		if len(diffs) > 0 {
			c.Ev("doc", "format", f, "text", text)
			c.Ev("frame", "json", string(frame[9:]))
			c.Violation("server-side-differs-"+typ+"-"+first, "%s proxy: server-side reconstruction differs from the client's structure (client != server): %s\nmessage: %s", typ, strings.Join(diffs, "; "), short(string(frame[9:])))
		}
		if c.Idx == 0 && typ == "http" {
			run.Sample(map[string]any{"kind": "registration", "type": typ, "message": short(string(frame[9:]))})
		}
	}
}

// roundTripToServer: client structure -> registration message -> wire -> server-side reconstruction.
func roundTripToServer(cli v1.ProxyConfigurer, s *v1.ServerConfig) (v1.ProxyConfigurer, error) {
	var m msg.NewProxy
	cli.MarshalToMsg(&m)
	var buf bytes.Buffer
	if err := msg.WriteMsg(&buf, &m); err != nil {
		return nil, err
	}
	raw, err := msg.ReadMsg(&buf)
	if err != nil {
		return nil, err
	}
	m2, ok := raw.(*msg.NewProxy)
	if !ok {
		return nil, fmt.Errorf("decoded as %T", raw)
	}
	return config.NewProxyConfigurerFromMsg(m2, s)
}
