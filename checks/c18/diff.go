// Structural comparison with the path of the first differences. nil and empty lists / maps are the
// same value (a document cannot tell them apart after omitempty); unexported fields are read by kind.
package main

import (
	"fmt"
	"reflect"
	"sort"
	"strings"
)

func diffValues(a, b any) []string {
	var out []string
	diffRec("", reflect.ValueOf(a), reflect.ValueOf(b), &out)
	return out
}

func show(v reflect.Value) string {
	if !v.IsValid() {
		return "<none>"
	}
	switch v.Kind() {
	case reflect.String:
		return fmt.Sprintf("%q", v.String())
	case reflect.Int, reflect.Int8, reflect.Int16, reflect.Int32, reflect.Int64:
		return fmt.Sprint(v.Int())
	case reflect.Bool:
		return fmt.Sprint(v.Bool())
	case reflect.Ptr, reflect.Interface:
		if v.IsNil() {
			return "nil"
		}
		return "&" + show(v.Elem())
	case reflect.Slice, reflect.Map:
		return fmt.Sprintf("%s(len %d)", v.Type(), v.Len())
	}
	return v.Type().String()
}

func diffRec(path string, a, b reflect.Value, out *[]string) {
	if len(*out) >= 6 {
		return
	}
	if !a.IsValid() || !b.IsValid() {
		if a.IsValid() != b.IsValid() {
			*out = append(*out, fmt.Sprintf("%s: %s != %s", path, show(a), show(b)))
		}
		return
	}
	if a.Type() != b.Type() {
		*out = append(*out, fmt.Sprintf("%s: type %s != %s", path, a.Type(), b.Type()))
		return
	}
	switch a.Kind() {
	case reflect.Ptr, reflect.Interface:
		if a.IsNil() || b.IsNil() {
			if a.IsNil() != b.IsNil() {
				*out = append(*out, fmt.Sprintf("%s: %s != %s", path, show(a), show(b)))
			}
			return
		}
		diffRec(path, a.Elem(), b.Elem(), out)
	case reflect.Struct:
		for i := 0; i < a.NumField(); i++ {
			f := a.Type().Field(i)
			p := path + "." + f.Name
			if f.Anonymous {
				p = path
			}
			diffRec(p, a.Field(i), b.Field(i), out)
		}
	case reflect.Slice, reflect.Array:
		if a.Len() != b.Len() {
			*out = append(*out, fmt.Sprintf("%s: length %d != %d", path, a.Len(), b.Len()))
			return
		}
		for i := 0; i < a.Len(); i++ {
			diffRec(fmt.Sprintf("%s[%d]", path, i), a.Index(i), b.Index(i), out)
		}
	case reflect.Map:
		if a.Len() != b.Len() {
			*out = append(*out, fmt.Sprintf("%s: map size %d != %d (%s | %s)", path, a.Len(), b.Len(), mapKeys(a), mapKeys(b)))
			return
		}
		for _, k := range a.MapKeys() {
			bv := b.MapIndex(k)
			if !bv.IsValid() {
				*out = append(*out, fmt.Sprintf("%s: key %s only on one side", path, show(k)))
				continue
			}
			diffRec(fmt.Sprintf("%s[%s]", path, show(k)), a.MapIndex(k), bv, out)
		}
	case reflect.String:
		if a.String() != b.String() {
			*out = append(*out, fmt.Sprintf("%s: %q != %q", path, a.String(), b.String()))
		}
	case reflect.Int, reflect.Int8, reflect.Int16, reflect.Int32, reflect.Int64:
		if a.Int() != b.Int() {
			*out = append(*out, fmt.Sprintf("%s: %d != %d", path, a.Int(), b.Int()))
		}
	case reflect.Uint, reflect.Uint8, reflect.Uint16, reflect.Uint32, reflect.Uint64:
		if a.Uint() != b.Uint() {
			*out = append(*out, fmt.Sprintf("%s: %d != %d", path, a.Uint(), b.Uint()))
		}
	case reflect.Bool:
		if a.Bool() != b.Bool() {
			*out = append(*out, fmt.Sprintf("%s: %v != %v", path, a.Bool(), b.Bool()))
		}
	case reflect.Float32, reflect.Float64:
		if a.Float() != b.Float() {
			*out = append(*out, fmt.Sprintf("%s: %v != %v", path, a.Float(), b.Float()))
		}
	default:
		*out = append(*out, fmt.Sprintf("%s: cannot compare kind %s", path, a.Kind()))
	}
}

func mapKeys(m reflect.Value) string {
	var ks []string
	for _, k := range m.MapKeys() {
		ks = append(ks, show(k))
	}
	sort.Strings(ks)
	return strings.Join(ks, ",")
}

// fieldAt resolves a dotted Go field path (promoted fields allowed) below a struct or pointer to struct.
func fieldAt(v reflect.Value, path string) reflect.Value {
	cur := v
	for _, p := range strings.Split(path, ".") {
		for cur.Kind() == reflect.Ptr || cur.Kind() == reflect.Interface {
			if cur.IsNil() {
				return reflect.Value{}
			}
			cur = cur.Elem()
		}
		if cur.Kind() != reflect.Struct {
			return reflect.Value{}
		}
		cur = cur.FieldByName(p)
		if !cur.IsValid() {
			return reflect.Value{}
		}
	}
	return cur
}
