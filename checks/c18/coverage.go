// Coverage of the independent settings table against the structures of the tree under test: settings the
// repository has but the table lacks are reported in the evidence (they are not judged by anything here).
package main

import (
	"reflect"
	"sort"
	"strings"

	"github.com/spf13/cobra"
	"github.com/spf13/pflag"

	"github.com/fatedier/frp/pkg/config"
	v1 "github.com/fatedier/frp/pkg/config/v1"
)

func jsonLeaves(t reflect.Type, prefix string, out map[string]bool) {
	for t.Kind() == reflect.Ptr {
		t = t.Elem()
	}
	for i := 0; i < t.NumField(); i++ {
		f := t.Field(i)
		if f.PkgPath != "" {
			continue
		}
		name := strings.Split(f.Tag.Get("json"), ",")[0]
		ft := f.Type
		for ft.Kind() == reflect.Ptr {
			ft = ft.Elem()
		}
		if f.Anonymous && name == "" {
			if ft.Kind() == reflect.Struct {
				jsonLeaves(ft, prefix, out)
			}
			continue
		}
		if name == "" || name == "-" {
			continue
		}
		p := name
		if prefix != "" {
			p = prefix + "." + name
		}
		if ft.Kind() == reflect.Struct && ft.NumField() > 0 && ft.Name() != "BandwidthQuantity" &&
			ft.Name() != "TypedClientPluginOptions" && ft.Name() != "TypedVisitorPluginOptions" {
			jsonLeaves(ft, p, out)
			continue
		}
		out[p] = true
	}
}

func tableLeaves(fields []fld, extra ...string) map[string]bool {
	out := map[string]bool{}
	for _, f := range fields {
		out[f.J] = true
	}
	for _, e := range extra {
		out[e] = true
	}
	return out
}

func schemaCoverage() {
	var missing, surplus []string
	cmp := func(what string, t reflect.Type, table map[string]bool) {
		repo := map[string]bool{}
		jsonLeaves(t, "", repo)
		for k := range repo {
			if !table[k] {
				missing = append(missing, what+":"+k)
			}
		}
		for k := range table {
			if !repo[k] {
				surplus = append(surplus, what+":"+k)
			}
		}
	}
	cmp("client", reflect.TypeOf(v1.ClientConfig{}), tableLeaves(clientCommonFields, "proxies", "visitors", "start", "includes"))
	cmp("server", reflect.TypeOf(v1.ServerConfig{}), tableLeaves(serverFields))
	for _, t := range proxyTypes {
		cmp("proxy("+t+")", reflect.TypeOf(newProxyStruct(t)), tableLeaves(concat(proxyBaseFields, proxyTypeFields[t]), "name", "type"))
	}
	for _, t := range visitorTypes {
		cmp("visitor("+t+")", reflect.TypeOf(newVisitorStruct(t)), tableLeaves(concat(visitorBaseFields, visitorTypeFields[t]), "name", "type"))
	}
	for n, ps := range pluginSchemas {
		cmp("plugin("+n+")", reflect.TypeOf(ps.New()), tableLeaves(ps.Fields, "type"))
	}
	sort.Strings(missing)
	sort.Strings(surplus)
	run.Set("settings_in_repo_not_in_table", missing)
	run.Set("settings_in_table_not_in_repo", surplus)
	if len(missing) > 0 {
		run.Inconclusive("settings table does not cover every setting of the tree under test")
	}
}

// flagCoverage lists flags the tree under test registers that the independent flag table lacks.
func flagCoverage() {
	var missing []string
	known := func(specs []flagSpec, extra ...string) map[string]bool {
		m := map[string]bool{}
		for _, fs := range specs {
			m[strings.ReplaceAll(fs.Flag, "_", "-")] = true
		}
		for _, e := range extra {
			m[e] = true
		}
		return m
	}
	{
		var cfg v1.ServerConfig
		cmd := &cobra.Command{Use: "frps"}
		config.RegisterServerConfigFlags(cmd, &cfg)
		k := known(serverFlags, "dashboard-tls-mode", "dashboard-tls-cert-file", "dashboard-tls-key-file")
		cmd.PersistentFlags().VisitAll(func(f *pflag.Flag) {
			if !k[strings.ReplaceAll(f.Name, "_", "-")] {
				missing = append(missing, "frps:"+f.Name)
			}
		})
	}
	for _, t := range proxyTypes {
		var common v1.ClientCommonConfig
		cmd := &cobra.Command{Use: t}
		config.RegisterClientCommonConfigFlags(cmd, &common)
		config.RegisterProxyFlags(cmd, newProxyStruct(t))
		k := known(concat2(concat2(clientCommonFlags, proxyBaseFlags), proxyTypeFlags[t]))
		check := func(f *pflag.Flag) {
			if !k[strings.ReplaceAll(f.Name, "_", "-")] {
				missing = append(missing, "frpc "+t+":"+f.Name)
			}
		}
		cmd.PersistentFlags().VisitAll(check)
		cmd.Flags().VisitAll(check)
	}
	for _, t := range visitorTypes {
		cmd := &cobra.Command{Use: "visitor"}
		config.RegisterVisitorFlags(cmd, newVisitorStruct(t))
		k := known(visitorFlags)
		cmd.Flags().VisitAll(func(f *pflag.Flag) {
			if !k[strings.ReplaceAll(f.Name, "_", "-")] {
				missing = append(missing, "frpc "+t+" visitor:"+f.Name)
			}
		})
	}
	sort.Strings(missing)
	run.Set("flags_in_repo_not_in_table", missing)
	if len(missing) > 0 {
		run.Inconclusive("flag table does not cover every flag of the tree under test")
	}
}
