package main

func childMain() {}
