// Live samples: a real frpc (in this process from a generated file, or as a child process running the
// real command tree of cmd/frpc/sub with flags) registers at a real frps; what the server acts on is read
// from its dashboard API (the reconstructed configuration) and from its route / port / visitor tables.
// A child process with a real environment exercises the template layer of the file loader.
package main

import (
	"bytes"
	"encoding/json"
	"fmt"
	"io"
	"net/http"
	"os"
	"os/exec"
	"reflect"
	"sort"
	"strconv"
	"strings"
	"sync"
	"time"

	"github.com/fatedier/frp/cmd/frpc/sub"
	"github.com/fatedier/frp/pkg/config"
	v1 "github.com/fatedier/frp/pkg/config/v1"

	"verif/h"
)

const liveToken = "c18-token"
const liveHost = "frps.test"

type liveEnv struct {
	srv                            *h.Server
	port, web                      int
	remoteLo, remoteHi, remoteNext int
}

var live *liveEnv

func liveSetup() error {
	pa := h.Ports(prop)
	ps := pa.Block(5)
	text := fmt.Sprintf(`
bindAddr = "127.0.0.1"
bindPort = %d
vhostHTTPPort = %d
vhostHTTPSPort = %d
tcpmuxHTTPConnectPort = %d
subDomainHost = "%s"
auth.token = "%s"
webServer.addr = "127.0.0.1"
webServer.port = %d
webServer.user = "adm"
webServer.password = "pw"
allowPorts = [{start=28200,end=28899}]
`, ps[0], ps[1], ps[2], ps[3], liveHost, liveToken, ps[4])
	srv, err := h.StartServerText(prop, text)
	if err != nil {
		return err
	}
	live = &liveEnv{srv: srv, port: ps[0], web: ps[4], remoteLo: 28200, remoteHi: 28899}
	return h.WaitTCP(fmt.Sprintf("127.0.0.1:%d", ps[4]), 5*time.Second)
}

// dashboardConf fetches the server's view of one proxy.
func dashboardConf(typ, name string) (json.RawMessage, error) {
	req, _ := http.NewRequest("GET", fmt.Sprintf("http://127.0.0.1:%d/api/proxy/%s", live.web, typ), nil)
	req.SetBasicAuth("adm", "pw")
	resp, err := http.DefaultClient.Do(req)
	if err != nil {
		return nil, err
	}
	defer resp.Body.Close()
	b, _ := io.ReadAll(resp.Body)
	if resp.StatusCode != 200 {
		return nil, fmt.Errorf("status %d: %s", resp.StatusCode, b)
	}
	var out struct {
		Proxies []struct {
			Name string          `json:"name"`
			Conf json.RawMessage `json:"conf"`
		} `json:"proxies"`
	}
	if err := json.Unmarshal(b, &out); err != nil {
		return nil, err
	}
	for _, p := range out.Proxies {
		if p.Name == name {
			return p.Conf, nil
		}
	}
	return nil, fmt.Errorf("proxy %q not listed", name)
}

// fields of the reconstructed configuration the dashboard shows, per type
var dashBase = []string{"Name", "Type", "Transport.UseEncryption", "Transport.UseCompression", "Transport.BandwidthLimit", "Transport.BandwidthLimitMode",
	"LoadBalancer.Group", "LoadBalancer.GroupKey", "Metadatas", "Annotations"}
var dashType = map[string][]string{
	"tcp": {"RemotePort"}, "udp": {"RemotePort"},
	"http":   {"CustomDomains", "SubDomain", "Locations", "HostHeaderRewrite"},
	"https":  {"CustomDomains", "SubDomain"},
	"tcpmux": {"CustomDomains", "SubDomain", "Multiplexer", "RouteByHTTPUser"},
	"stcp":   nil, "xtcp": nil,
}

// liveProxyTree makes a generated proxy registrable next to all others: unique ports, domains, groups.
func liveProxyTree(g *gen, c *h.Case, i int, typ string) *obj {
	p := genProxy(g, typ)
	t := p.Tree
	t.del("healthCheck")
	t.del("plugin")
	t.del("loadBalancer")
	t.set("localPort", int64(1+g.r.Intn(65535)))
	t.set("localIP", "127.0.0.1") // udp-class proxies resolve it when they start
	uid := fmt.Sprintf("c%d-%d", c.Idx, i)
	switch typ {
	case "tcp", "udp":
		port := live.remoteLo + (c.Idx*8+i)%(live.remoteHi-live.remoteLo+1)
		t.set("remotePort", int64(port))
		if typ == "tcp" && g.r.Intn(3) == 0 {
			t.setPath("loadBalancer.group", "g-"+uid)
			t.setPath("loadBalancer.groupKey", g.text())
		}
	case "http", "https", "tcpmux":
		t.del("customDomains")
		t.del("subdomain")
		if l, ok := t.get("locations"); ok {
			seen := map[string]bool{}
			var ul []any
			for _, x := range l.([]any) {
				if !seen[x.(string)] {
					seen[x.(string)] = true
					ul = append(ul, x)
				}
			}
			if ul == nil {
				ul = []any{}
			}
			t.set("locations", ul)
		}
		var ds []any
		for k := 0; k < g.r.Intn(3); k++ {
			ds = append(ds, fmt.Sprintf("%s-%d.%s", uid, k, []string{"example.org", "Example.ORG", "x.TEST"}[g.r.Intn(3)]))
		}
		if len(ds) > 0 {
			t.set("customDomains", ds)
		}
		if len(ds) == 0 || g.r.Intn(2) == 0 {
			t.set("subdomain", "sd-"+uid)
		}
	}
	return t
}

func wantRoutes(cli v1.ProxyConfigurer) (domains []string, locations []string, user string) {
	var dc *v1.DomainConfig
	switch t := cli.(type) {
	case *v1.HTTPProxyConfig:
		dc, locations, user = &t.DomainConfig, t.Locations, t.RouteByHTTPUser
	case *v1.HTTPSProxyConfig:
		dc = &t.DomainConfig
	case *v1.TCPMuxProxyConfig:
		dc, user = &t.DomainConfig, t.RouteByHTTPUser
	default:
		return
	}
	for _, d := range dc.CustomDomains {
		domains = append(domains, strings.ToLower(d))
	}
	if dc.SubDomain != "" {
		domains = append(domains, strings.ToLower(dc.SubDomain+"."+liveHost))
	}
	if len(locations) == 0 {
		locations = []string{""}
	}
	return
}

// observeLive compares the server's view of the registered proxies with the client's structures.
func observeLive(c *h.Case, how string, clis []v1.ProxyConfigurer) {
	snap := live.srv.Snapshot()
	has := func(l []string, s string) bool {
		for _, x := range l {
			if x == s {
				return true
			}
		}
		return false
	}
	for _, cli := range clis {
		b := cli.GetBaseConfig()
		typ := b.Type
		run.Count("live_proxies_observed", 1)
		run.Count("live_"+typ, 1)
		if !has(snap.ProxyNames, b.Name) {
			c.Violation("live-proxy-not-registered", "%s: %s proxy %q is running on the client but not in the server's proxy table", how, typ, b.Name)
			continue
		}
		// 1. reconstructed configuration as shown by the dashboard API
		if typ != "sudp" {
			var raw json.RawMessage
			var err error
			h.Eventually(5*time.Second, func() bool { // the statistics entry appears just after the proxy table entry
				raw, err = dashboardConf(typ, b.Name)
				return err == nil
			})
			if err != nil {
				run.Inconclusive("dashboard API did not list a live proxy")
			} else {
				srv := newProxyStruct(typ)
				if err := json.Unmarshal(raw, srv); err != nil {
					run.Inconclusive("dashboard conf not decodable")
				} else {
					var d []string
					first := ""
					for _, path := range append(append([]string{}, dashBase...), dashType[typ]...) {
						n := len(d)
						diffRec(path, fieldAt(reflect.ValueOf(cli), path), fieldAt(reflect.ValueOf(srv), path), &d)
						if len(d) > n && first == "" {
							first = path
						}
						run.Count("live_fields_compared", 1)
					}
					if len(d) > 0 {
						c.Ev("conf", "json", string(raw))
						c.Violation("live-server-side-differs-"+typ+"-"+first, "%s: the server's configuration of %s proxy %q differs from the client's (client != server): %s\nserver conf: %s", how, typ, b.Name, strings.Join(d, "; "), short(string(raw)))
					}
				}
			}
		}
		// 2. what the server acts on: routes, ports, visitor listeners
		switch t := cli.(type) {
		case *v1.TCPProxyConfig:
			if t.LoadBalancer.Group == "" && snap.TCPPorts.Used[t.RemotePort] != b.Name {
				c.Violation("live-port-not-bound-to-proxy", "%s: tcp remotePort %d is held by %q, want %q", how, t.RemotePort, snap.TCPPorts.Used[t.RemotePort], b.Name)
			}
		case *v1.UDPProxyConfig:
			if snap.UDPPorts.Used[t.RemotePort] != b.Name {
				c.Violation("live-port-not-bound-to-proxy", "%s: udp remotePort %d is held by %q, want %q", how, t.RemotePort, snap.UDPPorts.Used[t.RemotePort], b.Name)
			}
		case *v1.STCPProxyConfig, *v1.SUDPProxyConfig:
			if !has(snap.Visitors, b.Name) {
				c.Violation("live-visitor-listener-missing", "%s: %s proxy %q has no visitor listener on the server", how, typ, b.Name)
			}
		case *v1.XTCPProxyConfig:
			if !has(snap.NatHoleClients, b.Name) {
				c.Violation("live-nathole-client-missing", "%s: xtcp proxy %q is not known to the nat-hole controller", how, b.Name)
			}
		}
		domains, locations, user := wantRoutes(cli)
		table := map[string]any{"http": snap.HTTPRoutes, "https": snap.HTTPSRoutes, "tcpmux": snap.TCPMuxRoutes}[typ]
		if table != nil {
			tv := reflect.ValueOf(table)
			for _, dom := range domains {
				for _, loc := range locations {
					found := false
					for i := 0; i < tv.Len(); i++ {
						r := tv.Index(i)
						if r.FieldByName("Domain").String() == dom && r.FieldByName("Location").String() == loc && r.FieldByName("HTTPUser").String() == user {
							found = true
						}
					}
					run.Count("live_routes_checked", 1)
					if !found {
						c.Violation("live-route-missing-"+typ, "%s: %s proxy %q: no route (domain %q, location %q, user %q) in the server's table", how, typ, b.Name, dom, loc, user)
					}
				}
			}
		}
	}
}

func waitGone(names []string) {
	h.Eventually(10*time.Second, func() bool {
		have := map[string]bool{}
		for _, n := range live.srv.Snapshot().ProxyNames {
			have[n] = true
		}
		for _, n := range names {
			if have[n] {
				return false
			}
		}
		return true
	})
}

// liveCase: real frpc in this process, started from a generated file.
func liveCase(c *h.Case) {
	g := &gen{r: c.Rng, pfx: fmt.Sprintf("c%d-", c.Idx)}
	doc := &obj{}
	doc.set("serverAddr", "127.0.0.1")
	doc.set("serverPort", int64(live.port))
	doc.setPath("auth.token", liveToken)
	doc.set("loginFailExit", false)
	if g.r.Intn(2) == 0 {
		doc.set("user", []string{"alpha", "üser", "Delta_2"}[g.r.Intn(3)])
	}
	if g.r.Intn(2) == 0 {
		doc.setPath("transport.tls.enable", false)
	}
	var pl []any
	n := 4 + g.r.Intn(4)
	for i := 0; i < n; i++ {
		pl = append(pl, liveProxyTree(g, c, i, proxyTypes[(c.Idx+i)%len(proxyTypes)]))
	}
	doc.set("proxies", pl)
	f := formats[g.r.Intn(3)]
	text := render(f, doc, g.r)
	c.Data["format"], c.Data["doc"] = f, text
	p, err := writeCfg(c, text, "live."+f)
	if err != nil {
		run.Inconclusive("cannot write configuration file")
		return
	}
	common, proxies, visitors, _, err := config.LoadClientConfig(p, true)
	os.Remove(p)
	if err != nil {
		c.Violation("clean-document-rejected-"+f, "live client document rejected: %v\n%s", err, short(text))
		return
	}
	cli, err := h.StartClient(common, proxies, visitors)
	if err != nil {
		c.Violation("documented-valid-client-config-rejected", "live client configuration rejected: %v\n%s", err, short(text))
		return
	}
	var names []string
	for _, pc := range proxies {
		names = append(names, pc.GetBaseConfig().Name)
	}
	defer func() { cli.Close(); waitGone(names) }()
	if err := cli.WaitRunning(40*time.Second, names...); err != nil {
		var phases []string
		refused := false
		for _, n := range names {
			st, _ := cli.Svc.StatusExporter().GetProxyStatus(n)
			if st != nil && st.Phase != "running" {
				phases = append(phases, fmt.Sprintf("%s=%s(%s)", n, st.Phase, st.Err))
				if st.Phase == "start error" && st.Err != "" && !strings.Contains(strings.ToLower(st.Err), "timeout") {
					refused = true
				}
			}
		}
		c.Ev("not-running", "phases", phases)
		joined := strings.Join(phases, "; ")
		if strings.Contains(joined, "port") && (strings.Contains(joined, "already") || strings.Contains(joined, "unavailable")) {
			run.Inconclusive("live: a remote port was busy")
			return
		}
		if !refused { // merely slow (loaded machine): no verdict
			fmt.Fprintf(os.Stderr, "case %d: live client not running after 40 s: %s\n", c.Idx, joined)
			run.Inconclusive("live: proxies not running within 40 s")
			return
		}
		c.Violation("live-valid-proxies-not-accepted", "proxies loaded from a valid %s document do not all start at the server: %v %s\n%s", f, err, joined, short(text))
		return
	}
	observeLive(c, "frpc from a "+f+" file", proxies)
	run.Count("live_clients", 1)
	run.Distinct("live|" + treeHash(doc))
}

// ---- child processes

// lockedBuf is a goroutine-safe output buffer of a child process.
type lockedBuf struct {
	mu sync.Mutex
	b  bytes.Buffer
}

func (l *lockedBuf) Write(p []byte) (int, error) {
	l.mu.Lock()
	defer l.mu.Unlock()
	return l.b.Write(p)
}
func (l *lockedBuf) String() string { l.mu.Lock(); defer l.mu.Unlock(); return l.b.String() }
func (l *lockedBuf) Bytes() []byte  { return []byte(l.String()) }

func spawnChild(mode string, env []string, args ...string) (cmd *exec.Cmd, stdout, stderr *lockedBuf, err error) {
	cmd = exec.Command(os.Args[0], args...)
	cmd.Env = append(append(os.Environ(), "C18_CHILD="+mode), env...)
	stdout, stderr = &lockedBuf{}, &lockedBuf{}
	cmd.Stdout, cmd.Stderr = stdout, stderr
	return cmd, stdout, stderr, cmd.Start()
}

type loadDump struct {
	Err      string                 `json:"err,omitempty"`
	Common   *v1.ClientCommonConfig `json:"common,omitempty"`
	Proxies  []json.RawMessage      `json:"proxies,omitempty"`
	Visitors []json.RawMessage      `json:"visitors,omitempty"`
}

func dumpLoad(path string, strict bool) loadDump {
	common, proxies, visitors, _, err := config.LoadClientConfig(path, strict)
	if err != nil {
		return loadDump{Err: err.Error()}
	}
	d := loadDump{Common: common}
	for _, p := range proxies {
		b, _ := json.Marshal(p)
		d.Proxies = append(d.Proxies, b)
	}
	for _, v := range visitors {
		b, _ := json.Marshal(v)
		d.Visitors = append(d.Visitors, b)
	}
	return d
}

func childMain() {
	switch os.Getenv("C18_CHILD") {
	case "load":
		// the file loader with the process's real environment (template values come from os.Environ at start-up)
		b, _ := json.Marshal(dumpLoad(os.Args[1], os.Args[2] == "true"))
		os.Stdout.Write(b)
	case "frpc":
		// the real command tree of cmd/frpc/sub
		os.Args = append([]string{"frpc"}, os.Args[1:]...)
		sub.Execute()
	}
}

// childEnvCase: {{ .Envs.X }} taken from a real process environment by the real file loader.
func childEnvCase(c *h.Case) {
	g := &gen{r: c.Rng, pfx: fmt.Sprintf("c%d-", c.Idx)}
	vals := map[string]string{
		"C18_ADDR":  []string{"127.0.0.1", "frps.example.com", "名前.test"}[g.r.Intn(3)],
		"C18_PORT":  strconv.Itoa(1 + g.r.Intn(65535)),
		"C18_TOKEN": []string{"s3cr3t", "with space", "tok=en", "ünï", "a#b"}[g.r.Intn(5)],
		"C18_LOCAL": strconv.Itoa(1 + g.r.Intn(65535)),
	}
	tmpl := fmt.Sprintf("serverAddr = \"{{ .Envs.C18_ADDR }}\"\nserverPort = {{ .Envs.C18_PORT }}\nauth.token = \"{{ .Envs.C18_TOKEN }}\"\n"+
		"{{- range $_, $v := parseNumberRangePair \"%d-%d\" \"%d-%d\" }}\n[[proxies]]\nname = \"p-{{ $v.First }}\"\ntype = \"tcp\"\nlocalPort = {{ $.Envs.C18_LOCAL }}\nremotePort = {{ $v.Second }}\n{{- end }}\n",
		6000, 6002, 7000, 7002)
	var exp strings.Builder
	fmt.Fprintf(&exp, "serverAddr = \"%s\"\nserverPort = %s\nauth.token = \"%s\"", vals["C18_ADDR"], vals["C18_PORT"], vals["C18_TOKEN"])
	for i := 0; i < 3; i++ {
		fmt.Fprintf(&exp, "\n[[proxies]]\nname = \"p-%d\"\ntype = \"tcp\"\nlocalPort = %s\nremotePort = %d", 6000+i, vals["C18_LOCAL"], 7000+i)
	}
	exp.WriteString("\n")
	pt, err1 := writeCfg(c, tmpl, "tmpl.toml")
	pe, err2 := writeCfg(c, exp.String(), "exp.toml")
	if err1 != nil || err2 != nil {
		run.Inconclusive("cannot write configuration file")
		return
	}
	defer os.Remove(pt)
	defer os.Remove(pe)
	var env []string
	for k, v := range vals {
		env = append(env, k+"="+v)
	}
	sort.Strings(env)
	c.Data["env"], c.Data["template"] = env, tmpl
	cmd, out, _, err := spawnChild("load", env, pt, "true")
	if err != nil {
		run.Inconclusive("cannot start child process")
		return
	}
	done := make(chan error, 1)
	go func() { done <- cmd.Wait() }()
	select {
	case <-done:
	case <-time.After(60 * time.Second):
		cmd.Process.Kill()
		run.Inconclusive("child process did not finish")
		return
	}
	want, _ := json.Marshal(dumpLoad(pe, true))
	run.Count("child_env_loads", 1)
	run.Distinct("childenv|" + strings.Join(env, "|"))
	if !bytes.Equal(bytes.TrimSpace(out.Bytes()), want) {
		c.Violation("templated-file-differs-from-written-out-file", "file loader with environment %v: templated document loads as\n%s\nthe document with the values written out loads as\n%s", env, short(out.String()), short(string(want)))
	}
}

// childFlagCase: the real `frpc <type> --flags` command registers at the live server.
func childFlagCase(c *h.Case) {
	g := &gen{r: c.Rng, pfx: fmt.Sprintf("c%d-", c.Idx)}
	typ := []string{"tcp", "udp", "http", "https", "tcpmux", "stcp", "xtcp", "sudp"}[c.Idx%8]
	tree := &obj{}
	var sig []string
	// common flags that keep the client pointed at the live server
	tree.set("serverAddr", "127.0.0.1")
	tree.set("serverPort", int64(live.port))
	tree.setPath("auth.token", liveToken)
	tree.setPath("transport.tls.enable", true)
	args := []string{typ, "-s", "127.0.0.1", "--server_port", strconv.Itoa(live.port), "-t", liveToken, "--log_level=error"}
	tree.setPath("log.level", "error")
	tree.setPath("log.to", "console")
	tree.setPath("log.maxDays", int64(3))
	tree.setPath("transport.protocol", "tcp")
	if g.r.Intn(2) == 0 {
		u := []string{"alpha", "üser"}[g.r.Intn(2)]
		args = append(args, "-u", u)
		tree.set("user", u)
	}
	item := &obj{}
	fixed := map[string]bool{"proxy_name": true, "remote_port": true, "custom_domain": true, "sd": true, "mux": true, "local_ip": true}
	var specs []flagSpec
	for _, fs := range concat2(proxyBaseFlags, proxyTypeFlags[typ]) {
		if !fixed[fs.Flag] {
			specs = append(specs, fs)
		}
	}
	iargs := chooseFlags(g, specs, item, 70, &sig)
	uid := fmt.Sprintf("c%d", c.Idx)
	// unique name / port / domains, given by flag
	setFlag := func(flag, j string, tv any, arg string) {
		iargs = append(iargs, "--"+flag+"="+arg)
		item.setPath(j, tv)
	}
	setFlag("proxy_name", "name", "p-"+uid, "p-"+uid)
	setFlag("local_ip", "localIP", "127.0.0.1", "127.0.0.1") // udp-class proxies resolve it when they start
	switch typ {
	case "tcp", "udp":
		port := live.remoteLo + (c.Idx*8)%(live.remoteHi-live.remoteLo+1)
		setFlag("remote_port", "remotePort", int64(port), strconv.Itoa(port))
	case "http", "https", "tcpmux":
		d1, d2 := uid+"-a.Example.ORG", uid+"-b.example.org"
		setFlag("custom_domain", "customDomains", []any{d1, d2}, d1+","+d2)
		setFlag("sd", "subdomain", "sd-"+uid, "sd-"+uid)
		if typ == "tcpmux" {
			setFlag("mux", "multiplexer", "httpconnect", "httpconnect")
		}
	}
	item.set("type", typ)
	tree.set("proxies", []any{item})
	args = append(args, iargs...)
	c.Data["args"] = args
	// the client's structure according to the file form of the same settings
	f := formats[g.r.Intn(3)]
	text := render(f, tree, g.r)
	p, err := writeCfg(c, text, "cf."+f)
	if err != nil {
		run.Inconclusive("cannot write configuration file")
		return
	}
	_, proxies, _, _, err := config.LoadClientConfig(p, true)
	os.Remove(p)
	if err != nil || len(proxies) != 1 {
		c.Violation("clean-document-rejected-"+f, "file equivalent of a frpc command line rejected: %v\n%s", err, short(text))
		return
	}
	cmd, cout, cerr, err := spawnChild("frpc", nil, args...)
	if err != nil {
		run.Inconclusive("cannot start child process")
		return
	}
	name := proxies[0].GetBaseConfig().Name
	exited := make(chan struct{})
	go func() { cmd.Wait(); close(exited) }()
	defer func() {
		cmd.Process.Kill()
		<-exited
		waitGone([]string{name})
	}()
	early := false
	ok := h.Eventually(90*time.Second, func() bool {
		select {
		case <-exited:
			early = true
			return true
		default:
		}
		for _, n := range live.srv.Snapshot().ProxyNames {
			if n == name {
				return true
			}
		}
		return false
	})
	if early {
		said := cout.String() + cerr.String()
		low := strings.ToLower(said)
		if strings.Contains(low, "timeout") || strings.Contains(low, "login to the server failed") || strings.Contains(low, "connection refused") || strings.Contains(low, "i/o") {
			fmt.Fprintf(os.Stderr, "case %d: frpc child gave up: %s\n", c.Idx, short(said))
			run.Inconclusive("frpc child could not reach the server")
			return
		}
		c.Ev("child-output", "text", said)
		c.Violation("frpc-command-line-rejected", "`frpc %s` exited instead of registering proxy %q (the file form of the same settings is valid): %s", strings.Join(args, " "), name, short(said))
		return
	}
	if !ok {
		fmt.Fprintf(os.Stderr, "case %d: frpc child did not register within 90 s: %q\n", c.Idx, args)
		run.Inconclusive("frpc child did not register within 90 s")
		return
	}
	observeLive(c, "`frpc "+strings.Join(args, " ")+"`", proxies)
	run.Count("child_frpc_commands", 1)
	run.Distinct("childflags|" + typ + "|" + strings.Join(sig, ","))
}
