package main

import (
	"bytes"
	"fmt"
	"os"
	"runtime/pprof"
	"sort"
	"strings"
	"sync"
	"time"

	"verif/h"
)

// Leak slopes: identical cycles (same names, same ports, same routes) of login, registration of one proxy of every
// kind, traffic, termination. Goroutines by creation site, descriptors and table sizes are sampled at three
// equal-phase quiescent points; a quantity that grows by at least one per ten cycles over both intervals is a leak.

type sample struct {
	cycle  int
	sites  map[string]int
	gor    int
	fds    int
	tables map[string]int
}

func tableSizes(e *env) map[string]int {
	sn := e.srv.Snapshot()
	groups := 0
	for range sn.TCPGroups {
		groups++
	}
	for range sn.TCPMuxGroups {
		groups++
	}
	for range sn.HTTPGroups {
		groups++
	}
	return map[string]int{
		e.name + ".sessions":         len(sn.Sessions),
		e.name + ".proxy-names":      len(sn.ProxyNames),
		e.name + ".http-routes":      len(sn.HTTPRoutes),
		e.name + ".https-routes":     len(sn.HTTPSRoutes),
		e.name + ".tcpmux-routes":    len(sn.TCPMuxRoutes),
		e.name + ".visitors":         len(sn.Visitors),
		e.name + ".nathole-clients":  len(sn.NatHoleClients),
		e.name + ".nathole-sessions": len(sn.NatHoleSess),
		e.name + ".groups":           groups,
		e.name + ".tcp-ports-used":   len(sn.TCPPorts.Used),
		e.name + ".udp-ports-used":   len(sn.UDPPorts.Used),
		e.name + ".tcp-reserved":     len(sn.TCPPorts.Reserved),
		e.name + ".udp-reserved":     len(sn.UDPPorts.Reserved),
		e.name + ".tcp-ports-free":   -len(sn.TCPPorts.Free), // negated: a shrinking free set is growth
		e.name + ".udp-ports-free":   -len(sn.UDPPorts.Free),
	}
}

// takeSample waits for quiescence (goroutine count stable) and records the minimum over a few readings.
func takeSample(cycle int, envs []*env) sample {
	stable, last := 0, -1
	deadline := time.Now().Add(8 * time.Second)
	for time.Now().Before(deadline) && stable < 4 {
		time.Sleep(150 * time.Millisecond)
		g := h.Goroutines()
		if g == last {
			stable++
		} else {
			stable = 0
		}
		last = g
	}
	s := sample{cycle: cycle, sites: goroutinesBySite(), gor: h.Goroutines(), fds: h.FDCount(), tables: map[string]int{}}
	for i := 0; i < 4; i++ {
		time.Sleep(120 * time.Millisecond)
		for site, n := range s.sites {
			if m := goroutinesBySite()[site]; m < n {
				s.sites[site] = m
			}
		}
		if f := h.FDCount(); f < s.fds {
			s.fds = f
		}
		if g := h.Goroutines(); g < s.gor {
			s.gor = g
		}
	}
	for _, e := range envs {
		for k, v := range tableSizes(e) {
			s.tables[k] = v
		}
	}
	return s
}

// goroutinesBySite groups live goroutines by the outermost frp function on their stack (their entry point inside
// frp), or by their outermost function otherwise. (h.GoroutinesBySite loses the first block of the profile, the one
// that follows the "goroutine profile: total N" header line, which is the largest group.)
func goroutinesBySite() map[string]int {
	var buf bytes.Buffer
	_ = pprof.Lookup("goroutine").WriteTo(&buf, 1)
	out := map[string]int{}
	for _, blk := range strings.Split(buf.String(), "\n\n") {
		lines := strings.Split(strings.TrimSpace(blk), "\n")
		if len(lines) > 0 && strings.HasPrefix(lines[0], "goroutine profile:") {
			lines = lines[1:]
		}
		if len(lines) < 2 {
			continue
		}
		var n int
		if _, err := fmt.Sscanf(lines[0], "%d @", &n); err != nil {
			continue
		}
		site := ""
		for i := len(lines) - 1; i >= 1; i-- {
			f := strings.Fields(lines[i])
			if len(f) < 3 || f[0] != "#" {
				continue
			}
			fn := f[2]
			if j := strings.LastIndex(fn, "+0x"); j > 0 {
				fn = fn[:j]
			}
			if site == "" {
				site = fn
			}
			if strings.Contains(fn, "github.com/fatedier/frp/") {
				site = fn
				break
			}
		}
		out[site] += n
	}
	return out
}

type slopeWorld struct {
	e     *env
	specs []*spec
	c     *h.Case
}

func newSlopeWorld(c *h.Case, e *env) *slopeWorld {
	w := &slopeWorld{e: e, c: c}
	pfx := "slope-" + e.name + "."
	tag := "slope" + e.name
	for _, kd := range kinds {
		s := &spec{Kind: kd, Name: pfx + kd}
		switch baseKind(kd) {
		case "tcp", "udp":
			if !e.auto {
				s.Port = takePort()
			}
		case "http", "https", "tcpmux":
			s.Domains = []string{fmt.Sprintf("%s.%s.test", strings.ReplaceAll(kd, "-", ""), tag)}
		case "stcp", "sudp", "xtcp":
			s.Sk = "sk-slope"
		}
		if strings.HasSuffix(kd, "-group") {
			s.Group, s.GroupKey = pfx+"g-"+kd, "gk"
		}
		if kd == "http" {
			s.Locations = []string{"/a", "/b"}
			s.Enc, s.Comp = true, true
		}
		if kd == "tcp" {
			s.Enc = true
		}
		w.specs = append(w.specs, s)
	}
	return w
}

// cycle: one session registers everything, carries some traffic and terminates (even cycles: explicit closes
// first; odd cycles: abrupt end of the control connection).
func (w *slopeWorld) cycle(i int) error {
	a, err := newActor(w.c, w.e, "L", "", 1, true)
	if err != nil {
		return err
	}
	defer a.close()
	a.keepAlive()
	for _, s := range w.specs {
		resp, err := a.register(s)
		if err != nil {
			return fmt.Errorf("cycle %d: no reply for %s: %v", i, s.Name, err)
		}
		if resp.Error != "" {
			run.Violation("slope-reregistration-refused-"+s.Kind, "leak cycle %d on %s: registration of %s (same name and resources as in every earlier cycle) refused: %s", i, w.e.name, s.Name, resp.Error)
			return fmt.Errorf("refused")
		}
		run.Count("slope_registrations", 1)
	}
	for _, s := range w.specs {
		heavy := s.Kind == "udp" || s.Kind == "xtcp"
		if heavy && i%8 != 3 {
			continue
		}
		if !heavy && (i+len(s.Kind))%3 != 0 {
			continue
		}
		rs := probeSpec(w.e, s, a, []*actor{a})
		run.Count("slope_probes", int64(len(rs)))
		if !allServedBy(rs, "L|"+s.Name) {
			w.c.Ev("slope-probe", "cycle", i, "name", s.Name, "results", describe(rs))
			run.Count("slope_probes_not_served", 1)
		}
	}
	if i%3 == 1 {
		// a session of its own that ends in the login window (its table entry and goroutines must not stay)
		if hit, why := cutInLoginWindow(w.c, w.e, fmt.Sprintf("slope-%s-login-%d", w.e.name, i), i%2, i%2 == 0, 30*time.Millisecond); !hit {
			w.c.Ev("slope-login-cut-missed", "cycle", i, "why", why)
		}
	}
	if i%2 == 0 {
		for _, s := range w.specs {
			_ = a.p.CloseProxy(s.Name)
		}
		if err := a.barrier(); err != nil {
			return fmt.Errorf("cycle %d: close barrier: %v", i, err)
		}
	}
	if os.Getenv("C10_DEBUG") != "" {
		for _, ss := range w.e.srv.Snapshot().Sessions {
			if ss.RunID == a.rid {
				run.Count("slope_pool_at_end_"+w.e.name, int64(ss.PoolLen))
			}
		}
	}
	a.close()
	if !waitSessionGone(w.e, a.rid, 15*time.Second) {
		run.Violation("slope-session-not-removed", "leak cycle %d on %s: session still in the table 15 s after its end", i, w.e.name)
		return fmt.Errorf("session not removed")
	}
	return nil
}

func leakSlopes(c *h.Case, envs []*env, cycles int) {
	var worlds []*slopeWorld
	for _, e := range envs {
		worlds = append(worlds, newSlopeWorld(c, e))
	}
	third := cycles / 3
	var samples []sample
	warm := 6
	for i := 0; i < warm+cycles; i++ {
		var wg sync.WaitGroup
		errs := make([]error, len(worlds))
		for j, w := range worlds {
			wg.Add(1)
			go func(j int, w *slopeWorld) { defer wg.Done(); errs[j] = w.cycle(i) }(j, w)
		}
		wg.Wait()
		for _, err := range errs {
			if err != nil {
				c.Ev("slope-abort", "cycle", i, "err", err.Error())
				run.Inconclusive("leak cycles aborted")
				return
			}
		}
		run.Count("slope_cycles", int64(len(worlds)))
		run.Eval(len(worlds))
		done := i + 1 - warm
		if done == 0 || (done > 0 && done%third == 0 && len(samples) < 4) {
			s := takeSample(done, envs)
			samples = append(samples, s)
			c.Ev("slope-sample", "cycle", done, "goroutines", s.gor, "fds", s.fds, "tables", s.tables)
			run.Count("slope_samples", 1)
			if os.Getenv("C10_DEBUG") != "" {
				fmt.Fprintf(os.Stderr, "slope sample cycle=%d goroutines=%d fds=%d tables=%v\n", done, s.gor, s.fds, s.tables)
			}
		}
	}
	if len(samples) < 4 {
		run.Inconclusive("too few leak samples")
		return
	}
	// samples[0] is the baseline after warm-up; judge the three later equal-phase samples
	s1, s2, s3 := samples[1], samples[2], samples[3]
	need := func(a, b sample) int {
		n := (b.cycle - a.cycle) / 10
		if n < 1 {
			n = 1
		}
		return n
	}
	grows := func(x1, x2, x3 int) bool {
		return x2-x1 >= need(s1, s2) && x3-x2 >= need(s2, s3)
	}
	var siteNames []string
	for site := range s3.sites {
		siteNames = append(siteNames, site)
	}
	sort.Strings(siteNames)
	siteFlagged := false
	for _, site := range siteNames {
		if grows(s1.sites[site], s2.sites[site], s3.sites[site]) {
			siteFlagged = true
			run.Violation("goroutine-growth-"+siteKey(site), "goroutines created at %s: %d, %d, %d after %d, %d, %d identical cycles (same names) on each of %d servers",
				site, s1.sites[site], s2.sites[site], s3.sites[site], s1.cycle, s2.cycle, s3.cycle, len(envs))
		}
	}
	if os.Getenv("C10_DEBUG") != "" {
		fmt.Fprintf(os.Stderr, "slope site diff: %v\nsites: %v\n", h.DiffSites(s1.sites, s3.sites), s3.sites)
	}
	if !siteFlagged && grows(s1.gor, s2.gor, s3.gor) {
		run.Violation("goroutine-growth-total", "goroutines of the process: %d, %d, %d after %d, %d, %d identical cycles (same names) on each of %d servers; sites that grew: %v",
			s1.gor, s2.gor, s3.gor, s1.cycle, s2.cycle, s3.cycle, len(envs), h.DiffSites(s1.sites, s3.sites))
	}
	if grows(s1.fds, s2.fds, s3.fds) {
		run.Violation("descriptor-growth", "open descriptors of the process: %d, %d, %d after %d, %d, %d identical cycles; goroutine sites that changed: %v",
			s1.fds, s2.fds, s3.fds, s1.cycle, s2.cycle, s3.cycle, h.DiffSites(s1.sites, s3.sites))
	}
	var tnames []string
	for t := range s3.tables {
		tnames = append(tnames, t)
	}
	sort.Strings(tnames)
	for _, t := range tnames {
		if s3.tables[t] > s1.tables[t] && s2.tables[t] > s1.tables[t] || grows(s1.tables[t], s2.tables[t], s3.tables[t]) {
			run.Violation("table-growth-"+t[strings.IndexByte(t, '.')+1:], "table %s: size %d, %d, %d after %d, %d, %d identical cycles (all sessions ended at each sample)",
				t, s1.tables[t], s2.tables[t], s3.tables[t], s1.cycle, s2.cycle, s3.cycle)
		}
	}
	run.Set("slope_samples", []map[string]any{
		{"cycle": s1.cycle, "goroutines": s1.gor, "fds": s1.fds}, {"cycle": s2.cycle, "goroutines": s2.gor, "fds": s2.fds}, {"cycle": s3.cycle, "goroutines": s3.gor, "fds": s3.fds}})
	run.Distinct(fmt.Sprintf("slope|%d|%d", cycles, len(envs)))
}

func siteKey(site string) string {
	// "github.com/fatedier/frp/server/proxy.(*XTCPProxy).Run" -> "server-proxy-XTCPProxy-Run"
	s := site
	if i := strings.Index(s, "fatedier/frp/"); i >= 0 {
		s = s[i+len("fatedier/frp/"):]
	}
	if i := strings.IndexAny(s, " \t"); i >= 0 {
		s = s[:i]
	}
	r := strings.NewReplacer("/", "-", ".", "-", "(", "", ")", "", "*", "", ":", "-")
	s = r.Replace(s)
	if len(s) > 70 {
		s = s[len(s)-70:]
	}
	return s
}
