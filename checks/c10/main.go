// C10 — Everything a proxy or session held is released on every termination path.
//
// Monitors (DESIGN.md §5/C10):
//  1. fault enumeration: (11 proxy kinds: 8 types + 3 grouped) x (termination path: explicit close with the
//     identical registration right behind it, control connection dropped after / before the reply / during traffic /
//     while the registration is parked after each of its four steps, replacement by re-login, heartbeat timeout,
//     control stream ended with pooled work connections, registration failing part-way, name taken concurrently,
//     connection cut in the login window, stranger's refused join of a group with several members, udp proxy closed
//     during its work-connection fetch, proxy closed by A / registered by W / A's session ends)
//     on two real servers (explicit ports + tcp mux; server-chosen ports + no mux + heartbeat timeout).
//     After each: three-way ledger (model / verif snapshot / OS sockets) restricted to the case, re-registration
//     probe, traffic probes of the re-registered proxy, of the bystander and of a sibling proxy of the same session,
//     work connections of the closed proxy (idle http backend connections) and pooled work connections closed.
//  2. leak slopes: identical cycles with the same names on both servers; goroutines by creation site, descriptors
//     and table sizes at three equal-phase samples.
//     The garbage collector is off while cases and cycles run, so only the code under test can close a connection.
//  3. wrapper contract: spy transport under CloseNotifyConn / StatsConn / the server's work-connection stacks.
package main

import (
	"fmt"
	"os"
	"runtime"
	"time"

	"github.com/fatedier/frp/pkg/nathole"

	"verif/h"
)

const prop = "C10"
const token = "c10-token"
const subHost = "sub.c10.test"

var run *h.Run
var S1, S2 *env

func startEnv(name string, pa *h.PortAlloc, tcpMux bool, auto bool, heartbeat int, lo, hi int) *env {
	ps := pa.Block(4)
	e := &env{name: name, bind: ps[0], httpPort: ps[1], httpsPort: ps[2], muxPort: ps[3], tcpMux: tcpMux, auto: auto, heartbeat: heartbeat, quota: 3}
	hb := ""
	if heartbeat > 0 {
		hb = fmt.Sprintf("transport.heartbeatTimeout = %d\n", heartbeat)
	}
	var err error
	e.srv, err = h.StartServerText(prop, fmt.Sprintf(`
bindAddr = "127.0.0.1"
bindPort = %d
vhostHTTPPort = %d
vhostHTTPSPort = %d
tcpmuxHTTPConnectPort = %d
subDomainHost = "%s"
auth.token = "%s"
allowPorts = [{start=%d,end=%d}]
userConnTimeout = 4
maxPortsPerClient = %d
transport.maxPoolCount = 3
transport.tcpMux = %v
%s`, e.bind, e.httpPort, e.httpsPort, e.muxPort, subHost, token, lo, hi, e.quota, tcpMux, hb))
	if err != nil {
		fmt.Fprintln(os.Stderr, "server "+name+":", err)
		os.Exit(h.ExitHarnessError)
	}
	return e
}

func main() {
	defer h.DisableGC(12)()
	run = h.NewRun(prop, "fault_enumeration")
	run.Rule = "fault cases: the product (server in {explicit ports+tcpmux, server-chosen ports+no mux+heartbeat}) x (11 proxy kinds) x (termination paths: 11 on the first server, 4 on the second, plus the refused stranger join for the three group kinds and the cut in the login window for all kinds on both, the udp close-during-fetch orders, and first of all the cross-session sequence close / identical registration by another session / end of the first session for all kinds on both) is enumerated completely in every tier, then repeated with other PRNG-chosen registration variants (domains, locations, sub domain, route user, encryption, compression, limiter, pool size, bystander in the same group) and hook-point delays; distinct = (server, kind, path, variant, hook trace signatures); leak cycles and wrapper-contract configurations count once each"
	run.Assumptions = []string{
		"explicit close is acknowledged by a Ping/Pong on the same session (frps handles a session's messages in order); the re-registration right after the close request is sent with no barrier in between",
		"a session end is acknowledged when its run id has left the server's session table (bounded 15 s); 'shortly after' is read as: after that point",
		"ledger mismatches get a bounded grace of 6 s (8 s for work connections) before they are reported; everything released later than that is reported as not released",
		"user connections in progress are not resources of the proxy in the sense of the property (frps lets them finish); only pooled / idle work connections are judged",
		"nathole.NatHoleTimeout is set to 1 s for the whole process so that visitor sessions end inside a case",
		"leak slopes compare three samples taken at quiescence (goroutine count stable); growth must be >= 1 per 10 cycles over both intervals",
	}
	nathole.NatHoleTimeout = 1
	pa := h.Ports(prop)
	portLo, portHi = 20100, 20699
	portNext = portLo
	S1 = startEnv("s1", pa, true, false, 0, portLo, portHi)
	S2 = startEnv("s2", pa, false, true, 4, 20700, 20949)
	envs := map[int]*env{1: S1, 2: S2}

	combos := allCombos()
	rounds := run.N(2, 24)
	extra := run.N(50, 240)
	cross, nSafe := crossCombos()
	nCross := rounds * len(cross)
	nCases := nCross + rounds*len(combos) + extra
	run.Set("combos", len(combos))
	start := time.Now()
	one := func(c *h.Case) {
		var cb combo
		switch i := c.Idx - nCross; {
		case i < 0:
			cb = cross[c.Idx%len(cross)]
		case i < rounds*len(combos):
			// interleave the slow heartbeat cases with the others
			cb = combos[(i*37)%len(combos)]
		default:
			cb = combos[c.Rng.Intn(len(combos))]
		}
		runCase(c, envs[cb.env], cb.kind, cb.path)
	}
	// cross-session sequences first (see crossCombos)
	for r := 0; r < rounds; r++ {
		run.ParallelRange(r*len(cross), nSafe, 14, one)
		run.ParallelRange(r*len(cross)+nSafe, len(cross)-nSafe, 14, one)
	}
	// The collector is off while cases run (a finalizer must not close what the server leaked). Between rounds no
	// case is in progress, so the garbage of the finished round can be collected without masking anything.
	for r := 0; r < rounds; r++ {
		run.ParallelRange(nCross+r*len(combos), len(combos), 14, one)
		if rounds > 2 {
			runtime.GC()
		}
	}
	run.ParallelRange(nCross+rounds*len(combos), extra, 14, one)
	if rounds > 2 {
		runtime.GC()
	}
	run.Set("fault_phase_seconds", int(time.Since(start).Seconds()))

	// leak slopes run alone: process-wide goroutine and descriptor counts are theirs
	run.ParallelRange(nCases, 1, 1, func(c *h.Case) {
		leakSlopes(c, []*env{S1, S2}, run.N(60, 300))
	})
	if run.OnlyCase < 0 {
		wrapperContract()
	}
	S1.srv.Close()
	S2.srv.Close()
	run.Finish(100)
}
