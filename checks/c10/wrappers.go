package main

import (
	"context"
	"fmt"
	"io"
	"net"
	"sync"
	"sync/atomic"

	libio "github.com/fatedier/golib/io"
	"golang.org/x/time/rate"

	"github.com/fatedier/frp/pkg/util/limit"
	netpkg "github.com/fatedier/frp/pkg/util/net"
)

// spyConn counts Close calls on the transport under a wrapper.
type spyConn struct {
	net.Conn
	closes atomic.Int32
}

func (s *spyConn) Close() error {
	s.closes.Add(1)
	return s.Conn.Close()
}

func newSpy() (*spyConn, net.Conn) {
	a, b := net.Pipe()
	return &spyConn{Conn: a}, b
}

// closeN closes c n times, sequentially or from n goroutines at once.
func closeN(c io.Closer, n int, concurrent bool) {
	if !concurrent {
		for i := 0; i < n; i++ {
			_ = c.Close()
		}
		return
	}
	var wg sync.WaitGroup
	start := make(chan struct{})
	for i := 0; i < n; i++ {
		wg.Add(1)
		go func() { defer wg.Done(); <-start; _ = c.Close() }()
	}
	close(start)
	wg.Wait()
}

// wrapperContract: a transport wrapped by CloseNotifyConn / StatsConn sees exactly one Close for n >= 1 closes
// of the wrapper, and the notification runs exactly once; the wrapper stacks the server builds around a work
// connection (encryption, compression, limiter, stats, context) close the work connection.
func wrapperContract() {
	type build struct {
		name  string
		exact bool
		mk    func(spy *spyConn, notified *atomic.Int32) (io.Closer, error)
	}
	builds := []build{
		{"close-notify-conn", true, func(spy *spyConn, n *atomic.Int32) (io.Closer, error) {
			return netpkg.WrapCloseNotifyConn(spy, func() { n.Add(1) }), nil
		}},
		{"stats-conn", true, func(spy *spyConn, n *atomic.Int32) (io.Closer, error) {
			return netpkg.WrapStatsConn(spy, func(_, _ int64) { n.Add(1) }), nil
		}},
		{"context-conn", false, func(spy *spyConn, n *atomic.Int32) (io.Closer, error) {
			n.Add(1)
			return netpkg.NewContextConn(context.Background(), spy), nil
		}},
		{"http-work-conn-stack", false, func(spy *spyConn, n *atomic.Int32) (io.Closer, error) {
			// what server/proxy/http.go GetRealConn builds: stats(wrap(limit(compression(encryption(conn)))))
			var rwc io.ReadWriteCloser = spy
			rwc, err := libio.WithEncryption(rwc, []byte(token))
			if err != nil {
				return nil, err
			}
			rwc = libio.WithCompression(rwc)
			lim := rate.NewLimiter(rate.Limit(1<<20), 1<<20)
			inner := rwc
			rwc = libio.WrapReadWriteCloser(limit.NewReader(inner, lim), limit.NewWriter(inner, lim), func() error { return inner.Close() })
			c := netpkg.WrapReadWriteCloserToConn(rwc, spy)
			return netpkg.WrapStatsConn(c, func(_, _ int64) { n.Add(1) }), nil
		}},
		{"udp-work-conn-stack", false, func(spy *spyConn, n *atomic.Int32) (io.Closer, error) {
			n.Add(1)
			rwc, err := libio.WithEncryption(spy, []byte(token))
			if err != nil {
				return nil, err
			}
			return netpkg.WrapReadWriteCloserToConn(libio.WithCompression(rwc), spy), nil
		}},
	}
	for _, b := range builds {
		for n := 1; n <= 3; n++ {
			for _, conc := range []bool{false, true} {
				if conc && n == 1 {
					continue
				}
				spy, other := newSpy()
				go func() { _, _ = io.Copy(io.Discard, other) }() // the encryption writer may emit its iv on close
				var notified atomic.Int32
				w, err := b.mk(spy, &notified)
				if err != nil {
					run.Inconclusive("wrapper stack could not be built")
					other.Close()
					continue
				}
				closeN(w, n, conc)
				got, nn := spy.closes.Load(), notified.Load()
				run.Count("wrapper_close_checks", 1)
				run.Eval(1)
				run.Distinct(fmt.Sprintf("wrapper|%s|%d|%v", b.name, n, conc))
				bad := got < 1 || (b.exact && got != 1)
				if bad {
					run.Violation("wrapper-"+b.name+"-wrapped-transport-close-count",
						"%s closed %d time(s) (concurrently=%v): the wrapped transport saw %d Close call(s), want %s", b.name, n, conc, got,
						map[bool]string{true: "exactly 1", false: "at least 1"}[b.exact])
				}
				if nn != 1 {
					run.Violation("wrapper-"+b.name+"-notification-count",
						"%s closed %d time(s) (concurrently=%v): close notification ran %d time(s), want exactly 1", b.name, n, conc, nn)
				}
				spy.Conn.Close()
				other.Close()
			}
		}
	}
}
