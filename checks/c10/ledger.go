package main

import (
	"fmt"
	"sort"
	"strings"
	"sync"
	"time"

	"verif/h"
)

// scope says which part of the server's tables belongs to a case: names / groups start with pfx, domains
// contain tag, ports are the explicit ports of the case plus every port the server reported to it, sessions
// are the run ids of its actors.
type scope struct {
	e     *env
	pfx   string
	tag   string
	ports map[int]bool
	rids  map[string]string // run id -> actor id

	expTCP, expUDP map[int]bool // ports the model of the last expected() call says are in use
}

// judged: which lines exist for a port of the scope. Explicit ports belong to the case alone (both protocols, used or
// free, socket or no socket). A port the server chose is shared with the other cases as soon as it is released, so only
// "still attributed to a proxy of this case" and, while the model says it is in use, the socket are judged.
func (sc *scope) exclusive() bool { return !sc.e.auto }

// live describes what the reference model says is registered right now.
type live struct {
	s     *spec
	owner *actor
}

// expected renders the model as ledger lines.
func (sc *scope) expected(lv []live) map[string]bool {
	out := map[string]bool{}
	sessNames := map[string][]string{}
	sessPorts := map[string]int{}
	tcpGroups := map[string]int{}
	muxGroups := map[string]int{}
	httpGroups := map[string][]string{}
	usedTCP := map[int]bool{}
	usedUDP := map[int]bool{}
	for _, l := range lv {
		s := l.s
		out["name:"+s.Name] = true
		sessNames[l.owner.rid] = append(sessNames[l.owner.rid], s.Name)
		switch s.Kind {
		case "tcp":
			usedTCP[s.port()] = true
			sessPorts[l.owner.rid]++
		case "tcp-group":
			usedTCP[s.port()] = true
			sessPorts[l.owner.rid]++
			tcpGroups[s.Group]++
		case "udp":
			usedUDP[s.port()] = true
			sessPorts[l.owner.rid]++
		case "http":
			for _, d := range s.allDomains() {
				for _, loc := range s.locs() {
					out[fmt.Sprintf("httproute:%s|%s|%s", strings.ToLower(d), loc, s.RouteUser)] = true
				}
			}
		case "http-group":
			for _, d := range s.allDomains() {
				for _, loc := range s.locs() {
					out[fmt.Sprintf("httproute:%s|%s|%s", strings.ToLower(d), loc, s.RouteUser)] = true
				}
			}
			httpGroups[s.Group] = append(httpGroups[s.Group], s.Name)
		case "https":
			for _, d := range s.allDomains() {
				out[fmt.Sprintf("httpsroute:%s||", strings.ToLower(d))] = true
			}
		case "tcpmux":
			for _, d := range s.allDomains() {
				out[fmt.Sprintf("muxroute:%s||%s", strings.ToLower(d), s.RouteUser)] = true
			}
		case "tcpmux-group":
			for _, d := range s.allDomains() {
				out[fmt.Sprintf("muxroute:%s||%s", strings.ToLower(d), s.RouteUser)] = true
			}
			muxGroups[s.Group]++
		case "stcp", "sudp":
			out["visitor:"+s.Name] = true
		case "xtcp":
			out["nathole:"+s.Name] = true
		}
	}
	for rid := range sc.rids {
		if _, ok := sessNames[rid]; !ok {
			continue
		}
		n := sessNames[rid]
		sort.Strings(n)
		out[fmt.Sprintf("session:%s:%s", sc.rids[rid], strings.Join(n, ","))] = true
		if sc.e.quota > 0 {
			out[fmt.Sprintf("quota:%s=%d", sc.rids[rid], sessPorts[rid])] = true
		}
	}
	for g, n := range tcpGroups {
		out[fmt.Sprintf("tcpgroup:%s=%d", g, n)] = true
	}
	for g, n := range muxGroups {
		out[fmt.Sprintf("muxgroup:%s=%d", g, n)] = true
	}
	for g, l := range httpGroups {
		sort.Strings(l)
		out[fmt.Sprintf("httpgroup:%s=%s", g, strings.Join(l, ","))] = true
	}
	for p := range sc.ports {
		if usedTCP[p] {
			out[fmt.Sprintf("tcpused:%d", p)] = true
			out[fmt.Sprintf("oslisten:tcp:%d", p)] = true
		} else if sc.exclusive() {
			out[fmt.Sprintf("tcpfree:%d", p)] = true
		}
		if usedUDP[p] {
			out[fmt.Sprintf("udpused:%d", p)] = true
			out[fmt.Sprintf("osbound:udp:%d", p)] = true
		} else if sc.exclusive() {
			out[fmt.Sprintf("udpfree:%d", p)] = true
		}
	}
	sc.expTCP, sc.expUDP = usedTCP, usedUDP
	return out
}

// actual renders the server's own accounting (verif snapshot) and the operating system's truth.
func (sc *scope) actual() map[string]bool {
	out := map[string]bool{}
	sn := sc.e.srv.Snapshot()
	for _, n := range sn.ProxyNames {
		if strings.HasPrefix(n, sc.pfx) {
			out["name:"+n] = true
		}
	}
	for _, ss := range sn.Sessions {
		id, ok := sc.rids[ss.RunID]
		if !ok {
			continue
		}
		if len(ss.Proxies) > 0 {
			out[fmt.Sprintf("session:%s:%s", id, strings.Join(ss.Proxies, ","))] = true
		}
		if sc.e.quota > 0 && (len(ss.Proxies) > 0 || ss.PortsUsed != 0) {
			out[fmt.Sprintf("quota:%s=%d", id, ss.PortsUsed)] = true
		}
	}
	for _, r := range sn.HTTPRoutes {
		if strings.Contains(r.Domain, sc.tag) {
			out[fmt.Sprintf("httproute:%s|%s|%s", r.Domain, r.Location, r.HTTPUser)] = true
		}
	}
	for _, r := range sn.HTTPSRoutes {
		if strings.Contains(r.Domain, sc.tag) {
			out[fmt.Sprintf("httpsroute:%s|%s|%s", r.Domain, r.Location, r.HTTPUser)] = true
		}
	}
	for _, r := range sn.TCPMuxRoutes {
		if strings.Contains(r.Domain, sc.tag) {
			out[fmt.Sprintf("muxroute:%s|%s|%s", r.Domain, r.Location, r.HTTPUser)] = true
		}
	}
	for _, n := range sn.Visitors {
		if strings.HasPrefix(n, sc.pfx) {
			out["visitor:"+n] = true
		}
	}
	for _, n := range sn.NatHoleClients {
		if strings.HasPrefix(n, sc.pfx) {
			out["nathole:"+n] = true
		}
	}
	for g, n := range sn.TCPGroups {
		if strings.HasPrefix(g, sc.pfx) {
			out[fmt.Sprintf("tcpgroup:%s=%d", g, n)] = true
		}
	}
	for g, n := range sn.TCPMuxGroups {
		if strings.HasPrefix(g, sc.pfx) {
			out[fmt.Sprintf("muxgroup:%s=%d", g, n)] = true
		}
	}
	for g, l := range sn.HTTPGroups {
		if strings.HasPrefix(g, sc.pfx) {
			l = append([]string(nil), l...)
			sort.Strings(l)
			out[fmt.Sprintf("httpgroup:%s=%s", g, strings.Join(l, ","))] = true
		}
	}
	freeTCP := map[int]bool{}
	for _, p := range sn.TCPPorts.Free {
		freeTCP[p] = true
	}
	freeUDP := map[int]bool{}
	for _, p := range sn.UDPPorts.Free {
		freeUDP[p] = true
	}
	for p, n := range sn.TCPPorts.Used {
		if strings.HasPrefix(n, sc.pfx) || (sc.ports[p] && sc.exclusive()) {
			out[fmt.Sprintf("tcpused:%d", p)] = true
		}
	}
	for p, n := range sn.UDPPorts.Used {
		if strings.HasPrefix(n, sc.pfx) || (sc.ports[p] && sc.exclusive()) {
			out[fmt.Sprintf("udpused:%d", p)] = true
		}
	}
	osTCP, osUDP := osTruth()
	for p := range sc.ports {
		if sc.exclusive() {
			if freeTCP[p] {
				out[fmt.Sprintf("tcpfree:%d", p)] = true
			}
			if freeUDP[p] {
				out[fmt.Sprintf("udpfree:%d", p)] = true
			}
		}
		if osTCP[p] && (sc.exclusive() || sc.expTCP[p]) {
			out[fmt.Sprintf("oslisten:tcp:%d", p)] = true
		}
		if osUDP[p] && (sc.exclusive() || sc.expUDP[p]) {
			out[fmt.Sprintf("osbound:udp:%d", p)] = true
		}
	}
	return out
}

// osTruth reads this process's listening tcp / bound udp ports from /proc. The tables are large on a busy machine,
// so concurrent cases share one reading that is at most 100 ms old (every judgement retries until its grace ends).
var osMu sync.Mutex
var osAt time.Time
var osTCPCache, osUDPCache map[int]bool

func osTruth() (map[int]bool, map[int]bool) {
	osMu.Lock()
	defer osMu.Unlock()
	if osTCPCache == nil || time.Since(osAt) > 100*time.Millisecond {
		t, u := h.OwnListeners()
		osTCPCache, osUDPCache = map[int]bool{}, map[int]bool{}
		for _, s := range t {
			osTCPCache[s.Port] = true
		}
		for _, s := range u {
			osUDPCache[s.Port] = true
		}
		osAt = time.Now()
	}
	return osTCPCache, osUDPCache
}

// foreignPorts: ports of the scope that the server currently attributes to a proxy outside the case (only
// possible on the server that picks ports itself); the ledger cannot be judged for them.
func (sc *scope) foreignPorts() bool {
	sn := sc.e.srv.Snapshot()
	for p, n := range sn.TCPPorts.Used {
		if sc.ports[p] && !strings.HasPrefix(n, sc.pfx) {
			return true
		}
	}
	for p, n := range sn.UDPPorts.Used {
		if sc.ports[p] && !strings.HasPrefix(n, sc.pfx) {
			return true
		}
	}
	return false
}

func diffLedger(exp, act map[string]bool) (missing, extra []string) {
	for k := range exp {
		if !act[k] {
			missing = append(missing, k)
		}
	}
	for k := range act {
		if !exp[k] {
			extra = append(extra, k)
		}
	}
	sort.Strings(missing)
	sort.Strings(extra)
	return
}

func category(line string) string {
	if i := strings.IndexByte(line, ':'); i > 0 {
		c := line[:i]
		if c == "oslisten" || c == "osbound" {
			return "os-" + strings.SplitN(line, ":", 3)[1] + "-socket"
		}
		return c
	}
	return line
}

// checkLedger compares model, server accounting and OS truth at a quiescent point. Releases that are
// asynchronous by design get a bounded grace; what remains after it is reported.
func (k *kase) checkLedger(when string, lv []live) bool {
	exp := k.sc.expected(lv)
	var missing, extra []string
	ok := h.Eventually(6*time.Second, func() bool {
		missing, extra = diffLedger(exp, k.sc.actual())
		return len(missing) == 0 && len(extra) == 0
	})
	run.Count("ledgers", 1)
	run.Count("ledger_lines", int64(len(exp)))
	k.c.Ev("ledger", "when", when, "expected", sortedKeys(exp), "missing", missing, "extra", extra)
	if ok {
		return true
	}
	if k.e.auto && k.sc.foreignPorts() {
		run.Inconclusive("auto-port server gave a port of this case to another case")
		return true
	}
	if k.keyOverride != "" {
		k.c.Violation(k.key(""), "%s (%s, %s): ledger differs from the model: gone or different %v; unexpected %v", when, k.kind, k.path, missing, extra)
		return false
	}
	seen := map[string]bool{}
	// a port of a live proxy that the manager lists as free again (double release): one finding, not two
	for _, proto := range []string{"tcp", "udp"} {
		for _, x := range missing {
			if !strings.HasPrefix(x, proto+"used:") {
				continue
			}
			free := proto + "free:" + strings.TrimPrefix(x, proto+"used:")
			for i, y := range extra {
				if y == free {
					k.c.Violation(fmt.Sprintf("port-of-live-proxy-back-in-free-set-%s-%s", k.kind, k.path),
						"%s (%s, %s): the port manager lists %s of a live proxy as free (%s is gone): the next registration may be given a port that is in use", when, k.kind, k.path, free, x)
					extra = append(extra[:i:i], extra[i+1:]...)
					var m2 []string
					for _, z := range missing {
						if z != x {
							m2 = append(m2, z)
						}
					}
					missing = m2
					break
				}
			}
		}
	}
	for _, x := range extra {
		key := fmt.Sprintf("leftover-%s-%s-%s", category(x), k.kind, k.path)
		if !seen[key] {
			seen[key] = true
			k.c.Violation(key, "%s (%s, %s): the server still holds %q which the model says was released (all leftovers: %v; missing: %v)", when, k.kind, k.path, x, extra, missing)
		}
	}
	for _, x := range missing {
		key := fmt.Sprintf("lost-%s-%s-%s", category(x), k.kind, k.path)
		if !seen[key] {
			seen[key] = true
			k.c.Violation(key, "%s (%s, %s): %q of a live proxy is gone or different (all missing: %v; leftovers: %v)", when, k.kind, k.path, x, missing, extra)
		}
	}
	return false
}
